(* Facts about Core/VTime.v.

   Part A: every function of the model is a composition of a few primitive
           transitions [prim]; an invariant of [prim] therefore holds in every
           state any history can reach, whatever the fuel.
   Part B: the invariants (queue order, run order, clock, cancellation,
           conservation).
   Part C: termination (fuel) and the exact effect of start / advance_to.  *)
From RxVerif Require Import Base.Prelude Core.VTime.
From Coq Require Import Sorting.Sorted.

Local Open Scope Z_scope.

(* ================================================================== *)
(* Part A.  Primitive transitions                                       *)

Definition quiet (s : st) (e : event) : Prop :=
  match e with
  | EPop _ | ECancel _ => False
  | EClock k => k = clock s
  | ETick pid _ k =>      (* a periodic action is called only while its subscription is not disposed *)
      k = clock s /\ exists pi, nth_error (pers s) pid = Some pi /\ p_disposed pi = false
  | EPDispose pid => exists pi, nth_error (pers s) pid = Some pi /\ p_disposed pi = true
  | _ => True
  end.

Definition pop_clock_ok (s : st) (it : item) (newclk : Z) (bumped : bool) : Prop :=
  if clock s <? i_due it then newclk = i_due it /\ bumped = false
  else (bumped = false /\ newclk = clock s) \/
       (bumped = true /\ exists k, newclk = clock s + bump_of k).

Definition pop_state (s : st) (it : item) (q' : list item) (newclk : Z) (bumped : bool) : st :=
  add_log (set_clock (dequeue s q') newclk)
          (mkpop s it newclk bumped (negb (memb (i_id it) (cancelled s)))).

Inductive prim : st -> st -> Prop :=
  | P_enq s due p : prim s (enqueue s due p)
  | P_cancel s r : prim s (cancel_id s r)
  | P_enabled s b : prim s (set_enabled s b)
  | P_clock s c : clock s <= c -> prim s (set_clock s c)
  | P_per_add s pi : prim s (set_pers s (pers s ++ [pi]))
  | P_per_upd s pid pi pi' :      (* period and action are fixed; a disposed subscription stays disposed *)
      nth_error (pers s) pid = Some pi -> p_period pi' = p_period pi -> p_fn pi' = p_fn pi ->
      (p_disposed pi = true -> p_disposed pi' = true) ->
      prim s (set_pers s (set_nth pid pi' (pers s)))
  | P_log s e : quiet s e -> prim s (add_log s e)
  | P_pop s it q' newclk bumped :
      queue s = it :: q' -> pop_clock_ok s it newclk bumped ->
      prim s (pop_state s it q' newclk bumped).

Inductive steps (s : st) : st -> Prop :=
  | steps_refl : steps s s
  | steps_snoc s' s'' : steps s s' -> prim s' s'' -> steps s s''.

Lemma steps_one s s' : prim s s' -> steps s s'.
Proof. intro H. eapply steps_snoc; [apply steps_refl | exact H]. Qed.

Lemma steps_trans s s' s'' : steps s s' -> steps s' s'' -> steps s s''.
Proof. intros H1 H2. induction H2; [assumption|]. eapply steps_snoc; eauto. Qed.

Lemma steps_inv (I : st -> Prop) :
  (forall s s', I s -> prim s s' -> I s') ->
  forall s s', steps s s' -> I s -> I s'.
Proof. intros HP s s' H. induction H; intros; eauto. Qed.

Local Hint Resolve steps_refl steps_one : vt.
Local Hint Constructors prim : vt.

Definition bstate (r : bres) : st := match r with BOk s | BRaise _ s => s end.
Definition ostate (o : outcome) : st :=
  match o with Finished s | Raised _ s | Deadlock s | OutOfFuel s => s end.

Lemma add_log_steps s e : quiet s e -> steps s (add_log s e).
Proof. auto with vt. Qed.

Lemma steps_log s s' e : steps s s' -> quiet s' e -> steps s (add_log s' e).
Proof. intros H Q. eapply steps_snoc; [exact H | apply P_log; exact Q]. Qed.

Lemma steps_clock s s' c : steps s s' -> clock s' <= c -> steps s (set_clock s' c).
Proof. intros H Q. eapply steps_snoc; [exact H | apply P_clock; exact Q]. Qed.

Lemma add_notes_steps ns : forall s, steps s (add_notes s ns).
Proof.
  induction ns as [|n t IH]; intro s; simpl; [apply steps_refl|].
  apply steps_trans with (add_log s (ENote n)); [apply add_log_steps; exact I | apply IH].
Qed.

Lemma nth_error_set_nth {A} (x y : A) : forall l n, nth_error l n = Some y -> nth_error (set_nth n x l) n = Some x.
Proof.
  induction l as [|z t IH]; intros [|n] H; simpl in *; try discriminate; auto.
Qed.

Lemma add_notes_pers ns : forall s, pers (add_notes s ns) = pers s /\ clock (add_notes s ns) = clock s.
Proof. induction ns as [|n t IH]; intro s; simpl; [split; reflexivity|]. apply (IH (add_log s (ENote n))). Qed.

Lemma dispose_per_steps s pid : steps s (dispose_per s pid).
Proof.
  unfold dispose_per. destruct (nth_error (pers s) pid) as [pi|] eqn:Hn; [|apply steps_refl].
  destruct (p_disposed pi); [apply steps_refl|].
  eapply steps_snoc; [|apply P_cancel].
  apply steps_log.
  - apply steps_one. eapply P_per_upd; eauto.
  - simpl. eexists. split; [eapply nth_error_set_nth; eassumption | reflexivity].
Qed.

Lemma exec_cmd_steps s c : steps s (bstate (exec_cmd s c)).
Proof.
  destruct c; simpl; auto with vt.
  - destruct (d <? 0) eqn:E; simpl.
    + apply add_log_steps; exact I.
    + apply steps_one, P_clock. apply Z.ltb_ge in E. lia.
  - apply add_log_steps; exact I.
  - assert (steps s (add_log (add_log s (ERaise e)) (EHandler e))).
    { apply steps_log; [apply steps_log; [apply steps_refl | exact I] | exact I]. }
    destruct v; assumption.
  - apply add_log_steps; exact I.
  - eapply steps_snoc; [apply steps_one, P_per_add | apply P_enq].
  - apply dispose_per_steps.
Qed.

Lemma exec_body_steps b : forall s, steps s (bstate (exec_body s b)).
Proof.
  induction b as [|c t IH]; intro s; simpl; [apply steps_refl|].
  pose proof (exec_cmd_steps s c) as H.
  destruct (exec_cmd s c) as [s'|e s']; simpl in *; [|assumption].
  eapply steps_trans; [exact H | apply IH].
Qed.

Lemma resched_disposed_steps s pid p : steps s (bstate (resched_disposed s pid p)).
Proof.
  unfold resched_disposed; simpl.
  eapply steps_snoc; [|apply P_cancel].
  eapply steps_snoc; [apply dispose_per_steps | apply P_enq].
Qed.

Lemma invoke_steps s p : steps s (bstate (invoke s p)).
Proof.
  destruct p as [l b|pid stt]; simpl; [apply exec_body_steps|].
  destruct (nth_error (pers s) pid) as [pi|] eqn:Hn; [|apply steps_refl].
  destruct (p_disposed pi) eqn:Hd; [apply steps_refl|].
  assert (H1 : steps s (add_log s (ETick pid stt (clock s)))).
  { apply add_log_steps. simpl. split; [reflexivity|]. exists pi. split; assumption. }
  destruct (plookup (p_fn pi) stt) as [ns sl st'|ns|ns e|ns e v]; simpl.
  - eapply steps_snoc; [|apply P_enq].
    set (s2 := add_notes (add_log s (ETick pid stt (clock s))) ns).
    apply steps_snoc with (s' := set_clock s2 (clock s2 + Z.of_N sl)).
    + apply steps_clock; [eapply steps_trans; [exact H1 | apply add_notes_steps] | lia].
    + eapply (P_per_upd (set_clock s2 (clock s2 + Z.of_N sl)) pid pi); simpl; auto; try (intro; congruence).
      unfold s2. destruct (add_notes_pers ns (add_log s (ETick pid stt (clock s)))) as [-> _]. exact Hn.
  - eapply steps_trans; [|apply resched_disposed_steps].
    eapply steps_trans; [exact H1 | apply add_notes_steps].
  - eapply steps_trans; [|apply dispose_per_steps].
    apply steps_log; [|exact I].
    eapply steps_trans; [exact H1 | apply add_notes_steps].
  - assert (H2 : steps s (add_log (add_log (add_notes (add_log s (ETick pid stt (clock s))) ns) (ERaise e)) (EHandler e))).
    { apply steps_log; [apply steps_log|]; try exact I.
      eapply steps_trans; [exact H1 | apply add_notes_steps]. }
    destruct v; simpl.
    + eapply steps_trans; [exact H2 | apply resched_disposed_steps].
    + eapply steps_trans; [exact H2 | apply dispose_per_steps].
Qed.

Lemma run_item_steps s it q' newclk bumped :
  queue s = it :: q' -> pop_clock_ok s it newclk bumped ->
  steps s (bstate (run_item s it q' newclk bumped)).
Proof.
  intros Hq Hc. unfold run_item.
  assert (H : steps s (pop_state s it q' newclk bumped)) by (apply steps_one, P_pop; assumption).
  unfold pop_state in H.
  destruct (negb (memb (i_id it) (cancelled s))); simpl; [|exact H].
  eapply steps_trans; [exact H | apply invoke_steps].
Qed.

Lemma start_loop_steps c fuel : forall s sp, steps s (ostate (start_loop c fuel s sp)).
Proof.
  induction fuel as [|fuel IH]; intros s sp; simpl.
  - destruct (negb (enabled s)); simpl; auto with vt.
    destruct (queue s); simpl; auto with vt.
  - destruct (negb (enabled s)); simpl; auto with vt.
    destruct (queue s) as [|it q'] eqn:Hq; simpl; auto with vt.
    assert (Hstep : forall newclk bumped sp',
      pop_clock_ok s it newclk bumped ->
      steps s (ostate match run_item s it q' newclk bumped with
                      | BOk s' => start_loop c fuel s' sp'
                      | BRaise e s' => Raised e s' end)).
    { intros newclk bumped sp' Hc.
      pose proof (run_item_steps s it q' newclk bumped Hq Hc) as H.
      destruct (run_item s it q' newclk bumped) as [s'|e s']; simpl in *; [|exact H].
      eapply steps_trans; [exact H | apply IH]. }
    destruct (clock s <? i_due it) eqn:E1.
    + apply Hstep. unfold pop_clock_ok. rewrite E1. auto.
    + destruct (MAX_SPINNING <? sp)%nat.
      * destruct (c_kind c).
        -- apply Hstep. unfold pop_clock_ok. rewrite E1. right. split; [reflexivity|]. exists Numeric. reflexivity.
        -- destruct (c_prop_bump c); simpl; auto with vt.
           apply Hstep. unfold pop_clock_ok. rewrite E1. right. split; [reflexivity|]. exists Datetime. reflexivity.
      * apply Hstep. unfold pop_clock_ok. rewrite E1. left. auto.
Qed.

Lemma start_steps c fuel s : steps s (ostate (start c fuel s)).
Proof.
  unfold start. destruct (enabled s); simpl; [apply steps_refl|].
  eapply steps_trans; [apply steps_one, P_enabled | apply start_loop_steps].
Qed.

Lemma finish_adv_steps s t : steps s (ostate (finish_adv s t)).
Proof.
  unfold finish_adv; simpl. destruct (clock s <? t) eqn:E.
  - eapply steps_snoc; [apply steps_one, P_clock | apply P_enabled]. apply Z.ltb_lt in E. lia.
  - apply steps_one, P_enabled.
Qed.

Lemma advance_loop_steps fuel t : forall s, steps s (ostate (advance_loop fuel s t)).
Proof.
  induction fuel as [|fuel IH]; intros s; simpl.
  - destruct (negb (enabled s)); [apply finish_adv_steps|].
    destruct (queue s) as [|it q']; [apply finish_adv_steps|].
    destruct (t <? i_due it); [apply finish_adv_steps | apply steps_refl].
  - destruct (negb (enabled s)); [apply finish_adv_steps|].
    destruct (queue s) as [|it q'] eqn:Hq; [apply finish_adv_steps|].
    destruct (t <? i_due it); [apply finish_adv_steps|].
    assert (Hc : pop_clock_ok s it (if clock s <? i_due it then i_due it else clock s) false).
    { unfold pop_clock_ok. destruct (clock s <? i_due it); auto. }
    pose proof (run_item_steps s it q' _ false Hq Hc) as H.
    destruct (run_item s it q' _ false) as [s'|e s']; simpl in *; [|exact H].
    eapply steps_trans; [exact H | apply IH].
Qed.

Lemma advance_to_steps fuel s t : steps s (ostate (advance_to fuel s t)).
Proof.
  unfold advance_to. destruct (t <? clock s); simpl; [apply steps_refl|].
  destruct ((clock s =? t) || enabled s); simpl; [apply steps_refl|].
  eapply steps_trans; [apply steps_one, P_enabled | apply advance_loop_steps].
Qed.

Lemma step_t_steps c fuel s cmd : steps s (ostate (step_t c fuel s cmd)).
Proof.
  destruct cmd; simpl.
  - pose proof (exec_cmd_steps s c0). destruct (exec_cmd s c0); assumption.
  - apply start_steps.
  - eapply steps_trans; [|apply start_steps]. unfold silent.
    eapply steps_snoc; [eapply steps_snoc; [apply steps_one|]|]; apply P_enq.
  - apply advance_to_steps.
  - apply advance_to_steps.
Qed.

Theorem run_steps c fuel cs : forall s, steps s (state_of (run c fuel s cs)).
Proof.
  induction cs as [|cmd t IH]; intro s; simpl; [apply steps_refl|].
  pose proof (step_t_steps c fuel s cmd) as H.
  destruct (step_t c fuel s cmd) as [s'|e s'|s'|s']; simpl in *; try exact H.
  - eapply steps_trans; [|apply IH]. apply steps_log; [exact H | reflexivity].
  - eapply steps_trans; [|apply IH].
    apply steps_log; [apply steps_log; [exact H | exact I] | reflexivity].
Qed.

(* every state a history can produce satisfies every invariant of [prim] *)
Theorem run_invariant (I : st -> Prop) :
  (forall s s', I s -> prim s s' -> I s') ->
  forall c fuel s cs, I s -> I (state_of (run c fuel s cs)).
Proof. intros HP c fuel s cs. apply (steps_inv I HP). apply run_steps. Qed.

(* ================================================================== *)
(* Part B.  Invariants                                                  *)

(* field lemmas for cancel_id (the only primitive defined with an [if]) *)
Lemma cancel_id_fields s r :
  clock (cancel_id s r) = clock s /\ queue (cancel_id s r) = queue s /\ count (cancel_id s r) = count s /\
  enabled (cancel_id s r) = enabled s /\ next_id (cancel_id s r) = next_id s /\
  pers (cancel_id s r) = pers s /\ npops (cancel_id s r) = npops s.
Proof. unfold cancel_id. destruct (r <? next_id s)%nat; simpl; repeat split. Qed.

Fixpoint pops (l : list event) : list poprec :=
  match l with
  | [] => []
  | EPop r :: t => r :: pops t
  | _ :: t => pops t
  end.

Lemma cancel_id_pops s r : pops (log (cancel_id s r)) = pops (log s).
Proof. unfold cancel_id. destruct (r <? next_id s)%nat; reflexivity. Qed.

Lemma quiet_pops s e l : quiet s e -> pops (e :: l) = pops l.
Proof. destruct e; simpl; intros; tauto || reflexivity. Qed.

Lemma add_log_pops s e : quiet s e -> pops (log (add_log s e)) = pops (log s).
Proof. intro H. simpl. apply (quiet_pops s e _ H). Qed.

(* ---- B1: the queue is sorted by (due time, scheduling order) -------- *)

(* logical order: due time, then the order of the schedule calls *)
Definition klt (x y : item) : Prop :=
  i_due x < i_due y \/ (i_due x = i_due y /\ (i_id x < i_id y)%nat).

Lemma klt_trans x y z : klt x y -> klt y z -> klt x z.
Proof. unfold klt. intros [H|[H H']] [G|[G G']]; lia. Qed.

Lemma In_insert x q : forall z, In z (insert x q) <-> z = x \/ In z q.
Proof.
  induction q as [|y t IH]; intro z; simpl.
  - intuition.
  - destruct (key_lt x y); simpl; [intuition|]. rewrite IH. intuition.
Qed.

(* PriorityQueue.enqueue of an entry whose count and id are larger than all
   those present (count only grows while the queue is non-empty) keeps the
   (due, id) order: the tuple comparison of heapq realises exactly FIFO among
   equal due times. *)
Lemma insert_sorted x : forall q,
  Forall (fun y => i_cnt y < i_cnt x /\ (i_id y < i_id x)%nat) q ->
  StronglySorted klt q -> StronglySorted klt (insert x q).
Proof.
  induction q as [|y t IH]; intros HF HS; simpl.
  - constructor; constructor.
  - inversion HF as [|? ? [Hc Hi] HF']; subst. inversion HS as [|? ? HS' Hy]; subst.
    unfold key_lt. destruct (i_due x =? i_due y) eqn:E1.
    + apply Z.eqb_eq in E1. assert (E2 : i_cnt x <? i_cnt y = false) by (apply Z.ltb_ge; lia).
      rewrite E2. constructor; [apply IH; assumption|].
      apply Forall_forall. intros z Hz. apply In_insert in Hz. destruct Hz as [->|Hz].
      * right. split; [lia | assumption].
      * rewrite Forall_forall in Hy. auto.
    + apply Z.eqb_neq in E1. destruct (i_due x <? i_due y) eqn:E2.
      * apply Z.ltb_lt in E2. constructor; [assumption|].
        constructor; [left; assumption|].
        apply Forall_forall. intros z Hz. rewrite Forall_forall in Hy.
        apply klt_trans with y; [left; assumption | auto].
      * apply Z.ltb_ge in E2. constructor; [apply IH; assumption|].
        apply Forall_forall. intros z Hz. apply In_insert in Hz. destruct Hz as [->|Hz].
        -- left. lia.
        -- rewrite Forall_forall in Hy. auto.
Qed.

Definition item_ok (s : st) (y : item) : Prop :=
  i_cnt y < count s /\ (i_id y < next_id s)%nat /\ (i_born y <= npops s)%nat /\ i_sclk y <= clock s.

Definition Inv1 (s : st) : Prop :=
  StronglySorted klt (queue s) /\ Forall (item_ok s) (queue s).

Lemma pop_clock_ge s it newclk bumped : pop_clock_ok s it newclk bumped -> clock s <= newclk.
Proof.
  unfold pop_clock_ok. destruct (clock s <? i_due it) eqn:E.
  - apply Z.ltb_lt in E. intros [-> _]. lia.
  - intros [[_ ->]|[_ [k ->]]]; [lia|]. destruct k; simpl; lia.
Qed.

Lemma pop_clock_due s it newclk bumped : pop_clock_ok s it newclk bumped -> i_due it <= newclk.
Proof.
  unfold pop_clock_ok. destruct (clock s <? i_due it) eqn:E.
  - intros [-> _]. lia.
  - apply Z.ltb_ge in E. intros [[_ ->]|[_ [k ->]]]; [lia|]. destruct k; simpl; lia.
Qed.

Lemma inv1_init c0 : Inv1 (init c0).
Proof. split; simpl; constructor. Qed.

Lemma inv1_prim s s' : Inv1 s -> prim s s' -> Inv1 s'.
Proof.
  intros [HS HF] HP. inversion HP; subst; clear HP.
  - (* enqueue *) split; simpl.
    + apply insert_sorted; [|assumption]. simpl.
      eapply Forall_impl; [|exact HF]. intros y (A & B & _). split; assumption.
    + apply Forall_forall. intros z Hz. apply In_insert in Hz. destruct Hz as [->|Hz].
      * unfold item_ok; simpl. repeat split; lia.
      * rewrite Forall_forall in HF. destruct (HF z Hz) as (A & B & C & D).
        unfold item_ok; simpl. repeat split; lia.
  - destruct (cancel_id_fields s r) as (A & B & C & D & E & F & G).
    unfold Inv1, item_ok. rewrite A, B, C, E, G. split; assumption.
  - split; assumption.
  - split; [assumption|]. simpl. eapply Forall_impl; [|exact HF].
    unfold item_ok; simpl. intros y (A & B & C & D). repeat split; lia.
  - split; assumption.
  - split; assumption.
  - split; assumption.
  - rewrite H in HS, HF. inversion HS; subst. inversion HF; subst.
    pose proof (pop_clock_ge _ _ _ _ H0) as Hge.
    split; simpl; [assumption|].
    apply Forall_forall. intros z Hz. rewrite Forall_forall in H6. destruct (H6 z Hz) as (A & B & C & D).
    unfold item_ok; simpl. destruct q' as [|y q'']; [destruct Hz|]. repeat split; lia.
Qed.

(* ---- B2: run order --------------------------------------------------- *)

Definition rlt (a : poprec) (b : item) : Prop :=
  r_due a < i_due b \/ (r_due a = i_due b /\ (r_id a < i_id b)%nat).
Definition plt (a b : poprec) : Prop :=
  r_due a < r_due b \/ (r_due a = r_due b /\ (r_id a < r_id b)%nat).

(* [b] was already in the queue when [a] was dequeued *)
Definition queued_at_pop_of (b a : poprec) : Prop := (r_born b <= r_idx a)%nat.

Definition Inv2 (s : st) : Prop :=
  Forall (fun a => (r_idx a < npops s)%nat) (pops (log s)) /\
  Forall (fun a => Forall (fun b => (i_born b <= r_idx a)%nat -> rlt a b) (queue s)) (pops (log s)) /\
  ForallOrdPairs (fun b a => queued_at_pop_of b a -> plt a b) (pops (log s)).

Lemma inv2_init c0 : Inv2 (init c0).
Proof. repeat split; simpl; constructor. Qed.

Lemma inv2_prim s s' : Inv1 s -> Inv2 s -> prim s s' -> Inv2 s'.
Proof.
  intros [HS HF] (H1 & H2 & H3) HP. inversion HP; subst; clear HP.
  - (* enqueue *) repeat split; simpl; try assumption.
    rewrite Forall_forall in *. intros a Ha. apply Forall_forall. intros b Hb.
    apply In_insert in Hb. destruct Hb as [->|Hb]; simpl.
    + specialize (H1 a Ha). intro. lia.
    + specialize (H2 a Ha). rewrite Forall_forall in H2. auto.
  - destruct (cancel_id_fields s r) as (A & B & C & D & E & F & G).
    unfold Inv2. rewrite cancel_id_pops, B, G. repeat split; assumption.
  - repeat split; assumption.
  - repeat split; assumption.
  - repeat split; assumption.
  - repeat split; assumption.
  - unfold Inv2. rewrite (add_log_pops s e H). repeat split; assumption.
  - (* pop *) rewrite H in *. inversion HS as [|? ? HS' Hhd]; subst. inversion HF as [|? ? Hit HF']; subst.
    unfold Inv2; simpl. repeat split.
    + constructor; simpl; [lia|]. eapply Forall_impl; [|exact H1]. simpl; intros; lia.
    + constructor; simpl.
      * apply Forall_forall. intros b Hb _. rewrite Forall_forall in Hhd. exact (Hhd b Hb).
      * eapply Forall_impl; [|exact H2]. simpl. intros a Ha. inversion Ha; assumption.
    + constructor; [|assumption].
      eapply Forall_impl; [|exact H2]. simpl. intros a Ha. inversion Ha; subst.
      unfold queued_at_pop_of; simpl. exact H6.
Qed.

(* ---- B3: support for "due times are non-decreasing" ------------------ *)

Definition Inv3 (s : st) : Prop :=
  Forall (fun a => r_due a <= r_clk a /\ r_clk a <= clock s /\ (r_id a < next_id s)%nat) (pops (log s)) /\
  Forall (fun a => Forall (fun b => (r_idx a < i_born b)%nat ->
                                    r_clk a <= i_sclk b /\ (r_id a < i_id b)%nat) (queue s)) (pops (log s)) /\
  ForallOrdPairs (fun b a => (r_idx a < r_born b)%nat ->
                             r_clk a <= r_sclk b /\ (r_id a < r_id b)%nat) (pops (log s)).

Lemma inv3_init c0 : Inv3 (init c0).
Proof. repeat split; simpl; constructor. Qed.

Lemma inv3_prim s s' : Inv1 s -> Inv3 s -> prim s s' -> Inv3 s'.
Proof.
  intros [HS HF] (H1 & H2 & H3) HP. inversion HP; subst; clear HP.
  - (* enqueue *) repeat split; simpl; try assumption.
    + eapply Forall_impl; [|exact H1]. simpl. intros a (A & B & C). repeat split; lia.
    + rewrite Forall_forall in *. intros a Ha. apply Forall_forall. intros b Hb.
      apply In_insert in Hb. destruct Hb as [->|Hb]; simpl.
      * destruct (H1 a Ha) as (A & B & C). intro. split; lia.
      * specialize (H2 a Ha). rewrite Forall_forall in H2. auto.
  - destruct (cancel_id_fields s r) as (A & B & C & D & E & F & G).
    unfold Inv3. rewrite cancel_id_pops, A, B, E. repeat split; assumption.
  - repeat split; assumption.
  - repeat split; simpl; try assumption.
    eapply Forall_impl; [|exact H1]. simpl. intros a (A & B & C). repeat split; lia.
  - repeat split; assumption.
  - repeat split; assumption.
  - unfold Inv3. rewrite (add_log_pops s e H). repeat split; assumption.
  - (* pop *) rewrite H in *. inversion HS as [|? ? HS' Hhd]; subst. inversion HF as [|? ? Hit HF']; subst.
    pose proof (pop_clock_ge _ _ _ _ H0) as Hge. pose proof (pop_clock_due _ _ _ _ H0) as Hdue.
    destruct Hit as (I1 & I2 & I3 & I4).
    unfold Inv3; simpl. repeat split.
    + constructor; simpl; [repeat split; lia|].
      eapply Forall_impl; [|exact H1]. simpl. intros a (A & B & C). repeat split; lia.
    + constructor; simpl.
      * apply Forall_forall. intros b Hb Hlt. rewrite Forall_forall in HF'.
        destruct (HF' b Hb) as (_ & _ & Hborn & _). lia.
      * eapply Forall_impl; [|exact H2]. simpl. intros a Ha. inversion Ha; assumption.
    + constructor; [|assumption].
      eapply Forall_impl; [|exact H2]. simpl. intros a Ha. inversion Ha; subst. exact H6.
Qed.

(* ---- B4: the clock when an action runs ------------------------------- *)

(* clock at invocation = max(clock before, due), unless the spin bump of
   start() occurred at this dequeue (then due <= clock before and the clock is
   clock before + 1 s / + 1 ms) *)
Definition rec_ok (r : poprec) : Prop :=
  if r_before r <? r_due r then r_clk r = r_due r /\ r_bumped r = false
  else (r_bumped r = false /\ r_clk r = r_before r) \/
       (r_bumped r = true /\ exists k, r_clk r = r_before r + bump_of k).

Definition Inv4 (s : st) : Prop := Forall rec_ok (pops (log s)).

Lemma inv4_prim s s' : Inv4 s -> prim s s' -> Inv4 s'.
Proof.
  unfold Inv4. intros H HP. inversion HP; subst; clear HP; try assumption.
  - rewrite cancel_id_pops. assumption.
  - rewrite (add_log_pops s e H0). assumption.
  - simpl. constructor; [|assumption]. unfold rec_ok; simpl. exact H1.
Qed.

(* ---- B5: the clock never moves backwards ----------------------------- *)

(* [mono c l]: reading the log [l] (newest first) backwards from a clock value
   [c], every clock reading is <= the one that follows it in time *)
Fixpoint mono (c : Z) (l : list event) : Prop :=
  match l with
  | [] => True
  | EPop r :: t => r_clk r <= c /\ r_before r <= r_clk r /\ mono (r_before r) t
  | ETick _ _ k :: t => k <= c /\ mono k t
  | EClock k :: t => k <= c /\ mono k t
  | _ :: t => mono c t
  end.

Lemma mono_weaken l : forall c c', c <= c' -> mono c l -> mono c' l.
Proof.
  induction l as [|e t IH]; intros c c' Hle H; simpl in *; [exact I|].
  destruct e; try (eapply IH; eassumption); intuition lia.
Qed.

Definition Inv5 (s : st) : Prop := mono (clock s) (log s).

Lemma inv5_prim s s' : Inv5 s -> prim s s' -> Inv5 s'.
Proof.
  unfold Inv5. intros H HP. inversion HP; subst; clear HP; simpl; try assumption.
  - unfold cancel_id. destruct (r <? next_id s)%nat; simpl; assumption.
  - eapply mono_weaken; eassumption.
  - destruct e; simpl in *; try assumption; try tauto.
    + destruct H0 as [-> _]. split; [lia | assumption].
    + subst. split; [lia | assumption].
  - pose proof (pop_clock_ge _ _ _ _ H1). repeat split; try lia. assumption.
Qed.

(* all clock readings of a log, newest first *)
Fixpoint readings (l : list event) : list Z :=
  match l with
  | [] => []
  | EPop r :: t => r_clk r :: r_before r :: readings t
  | ETick _ _ k :: t => k :: readings t
  | EClock k :: t => k :: readings t
  | _ :: t => readings t
  end.

Lemma mono_readings l : forall c, mono c l -> Forall (fun k => k <= c) (readings l) /\
                                              StronglySorted Z.ge (readings l).
Proof.
  induction l as [|e t IH]; intros c H; simpl in *; [split; constructor|].
  destruct e; simpl; try (apply IH; assumption).
  - destruct H as (A & B & C). destruct (IH _ C) as [F S]. split.
    + constructor; [assumption|]. constructor; [lia|]. eapply Forall_impl; [|exact F]. simpl; intros; lia.
    + constructor; [constructor; [assumption|]|].
      * eapply Forall_impl; [|exact F]. simpl; intros; lia.
      * constructor; [lia|]. eapply Forall_impl; [|exact F]. simpl; intros; lia.
  - destruct H as (A & C). destruct (IH _ C) as [F S]. split.
    + constructor; [assumption|]. eapply Forall_impl; [|exact F]. simpl; intros; lia.
    + constructor; [assumption|]. eapply Forall_impl; [|exact F]. simpl; intros; lia.
  - destruct H as (A & C). destruct (IH _ C) as [F S]. split.
    + constructor; [assumption|]. eapply Forall_impl; [|exact F]. simpl; intros; lia.
    + constructor; [assumption|]. eapply Forall_impl; [|exact F]. simpl; intros; lia.
Qed.

(* ---- B6: cancelled actions never run --------------------------------- *)

(* no action is run after its disposable was disposed (log newest first) *)
Fixpoint no_run_after_cancel (l : list event) : Prop :=
  match l with
  | [] => True
  | e :: older =>
      match e with
      | EPop r => r_ran r = true -> ~ In (ECancel (r_id r)) older
      | _ => True
      end /\ no_run_after_cancel older
  end.

Definition Inv6 (s : st) : Prop :=
  (forall id, In (ECancel id) (log s) -> In id (cancelled s)) /\ no_run_after_cancel (log s).

Lemma memb_false n l : memb n l = false -> ~ In n l.
Proof.
  unfold memb. intros H Hin. assert (existsb (Nat.eqb n) l = true).
  { apply existsb_exists. exists n. split; [assumption | apply Nat.eqb_refl]. }
  congruence.
Qed.

Lemma inv6_prim s s' : Inv6 s -> prim s s' -> Inv6 s'.
Proof.
  intros [H1 H2] HP. inversion HP; subst; clear HP; try (split; assumption).
  - unfold cancel_id. destruct (r <? next_id s)%nat; [|split; assumption]. split; simpl.
    + intros id [E|Hin]; [inversion E; auto | right; auto].
    + split; [exact I | assumption].
  - split; simpl.
    + intros id [E|Hin]; [subst e; destruct H | auto].
    + split; [|assumption]. destruct e; try exact I. destruct H.
  - split; simpl.
    + intros id [E|Hin]; [discriminate | auto].
    + split; [|assumption]. intros Hran Hin. apply H1 in Hin.
      apply Bool.negb_true_iff in Hran. apply memb_false in Hran. contradiction.
Qed.

(* ---- B7: conservation: every scheduled action is dequeued at most once,
        and is either still queued or has been dequeued ------------------ *)
From Coq Require Import Sorting.Permutation.

Definition ids (s : st) : list nat := map i_id (queue s) ++ map r_id (pops (log s)).

Definition Inv7 (s : st) : Prop :=
  NoDup (ids s) /\ forall id, In id (ids s) <-> (id < next_id s)%nat.

Lemma insert_perm x q : Permutation (insert x q) (x :: q).
Proof.
  induction q as [|y t IH]; simpl; [apply Permutation_refl|].
  destruct (key_lt x y); [apply Permutation_refl|].
  eapply Permutation_trans; [apply perm_skip, IH | apply perm_swap].
Qed.

Lemma inv7_prim s s' : Inv7 s -> prim s s' -> Inv7 s'.
Proof.
  intros [H1 H2] HP. inversion HP; subst; clear HP; try (split; assumption).
  - assert (P : Permutation (ids (enqueue s due p)) (next_id s :: ids s)).
    { unfold ids; simpl.
      change (next_id s :: map i_id (queue s) ++ map r_id (pops (log s)))
        with (map i_id (Item due (count s) (next_id s) (npops s) (clock s) p :: queue s)
              ++ map r_id (pops (log s))).
      apply Permutation_app_tail, Permutation_map, insert_perm. }
    split.
    + eapply Permutation_NoDup; [apply Permutation_sym, P|]. constructor; [|assumption].
      intro Hin. apply H2 in Hin. lia.
    + intro id. simpl. split.
      * intro Hin. eapply Permutation_in in Hin; [|exact P]. destruct Hin as [<-|Hin]; [lia|].
        apply H2 in Hin. lia.
      * intro Hlt. eapply Permutation_in; [apply Permutation_sym, P|].
        destruct (Nat.eq_dec id (next_id s)) as [->|Hne]; [left; reflexivity|].
        right. apply H2. lia.
  - destruct (cancel_id_fields s r) as (A & B & C & D & E & F & G).
    unfold Inv7, ids. rewrite cancel_id_pops, B, E. split; assumption.
  - unfold Inv7, ids. rewrite (add_log_pops s e H). split; assumption.
  - assert (P : Permutation (ids s) (ids (pop_state s it q' newclk bumped))).
    { unfold ids; simpl. rewrite H; simpl. apply Permutation_middle. }
    split.
    + eapply Permutation_NoDup; [exact P | assumption].
    + intro id. simpl. rewrite <- H2. split; intro Hin.
      * eapply Permutation_in; [apply Permutation_sym, P | assumption].
      * eapply Permutation_in; [exact P | assumption].
Qed.

(* ---- all invariants together ----------------------------------------- *)

Definition Inv (s : st) : Prop :=
  Inv1 s /\ Inv2 s /\ Inv3 s /\ Inv4 s /\ Inv5 s /\ Inv6 s /\ Inv7 s.

Lemma inv_init c0 : Inv (init c0).
Proof.
  repeat split; simpl; try constructor; try tauto; try lia.
Qed.

Lemma inv_prim s s' : Inv s -> prim s s' -> Inv s'.
Proof.
  intros (H1 & H2 & H3 & H4 & H5 & H6 & H7) HP. repeat split.
  - apply (inv1_prim s s' H1 HP).
  - apply (inv1_prim s s' H1 HP).
  - apply (inv2_prim s s' H1 H2 HP).
  - apply (inv2_prim s s' H1 H2 HP).
  - apply (inv2_prim s s' H1 H2 HP).
  - apply (inv3_prim s s' H1 H3 HP).
  - apply (inv3_prim s s' H1 H3 HP).
  - apply (inv3_prim s s' H1 H3 HP).
  - apply (inv4_prim s s' H4 HP).
  - apply (inv5_prim s s' H5 HP).
  - apply (inv6_prim s s' H6 HP).
  - apply (inv6_prim s s' H6 HP).
  - apply (inv7_prim s s' H7 HP).
  - apply (inv7_prim s s' H7 HP).
  - apply (inv7_prim s s' H7 HP).
Qed.

Theorem inv_run c fuel c0 cs : Inv (state_of (run c fuel (init c0) cs)).
Proof. apply (run_invariant Inv inv_prim). apply inv_init. Qed.

Lemma inv_steps s s' : steps s s' -> Inv s -> Inv s'.
Proof. apply (steps_inv Inv inv_prim). Qed.

(* [r_idx] really is the number of items dequeued before *)
Fixpoint desc (n : nat) : list nat := match n with O => [] | S k => k :: desc k end.

Definition Inv8 (s : st) : Prop := map r_idx (pops (log s)) = desc (npops s).

Lemma inv8_prim s s' : Inv8 s -> prim s s' -> Inv8 s'.
Proof.
  unfold Inv8. intros H HP. inversion HP; subst; clear HP; try assumption.
  - destruct (cancel_id_fields s r) as (A & B & C & D & E & F & G). rewrite cancel_id_pops, G. assumption.
  - rewrite (add_log_pops s e H0). assumption.
  - simpl. rewrite H. reflexivity.
Qed.

Theorem inv8_run c fuel c0 cs : Inv8 (state_of (run c fuel (init c0) cs)).
Proof. apply (run_invariant Inv8 inv8_prim). reflexivity. Qed.

(* ------------------------------------------------------------------ *)
(* Consequences for whole histories                                     *)

Lemma FOP_combine {A} (R1 R2 R : A -> A -> Prop) (Q : A -> Prop) l :
  ForallOrdPairs R1 l -> ForallOrdPairs R2 l -> Forall Q l ->
  (forall b a, R1 b a -> R2 b a -> Q a -> Q b -> R b a) -> ForallOrdPairs R l.
Proof.
  intros H1 H2 HQ HR. induction l as [|x t IH]; [constructor|].
  inversion H1; subst. inversion H2; subst. inversion HQ; subst.
  constructor; [|apply IH; assumption].
  rewrite Forall_forall in *. intros a Ha. apply HR; auto.
Qed.

Lemma FOP_filter {A} (R : A -> A -> Prop) (f : A -> bool) l :
  ForallOrdPairs R l -> ForallOrdPairs R (filter f l).
Proof.
  induction 1 as [|x t Hx Ht IH]; simpl; [constructor|].
  destruct (f x); [|assumption]. constructor; [|assumption].
  rewrite Forall_forall in *. intros a Ha. apply filter_In in Ha. apply Hx. tauto.
Qed.

(* if nothing is ever scheduled in the past, the dequeue order is the
   (due time, scheduling order) order: due times non-decreasing, FIFO among equals *)
Lemma sorted_if_no_past s :
  Inv s -> Forall (fun a => r_sclk a <= r_due a) (pops (log s)) ->
  ForallOrdPairs (fun b a => plt a b) (pops (log s)).
Proof.
  intros (_ & (_ & _ & H2) & (H31 & _ & H33) & _) HF.
  apply (FOP_combine _ _ _ (fun a => r_sclk a <= r_due a /\ r_due a <= r_clk a) _ H2 H33).
  - rewrite Forall_forall in *. intros a Ha. split; [auto | apply H31; assumption].
  - intros b a R1 R2 [Qa1 Qa2] [Qb1 Qb2]. unfold queued_at_pop_of in R1.
    destruct (Nat.le_gt_cases (r_born b) (r_idx a)) as [Hle|Hgt]; [auto|].
    destruct (R2 Hgt) as [Hc Hid]. unfold plt. lia.
Qed.

(* ================================================================== *)
(* Part C.  Termination and the exact effect of start / advance_to      *)

(* hereditarily: no periodic work *)
Fixpoint noper_cmd (c : scmd) : bool :=
  match c with
  | SSched _ _ b => forallb noper_cmd b
  | SPeriodic _ _ _ => false
  | _ => true
  end.
Definition noper_pay (p : payload) : bool :=
  match p with PAct _ b => forallb noper_cmd b | PPer _ _ => false end.
Definition noper_t (c : tcmd) : bool := match c with TDo k => noper_cmd k | _ => true end.

(* hereditarily: never stops the scheduler, never raises, no periodic work, and
   (sl = false) never sleeps / (sl = true) sleeps only forwards *)
Fixpoint calm_cmd (sl : bool) (c : scmd) : bool :=
  match c with
  | SSched _ _ b => forallb (calm_cmd sl) b
  | SCancel _ | SNote _ | SPCancel _ => true
  | SSleep d => sl && (0 <=? d)
  | SHandled _ v => v
  | SStop | SRaise _ | SPeriodic _ _ _ => false
  end.
Definition calm_pay (sl : bool) (p : payload) : bool :=
  match p with PAct _ b => forallb (calm_cmd sl) b | PPer _ _ => false end.

Lemma calm_noper sl c : calm_cmd sl c = true -> noper_cmd c = true.
Proof.
  revert c. fix IH 1. intros [w l b|r| |d|e|e v|n|p f s0|pid]; simpl; try reflexivity; try discriminate.
  intro H. induction b as [|x t IHb]; simpl in *; [reflexivity|].
  apply andb_true_iff in H. destruct H as [Hx Ht]. rewrite (IH x Hx). simpl. apply IHb. exact Ht.
Qed.

Lemma calm_noper_body sl b : forallb (calm_cmd sl) b = true -> forallb noper_cmd b = true.
Proof.
  induction b as [|x t IH]; simpl; [reflexivity|]. intro H. apply andb_true_iff in H. destruct H as [Hx Ht].
  rewrite (calm_noper sl x Hx), (IH Ht). reflexivity.
Qed.

Lemma calm_noper_pay sl p : calm_pay sl p = true -> noper_pay p = true.
Proof. destruct p; simpl; [apply calm_noper_body | discriminate]. Qed.

Definition psize (p : payload) : nat := match p with PAct _ b => S (bsize b) | PPer _ _ => 1 end.
Definition qsize (q : list item) : nat := list_sum (map (fun it => psize (i_pay it)) q).

Lemma qsize_cons x q : qsize (x :: q) = (psize (i_pay x) + qsize q)%nat.
Proof. reflexivity. Qed.

Lemma qsize_insert x q : qsize (insert x q) = (psize (i_pay x) + qsize q)%nat.
Proof.
  induction q as [|y t IH]; simpl; [reflexivity|].
  destruct (key_lt x y); simpl; [reflexivity|]. unfold qsize in *. simpl. rewrite IH. lia.
Qed.

Lemma Forall_insert (P : item -> Prop) x q : P x -> Forall P q -> Forall P (insert x q).
Proof.
  intros Hx Hq. apply Forall_forall. intros z Hz. apply In_insert in Hz.
  destruct Hz as [->|Hz]; [assumption|]. rewrite Forall_forall in Hq. auto.
Qed.

(* --- frame properties -------------------------------------------------- *)

Lemma dispose_per_fields s pid :
  clock (dispose_per s pid) = clock s /\ queue (dispose_per s pid) = queue s /\
  enabled (dispose_per s pid) = enabled s /\ npops (dispose_per s pid) = npops s /\
  pops (log (dispose_per s pid)) = pops (log s).
Proof.
  unfold dispose_per. destruct (nth_error (pers s) pid) as [pi|]; [|repeat split].
  destruct (p_disposed pi); [repeat split|].
  match goal with |- context [cancel_id ?s0 ?r] =>
    destruct (cancel_id_fields s0 r) as (A & B & C & D & E & F & G);
    rewrite A, B, D, G, cancel_id_pops end.
  repeat split.
Qed.

Lemma add_notes_fields ns : forall s,
  clock (add_notes s ns) = clock s /\ queue (add_notes s ns) = queue s /\
  enabled (add_notes s ns) = enabled s /\ npops (add_notes s ns) = npops s /\
  pops (log (add_notes s ns)) = pops (log s).
Proof.
  induction ns as [|n t IH]; intro s; simpl; [repeat split|].
  destruct (IH (add_log s (ENote n))) as (A & B & C & D & E). rewrite A, B, C, D, E. repeat split.
Qed.

(* no command, and no action body, dequeues anything *)
Lemma exec_cmd_pops s c :
  pops (log (bstate (exec_cmd s c))) = pops (log s) /\ npops (bstate (exec_cmd s c)) = npops s.
Proof.
  destruct c; simpl; try (split; reflexivity).
  - destruct (cancel_id_fields s r) as (A & B & C & D & E & F & G). rewrite cancel_id_pops, G. split; reflexivity.
  - destruct (d <? 0); simpl; split; reflexivity.
  - destruct v; simpl; split; reflexivity.
  - destruct (dispose_per_fields s pid) as (A & B & C & D & E). rewrite D, E. split; reflexivity.
Qed.

Lemma exec_body_pops b : forall s,
  pops (log (bstate (exec_body s b))) = pops (log s) /\ npops (bstate (exec_body s b)) = npops s.
Proof.
  induction b as [|c t IH]; intro s; simpl; [split; reflexivity|].
  pose proof (exec_cmd_pops s c) as [H1 H2].
  destruct (exec_cmd s c) as [s'|e s']; simpl in *; [|split; assumption].
  destruct (IH s') as [G1 G2]. rewrite G1, G2. split; assumption.
Qed.

(* --- fuel: commands without periodic work ------------------------------ *)

Definition noper_q (q : list item) : Prop := Forall (fun it => noper_pay (i_pay it) = true) q.

Lemma exec_cmd_noper s c :
  noper_cmd c = true -> noper_q (queue s) ->
  noper_q (queue (bstate (exec_cmd s c))) /\
  (qsize (queue (bstate (exec_cmd s c))) <= qsize (queue s) + csize c)%nat.
Proof.
  intros Hc Hq. destruct c; simpl in *; try (split; [assumption | lia]).
  - split; [apply Forall_insert; assumption|]. rewrite qsize_insert. simpl. unfold bsize. lia.
  - destruct (cancel_id_fields s r) as (A & B & _). rewrite B. split; [assumption | lia].
  - destruct (d <? 0); simpl; split; try assumption; lia.
  - destruct v; simpl; split; try assumption; lia.
  - discriminate.
  - destruct (dispose_per_fields s pid) as (A & B & _). rewrite B. split; [assumption | lia].
Qed.

Lemma exec_body_noper b : forall s,
  forallb noper_cmd b = true -> noper_q (queue s) ->
  noper_q (queue (bstate (exec_body s b))) /\
  (qsize (queue (bstate (exec_body s b))) <= qsize (queue s) + bsize b)%nat.
Proof.
  induction b as [|c t IH]; intros s Hb Hq; simpl in *; [split; [assumption | lia]|].
  apply andb_true_iff in Hb. destruct Hb as [Hc Ht].
  destruct (exec_cmd_noper s c Hc Hq) as [H1 H2].
  unfold bsize in *; simpl.
  destruct (exec_cmd s c) as [s'|e s']; simpl in *; [|split; [assumption | lia]].
  destruct (IH s' Ht H1) as [G1 G2]. split; [assumption | lia].
Qed.

Lemma run_item_noper s it q' newclk bumped :
  queue s = it :: q' -> noper_q (queue s) ->
  noper_q (queue (bstate (run_item s it q' newclk bumped))) /\
  (S (qsize (queue (bstate (run_item s it q' newclk bumped)))) <= qsize (queue s))%nat.
Proof.
  intros Hq Hn. rewrite Hq in *. inversion Hn as [|? ? Hit Hn']; subst.
  rewrite qsize_cons.
  unfold run_item. destruct (negb (memb (i_id it) (cancelled s))); simpl.
  - destruct (i_pay it) as [l b|pid stt] eqn:Hp; simpl in Hit; [|discriminate]. simpl.
    match goal with |- context [exec_body ?s0 b] =>
      destruct (exec_body_noper b s0 Hit) as [G1 G2]; [simpl; assumption|] end.
    simpl in G2. split; [assumption|]. lia.
  - split; [assumption|]. destruct (i_pay it); simpl; lia.
Qed.

Definition returned (o : outcome) (s' : st) : Prop :=
  o = Finished s' \/ exists e, o = Raised e s'.

Lemma start_loop_returns c fuel : c_prop_bump c = false -> forall s sp,
  noper_q (queue s) -> (qsize (queue s) <= fuel)%nat ->
  exists s', returned (start_loop c fuel s sp) s' /\ noper_q (queue s') /\
             (qsize (queue s') <= qsize (queue s))%nat.
Proof.
  intro Hc. induction fuel as [|fuel IH]; intros s sp Hn Hf; simpl.
  - destruct (negb (enabled s)); [exists (set_enabled s false); repeat split; auto; left; reflexivity|].
    destruct (queue s) as [|it q'] eqn:Hq; [exists (set_enabled s false); simpl; rewrite Hq; repeat split; auto; left; reflexivity|].
    exfalso. unfold qsize in Hf. simpl in Hf. destruct (i_pay it); simpl in Hf; lia.
  - destruct (negb (enabled s)); [exists (set_enabled s false); repeat split; auto; left; reflexivity|].
    destruct (queue s) as [|it q'] eqn:Hq; [exists (set_enabled s false); simpl; rewrite Hq; repeat split; auto; left; reflexivity|].
    assert (Hstep : forall newclk bumped sp',
      exists s', returned (match run_item s it q' newclk bumped with
                           | BOk s' => start_loop c fuel s' sp'
                           | BRaise e s' => Raised e s' end) s' /\ noper_q (queue s') /\
                 (qsize (queue s') <= qsize (it :: q'))%nat).
    { intros newclk bumped sp'.
      assert (Hn' : noper_q (queue s)) by (rewrite Hq; exact Hn).
      destruct (run_item_noper s it q' newclk bumped Hq Hn') as [G1 G2]. rewrite Hq in G2.
      destruct (run_item s it q' newclk bumped) as [s1|e s1]; simpl in *.
      - destruct (IH s1 sp' G1) as (s' & R & N & L); [lia|]. exists s'. repeat split; auto. lia.
      - exists s1. repeat split; auto; [right; exists e; reflexivity | lia]. }
    destruct (clock s <? i_due it); [apply Hstep|].
    destruct (MAX_SPINNING <? sp)%nat; [|apply Hstep].
    destruct (c_kind c); [apply Hstep|]. rewrite Hc. apply Hstep.
Qed.

Lemma start_returns c fuel s : c_prop_bump c = false ->
  noper_q (queue s) -> (qsize (queue s) <= fuel)%nat ->
  exists s', returned (start c fuel s) s' /\ noper_q (queue s') /\ (qsize (queue s') <= qsize (queue s))%nat.
Proof.
  intros Hc Hn Hf. unfold start. destruct (enabled s).
  - exists s. repeat split; auto. left; reflexivity.
  - exact (start_loop_returns c fuel Hc (set_enabled s true) 0%nat Hn Hf).
Qed.

Lemma finish_adv_returns s t : exists s', finish_adv s t = Finished s' /\ queue s' = queue s.
Proof. unfold finish_adv. eexists. split; [reflexivity|]. destruct (clock s <? t); reflexivity. Qed.

Lemma advance_loop_returns fuel t : forall s,
  noper_q (queue s) -> (qsize (queue s) <= fuel)%nat ->
  exists s', returned (advance_loop fuel s t) s' /\ noper_q (queue s') /\
             (qsize (queue s') <= qsize (queue s))%nat.
Proof.
  assert (Hfin : forall s, noper_q (queue s) ->
     exists s', returned (finish_adv s t) s' /\ noper_q (queue s') /\ (qsize (queue s') <= qsize (queue s))%nat).
  { intros s Hn. destruct (finish_adv_returns s t) as (s' & E & Q). exists s'. rewrite Q.
    repeat split; auto. left; assumption. }
  induction fuel as [|fuel IH]; intros s Hn Hf; simpl.
  - destruct (negb (enabled s)); [apply Hfin; assumption|].
    destruct (queue s) as [|it q'] eqn:Hq; [rewrite <- Hq; apply Hfin; rewrite Hq; assumption|].
    destruct (t <? i_due it); [rewrite <- Hq; apply Hfin; rewrite Hq; assumption|].
    exfalso. unfold qsize in Hf. simpl in Hf. destruct (i_pay it); simpl in Hf; lia.
  - destruct (negb (enabled s)); [apply Hfin; assumption|].
    destruct (queue s) as [|it q'] eqn:Hq; [rewrite <- Hq; apply Hfin; rewrite Hq; assumption|].
    destruct (t <? i_due it); [rewrite <- Hq; apply Hfin; rewrite Hq; assumption|].
    rewrite <- Hq in Hn.
    destruct (run_item_noper s it q' (if clock s <? i_due it then i_due it else clock s) false Hq Hn) as [G1 G2].
    rewrite Hq in G2.
    destruct (run_item s it q' _ false) as [s1|e s1]; simpl in *.
    + destruct (IH s1 G1) as (s' & R & N & L); [lia|]. exists s'. repeat split; auto. lia.
    + exists s1. repeat split; auto; [right; exists e; reflexivity | lia].
Qed.

Lemma advance_to_returns fuel s t :
  noper_q (queue s) -> (qsize (queue s) <= fuel)%nat ->
  exists s', returned (advance_to fuel s t) s' /\ noper_q (queue s') /\ (qsize (queue s') <= qsize (queue s))%nat.
Proof.
  intros Hn Hf. unfold advance_to.
  destruct (t <? clock s); [exists s; repeat split; auto; right; exists AOOR; reflexivity|].
  destruct ((clock s =? t) || enabled s); [exists s; repeat split; auto; left; reflexivity|].
  exact (advance_loop_returns fuel t (set_enabled s true) Hn Hf).
Qed.

Lemma step_t_returns c fuel s cmd : c_prop_bump c = false ->
  noper_t cmd = true -> noper_q (queue s) -> (qsize (queue s) + tsize cmd <= fuel)%nat ->
  exists s', returned (step_t c fuel s cmd) s' /\ noper_q (queue s') /\
             (qsize (queue s') <= qsize (queue s) + tsize cmd)%nat.
Proof.
  intros Hc Ht Hn Hf. destruct cmd as [k| | |t|d]; simpl in *.
  - destruct (exec_cmd_noper s k Ht Hn) as [G1 G2].
    destruct (exec_cmd s k) as [s'|e s']; simpl in *; exists s'; repeat split; auto;
      [left; reflexivity | right; exists e; reflexivity].
  - destruct (start_returns c fuel s Hc Hn) as (s' & R & N & L); [lia|]. exists s'. repeat split; auto. lia.
  - set (s3 := silent (silent (silent s 100000000) 200000000) 1000000000).
    assert (N3 : noper_q (queue s3)).
    { unfold s3, silent; simpl. repeat apply Forall_insert; auto. }
    assert (Q3 : qsize (queue s3) = (3 + qsize (queue s))%nat).
    { unfold s3, silent; simpl. rewrite !qsize_insert. simpl. lia. }
    destruct (start_returns c fuel s3 Hc N3) as (s' & R & N & L); [lia|]. exists s'. repeat split; auto. lia.
  - destruct (advance_to_returns fuel s t Hn) as (s' & R & N & L); [lia|]. exists s'. repeat split; auto. lia.
  - destruct (advance_to_returns fuel s (clock s + d) Hn) as (s' & R & N & L); [lia|]. exists s'. repeat split; auto. lia.
Qed.

(* Every history without periodic work terminates: neither the fuel (taken as
   the number of actions the history can enqueue) runs out nor a deadlock
   occurs, on numeric and datetime clocks alike. *)
Theorem run_terminates c fuel : c_prop_bump c = false -> forall h s,
  forallb noper_t h = true -> noper_q (queue s) -> (qsize (queue s) + hsize h <= fuel)%nat ->
  exists s', run c fuel s h = RDone s'.
Proof.
  intro Hc. induction h as [|cmd t IH]; intros s Hh Hn Hf; simpl; [eexists; reflexivity|].
  simpl in Hh. apply andb_true_iff in Hh. destruct Hh as [H1 H2].
  unfold hsize in *. simpl in Hf.
  destruct (step_t_returns c fuel s cmd Hc H1 Hn) as (s' & R & N & L); [lia|].
  destruct R as [->|[e ->]]; apply IH; simpl; auto; lia.
Qed.


(* --- calm actions: exact effect of start and advance_to ---------------- *)

Definition calm_q (sl : bool) (q : list item) : Prop := Forall (fun it => calm_pay sl (i_pay it) = true) q.

Lemma calm_q_noper sl q : calm_q sl q -> noper_q q.
Proof. apply Forall_impl. intros it. apply calm_noper_pay. Qed.

Lemma exec_cmd_calm sl s c :
  calm_cmd sl c = true -> calm_q sl (queue s) ->
  exists s', exec_cmd s c = BOk s' /\ enabled s' = enabled s /\ clock s <= clock s' /\
             (sl = false -> clock s' = clock s) /\ calm_q sl (queue s').
Proof.
  intros Hc Hq. destruct c; simpl in *; try discriminate.
  - eexists. split; [reflexivity|]. simpl. repeat split; try lia. apply Forall_insert; assumption.
  - eexists. split; [reflexivity|]. destruct (cancel_id_fields s r) as (A & B & C & D & _).
    rewrite A, B, D. repeat split; try lia; try assumption.
  - apply andb_true_iff in Hc. destruct Hc as [-> Hd]. apply Z.leb_le in Hd.
    assert (E : d <? 0 = false) by (apply Z.ltb_ge; lia). rewrite E.
    eexists. split; [reflexivity|]. simpl. repeat split; try lia; try assumption; try discriminate.
  - subst v. eexists. split; [reflexivity|]. simpl. repeat split; try lia; try assumption.
  - eexists. split; [reflexivity|]. simpl. repeat split; try lia; try assumption.
  - eexists. split; [reflexivity|]. destruct (dispose_per_fields s pid) as (A & B & C & _).
    rewrite A, B, C. repeat split; try lia; try assumption.
Qed.

Lemma exec_body_calm sl b : forall s,
  forallb (calm_cmd sl) b = true -> calm_q sl (queue s) ->
  exists s', exec_body s b = BOk s' /\ enabled s' = enabled s /\ clock s <= clock s' /\
             (sl = false -> clock s' = clock s) /\ calm_q sl (queue s').
Proof.
  induction b as [|c t IH]; intros s Hb Hq; simpl in *.
  - exists s. repeat split; auto; lia.
  - apply andb_true_iff in Hb. destruct Hb as [Hc Ht].
    destruct (exec_cmd_calm sl s c Hc Hq) as (s1 & E1 & A1 & B1 & C1 & D1). rewrite E1.
    destruct (IH s1 Ht D1) as (s2 & E2 & A2 & B2 & C2 & D2). exists s2.
    repeat split; auto; try congruence; try lia. intro Hs. rewrite (C2 Hs). auto.
Qed.

Lemma run_item_calm sl s it q' newclk bumped :
  queue s = it :: q' -> calm_q sl (queue s) ->
  exists s', run_item s it q' newclk bumped = BOk s' /\ enabled s' = enabled s /\ newclk <= clock s' /\
             (sl = false -> clock s' = newclk) /\ calm_q sl (queue s') /\
             pops (log s') = PopRec (i_id it) (label_of (i_pay it)) (i_due it) (i_sclk it) (clock s) newclk
                                    (i_born it) (npops s) bumped (negb (memb (i_id it) (cancelled s)))
                             :: pops (log s) /\
             npops s' = S (npops s).
Proof.
  intros Hq Hc. rewrite Hq in Hc. inversion Hc as [|? ? Hit Hc']; subst.
  unfold run_item. destruct (negb (memb (i_id it) (cancelled s))) eqn:Hran.
  - destruct (i_pay it) as [l b|pid stt] eqn:Hp; simpl in Hit; [|discriminate]. simpl.
    match goal with |- context [exec_body ?s0 b] =>
      destruct (exec_body_calm sl b s0 Hit) as (s' & E & A & B & C & D); [simpl; assumption|];
      pose proof (exec_body_pops b s0) as [P1 P2] end.
    rewrite E in *. simpl in *. exists s'. repeat split; auto.
    rewrite P1, Hp. reflexivity.
  - eexists. split; [reflexivity|]. simpl. repeat split; auto; lia.
Qed.

(* start() on calm work returns normally with an empty queue *)
Lemma start_loop_calm sl c fuel : c_prop_bump c = false -> forall s sp,
  calm_q sl (queue s) -> (qsize (queue s) <= fuel)%nat ->
  exists s', start_loop c fuel s sp = Finished s' /\ enabled s' = false /\
             (enabled s = true -> queue s' = []).
Proof.
  intro Hc. induction fuel as [|fuel IH]; intros s sp Hn Hf; simpl.
  - destruct (enabled s) eqn:He; simpl; [|eexists; split; [reflexivity|]; split; [reflexivity | discriminate]].
    destruct (queue s) as [|it q'] eqn:Hq; [eexists; split; [reflexivity|]; simpl; auto|].
    exfalso. rewrite qsize_cons in Hf. destruct (i_pay it); simpl in Hf; lia.
  - destruct (enabled s) eqn:He; simpl; [|eexists; split; [reflexivity|]; split; [reflexivity | discriminate]].
    destruct (queue s) as [|it q'] eqn:Hq; [eexists; split; [reflexivity|]; simpl; auto|].
    assert (Hstep : forall newclk bumped sp',
      exists s', match run_item s it q' newclk bumped with
                 | BOk s' => start_loop c fuel s' sp'
                 | BRaise e s' => Raised e s' end = Finished s' /\ enabled s' = false /\
                 (true = true -> queue s' = [])).
    { intros newclk bumped sp'.
      assert (Hn' : calm_q sl (queue s)) by (rewrite Hq; exact Hn).
      destruct (run_item_calm sl s it q' newclk bumped Hq Hn') as (s1 & E & A & B & C & D & _).
      pose proof (run_item_noper s it q' newclk bumped Hq (calm_q_noper _ _ Hn')) as [_ G2].
      rewrite E in *. simpl in G2. rewrite Hq in G2.
      destruct (IH s1 sp' D) as (s' & R & N & L); [lia|]. exists s'. repeat split; auto.
      intros _. apply L. congruence. }
    destruct (clock s <? i_due it); [apply Hstep|].
    destruct (MAX_SPINNING <? sp)%nat; [|apply Hstep].
    destruct (c_kind c); [apply Hstep|]. rewrite Hc. apply Hstep.
Qed.

Theorem start_calm sl c fuel s : c_prop_bump c = false ->
  enabled s = false -> calm_q sl (queue s) -> (qsize (queue s) <= fuel)%nat ->
  exists s', start c fuel s = Finished s' /\ enabled s' = false /\ queue s' = [].
Proof.
  intros Hc He Hn Hf. unfold start. rewrite He.
  destruct (start_loop_calm sl c fuel Hc (set_enabled s true) 0%nat Hn Hf) as (s' & E & A & B).
  exists s'. repeat split; auto.
Qed.

(* what advance_to adds to the log: only items due at or before the target,
   never with a spin bump *)
Definition new_pops_ok (s s' : st) (t : Z) : Prop :=
  forall r, In r (pops (log s')) ->
    In r (pops (log s)) \/ (r_due r <= t /\ r_bumped r = false /\ (npops s <= r_idx r)%nat).

Lemma advance_loop_calm sl fuel t : forall s,
  Inv1 s -> enabled s = true -> calm_q sl (queue s) -> (qsize (queue s) <= fuel)%nat ->
  exists s', advance_loop fuel s t = Finished s' /\ enabled s' = false /\
             Forall (fun it => t < i_due it) (queue s') /\
             t <= clock s' /\ (sl = false -> clock s <= t -> clock s' = t) /\
             calm_q sl (queue s') /\ new_pops_ok s s' t.
Proof.
  assert (Hfin : forall s, calm_q sl (queue s) -> Forall (fun it => t < i_due it) (queue s) ->
    exists s', finish_adv s t = Finished s' /\ enabled s' = false /\
               Forall (fun it => t < i_due it) (queue s') /\
               t <= clock s' /\ (sl = false -> clock s <= t -> clock s' = t) /\
               calm_q sl (queue s') /\ new_pops_ok s s' t).
  { intros s Hc Hall. unfold finish_adv. eexists. split; [reflexivity|].
    destruct (clock s <? t) eqn:E; simpl.
    - apply Z.ltb_lt in E. repeat split; auto; try lia. intros r Hr. left. exact Hr.
    - apply Z.ltb_ge in E. repeat split; auto; try lia. intros r Hr. left. exact Hr. }
  induction fuel as [|fuel IH]; intros s HI He Hc Hf; simpl; rewrite He; simpl.
  - destruct (queue s) as [|it q'] eqn:Hq.
    + apply Hfin; rewrite Hq; [assumption | constructor].
    + destruct (t <? i_due it) eqn:Et.
      * apply Hfin; rewrite Hq; [assumption|]. destruct HI as [HS _]. rewrite Hq in HS.
        inversion HS as [|? ? _ Hhd]; subst. apply Z.ltb_lt in Et. constructor; [assumption|].
        eapply Forall_impl; [|exact Hhd]. unfold klt. simpl. intros; lia.
      * exfalso. rewrite qsize_cons in Hf. destruct (i_pay it); simpl in Hf; lia.
  - destruct (queue s) as [|it q'] eqn:Hq.
    + apply Hfin; rewrite Hq; [assumption | constructor].
    + destruct (t <? i_due it) eqn:Et.
      * apply Hfin; rewrite Hq; [assumption|]. destruct HI as [HS _]. rewrite Hq in HS.
        inversion HS as [|? ? _ Hhd]; subst. apply Z.ltb_lt in Et. constructor; [assumption|].
        eapply Forall_impl; [|exact Hhd]. unfold klt. simpl. intros; lia.
      * apply Z.ltb_ge in Et.
        set (newclk := if clock s <? i_due it then i_due it else clock s).
        assert (Hc' : calm_q sl (queue s)) by (rewrite Hq; exact Hc).
        assert (Hpc : pop_clock_ok s it newclk false).
        { unfold pop_clock_ok, newclk. destruct (clock s <? i_due it); auto. }
        destruct (run_item_calm sl s it q' newclk false Hq Hc') as (s1 & E & A & B & C & D & P & NP).
        pose proof (run_item_noper s it q' newclk false Hq (calm_q_noper _ _ Hc')) as [_ G2].
        pose proof (run_item_steps s it q' newclk false Hq Hpc) as Hsteps.
        rewrite E in *. simpl in G2, Hsteps. rewrite Hq in G2.
        assert (HI1 : Inv1 s1) by (eapply (steps_inv Inv1 inv1_prim); eassumption).
        destruct (IH s1 HI1) as (s' & R & N & L & T1 & T2 & Cq & NPO); [congruence | assumption | lia |].
        exists s'. repeat split; auto.
        -- intros Hsl Hle. apply T2; [assumption|]. rewrite (C Hsl). unfold newclk.
           destruct (clock s <? i_due it); lia.
        -- intros r Hr. destruct (NPO r Hr) as [Hold|(X & Y & Z)].
           ++ rewrite P in Hold. destruct Hold as [<-|Hold]; [|left; assumption].
              right. simpl. repeat split; auto; lia.
           ++ right. repeat split; auto. lia.
Qed.

(* advance_to(t) with t later than the clock, on a stopped scheduler with calm
   work: returns; everything left in the queue is due after t; everything it
   dequeued was due at or before t; the clock ends at t (or later if an action
   slept past t). *)
Theorem advance_to_calm sl fuel s t :
  Inv1 s -> enabled s = false -> clock s < t -> calm_q sl (queue s) -> (qsize (queue s) <= fuel)%nat ->
  exists s', advance_to fuel s t = Finished s' /\ enabled s' = false /\
             Forall (fun it => t < i_due it) (queue s') /\
             t <= clock s' /\ (sl = false -> clock s' = t) /\
             calm_q sl (queue s') /\ new_pops_ok s s' t.
Proof.
  intros HI He Hlt Hc Hf. unfold advance_to.
  assert (E1 : t <? clock s = false) by (apply Z.ltb_ge; lia).
  assert (E2 : clock s =? t = false) by (apply Z.eqb_neq; lia).
  rewrite E1, E2, He. simpl.
  destruct (advance_loop_calm sl fuel t (set_enabled s true)) as (s' & R & N & L & T1 & T2 & Cq & NPO); auto.
  exists s'. repeat split; auto. intro Hsl. apply T2; [assumption|]. simpl. lia.
Qed.

(* ---- B9: an action is skipped only if its disposable was disposed ------ *)

Fixpoint skip_only_if_cancelled (l : list event) : Prop :=
  match l with
  | [] => True
  | e :: older =>
      match e with
      | EPop r => r_ran r = false -> In (ECancel (r_id r)) older
      | _ => True
      end /\ skip_only_if_cancelled older
  end.

Definition Inv9 (s : st) : Prop :=
  (forall id, In id (cancelled s) -> In (ECancel id) (log s)) /\ skip_only_if_cancelled (log s).

Lemma memb_true n l : memb n l = true -> In n l.
Proof.
  unfold memb. intro H. apply existsb_exists in H. destruct H as (x & Hx & E).
  apply Nat.eqb_eq in E. subst. assumption.
Qed.

Lemma inv9_prim s s' : Inv9 s -> prim s s' -> Inv9 s'.
Proof.
  intros [H1 H2] HP. inversion HP; subst; clear HP; try (split; assumption).
  - unfold cancel_id. destruct (r <? next_id s)%nat; [|split; assumption]. split; simpl.
    + intros id [E|Hin]; [left; congruence | right; auto].
    + split; [exact I | assumption].
  - split; simpl.
    + intros id Hin. right. auto.
    + split; [|assumption]. destruct e; try exact I. destruct H.
  - split; simpl.
    + intros id Hin. right. auto.
    + split; [|assumption]. intros Hran. apply Bool.negb_false_iff in Hran. apply memb_true in Hran. auto.
Qed.

Theorem inv9_run c fuel c0 cs : Inv9 (state_of (run c fuel (init c0) cs)).
Proof. apply (run_invariant Inv9 inv9_prim). split; simpl; [tauto | exact I]. Qed.

(* ================================================================== *)
(* Part D.  Statements about whole histories (used by Props/C28, C29)   *)

Section Histories.
Variables (c : cfg) (fuel : nat) (c0 : Z) (h : list tcmd).
Let s := state_of (run c fuel (init c0) h).

(* dequeued items, newest first; the k-th item dequeued has r_idx = k *)
Lemma hist_pop_index : map r_idx (pops (log s)) = desc (npops s).
Proof. apply inv8_run. Qed.

(* RUN ORDER.  For any two dequeued items a (earlier) and b (later): if b was
   already in the queue when a was dequeued, then a precedes b in the order
   (due time, then order of the schedule calls). *)
Lemma hist_run_order :
  ForallOrdPairs (fun b a => queued_at_pop_of b a -> plt a b) (pops (log s)).
Proof. pose proof (inv_run c fuel c0 h) as (_ & (_ & _ & H) & _). exact H. Qed.

(* ... in particular, if no action is scheduled in the past, the sequence of
   dequeued items is strictly increasing in (due time, scheduling order):
   non-decreasing due times, first-scheduled-first among equal due times. *)
Lemma hist_due_order :
  Forall (fun a => r_sclk a <= r_due a) (pops (log s)) ->
  ForallOrdPairs (fun b a => plt a b) (pops (log s)).
Proof. apply sorted_if_no_past. apply inv_run. Qed.

Lemma hist_due_order_runs :
  Forall (fun a => r_sclk a <= r_due a) (pops (log s)) ->
  ForallOrdPairs (fun b a => plt a b) (filter r_ran (pops (log s))).
Proof. intro H. apply FOP_filter. apply hist_due_order. exact H. Qed.

(* CLOCK AT RUN *)
Lemma hist_clock_at_run : Forall rec_ok (pops (log s)).
Proof. pose proof (inv_run c fuel c0 h) as (_ & _ & _ & H & _). exact H. Qed.

(* CLOCK MONOTONE: every clock reading (at each run, periodic tick and after each
   top-level call) is >= every earlier one, and <= the final clock *)
Lemma hist_clock_monotone :
  StronglySorted Z.ge (readings (log s)) /\ Forall (fun k => k <= clock s) (readings (log s)).
Proof.
  pose proof (inv_run c fuel c0 h) as (_ & _ & _ & _ & H & _).
  destruct (mono_readings _ _ H). split; assumption.
Qed.

(* CANCELLED NEVER RUN, and only cancelled ones are skipped *)
Lemma hist_cancelled_never_run : no_run_after_cancel (log s).
Proof. pose proof (inv_run c fuel c0 h) as (_ & _ & _ & _ & _ & [_ H] & _). exact H. Qed.

Lemma hist_skip_only_if_cancelled : skip_only_if_cancelled (log s).
Proof. apply inv9_run. Qed.

(* every scheduled action is dequeued at most once, and is either still queued
   or has been dequeued *)
Lemma hist_conservation :
  NoDup (map i_id (queue s) ++ map r_id (pops (log s))) /\
  forall id, (id < next_id s)%nat <->
             In id (map i_id (queue s)) \/ In id (map r_id (pops (log s))).
Proof.
  pose proof (inv_run c fuel c0 h) as (_ & _ & _ & _ & _ & _ & [H1 H2]). split; [exact H1|].
  intro id. specialize (H2 id). unfold ids in H2. rewrite in_app_iff in H2. unfold s. tauto.
Qed.

Lemma hist_queue_sorted : StronglySorted klt (queue s).
Proof. pose proof (inv_run c fuel c0 h) as ([H _] & _). exact H. Qed.

(* ADVANCE_TO from any state a history can reach *)
Lemma hist_advance_to sl fuel' t :
  enabled s = false -> clock s < t -> calm_q sl (queue s) -> (qsize (queue s) <= fuel')%nat ->
  exists s', advance_to fuel' s t = Finished s' /\ enabled s' = false /\
             Forall (fun it => t < i_due it) (queue s') /\
             t <= clock s' /\ (sl = false -> clock s' = t) /\
             calm_q sl (queue s') /\ new_pops_ok s s' t.
Proof. apply advance_to_calm. pose proof (inv_run c fuel c0 h) as (H & _). exact H. Qed.

(* START from any state a history can reach: returns with an empty queue, and
   every action ever scheduled has been dequeued *)
Lemma hist_start_drains sl c' fuel' :
  c_prop_bump c' = false ->
  enabled s = false -> calm_q sl (queue s) -> (qsize (queue s) <= fuel')%nat ->
  exists s', start c' fuel' s = Finished s' /\ enabled s' = false /\ queue s' = [] /\
             forall id, (id < next_id s')%nat -> In id (map r_id (pops (log s'))).
Proof.
  intros Hc He Hq Hf.
  destruct (start_calm sl c' fuel' s Hc He Hq Hf) as (s' & E & A & B).
  exists s'. repeat split; auto.
  assert (HI : Inv s').
  { eapply inv_steps; [|apply inv_run]. pose proof (start_steps c' fuel' s) as H. rewrite E in H. exact H. }
  destruct HI as (_ & _ & _ & _ & _ & _ & [_ H2]).
  intros id Hid. apply H2 in Hid. unfold ids in Hid. rewrite B in Hid. exact Hid.
Qed.

End Histories.

(* advance_to with the target equal to the clock is a no-op, whatever is queued *)
Lemma advance_to_now_noop fuel s : advance_to fuel s (clock s) = Finished s.
Proof.
  unfold advance_to. rewrite Z.ltb_irrefl, Z.eqb_refl. reflexivity.
Qed.

Lemma advance_to_past_raises fuel s t : t < clock s -> advance_to fuel s t = Raised AOOR s.
Proof. intro H. unfold advance_to. apply Z.ltb_lt in H. rewrite H. reflexivity. Qed.

(* sleep *)
Lemma sleep_spec s d : 0 <= d ->
  exec_cmd s (SSleep d) = BOk (set_clock s (clock s + d)).
Proof. intro H. simpl. assert (E : d <? 0 = false) by (apply Z.ltb_ge; lia). rewrite E. reflexivity. Qed.

Lemma sleep_negative_raises s d : d < 0 ->
  exists s', exec_cmd s (SSleep d) = BRaise AOOR s' /\ clock s' = clock s /\ queue s' = queue s.
Proof. intro H. simpl. apply Z.ltb_lt in H. rewrite H. eexists. repeat split. Qed.

(* termination from the initial state *)
Theorem history_terminates k fuel c0 h :
  forallb noper_t h = true -> (hsize h <= fuel)%nat ->
  exists s', run (Cfg k false) fuel (init c0) h = RDone s'.
Proof. intros H1 H2. apply run_terminates; simpl; auto. constructor. Qed.

(* a drained scheduler can be started again (at no cost) *)
Lemma start_drained c fuel s : enabled s = false -> queue s = [] ->
  start c fuel s = Finished (set_enabled (set_enabled s true) false).
Proof.
  intros He Hq. unfold start. rewrite He. destruct fuel; simpl; rewrite Hq; reflexivity.
Qed.

(* ---- histories used as witnesses in Props/C28.v, Props/C29.v ---------- *)

(* three actions at one instant + one scheduled from inside + one cancelled *)
Definition ex_h : list tcmd :=
  [ TDo (SSched (Abs 5) 0 [SSched Now 3 []; SCancel 2]);
    TDo (SSched (Abs 5) 1 []);
    TDo (SSched (Rel 5) 2 []);
    TDo (SSched (Abs 2) 4 [SSleep 1]);
    TStart ].

Fixpoint same_instant (n : nat) : list tcmd :=
  match n with O => [] | S k => same_instant k ++ [TDo (SSched Now (Z.of_nat k) [])] end.

Definition count_runs (l : list oev) : nat :=
  length (filter (fun o => match o with ORun _ _ => true | _ => false end) l).

