(* Facts about Core/VTime.v.

   Part A: every function of the model is a composition of a few primitive
           transitions [prim]; an invariant of [prim] therefore holds in every
           state any history can reach, whatever the fuel.
   Part B: the invariants (queue order, run order, clock, cancellation,
           conservation).
   Part C: termination (fuel) and the exact effect of start / advance_to.  *)
From RxVerif Require Import Base.Prelude Core.VTime.
From Coq Require Import Sorting.Sorted.

Local Open Scope Z_scope.

(* ================================================================== *)
(* Part A.  Primitive transitions                                       *)

Definition quiet (s : st) (e : event) : Prop :=
  match e with
  | EPop _ | ECancel _ => False
  | ETick _ _ k | EClock k => k = clock s
  | _ => True
  end.

Definition pop_clock_ok (s : st) (it : item) (newclk : Z) (bumped : bool) : Prop :=
  if clock s <? i_due it then newclk = i_due it /\ bumped = false
  else (bumped = false /\ newclk = clock s) \/
       (bumped = true /\ exists k, newclk = clock s + bump_of k).

Definition pop_state (s : st) (it : item) (q' : list item) (newclk : Z) (bumped : bool) : st :=
  add_log (set_clock (dequeue s q') newclk)
          (mkpop s it newclk bumped (negb (memb (i_id it) (cancelled s)))).

Inductive prim : st -> st -> Prop :=
  | P_enq s due p : prim s (enqueue s due p)
  | P_cancel s r : prim s (cancel_id s r)
  | P_enabled s b : prim s (set_enabled s b)
  | P_clock s c : clock s <= c -> prim s (set_clock s c)
  | P_pers s ps : prim s (set_pers s ps)
  | P_log s e : quiet s e -> prim s (add_log s e)
  | P_pop s it q' newclk bumped :
      queue s = it :: q' -> pop_clock_ok s it newclk bumped ->
      prim s (pop_state s it q' newclk bumped).

Inductive steps : st -> st -> Prop :=
  | steps_refl s : steps s s
  | steps_snoc s s' s'' : steps s s' -> prim s' s'' -> steps s s''.

Lemma steps_one s s' : prim s s' -> steps s s'.
Proof. intro H. eapply steps_snoc; [apply steps_refl | exact H]. Qed.

Lemma steps_trans s s' s'' : steps s s' -> steps s' s'' -> steps s s''.
Proof. intros H1 H2. induction H2; [assumption|]. eapply steps_snoc; eauto. Qed.

Lemma steps_inv (I : st -> Prop) :
  (forall s s', I s -> prim s s' -> I s') ->
  forall s s', steps s s' -> I s -> I s'.
Proof. intros HP s s' H. induction H; intros; eauto. Qed.

Local Hint Resolve steps_refl steps_one : vt.
Local Hint Constructors prim : vt.

Definition bstate (r : bres) : st := match r with BOk s | BRaise _ s => s end.
Definition ostate (o : outcome) : st :=
  match o with Finished s | Raised _ s | Deadlock s | OutOfFuel s => s end.

Lemma add_log_steps s e : quiet s e -> steps s (add_log s e).
Proof. auto with vt. Qed.

Lemma add_notes_steps ns : forall s, steps s (add_notes s ns).
Proof.
  induction ns as [|n t IH]; intro s; simpl; [apply steps_refl|].
  eapply steps_trans; [apply add_log_steps; exact I | apply IH].
Qed.

Lemma dispose_per_steps s pid : steps s (dispose_per s pid).
Proof.
  unfold dispose_per. destruct (nth_error (pers s) pid) as [pi|]; [|apply steps_refl].
  destruct (p_disposed pi); [apply steps_refl|].
  eapply steps_snoc; [|apply P_cancel].
  eapply steps_snoc; [|apply P_log; exact I].
  apply steps_one. apply P_pers.
Qed.

Lemma exec_cmd_steps s c : steps s (bstate (exec_cmd s c)).
Proof.
  destruct c; simpl; auto with vt.
  - destruct (d <? 0) eqn:E; simpl.
    + apply add_log_steps; exact I.
    + apply steps_one, P_clock. apply Z.ltb_ge in E. lia.
  - apply add_log_steps; exact I.
  - assert (steps s (add_log (add_log s (ERaise e)) (EHandler e))).
    { eapply steps_snoc; [apply add_log_steps; exact I | apply P_log; exact I]. }
    destruct v; assumption.
  - apply add_log_steps; exact I.
  - eapply steps_snoc; [apply steps_one, P_pers | apply P_enq].
  - apply dispose_per_steps.
Qed.

Lemma exec_body_steps b : forall s, steps s (bstate (exec_body s b)).
Proof.
  induction b as [|c t IH]; intro s; simpl; [apply steps_refl|].
  pose proof (exec_cmd_steps s c) as H.
  destruct (exec_cmd s c) as [s'|e s']; simpl in *; [|assumption].
  eapply steps_trans; [exact H | apply IH].
Qed.

Lemma resched_disposed_steps s pid p : steps s (bstate (resched_disposed s pid p)).
Proof.
  unfold resched_disposed; simpl.
  eapply steps_snoc; [|apply P_cancel].
  eapply steps_snoc; [apply dispose_per_steps | apply P_enq].
Qed.

Lemma invoke_steps s p : steps s (bstate (invoke s p)).
Proof.
  destruct p as [l b|pid stt]; simpl; [apply exec_body_steps|].
  destruct (nth_error (pers s) pid) as [pi|]; [|apply steps_refl].
  destruct (p_disposed pi); [apply steps_refl|].
  assert (H1 : steps s (add_log s (ETick pid stt (clock s)))) by (apply add_log_steps; reflexivity).
  destruct (plookup (p_fn pi) stt) as [ns st'|ns|ns e|ns e v]; simpl.
  - eapply steps_snoc; [|apply P_enq].
    eapply steps_snoc; [|apply P_pers].
    eapply steps_trans; [exact H1 | apply add_notes_steps].
  - eapply steps_trans; [|apply resched_disposed_steps].
    eapply steps_trans; [exact H1 | apply add_notes_steps].
  - eapply steps_trans; [|apply dispose_per_steps].
    eapply steps_snoc; [|apply P_log; exact I].
    eapply steps_trans; [exact H1 | apply add_notes_steps].
  - assert (H2 : steps s (add_log (add_log (add_notes (add_log s (ETick pid stt (clock s))) ns) (ERaise e)) (EHandler e))).
    { eapply steps_snoc; [|apply P_log; exact I].
      eapply steps_snoc; [|apply P_log; exact I].
      eapply steps_trans; [exact H1 | apply add_notes_steps]. }
    destruct v; simpl.
    + eapply steps_trans; [exact H2 | apply resched_disposed_steps].
    + eapply steps_trans; [exact H2 | apply dispose_per_steps].
Qed.

Lemma run_item_steps s it q' newclk bumped :
  queue s = it :: q' -> pop_clock_ok s it newclk bumped ->
  steps s (bstate (run_item s it q' newclk bumped)).
Proof.
  intros Hq Hc. unfold run_item.
  assert (H : steps s (pop_state s it q' newclk bumped)) by (apply steps_one, P_pop; assumption).
  unfold pop_state in H.
  destruct (negb (memb (i_id it) (cancelled s))); simpl; [|exact H].
  eapply steps_trans; [exact H | apply invoke_steps].
Qed.

Lemma start_loop_steps c fuel : forall s sp, steps s (ostate (start_loop c fuel s sp)).
Proof.
  induction fuel as [|fuel IH]; intros s sp; simpl.
  - destruct (negb (enabled s)); simpl; auto with vt.
    destruct (queue s); simpl; auto with vt.
  - destruct (negb (enabled s)); simpl; auto with vt.
    destruct (queue s) as [|it q'] eqn:Hq; simpl; auto with vt.
    assert (Hstep : forall newclk bumped sp',
      pop_clock_ok s it newclk bumped ->
      steps s (ostate match run_item s it q' newclk bumped with
                      | BOk s' => start_loop c fuel s' sp'
                      | BRaise e s' => Raised e s' end)).
    { intros newclk bumped sp' Hc.
      pose proof (run_item_steps s it q' newclk bumped Hq Hc) as H.
      destruct (run_item s it q' newclk bumped) as [s'|e s']; simpl in *; [|exact H].
      eapply steps_trans; [exact H | apply IH]. }
    destruct (clock s <? i_due it) eqn:E1.
    + apply Hstep. unfold pop_clock_ok. rewrite E1. auto.
    + destruct (MAX_SPINNING <? sp)%nat.
      * destruct (c_kind c).
        -- apply Hstep. unfold pop_clock_ok. rewrite E1. right. split; [reflexivity|]. exists Numeric. reflexivity.
        -- destruct (c_prop_bump c); simpl; auto with vt.
           apply Hstep. unfold pop_clock_ok. rewrite E1. right. split; [reflexivity|]. exists Datetime. reflexivity.
      * apply Hstep. unfold pop_clock_ok. rewrite E1. left. auto.
Qed.

Lemma start_steps c fuel s : steps s (ostate (start c fuel s)).
Proof.
  unfold start. destruct (enabled s); simpl; [apply steps_refl|].
  eapply steps_trans; [apply steps_one, P_enabled | apply start_loop_steps].
Qed.

Lemma finish_adv_steps s t : steps s (ostate (finish_adv s t)).
Proof.
  unfold finish_adv; simpl. destruct (clock s <? t) eqn:E.
  - eapply steps_snoc; [apply steps_one, P_clock | apply P_enabled]. apply Z.ltb_lt in E. lia.
  - apply steps_one, P_enabled.
Qed.

Lemma advance_loop_steps fuel t : forall s, steps s (ostate (advance_loop fuel s t)).
Proof.
  induction fuel as [|fuel IH]; intros s; simpl.
  - destruct (negb (enabled s)); [apply finish_adv_steps|].
    destruct (queue s) as [|it q']; [apply finish_adv_steps|].
    destruct (t <? i_due it); [apply finish_adv_steps | apply steps_refl].
  - destruct (negb (enabled s)); [apply finish_adv_steps|].
    destruct (queue s) as [|it q'] eqn:Hq; [apply finish_adv_steps|].
    destruct (t <? i_due it); [apply finish_adv_steps|].
    assert (Hc : pop_clock_ok s it (if clock s <? i_due it then i_due it else clock s) false).
    { unfold pop_clock_ok. destruct (clock s <? i_due it); auto. }
    pose proof (run_item_steps s it q' _ false Hq Hc) as H.
    destruct (run_item s it q' _ false) as [s'|e s']; simpl in *; [|exact H].
    eapply steps_trans; [exact H | apply IH].
Qed.

Lemma advance_to_steps fuel s t : steps s (ostate (advance_to fuel s t)).
Proof.
  unfold advance_to. destruct (t <? clock s); simpl; [apply steps_refl|].
  destruct ((clock s =? t) || enabled s); simpl; [apply steps_refl|].
  eapply steps_trans; [apply steps_one, P_enabled | apply advance_loop_steps].
Qed.

Lemma step_t_steps c fuel s cmd : steps s (ostate (step_t c fuel s cmd)).
Proof.
  destruct cmd; simpl.
  - pose proof (exec_cmd_steps s c0). destruct (exec_cmd s c0); assumption.
  - apply start_steps.
  - eapply steps_trans; [|apply start_steps]. unfold silent.
    eapply steps_snoc; [eapply steps_snoc; [apply steps_one|]|]; apply P_enq.
  - apply advance_to_steps.
  - apply advance_to_steps.
Qed.

Theorem run_steps c fuel cs : forall s, steps s (state_of (run c fuel s cs)).
Proof.
  induction cs as [|cmd t IH]; intro s; simpl; [apply steps_refl|].
  pose proof (step_t_steps c fuel s cmd) as H.
  destruct (step_t c fuel s cmd) as [s'|e s'|s'|s']; simpl in *; try exact H.
  - eapply steps_trans; [|apply IH]. eapply steps_snoc; [exact H | apply P_log; reflexivity].
  - eapply steps_trans; [|apply IH].
    eapply steps_snoc; [eapply steps_snoc; [exact H | apply P_log; exact I] | apply P_log; reflexivity].
Qed.

(* every state a history can produce satisfies every invariant of [prim] *)
Theorem run_invariant (I : st -> Prop) :
  (forall s s', I s -> prim s s' -> I s') ->
  forall c fuel s cs, I s -> I (state_of (run c fuel s cs)).
Proof. intros HP c fuel s cs. apply (steps_inv I HP). apply run_steps. Qed.
