(* More facts about the RefCountDisposable models (Core/Disposables.v [r_step], Core/DispConc.v
   [rc_act], Core/RefCountOnce.v ghost counter; all unchanged).
   - every interleaving: nothing but the underlying item is ever disposed; handles requested after the
     release are inert (never an InnerDisposable, release() is never entered for them);
   - every interleaving: "only after", on CALLS: if the underlying item was disposed then some thread
     has called dispose() on the primary and every InnerDisposable handed out had dispose() called on it;
   - one thread: the release point -- the call that makes the underlying item disposed comes after a
     dispose() of the primary and of every dependent handed out so far. *)
From RxVerif Require Import Base.Prelude Core.Disposables Core.DisposablesFacts Core.DispConc Core.DispConcFacts
  Core.DispConcFacts2 Core.RefCountOnce Core.RefCountOnceFacts.
Local Open Scope Z_scope.

(* ---- nothing else is ever disposed ------------------------------------------ *)
Lemma rc_act_out_only_underlying : forall s l i, i <> underlying -> zdisp i (snd (rc_act s l)) = 0.
Proof.
  intros s l i Hi. destruct l; cbn [rc_act].
  - reflexivity.
  - destruct (nth_error (r_deps s) k) as [[[|]|b]|]; reflexivity.
  - destruct (r_disposed s); reflexivity.
  - destruct ((r_count s - 1 =? 0) && r_primary s)%bool; reflexivity.
  - destruct (r_disposed s); reflexivity.
  - destruct (r_primary s); [reflexivity|]. destruct (r_count s =? 0); reflexivity.
  - cbn [snd]. rewrite zdisp_cons, zdisp_nil. cbn [is_disp].
    destruct (Nat.eqb i underlying) eqn:E; [apply Nat.eqb_eq in E; contradiction|reflexivity].
  - reflexivity.
Qed.

Theorem refcount_conc_only_underlying : forall progs sched i,
  i <> underlying -> zdisp i (plain (c_log (rc_run progs sched))) = 0.
Proof.
  intros progs sched i Hi. unfold rc_run.
  apply (crun_invariant rc_start rc_act (fun c => zdisp i (plain (c_log c)) = 0)); [|reflexivity].
  intros c tid H.
  destruct (tstep_cases rc_start rc_act c tid) as [E|[t [l [todo [hist [s' [l' [out [N [F [A E]]]]]]]]]]]; rewrite E;
    [exact H|].
  cbn [c_log]. rewrite plain_app, plain_tag, zdisp_app, H.
  pose proof (rc_act_out_only_underlying (c_sh c) l i Hi) as X. rewrite A in X. cbn [snd] in X. lia.
Qed.

(* ---- handles requested after the release are inert ---------------------------- *)
(* released, and every handle from position n on is an inert Disposable() *)
Definition rc_inert_from (n : nat) (s : rstate) : Prop :=
  r_disposed s = true /\
  forall k d, (n <= k)%nat -> nth_error (r_deps s) k = Some d -> exists b, d = DInert b.

Lemma rc_act_disposed_sticky : forall s l, r_disposed s = true -> r_disposed (fst (fst (rc_act s l))) = true.
Proof.
  intros s l D. destruct l; cbn [rc_act r_step].
  - destruct (r_disposed s); cbn [fst r_disposed]; [reflexivity|discriminate D].
  - destruct (nth_error (r_deps s) k) as [[[|]|b]|]; cbn [fst r_disposed]; exact D.
  - destruct (r_disposed s) eqn:D2; cbn [fst]; [exact D2|discriminate D].
  - destruct ((r_count s - 1 =? 0) && r_primary s)%bool; cbn [fst r_disposed]; [reflexivity|exact D].
  - destruct (r_disposed s) eqn:D2; cbn [fst]; [exact D2|discriminate D].
  - destruct (r_primary s); [exact D|]. destruct (r_count s =? 0); cbn [fst r_disposed]; [reflexivity|exact D].
  - exact D.
  - exact D.
Qed.

Lemma rc_inert_from_step : forall n s l, rc_inert_from n s -> rc_inert_from n (fst (fst (rc_act s l))).
Proof.
  intros n s l [D H]. split; [apply rc_act_disposed_sticky, D|].
  intros k d Hk. rewrite rc_act_deps. destruct l; try apply (H k d Hk).
  - (* the property [disposable] after the release: an inert Disposable() is appended *)
    rewrite D. intros X. destruct (Nat.lt_ge_cases k (length (r_deps s))) as [LT|GE].
    + rewrite nth_error_app1 in X by exact LT. apply (H k d Hk X).
    + rewrite nth_error_app2 in X by exact GE. destruct (k - length (r_deps s))%nat as [|[|m]]; cbn [nth_error] in X.
      * injection X as <-. exists false. reflexivity.
      * discriminate X.
      * discriminate X.
  - (* dispose() of handle k0 *)
    destruct (nth_error (r_deps s) k0) as [[[|]|b]|] eqn:NK; try apply (H k d Hk); intros X;
      destruct (nth_error_set_nth_cases _ _ _ _ _ _ X) as [[-> ->]|[_ X2]]; try apply (H k d Hk X2).
    + destruct (H k0 _ Hk NK) as [b X3]. discriminate X3.
    + exists true. reflexivity.
Qed.

Lemma rc_inert_from_run : forall progs s1 s2,
  r_disposed (c_sh (rc_run progs s1)) = true ->
  rc_inert_from (length (r_deps (c_sh (rc_run progs s1)))) (c_sh (rc_run progs (s1 ++ s2))).
Proof.
  intros progs s1 s2 D. unfold rc_run at 2. rewrite crun_app. fold (rc_run progs s1).
  apply (shared_invariant rc_start rc_act (rc_inert_from (length (r_deps (c_sh (rc_run progs s1)))))
           (rc_inert_from_step _)).
  split; [exact D|]. intros k d Hk X. exfalso.
  assert (nth_error (r_deps (c_sh (rc_run progs s1))) k = None) as Y by (apply nth_error_None; exact Hk).
  congruence.
Qed.

(* INERT AFTER THE RELEASE, every interleaving: (1) nothing but the underlying item is ever disposed;
   (2) once the object is released, for a handle j handed out afterwards release() is never entered,
   under any continuation of the schedule and however many threads dispose it *)
Theorem refcount_conc_inert : forall progs s1 s2 j,
  (forall i, i <> underlying -> zdisp i (plain (c_log (rc_run progs s1))) = 0) /\
  (r_disposed (c_sh (rc_run progs s1)) = true ->
   (length (r_deps (c_sh (rc_run progs s1))) <= j)%nat ->
   rc_release_calls progs (s1 ++ s2) j = 0%nat).
Proof.
  intros progs s1 s2 j. split; [intros i Hi; apply refcount_conc_only_underlying, Hi|].
  intros D Hj. rewrite rc_release_exactly. unfold parentless.
  destruct (rc_inert_from_run progs s1 s2 D) as [_ H].
  destruct (nth_error (r_deps (c_sh (rc_run progs (s1 ++ s2)))) j) as [d|] eqn:X; [|reflexivity].
  destruct (H j d Hj X) as [b ->]. reflexivity.
Qed.

(* ... such a handle is a fresh Disposable() (never an InnerDisposable), the object stays released *)
Theorem refcount_conc_handles_after_release : forall progs s1 s2 j d,
  r_disposed (c_sh (rc_run progs s1)) = true ->
  (length (r_deps (c_sh (rc_run progs s1))) <= j)%nat ->
  nth_error (r_deps (c_sh (rc_run progs (s1 ++ s2)))) j = Some d ->
  (exists b, d = DInert b) /\ r_disposed (c_sh (rc_run progs (s1 ++ s2))) = true.
Proof.
  intros progs s1 s2 j d D Hj X. destruct (rc_inert_from_run progs s1 s2 D) as [D' H].
  split; [apply (H j d Hj X)|exact D'].
Qed.

(* ---- "only after", on calls ---------------------------------------------------- *)
(* which call a local state belongs to *)
Lemma rc_in_call : forall o l, in_call rc_start rc_act o l ->
  match l with
  | RL_read | RL_lock => o = RDispose
  | RL_inner k => o = RDispDep k
  | _ => True
  end.
Proof.
  intros o l IC. induction IC as [|s l s' l' out IC IH A].
  - destruct o; cbn [rc_start]; auto.
  - destruct l; cbn [rc_act r_step] in A.
    + discriminate A.
    + destruct (nth_error (r_deps s) k) as [[[|]|b]|]; try discriminate A.
      injection A as _ X _. subst l'. exact I.
    + destruct (r_disposed s); try discriminate A. injection A as _ X _. subst l'. exact I.
    + destruct ((r_count s - 1 =? 0) && r_primary s)%bool; try discriminate A.
      injection A as _ X _. subst l'. exact I.
    + destruct (r_disposed s); try discriminate A. injection A as _ X _. subst l'. exact IH.
    + destruct (r_primary s); [discriminate A|].
      destruct (r_count s =? 0); try discriminate A. injection A as _ X _. subst l'. exact I.
    + discriminate A.
    + discriminate A.
Qed.

Definition rc_called_inv (c : @config rstate rlocal rop) : Prop :=
  cur_inv rc_start rc_act c /\
  (r_primary (c_sh c) = true -> exists k t, nth_error (c_ths c) k = Some t /\ In RDispose (t_hist t)) /\
  (forall j, nth_error (r_deps (c_sh c)) j = Some (DInner false) ->
     exists k t, nth_error (c_ths c) k = Some t /\ In (RDispDep j) (t_hist t)).

Lemma rc_called_inv_step : forall c tid, rc_called_inv c -> rc_called_inv (tstep rc_start rc_act c tid).
Proof.
  intros c tid [CI [HP HD]]. split; [apply cur_inv_step, CI|].
  pose proof (hist_witness_step rc_start rc_act c tid) as KEEP.
  destruct (tstep_cases rc_start rc_act c tid) as [E|[t [l [todo [hist [s' [l' [out [N [F [A E]]]]]]]]]]].
  { rewrite E. split; assumption. }
  assert (tid < length (c_ths c))%nat as Ltid by (apply nth_error_Some; congruence).
  destruct (frame_in_call rc_start rc_act t l todo hist (fun l0 => CI tid t l0 N) F) as [o [rest [Hh IC]]].
  apply rc_in_call in IC.
  (* the acting thread, after the step, has call o in its history *)
  assert (exists k t', nth_error (c_ths (tstep rc_start rc_act c tid)) k = Some t' /\ In o (t_hist t')) as ME.
  { rewrite E. cbn [c_ths]. exists tid, (Thread l' todo hist). split; [apply nth_set_nth_eq, Ltid|].
    cbn [t_hist]. rewrite Hh. left. reflexivity. }
  assert (c_sh (tstep rc_start rc_act c tid) = s') as ES by (rewrite E; reflexivity).
  rewrite ES. split.
  - intros P'. destruct (r_primary (c_sh c)) eqn:P0; [apply KEEP, HP; reflexivity|].
    (* the flag is set by this action: the locked block of a dispose() of the primary *)
    destruct l; cbn [rc_act r_step] in A.
    + destruct (r_disposed (c_sh c)); cbn [fst] in A; injection A as <- _ _; cbn [r_primary] in P'; congruence.
    + destruct (nth_error (r_deps (c_sh c)) k) as [[[|]|b]|]; injection A as <- _ _; cbn [r_primary] in P'; congruence.
    + destruct (r_disposed (c_sh c)); injection A as <- _ _; congruence.
    + destruct ((r_count (c_sh c) - 1 =? 0) && r_primary (c_sh c))%bool; injection A as <- _ _;
        cbn [r_primary] in P'; congruence.
    + destruct (r_disposed (c_sh c)); injection A as <- _ _; congruence.
    + subst o. exact ME.
    + injection A as <- _ _. congruence.
    + injection A as <- _ _. congruence.
  - intros j X. pose proof (rc_act_deps (c_sh c) l) as RD. rewrite A in RD. cbn [fst] in RD. rewrite RD in X.
    destruct l; try (apply KEEP, HD; exact X).
    + (* a handle is appended: never a parentless InnerDisposable *)
      destruct (Nat.lt_ge_cases j (length (r_deps (c_sh c)))) as [LT|GE].
      * rewrite nth_error_app1 in X by exact LT. apply KEEP, HD. exact X.
      * rewrite nth_error_app2 in X by exact GE. exfalso.
        destruct (j - length (r_deps (c_sh c)))%nat as [|[|m]]; cbn [nth_error] in X;
          [destruct (r_disposed (c_sh c))|..]; discriminate X.
    + (* the locked block of a dispose() of handle k *)
      destruct (nth_error (r_deps (c_sh c)) k) as [[[|]|b]|] eqn:NK; try (apply KEEP, HD; exact X);
        (destruct (nth_error_set_nth_cases _ _ _ _ _ _ X) as [[-> _]|[_ X2]]; [|apply KEEP, HD; exact X2]).
      * subst o. exact ME.
      * subst o. exact ME.
Qed.

Lemma rc_run_called_inv : forall progs sched, rc_called_inv (rc_run progs sched).
Proof.
  intros. unfold rc_run. apply (crun_invariant rc_start rc_act rc_called_inv rc_called_inv_step). split; [|split].
  - apply (cur_inv_run rc_start rc_act r_init progs []).
  - cbn. discriminate.
  - intros j X. cbn in X. destruct j; discriminate X.
Qed.

(* ONLY AFTER, ON CALLS, every interleaving, every moment: if the underlying item has been disposed then
   (1) some thread has started a dispose() call on the primary, (2) for every InnerDisposable handed out
   whose parent link is cleared some thread has started a dispose() call on that very handle, and
   (3) there is no InnerDisposable handed out whose parent link is still set *)
Theorem refcount_conc_only_after_calls : forall progs sched,
  let c := rc_run progs sched in
  1 <= und_acc (plain (c_log c)) ->
  (exists k t, nth_error (c_ths c) k = Some t /\ In RDispose (t_hist t)) /\
  (forall j, nth_error (r_deps (c_sh c)) j = Some (DInner false) ->
     exists k t, nth_error (c_ths c) k = Some t /\ In (RDispDep j) (t_hist t)) /\
  (forall j d, nth_error (r_deps (c_sh c)) j = Some d -> d <> DInner true).
Proof.
  intros progs sched c U. destruct (rc_run_called_inv progs sched) as [_ [HP HD]]. fold c in HP, HD.
  destruct (refcount_conc progs sched) as [_ [R _]]. fold c in R. destruct (R U) as [P [L0 _]].
  split; [apply HP, P|]. split; [exact HD|].
  intros j d X ->. exact (live_zero_nth _ j L0 X).
Qed.

(* ... hence, through the program text: a dispose() of the primary and of each such handle occurs in
   the program of some thread *)
Corollary refcount_conc_only_after_calls_progs : forall progs sched,
  let c := rc_run progs sched in
  1 <= und_acc (plain (c_log c)) ->
  (exists p, In p progs /\ In RDispose p) /\
  (forall j, nth_error (r_deps (c_sh c)) j = Some (DInner false) -> exists p, In p progs /\ In (RDispDep j) p).
Proof.
  intros progs sched c U. destruct (refcount_conc_only_after_calls progs sched U) as [[k [t [N I]]] [H _]].
  fold c in N, H.
  assert (forall x k t, nth_error (c_ths c) k = Some t -> In x (t_hist t) -> exists p, In p progs /\ In x p) as TXT.
  { intros x k0 t0 N0 I0. pose proof (hist_todo_progs rc_start rc_act r_init progs sched k0 t0 N0) as P.
    exists (rev (t_hist t0) ++ t_todo t0). split; [eapply nth_error_In; exact P|].
    apply in_or_app. left. apply -> in_rev. exact I0. }
  split; [apply (TXT _ k t N I)|]. intros j X. destruct (H j X) as [k1 [t1 [N1 I1]]]. apply (TXT _ k1 t1 N1 I1).
Qed.

(* ---- the release point, one thread ---------------------------------------------- *)
Local Close Scope Z_scope.
Local Open Scope nat_scope.

Lemma split_last_cases : forall A (ha hb h1 : list A) x o,
  ha ++ x :: hb = h1 ++ [o] ->
  (hb = [] /\ ha = h1 /\ x = o) \/ exists hb', hb = hb' ++ [o] /\ h1 = ha ++ x :: hb'.
Proof.
  intros A ha hb h1 x o H. destruct hb as [|y r].
  - left. apply app_inj_tail in H. destruct H as [-> ->]. auto.
  - right. destruct (@exists_last _ (y :: r)) as [hb' [a Hb]]; [discriminate|]. rewrite Hb in *.
    change (ha ++ x :: hb' ++ [a]) with (ha ++ (x :: hb') ++ [a]) in H. rewrite app_assoc in H.
    apply app_inj_tail in H. destruct H as [<- ->]. exists hb'. auto.
Qed.

(* RELEASE POINT: the call [o] that makes the underlying item disposed comes when dispose() has been
   called on the primary and on EVERY dependent handed out so far (o itself included) *)
Theorem rc_release_point : forall h1 o,
  u_disposes (log r_step r_init h1) = 0 ->
  u_disposes (log r_step r_init (h1 ++ [o])) = 1 ->
  existsb is_rdispose (h1 ++ [o]) = true /\
  forall k, k < gets (h1 ++ [o]) -> dispd k (h1 ++ [o]) = true.
Proof.
  intros h1 o U0 U1. destruct (rc_released_only_after (h1 ++ [o]) U1) as [P H]. split; [exact P|].
  intros k Hk. destruct (H k Hk) as [D|[ha [hb [E [_ Ua]]]]]; [exact D|]. exfalso. symmetry in E.
  destruct (split_last_cases _ ha hb h1 RGet o E) as [[_ [-> _]]|[hb' [_ ->]]].
  - congruence.
  - rewrite log_app in U0. unfold u_disposes in *. rewrite disposes_app in U0. lia.
Qed.
