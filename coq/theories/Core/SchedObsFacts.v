(* Facts about the transition system of ScheduledObserver / ObserveOnObserver (Core/SchedObs.v).
   Every theorem quantifies over ALL schedules, all per-thread programs, any number of producer and
   worker threads and every set of raising deliveries; proofs are inductive invariants. *)
From RxVerif Require Import Base.Prelude Core.Lts Core.LtsFacts Core.SchedObs.
Local Open Scope nat_scope.

Notation thread := (@thread so_loc so_op).
Notation config := (@config so_state so_loc so_op so_obs).

(* a position that contributes to [infl]/[opn] holds the token *)
Lemma tok0_infl : forall y : thread, ttok y = 0 -> tinfl y = [].
Proof. intros y. unfold ttok, tinfl, olift. destruct (t_cur y) as [[]|]; cbn; intros; try reflexivity; discriminate. Qed.
Lemma tok0_opn : forall y : thread, ttok y = 0 -> topn y = [].
Proof. intros y. unfold ttok, topn, olift. destruct (t_cur y) as [[]|]; cbn; intros; try reflexivity; discriminate. Qed.

Lemma others_zero : forall (ths : list thread) tid t,
  nsum ttok ths <= 1 -> nth_error ths tid = Some t -> ttok t = 1 ->
  forall j y, j <> tid -> nth_error ths j = Some y -> ttok y = 0.
Proof.
  intros ths tid t H N T j y Hj Ny.
  pose proof (nsum_two _ ttok ths tid j t y (not_eq_sym Hj) N Ny). lia.
Qed.

(* the stepping thread holds the only token: the lists are determined by it *)
Lemma fm_token : forall (g : thread -> list nat) (ths : list thread) tid t x,
  (forall y, ttok y = 0 -> g y = []) ->
  nsum ttok ths <= 1 -> nth_error ths tid = Some t -> ttok t = 1 ->
  flat_map g ths = g t /\ flat_map g (upd_nth tid x ths) = g x.
Proof.
  intros g ths tid t x Hg H N T. split.
  - apply (fm_single _ _ g ths tid t N). intros j y Hj Ny. apply Hg. exact (others_zero ths tid t H N T j y Hj Ny).
  - apply (fm_single _ _ g (upd_nth tid x ths) tid x (nth_upd_same _ _ _ _ _ N)).
    intros j y Hj Ny. rewrite nth_upd_other in Ny by exact Hj. apply Hg. exact (others_zero ths tid t H N T j y Hj Ny).
Qed.

(* ---- the position of the frame that steps --------------------------------- *)
Lemma frame_pos : forall (t : thread) l todo,
  next_frame so_start t = Some (l, todo) ->
  ttok t = tok l /\ tfl t = flc l /\ tinfl t = infl l /\ topn t = opn l.
Proof.
  intros t l todo F. destruct (next_frame_cur so_start t l todo F) as [[E _]|[E [o [_ ->]]]];
    unfold ttok, tfl, tinfl, topn; rewrite E; cbn [olift].
  - repeat split; reflexivity.
  - destruct o; repeat split; reflexivity.
Qed.

(* ---- folds over a growing log --------------------------------------------- *)
Lemma entered_app : forall a b, entered (a ++ b) = entered a ++ entered b.
Proof. intros. unfold entered. apply flat_map_app. Qed.
Lemma left_app : forall a b, left (a ++ b) = left a ++ left b.
Proof. intros. unfold left. apply flat_map_app. Qed.
Lemma sfold_app : forall a b, sfold (a ++ b) = fold_left sstep b (sfold a).
Proof. intros. unfold sfold. apply fold_left_app. Qed.
Lemma qfold_app : forall a b, qfold (a ++ b) = fold_left qstep b (qfold a).
Proof. intros. unfold qfold. apply fold_left_app. Qed.
Lemma qfold_none : forall l, fold_left qstep l None = None.
Proof. induction l as [|o t IH]; [reflexivity|]. cbn. exact IH. Qed.
Lemma sfold_none : forall l, fold_left sstep l None = None.
Proof. induction l as [|o t IH]; [reflexivity|]. cbn. exact IH. Qed.

Ltac split5 := split; [|split; [|split; [split|]]].

Section Facts.
Variable raises : nat -> bool.
Notation tstep := (@tstep so_state so_loc so_op so_obs so_start (so_act raises)).
Notation run := (@run so_state so_loc so_op so_obs so_start (so_act raises)).

Definition Inv (c : config) : Prop :=
  let s := c_sh c in let ths := c_ths c in let lg := untag (c_log c) in
  (so_pend s + nsum ttok ths + nsum tfl ths = (if so_acq s && negb (so_flt s) then 1 else 0)) /\
  (exists rest, so_recv s = entered lg ++ flat_map tinfl ths ++ rest /\ (so_flt s = false -> rest = so_q s)) /\
  (sfold lg = Some (flat_map topn ths) /\ left lg ++ flat_map topn ths = entered lg) /\
  (exists r, qfold lg = Some r /\
     (r = true -> so_pend s + nsum ttok ths = 0 /\ (so_flt s = true \/ 1 <= nsum tfl ths))).

Lemma inv_init : forall progs, Inv (init so_init progs).
Proof.
  intros progs. unfold Inv. cbn [init c_sh c_ths c_log so_init so_pend so_acq so_flt so_recv so_q untag map].
  assert (Z1 : nsum ttok (map (fun p => Thread (L:=so_loc) None p) progs) = 0).
  { apply nsum_zero. intros x Hx. apply in_map_iff in Hx. destruct Hx as [p [<- _]]. reflexivity. }
  assert (Z2 : nsum tfl (map (fun p => Thread (L:=so_loc) None p) progs) = 0).
  { apply nsum_zero. intros x Hx. apply in_map_iff in Hx. destruct Hx as [p [<- _]]. reflexivity. }
  assert (Z3 : flat_map tinfl (map (fun p => Thread (L:=so_loc) None p) progs) = []).
  { apply fm_nil. intros x Hx. apply in_map_iff in Hx. destruct Hx as [p [<- _]]. reflexivity. }
  assert (Z4 : flat_map topn (map (fun p => Thread (L:=so_loc) None p) progs) = []).
  { apply fm_nil. intros x Hx. apply in_map_iff in Hx. destruct Hx as [p [<- _]]. reflexivity. }
  rewrite Z1, Z2, Z3, Z4. cbn. repeat split.
  - exists []. split; [reflexivity|]. reflexivity.
  - exists false. split; [reflexivity|]. discriminate.
Qed.

Lemma inv_step : forall c tid, Inv c -> Inv (tstep c tid).
Proof.
  intros c tid I.
  destruct (tstep_cases so_start (so_act raises) c tid) as [E|(t & l & todo & s' & l' & out & N & F & A & E)];
    rewrite E; [exact I|]. clear E.
  destruct (frame_pos t l todo F) as (Pt & Pf & Pi & Po).
  destruct I as (I1 & (rest & I2 & I2q) & (I3 & I3l) & (r & I4 & I4r)).
  destruct c as [s ths lg]. cbn [c_sh c_ths c_log] in *.
  pose proof (nsum_upd _ ttok ths tid (Thread l' todo) t N) as ST.
  pose proof (nsum_upd _ tfl ths tid (Thread l' todo) t N) as SF.
  change (ttok (Thread l' todo)) with (olift tok 0 l') in ST.
  change (tfl (Thread l' todo)) with (olift flc 0 l') in SF.
  rewrite Pt in ST. rewrite Pf in SF.
  pose proof (nsum_ge _ ttok ths tid t N) as GT.
  pose proof (nsum_ge _ tfl ths tid t N) as GF.
  unfold Inv. cbn [c_sh c_ths c_log]. rewrite untag_app, untag_tag.
  rewrite entered_app, left_app, sfold_app, qfold_app, I3, I4.
  destruct s as [q acq flt pend recv]. cbn [so_pend so_acq so_flt so_recv so_q] in *.
  destruct l; cbn [so_act] in A.
  - (* LP_append *)
    injection A as <- <- <-. cbn [so_pend so_acq so_flt so_recv so_q].
    cbn [tok flc infl opn] in *.
    assert (T' : olift tok 0 (if ens then Some LE_lock else None) = 0) by (destruct ens; reflexivity).
    assert (F' : olift flc 0 (if ens then Some LE_lock else None) = 0) by (destruct ens; reflexivity).
    rewrite T' in ST. rewrite F' in SF.
    rewrite (fm_upd_same _ _ tinfl ths tid _ t N) by (rewrite Pi; destruct ens; reflexivity).
    rewrite (fm_upd_same _ _ topn ths tid _ t N) by (rewrite Po; destruct ens; reflexivity).
    cbn [entered left flat_map fold_left]. rewrite !app_nil_r.
    split5.
    + lia.
    + exists (rest ++ [i]). split; [rewrite I2, !app_assoc; reflexivity|]. intros H. rewrite (I2q H). reflexivity.
    + reflexivity.
    + exact I3l.
    + exists r. split; [reflexivity|]. intros H. destruct (I4r H) as [H1 H2]. split; [lia|]. destruct H2; [left; assumption|right; lia].
  - (* LE_lock *)
    cbn [tok flc infl opn] in *.
    assert (forall s0 l0, Some (s0, l0, @nil so_obs) = Some (s', l', out) ->
            s0 = s' /\ l0 = l' /\ out = []) as Hinj by (intros ? ? H; injection H as <- <- <-; auto).
    destruct flt, q as [|q0 qr]; try destruct acq.
    all: apply Hinj in A; destruct A as (<- & <- & ->); cbn [so_pend so_acq so_flt so_recv so_q].
    all: cbn [entered left flat_map fold_left]; rewrite ?app_nil_r.
    all: rewrite (fm_upd_same _ _ tinfl ths tid _ t N) by (rewrite Pi; reflexivity).
    all: rewrite (fm_upd_same _ _ topn ths tid _ t N) by (rewrite Po; reflexivity).
    all: cbn [olift tok flc] in ST, SF.
    all: split5; try exact I3l; try reflexivity; try (exists rest; split; [exact I2|exact I2q]).
    all: try (cbn [andb negb] in *; lia).
    all: try (exists r; split; [reflexivity|]; intros H; destruct (I4r H) as [H1 H2]; split; [lia|]; destruct H2; [left; assumption|right; lia]).
    (* the owner case: acq = false, not faulted *)
    exists r. split; [reflexivity|]. intros H. destruct (I4r H) as [H1 [H2|H2]]; [discriminate H2|].
    cbn [andb negb] in I1. lia.
  - (* LE_sched *)
    injection A as <- <- <-. cbn [so_pend so_acq so_flt so_recv so_q tok flc infl opn] in *.
    cbn [olift tok flc] in ST, SF.
    assert (NT : nsum ttok ths <= 1) by (destruct (acq && negb flt); lia).
    destruct (fm_token tinfl ths tid t (Thread None todo) tok0_infl NT N Pt) as [Ei Ei'].
    destruct (fm_token topn ths tid t (Thread None todo) tok0_opn NT N Pt) as [Eo Eo'].
    rewrite Ei', Eo'. rewrite Ei, Pi in I2. rewrite Eo, Po in I3l.
    cbn [entered left flat_map fold_left tinfl topn olift t_cur] in *. rewrite ?app_nil_r in *.
    split5.
    + lia.
    + exists rest. split; [exact I2|exact I2q].
    + rewrite Eo, Po. reflexivity.
    + exact I3l.
    + exists r. split; [reflexivity|]. intros H. destruct (I4r H) as [H1 H2]. lia.
  - (* LW_pop *)
    destruct pend as [|p]; [discriminate A|]. injection A as <- <- <-.
    cbn [so_pend so_acq so_flt so_recv so_q tok flc infl opn] in *.
    cbn [olift tok flc] in ST, SF.
    rewrite (fm_upd_same _ _ tinfl ths tid _ t N) by (rewrite Pi; reflexivity).
    rewrite (fm_upd_same _ _ topn ths tid _ t N) by (rewrite Po; reflexivity).
    cbn [entered left flat_map fold_left]. rewrite ?app_nil_r.
    split5.
    + lia.
    + exists rest. split; [exact I2|exact I2q].
    + reflexivity.
    + exact I3l.
    + exists r. split; [reflexivity|]. intros H. destruct (I4r H) as [H1 H2]. lia.
  - (* LR_lock *)
    cbn [tok flc infl opn] in *.
    assert (NT : nsum ttok ths <= 1) by (destruct (acq && negb flt); lia).
    assert (AF : acq = true /\ flt = false).
    { destruct acq, flt; cbn [andb negb] in I1; first [split; reflexivity | lia]. }
    destruct AF as [-> ->]. cbn [andb negb] in I1.
    destruct q as [|i0 qr]; injection A as <- <- <-; cbn [so_pend so_acq so_flt so_recv so_q].
    + (* release *)
      destruct (fm_token tinfl ths tid t (Thread (Some LW_pop) todo) tok0_infl NT N Pt) as [Ei Ei'].
      destruct (fm_token topn ths tid t (Thread (Some LW_pop) todo) tok0_opn NT N Pt) as [Eo Eo'].
      rewrite Ei', Eo'. rewrite Ei, Pi in I2. rewrite Eo, Po in I3l.
      cbn [olift tok flc] in ST, SF.
      cbn [entered left flat_map fold_left tinfl topn olift t_cur infl opn] in *. rewrite ?app_nil_r in *.
      split5.
      * cbn [andb]. lia.
      * exists rest. split; [exact I2|exact I2q].
      * rewrite Eo, Po. reflexivity.
      * exact I3l.
      * exists r. split; [reflexivity|]. intros H. destruct (I4r H) as [H1 H2]. lia.
    + (* pop *)
      destruct (fm_token tinfl ths tid t (Thread (Some (LR_enter i0)) todo) tok0_infl NT N Pt) as [Ei Ei'].
      destruct (fm_token topn ths tid t (Thread (Some (LR_enter i0)) todo) tok0_opn NT N Pt) as [Eo Eo'].
      rewrite Ei', Eo'. rewrite Ei, Pi in I2. rewrite Eo, Po in I3l.
      cbn [olift tok flc] in ST, SF.
      cbn [entered left flat_map fold_left tinfl topn olift t_cur infl opn] in *. rewrite ?app_nil_r in *.
      split5.
      * cbn [andb negb]. lia.
      * exists qr. split; [|reflexivity]. rewrite I2, (I2q eq_refl). reflexivity.
      * rewrite Eo, Po. reflexivity.
      * exact I3l.
      * exists r. split; [reflexivity|]. intros H. destruct (I4r H) as [H1 H2]. lia.
  - (* LR_enter *)
    injection A as <- <- <-. cbn [so_pend so_acq so_flt so_recv so_q tok flc infl opn] in *.
    assert (NT : nsum ttok ths <= 1) by (destruct (acq && negb flt); lia).
    destruct (fm_token tinfl ths tid t (Thread (Some (LR_exit i)) todo) tok0_infl NT N Pt) as [Ei Ei'].
    destruct (fm_token topn ths tid t (Thread (Some (LR_exit i)) todo) tok0_opn NT N Pt) as [Eo Eo'].
    rewrite Ei', Eo'. rewrite Ei, Pi in I2. rewrite Eo, Po in I3l.
    cbn [olift tok flc] in ST, SF.
    rewrite Eo, Po.
    cbn [entered left flat_map fold_left tinfl topn olift t_cur infl opn sstep qstep app] in *. rewrite ?app_nil_r in *.
    destruct r.
    { destruct (I4r eq_refl) as [H1 _]. lia. }
    split5.
    + lia.
    + exists rest. split; [|exact I2q]. rewrite I2, <- app_assoc. reflexivity.
    + reflexivity.
    + rewrite I3l. reflexivity.
    + exists false. split; [reflexivity|]. discriminate.
  - (* LR_exit *)
    cbn [tok flc infl opn] in *.
    assert (NT : nsum ttok ths <= 1) by (destruct (acq && negb flt); lia).
    destruct (raises i); injection A as <- <- <-; cbn [so_pend so_acq so_flt so_recv so_q].
    + (* raised *)
      destruct (fm_token tinfl ths tid t (Thread (Some LR_fault) todo) tok0_infl NT N Pt) as [Ei Ei'].
      destruct (fm_token topn ths tid t (Thread (Some LR_fault) todo) tok0_opn NT N Pt) as [Eo Eo'].
      rewrite Ei', Eo'. rewrite Ei, Pi in I2. rewrite Eo, Po in I3l.
      cbn [olift tok flc] in ST, SF.
      rewrite Eo, Po.
      cbn [entered left flat_map fold_left tinfl topn olift t_cur infl opn sstep qstep app] in *. rewrite ?app_nil_r in *.
      rewrite Nat.eqb_refl.
      split5.
      * lia.
      * exists rest. split; [exact I2|exact I2q].
      * reflexivity.
      * exact I3l.
      * exists true. split; [reflexivity|]. intros _. split; [|right; lia].
        destruct (acq && negb flt); lia.
    + (* returned *)
      destruct (fm_token tinfl ths tid t (Thread (Some LR_resched) todo) tok0_infl NT N Pt) as [Ei Ei'].
      destruct (fm_token topn ths tid t (Thread (Some LR_resched) todo) tok0_opn NT N Pt) as [Eo Eo'].
      rewrite Ei', Eo'. rewrite Ei, Pi in I2. rewrite Eo, Po in I3l.
      cbn [olift tok flc] in ST, SF.
      rewrite Eo, Po.
      cbn [entered left flat_map fold_left tinfl topn olift t_cur infl opn sstep qstep app] in *. rewrite ?app_nil_r in *.
      rewrite Nat.eqb_refl.
      split5.
      * lia.
      * exists rest. split; [exact I2|exact I2q].
      * reflexivity.
      * exact I3l.
      * exists r. split; [reflexivity|]. intros H. destruct (I4r H) as [H1 H2]. lia.
  - (* LR_fault *)
    injection A as <- <- <-. cbn [so_pend so_acq so_flt so_recv so_q tok flc infl opn] in *.
    cbn [olift tok flc] in ST, SF.
    rewrite (fm_upd_same _ _ tinfl ths tid _ t N) by (rewrite Pi; reflexivity).
    rewrite (fm_upd_same _ _ topn ths tid _ t N) by (rewrite Po; reflexivity).
    cbn [entered left flat_map fold_left]. rewrite ?app_nil_r.
    assert (AF : acq = true /\ flt = false).
    { destruct acq, flt; cbn [andb negb] in I1; first [split; reflexivity | lia]. }
    destruct AF as [-> ->]. cbn [andb negb] in *.
    split5.
    + lia.
    + exists rest. split; [exact I2|]. discriminate.
    + reflexivity.
    + exact I3l.
    + exists r. split; [reflexivity|]. intros H. destruct (I4r H) as [H1 H2]. split; [lia|left; reflexivity].
  - (* LR_resched *)
    injection A as <- <- <-. cbn [so_pend so_acq so_flt so_recv so_q tok flc infl opn] in *.
    assert (NT : nsum ttok ths <= 1) by (destruct (acq && negb flt); lia).
    destruct (fm_token tinfl ths tid t (Thread (Some LW_pop) todo) tok0_infl NT N Pt) as [Ei Ei'].
    destruct (fm_token topn ths tid t (Thread (Some LW_pop) todo) tok0_opn NT N Pt) as [Eo Eo'].
    rewrite Ei', Eo'. rewrite Ei, Pi in I2. rewrite Eo, Po in I3l.
    cbn [olift tok flc] in ST, SF.
    cbn [entered left flat_map fold_left tinfl topn olift t_cur infl opn] in *. rewrite ?app_nil_r in *.
    split5.
    + lia.
    + exists rest. split; [exact I2|exact I2q].
    + rewrite Eo, Po. reflexivity.
    + exact I3l.
    + exists r. split; [reflexivity|]. intros H. destruct (I4r H) as [H1 H2]. lia.
Qed.
End Facts.

(* ======================================================================= *)
Section Wake.
Variable raises : nat -> bool.
Notation tstep := (@tstep so_state so_loc so_op so_obs so_start (so_act raises)).

Definition tcov (t : thread) : bool :=
  covered (t_todo t) &&
  match t_cur t with Some (LP_append _ false) => has_ens (t_todo t) | _ => true end.

Definition InvW (c : config) : Prop :=
  (forall tid t, nth_error (c_ths c) tid = Some t -> tcov t = true) /\
  (so_q (c_sh c) <> [] -> so_flt (c_sh c) = false ->
     so_acq (c_sh c) = true \/ exists tid t, nth_error (c_ths c) tid = Some t /\ will_ensure t = true).

Lemma invw_init : forall progs, forallb covered progs = true -> InvW (init so_init progs).
Proof.
  intros progs H. split.
  - intros tid t N. cbn [init c_ths] in N. apply nth_error_In in N. apply in_map_iff in N.
    destruct N as [p [<- Hp]]. unfold tcov. cbn [t_cur t_todo]. rewrite andb_true_r.
    rewrite forallb_forall in H. apply H, Hp.
  - cbn. intros H0. exfalso. apply H0. reflexivity.
Qed.

(* the frame that steps: what is known about the rest of its program *)
Lemma frame_cov : forall (t : thread) l todo,
  next_frame so_start t = Some (l, todo) -> tcov t = true ->
  covered todo = true /\ (forall i, l = LP_append i false -> has_ens todo = true).
Proof.
  intros t l todo F C. unfold tcov in C. apply andb_true_iff in C. destruct C as [C1 C2].
  destruct (next_frame_cur so_start t l todo F) as [[E ->]|[E [o [Et ->]]]].
  - split; [exact C1|]. intros i ->. rewrite E in C2. exact C2.
  - rewrite Et in C1. destruct o; cbn [covered so_start] in *.
    + split; [exact C1|]. intros i0 H; discriminate H.
    + apply andb_true_iff in C1. destruct C1 as [C3 C4]. split; [exact C4|]. intros _ _. exact C3.
    + split; [exact C1|]. intros i0 H; discriminate H.
    + split; [exact C1|]. intros i0 H; discriminate H.
Qed.

Lemma invw_step : forall c tid, Inv c -> InvW c -> InvW (tstep c tid).
Proof.
  intros c tid I [W1 W2].
  destruct (tstep_cases so_start (so_act raises) c tid) as [E|(t & l & todo & s' & l' & out & N & F & A & E)];
    rewrite E; [split; assumption|]. clear E.
  destruct (frame_pos t l todo F) as (Pt & Pf & _ & _).
  destruct (frame_cov t l todo F (W1 tid t N)) as [C1 C2].
  destruct I as (I1 & _ & _ & _).
  destruct c as [s ths lg]. cbn [c_sh c_ths c_log] in *.
  pose proof (nsum_ge _ ttok ths tid t N) as GT. rewrite Pt in GT.
  pose proof (nsum_ge _ tfl ths tid t N) as GF. rewrite Pf in GF.
  destruct s as [q acq flt pend recv]. cbn [so_pend so_acq so_flt so_recv so_q] in *.
  assert (TK : 1 <= pend + tok l + flc l -> acq = true /\ flt = false).
  { intros H. destruct acq, flt; cbn [andb negb] in I1; first [split; reflexivity | lia]. }
  split.
  - (* coverage of every thread *)
    intros j y Ny. cbn [c_ths] in Ny. destruct (Nat.eq_dec j tid) as [->|Hj].
    + rewrite (nth_upd_same _ _ _ _ _ N) in Ny. injection Ny as <-. unfold tcov. cbn [t_cur t_todo].
      rewrite C1. cbn [andb].
      destruct l; cbn [so_act] in A.
      * injection A as <- <- <-. destruct ens; reflexivity.
      * destruct flt, q, acq; injection A as <- <- <-; reflexivity.
      * injection A as <- <- <-. reflexivity.
      * destruct pend; [discriminate A|]. injection A as <- <- <-. reflexivity.
      * destruct q; injection A as <- <- <-; reflexivity.
      * injection A as <- <- <-. reflexivity.
      * destruct (raises i); injection A as <- <- <-; reflexivity.
      * injection A as <- <- <-. reflexivity.
      * injection A as <- <- <-. reflexivity.
    + rewrite nth_upd_other in Ny by exact Hj. exact (W1 j y Ny).
  - (* wake-up *)
    cbn [c_sh c_ths]. intros Hq Hf.
    destruct l; cbn [so_act tok flc] in *.
    + (* append: this thread will run ensure_active *)
      injection A as <- <- <-. right. exists tid, (Thread (if ens then Some LE_lock else None) todo).
      split; [exact (nth_upd_same _ _ _ _ _ N)|]. unfold will_ensure. cbn [t_cur t_todo].
      destruct ens; [reflexivity|]. exact (C2 i eq_refl).
    + (* the locked block of ensure_active *)
      destruct flt, q as [|q0 qr], acq; injection A as <- <- <-; cbn [so_q so_flt so_acq] in *;
        first [discriminate Hf | (exfalso; apply Hq; reflexivity) | (left; reflexivity)].
    + injection A as <- <- <-. cbn [so_q so_flt so_acq] in *. left. apply TK. lia.
    + destruct pend as [|p]; [discriminate A|]. injection A as <- <- <-. cbn [so_q so_flt so_acq] in *. left. apply TK. lia.
    + destruct q as [|i0 qr]; injection A as <- <- <-; cbn [so_q so_flt so_acq] in *.
      * exfalso. apply Hq. reflexivity.
      * left. apply TK. lia.
    + injection A as <- <- <-. cbn [so_q so_flt so_acq] in *. left. apply TK. lia.
    + destruct (raises i); injection A as <- <- <-; cbn [so_q so_flt so_acq] in *; left; apply TK; lia.
    + injection A as <- <- <-. cbn [so_q so_flt so_acq] in *. discriminate Hf.
    + injection A as <- <- <-. cbn [so_q so_flt so_acq] in *. left. apply TK. lia.
Qed.
End Wake.

(* ======================================================================= *)
(* the theorems: all programs, all schedules, any number of threads          *)
Section Theorems.
Variable raises : nat -> bool.
Notation run := (@run so_state so_loc so_op so_obs so_start (so_act raises)).

Lemma so_inv : forall progs sched, Inv (so_run raises progs sched).
Proof.
  intros progs sched. unfold so_run.
  apply (run_invariant so_start (so_act raises) Inv (inv_step raises)), inv_init.
Qed.

Lemma so_invw : forall progs sched, forallb covered progs = true ->
  Inv (so_run raises progs sched) /\ InvW (so_run raises progs sched).
Proof.
  intros progs sched H. unfold so_run.
  apply (run_invariant so_start (so_act raises) (fun c => Inv c /\ InvW c)).
  - intros c tid [I W]. split; [apply inv_step, I|apply invw_step; assumption].
  - split; [apply inv_init|apply invw_init, H].
Qed.

(* at most one `run` is pending, being scheduled or active; exactly one iff is_acquired and not faulted *)
Theorem so_one_runner : forall progs sched,
  let c := so_run raises progs sched in
  runs_alive c = (if so_acq (c_sh c) && negb (so_flt (c_sh c)) then 1 else 0).
Proof. intros progs sched c. destruct (so_inv progs sched) as (I1 & _). exact I1. Qed.

(* what has been delivered is a prefix of what has been received: every received notification is
   delivered at most once and in the order received; the rest is the one popped and not yet
   delivered followed by the queue *)
Theorem so_delivered_prefix : forall progs sched,
  let c := so_run raises progs sched in
  exists rest, so_recv (c_sh c) = entered (untag (c_log c)) ++ rest /\
               (so_flt (c_sh c) = false -> rest = flat_map tinfl (c_ths c) ++ so_q (c_sh c)).
Proof.
  intros progs sched c. destruct (so_inv progs sched) as (_ & (rest & I2 & I2q) & _).
  exists (flat_map tinfl (c_ths c) ++ rest). split; [exact I2|]. intros H. rewrite (I2q H). reflexivity.
Qed.

(* never two deliveries at once (log) *)
Theorem so_serial : forall progs sched,
  serial (untag (c_log (so_run raises progs sched))) = true.
Proof.
  intros progs sched. destruct (so_inv progs sched) as (_ & _ & (I3 & _) & _). unfold serial. rewrite I3. reflexivity.
Qed.

(* never two deliveries at once (state): two threads inside the downstream observer are the same thread *)
Theorem so_serial_state : forall progs sched i j ti tj a b,
  let c := so_run raises progs sched in
  nth_error (c_ths c) i = Some ti -> nth_error (c_ths c) j = Some tj ->
  t_cur ti = Some (LR_exit a) -> t_cur tj = Some (LR_exit b) -> i = j.
Proof.
  intros progs sched i j ti tj a b c Ni Nj Ci Cj. destruct (so_inv progs sched) as (I1 & _).
  destruct (Nat.eq_dec i j) as [E|E]; [exact E|exfalso].
  pose proof (nsum_two _ ttok (c_ths c) i j ti tj E Ni Nj) as H.
  unfold ttok in H at 1 2. rewrite Ci, Cj in H. cbn [olift tok] in H.
  fold c in I1. destruct (so_acq (c_sh c) && negb (so_flt (c_sh c))); lia.
Qed.

(* every delivery that was entered and is not open has returned or raised, in the same order *)
Theorem so_deliveries_complete : forall progs sched,
  let c := so_run raises progs sched in
  left (untag (c_log c)) ++ flat_map topn (c_ths c) = entered (untag (c_log c)).
Proof. intros progs sched c. destruct (so_inv progs sched) as (_ & _ & (_ & I3l) & _). exact I3l. Qed.

(* no lost wake-up: a non-empty queue of a non-faulted observer always has a runner (pending,
   being scheduled or active) or a producer that is about to execute ensure_active *)
Theorem so_no_lost_wakeup : forall progs sched,
  forallb covered progs = true ->
  let c := so_run raises progs sched in
  so_q (c_sh c) <> [] -> so_flt (c_sh c) = false ->
  runs_alive c = 1 \/ exists tid t, nth_error (c_ths c) tid = Some t /\ will_ensure t = true.
Proof.
  intros progs sched H c Hq Hf. destruct (so_invw progs sched H) as [(I1 & _) [_ W2]]. fold c in I1, W2.
  destruct (W2 Hq Hf) as [Ha|Hw]; [left|right; exact Hw].
  unfold runs_alive. rewrite I1, Ha, Hf. reflexivity.
Qed.

Lemma idle_no_token : forall t : thread, idle t = true ->
  ttok t = 0 /\ tfl t = 0 /\ tinfl t = [] /\ topn t = [] /\ will_ensure t = false.
Proof.
  intros t H. unfold idle in H. unfold ttok, tfl, tinfl, topn, will_ensure.
  destruct (t_cur t) as [[]|]; try discriminate H; cbn; repeat split; try reflexivity.
  destruct (t_todo t); [reflexivity|discriminate H].
Qed.

(* at quiescence (every producer call returned, the scheduler has nothing pending and no action
   running) of a non-faulted observer nothing received remains undelivered: the delivered
   sequence IS the received one, every delivery has returned, the queue is empty *)
Theorem so_quiescent_all_delivered : forall progs sched,
  forallb covered progs = true ->
  let c := so_run raises progs sched in
  quiescent c = true -> so_flt (c_sh c) = false ->
  entered (untag (c_log c)) = so_recv (c_sh c) /\
  left (untag (c_log c)) = so_recv (c_sh c) /\
  so_q (c_sh c) = [] /\ so_acq (c_sh c) = false.
Proof.
  intros progs sched H c Q Hf.
  destruct (so_invw progs sched H) as [(I1 & (rest & I2 & I2q) & (_ & I3l) & _) [_ W2]]. fold c in I1, I2, I2q, I3l, W2.
  unfold quiescent in Q. apply andb_true_iff in Q. destruct Q as [Q1 Q2]. apply Nat.eqb_eq in Q2.
  rewrite forallb_forall in Q1.
  assert (Z1 : nsum ttok (c_ths c) = 0) by (apply nsum_zero; intros x Hx; apply (idle_no_token x (Q1 x Hx))).
  assert (Z2 : nsum tfl (c_ths c) = 0) by (apply nsum_zero; intros x Hx; apply (idle_no_token x (Q1 x Hx))).
  assert (Z3 : flat_map tinfl (c_ths c) = []) by (apply fm_nil; intros x Hx; apply (idle_no_token x (Q1 x Hx))).
  assert (Z4 : flat_map topn (c_ths c) = []) by (apply fm_nil; intros x Hx; apply (idle_no_token x (Q1 x Hx))).
  rewrite Q2, Z1, Z2, Hf in I1. cbn [negb] in I1. rewrite andb_true_r in I1.
  assert (Ha : so_acq (c_sh c) = false) by (destruct (so_acq (c_sh c)); [discriminate I1|reflexivity]).
  assert (Hq : so_q (c_sh c) = []).
  { destruct (so_q (c_sh c)) as [|x r] eqn:Eq; [reflexivity|exfalso].
    destruct W2 as [W|[tid [t [N W]]]]; [discriminate|exact Hf|congruence|].
    apply nth_error_In in N. destruct (idle_no_token t (Q1 t N)) as (_ & _ & _ & _ & W'). congruence. }
  rewrite Z3, (I2q Hf), Hq in I2. cbn [app] in I2. rewrite app_nil_r in I2.
  rewrite Z4, app_nil_r in I3l.
  repeat split; congruence.
Qed.

(* after a delivery raised nothing further is delivered *)
Theorem so_fault_stops : forall progs sched,
  quiet_after_raise (untag (c_log (so_run raises progs sched))) = true.
Proof.
  intros progs sched. destruct (so_inv progs sched) as (_ & _ & _ & (r & I4 & _)).
  unfold quiet_after_raise. rewrite I4. reflexivity.
Qed.

Lemma quiet_after : forall b r, fold_left qstep b (Some true) = Some r -> entered b = [].
Proof.
  induction b as [|o t IH]; intros r H; [reflexivity|].
  destruct o; cbn [fold_left qstep] in H; try (cbn [entered flat_map app]; fold (entered t); eapply IH; exact H).
  rewrite qfold_none in H. discriminate H.
Qed.

(* the same, spelled out: no OEnter follows an ORaise in the log *)
Theorem so_fault_stops_explicit : forall progs sched l1 t i l2,
  c_log (so_run raises progs sched) = l1 ++ (t, ORaise i) :: l2 -> entered (untag l2) = [].
Proof.
  intros progs sched l1 t i l2 E. pose proof (so_fault_stops progs sched) as Q.
  unfold quiet_after_raise in Q. rewrite E, untag_app in Q. cbn [untag map snd] in Q. fold (untag l2) in Q.
  rewrite qfold_app in Q. cbn [fold_left] in Q.
  destruct (qfold (untag l1)) as [r1|].
  - cbn [qstep] in Q. destruct (fold_left qstep (untag l2) (Some true)) as [r|] eqn:F; [|discriminate Q].
    exact (quiet_after _ r F).
  - cbn [qstep] in Q. rewrite qfold_none in Q. discriminate Q.
Qed.


(* ---- one producer: what was received is what the producer sent --------------- *)
Definition pend_ids (t : thread) : list nat :=
  match t_cur t with Some (LP_append i _) => [i] | _ => [] end ++ ids_of (t_todo t).

Lemma pend_ids_frame : forall (t : thread) l todo,
  next_frame so_start t = Some (l, todo) ->
  pend_ids t = match l with LP_append i _ => [i] | _ => [] end ++ ids_of todo.
Proof.
  intros t l todo F. unfold pend_ids.
  destruct (next_frame_cur so_start t l todo F) as [[E ->]|[E [o [Et ->]]]]; rewrite E.
  - reflexivity.
  - rewrite Et. destruct o; reflexivity.
Qed.

Definition InvP (p0 : list so_op) (c : config) : Prop :=
  (exists t0, nth_error (c_ths c) 0 = Some t0 /\ so_recv (c_sh c) ++ pend_ids t0 = ids_of p0) /\
  (forall j t, j <> 0 -> nth_error (c_ths c) j = Some t -> pend_ids t = []).

Lemma so_act_recv : forall tid s l s' l' out,
  so_act raises tid s l = Some (s', l', out) ->
  so_recv s' = so_recv s ++ match l with LP_append i _ => [i] | _ => [] end /\
  match l' with Some (LP_append _ _) => False | _ => True end.
Proof.
  intros tid [q acq flt pend recv] l s' l' out A. destruct l; cbn [so_act] in A.
  - injection A as <- <- <-. split; [reflexivity|]. destruct ens; exact I.
  - destruct flt, q, acq; injection A as <- <- <-; cbn [so_recv]; rewrite app_nil_r; split; trivial.
  - injection A as <- <- <-. cbn [so_recv]. rewrite app_nil_r. split; trivial.
  - destruct pend; [discriminate A|]. injection A as <- <- <-. cbn [so_recv]. rewrite app_nil_r. split; trivial.
  - destruct q; injection A as <- <- <-; cbn [so_recv]; rewrite app_nil_r; split; trivial.
  - injection A as <- <- <-. cbn [so_recv]. rewrite app_nil_r. split; trivial.
  - destruct (raises i); injection A as <- <- <-; cbn [so_recv]; rewrite app_nil_r; split; trivial.
  - injection A as <- <- <-. cbn [so_recv]. rewrite app_nil_r. split; trivial.
  - injection A as <- <- <-. cbn [so_recv]. rewrite app_nil_r. split; trivial.
Qed.

Lemma invp_step : forall p0 c tid, InvP p0 c ->
  InvP p0 (@tstep so_state so_loc so_op so_obs so_start (so_act raises) c tid).
Proof.
  intros p0 c tid [[t0 [N0 R0]] Ho].
  destruct (tstep_cases so_start (so_act raises) c tid) as [E|(t & l & todo & s' & l' & out & N & F & A & E)];
    rewrite E; [split; [exists t0; split; assumption|exact Ho]|]. clear E.
  destruct (so_act_recv _ _ _ _ _ _ A) as [Er Hl]. pose proof (pend_ids_frame t l todo F) as Ep.
  assert (En : pend_ids (Thread l' todo) = ids_of todo).
  { unfold pend_ids. cbn [t_cur t_todo]. destruct l' as [[]|]; try reflexivity. destruct Hl. }
  unfold InvP. cbn [c_sh c_ths]. split.
  - destruct (Nat.eq_dec tid 0) as [->|Ht].
    + exists (Thread l' todo). split; [exact (nth_upd_same _ _ _ _ _ N)|].
      rewrite N0 in N. injection N as <-. rewrite En, Er, <- R0, Ep, <- app_assoc. reflexivity.
    + exists t0. split; [rewrite nth_upd_other by congruence; exact N0|].
      rewrite Er. pose proof (Ho tid t Ht N) as Z. rewrite Ep in Z. apply app_eq_nil in Z. destruct Z as [Z _].
      rewrite Z, app_nil_r. exact R0.
  - intros j y Hj Ny. destruct (Nat.eq_dec j tid) as [->|Hjt].
    + rewrite (nth_upd_same _ _ _ _ _ N) in Ny. injection Ny as <-. rewrite En.
      pose proof (Ho tid t Hj N) as Z. rewrite Ep in Z. apply app_eq_nil in Z. exact (proj2 Z).
    + rewrite nth_upd_other in Ny by exact Hjt. exact (Ho j y Hj Ny).
Qed.

Lemma covered_producer : forall ids, covered (producer ids) = true.
Proof. induction ids as [|i r IH]; [reflexivity|exact IH]. Qed.
Lemma ids_of_producer : forall ids, ids_of (producer ids) = ids.
Proof. induction ids as [|i r IH]; [reflexivity|]. cbn. f_equal. exact IH. Qed.

Lemma so_invp : forall p0 ws sched,
  (forall w, In w ws -> ids_of w = []) -> InvP p0 (so_run raises (p0 :: ws) sched).
Proof.
  intros p0 ws sched H. unfold so_run.
  apply (run_invariant so_start (so_act raises) (InvP p0) (invp_step p0)). split.
  - exists (Thread None p0). split; reflexivity.
  - intros j t Hj N. destruct j as [|j']; [congruence|]. cbn [init c_ths map nth_error] in N.
    apply nth_error_In in N. apply in_map_iff in N. destruct N as [w [<- Hw]]. unfold pend_ids. cbn. apply H, Hw.
Qed.

(* a thread running [producer ids] is never in the worker loop *)
Definition prod_pos (t : thread) : Prop :=
  match t_cur t with Some (LP_append _ true) | Some LE_lock | Some LE_sched | None => True | _ => False end /\
  exists k, t_todo t = producer k.

Lemma producer_positions : forall ids ws sched t,
  nth_error (c_ths (so_run raises (producer ids :: ws) sched)) 0 = Some t -> prod_pos t.
Proof.
  intros ids ws sched. unfold so_run.
  apply (run_invariant so_start (so_act raises)
           (fun c0 => forall t, nth_error (c_ths c0) 0 = Some t -> prod_pos t)).
  - intros c0 tid0 IH t Nt.
    destruct (tstep_cases so_start (so_act raises) c0 tid0) as [E|(t1 & l & todo & s' & l' & out & N & F & A & E)];
      rewrite E in Nt; [exact (IH t Nt)|]. clear E. cbn [c_ths] in Nt.
    destruct (Nat.eq_dec tid0 0) as [->|Hn].
    + rewrite (nth_upd_same _ _ _ _ _ N) in Nt. injection Nt as <-. unfold prod_pos. cbn [t_cur t_todo].
      destruct (IH t1 N) as [P1 [k Pk]]. destruct (c_sh c0) as [q acq flt pend recv].
      destruct (next_frame_cur so_start t1 l todo F) as [[Ec1 ->]|[Ec1 [o [Et ->]]]].
      * rewrite Ec1 in P1. split; [|exists k; exact Pk].
        destruct l as [i ens| | | | | | | |]; try (exfalso; exact P1); cbn [so_act] in A.
        -- injection A as <- <- <-. destruct ens; exact I.
        -- destruct flt, q, acq; injection A as <- <- <-; exact I.
        -- injection A as <- <- <-. exact I.
      * rewrite Pk in Et. destruct k as [|k0 kr]; [discriminate Et|]. cbn [producer map] in Et.
        injection Et as <- <-. split; [|exists kr; reflexivity].
        cbn [so_start so_act] in A. injection A as <- <- <-. exact I.
    + rewrite nth_upd_other in Nt by congruence. exact (IH t Nt).
  - intros t Nt. cbn [init c_ths map nth_error] in Nt. injection Nt as <-. split; [exact I|exists ids; reflexivity].
Qed.

(* observe_on with ONE producer thread sending [ids] (already cut after the first terminal
   notification) and any number of scheduler workers: at every moment the delivered sequence is a
   prefix of [ids]; at quiescence without a fault it is [ids], every delivery has returned *)
Theorem so_observe_on : forall ids nworkers sched,
  let c := so_run raises (producer ids :: repeat [OWork] nworkers) sched in
  (exists rest, ids = entered (untag (c_log c)) ++ rest) /\
  (quiescent c = true -> so_flt (c_sh c) = false ->
     entered (untag (c_log c)) = ids /\ left (untag (c_log c)) = ids).
Proof.
  intros ids nw sched c.
  assert (Hw : forall w, In w (repeat [OWork] nw) -> ids_of w = []).
  { intros w Hw. apply repeat_spec in Hw. subst w. reflexivity. }
  destruct (so_invp (producer ids) (repeat [OWork] nw) sched Hw) as [[t0 [N0 R0]] _]. fold c in N0, R0.
  rewrite ids_of_producer in R0.
  assert (Hc : forallb covered (producer ids :: repeat [OWork] nw) = true).
  { cbn [forallb]. rewrite covered_producer. cbn [andb]. apply forallb_forall. intros w Hw'.
    apply repeat_spec in Hw'. subst w. reflexivity. }
  split.
  - destruct (so_delivered_prefix (producer ids :: repeat [OWork] nw) sched) as [rest [E _]]. fold c in E.
    exists (rest ++ pend_ids t0). rewrite app_assoc, <- E. symmetry. exact R0.
  - intros Q Hf.
    destruct (so_quiescent_all_delivered _ sched Hc Q Hf) as (E1 & E2 & _). fold c in E1, E2.
    assert (Z : pend_ids t0 = []).
    { unfold quiescent in Q. apply andb_true_iff in Q. destruct Q as [Q1 _]. rewrite forallb_forall in Q1.
      pose proof (Q1 t0 (nth_error_In _ _ N0)) as I0. unfold idle in I0. unfold pend_ids.
      destruct (producer_positions ids _ sched t0 N0) as [P1 _].
      destruct (t_cur t0) as [[]|]; try discriminate I0; try (exfalso; exact P1).
      destruct (t_todo t0); [reflexivity|discriminate I0]. }
    rewrite Z, app_nil_r in R0. split; congruence.
Qed.
End Theorems.
