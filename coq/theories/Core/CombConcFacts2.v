(* C43, additions: (1) the grammar conjunct of the C43 statements holds for EVERY step function --
   it is a property of the subscriber's AutoDetachObserver as modelled (ONE atomic test-and-set in
   [fin]), not evidence about the operators; (2) amb: every downstream call ever made comes from
   ONE thread, the chosen side, and the choice is written once -- so the output of an amb is a
   single-thread serial source (what an enclosing amb / n-ary amb(a, b, c) assumes of its sources). *)
From RxVerif Require Import Base.Prelude Core.Lts Core.LtsFacts Core.CombConc Core.CombConcFacts.
Local Open Scope nat_scope.

Theorem grammar_is_wrapper : forall (S : Type) (ostep : nat -> S -> pos -> option (S * option pos))
    (st0 : S) (progs : list (list sev)) (sched : list nat),
  gram (users (untag (c_log (grun ostep st0 progs sched)))) = true.
Proof.
  intros S ostep st0 progs sched.
  assert (H : GInv (grun ostep st0 progs sched)).
  { unfold grun. apply (run_invariant start (gact ostep) GInv); [apply ginv_step|apply ginv_init]. }
  exact (proj1 H).
Qed.

(* ---- amb ---- *)
Notation amconfig := (@config (gsh amst) pos sev cobs).

(* the choice, once made, is never changed *)
Lemma am_choice_stable : forall tid (s : gsh amst) l s' l' out c,
  gact am_step tid s l = Some (s', l', out) -> am_choice (g_st s) = Some c -> am_choice (g_st s') = Some c.
Proof.
  intros tid s l s' l' out c A Ho. destruct (gact_inv _ _ _ _ _ _ _ A) as (st' & Os & Es & _).
  rewrite Es. clear A Es. unfold am_step in Os. destruct (g_st s) as [ch gate].
  cbn [am_choice] in Ho. subst ch.
  wf_tac Os; injection Os as <- <-; reflexivity.
Qed.

(* a step that reaches a position inside the downstream observer is made by the chosen side *)
Lemma am_inside_chosen : forall tid (s : gsh amst) l s' h d k out,
  gact am_step tid s l = Some (s', Some (PI h d k), out) -> am_choice (g_st s') = Some tid.
Proof.
  intros tid s l s' h d k out A. destruct (gact_inv _ _ _ _ _ _ _ A) as (st' & Os & Es & _).
  rewrite Es. clear A Es. unfold am_step in Os. destruct (g_st s) as [ch gate].
  destruct l as [e| |k0 a|k0 a|h0 a|h0 d0 k1].
  - destruct e; try discriminate Os; destruct (getb gate tid); discriminate Os.
  - discriminate Os.
  - destruct k0; [|discriminate Os]. destruct ch as [c|]; [|discriminate Os].
    destruct (Nat.eqb c tid) eqn:Ec; [|discriminate Os]. injection Os as <- _ _ _.
    cbn [am_choice]. f_equal. apply Nat.eqb_eq, Ec.
  - destruct k0; [|discriminate Os]. destruct ch; discriminate Os.
  - discriminate Os.
  - discriminate Os.
Qed.

Lemma fin_no_enter : forall dn d0 d, ~ In (CEnter d) (snd (fin dn d0)).
Proof. intros dn d0 d. unfold fin. destruct dn; cbn; intros H; repeat (destruct H as [H|H]; [discriminate H|]); exact H. Qed.

(* a step that logs an entry into the downstream observer is made by the chosen side *)
Lemma am_enter_chosen : forall tid (s : gsh amst) l s' l' out d,
  gact am_step tid s l = Some (s', l', out) -> In (CEnter d) out -> am_choice (g_st s') = Some tid.
Proof.
  intros tid s l s' l' out d A Hin.
  destruct (gact_inv _ _ _ _ _ _ _ A) as (st' & _ & _ & _ & _ & _ & Eout).
  assert (Hn : exists h d' k, l' = Some (PI h d' k)).
  { rewrite Eout in Hin. apply in_app_or in Hin. destruct Hin as [Hin|Hin].
    { exfalso. destruct l; try (destruct Hin; fail). exact (fin_no_enter _ _ _ Hin). }
    destruct l' as [[| | | | |h d' k]|]; try (destruct Hin; fail). eauto. }
  destruct Hn as (h & d' & k & ->).
  exact (am_inside_chosen tid s l s' h d' k out A).
Qed.

Definition AmInv (c : amconfig) : Prop :=
  forall tid d, In (tid, CEnter d) (c_log c) -> am_choice (g_st (c_sh c)) = Some tid.

Lemma aminv_step : forall c tid, AmInv c -> AmInv (tstep start (gact am_step) c tid).
Proof.
  intros c tid I.
  destruct (tstep_cases start (gact am_step) c tid) as [E|(t & l & todo & s' & nxt & out & N & F & A & E)];
    rewrite E; [exact I|]. clear E.
  intros j d Hin. cbn [c_log c_sh] in *. apply in_app_or in Hin. destruct Hin as [Hin|Hin].
  - exact (am_choice_stable tid (c_sh c) l s' nxt out j A (I j d Hin)).
  - apply in_map_iff in Hin. destruct Hin as [o [Eo Ho]]. injection Eo as <- ->.
    exact (am_enter_chosen tid (c_sh c) l s' nxt out d A Ho).
Qed.

(* every call amb ever made on its downstream observer was made by the thread recorded in
   [choice] at the end of the run: one thread, for the whole run *)
Theorem amb_single_caller : forall progs sched tid d,
  In (tid, CEnter d) (c_log (run_am progs sched)) ->
  am_choice (g_st (c_sh (run_am progs sched))) = Some tid.
Proof.
  intros progs sched. unfold run_am, grun.
  apply (run_invariant start (gact am_step) AmInv); [apply aminv_step|]. intros tid d H. destruct H.
Qed.

Corollary amb_callers_agree : forall progs sched t1 d1 t2 d2,
  In (t1, CEnter d1) (c_log (run_am progs sched)) -> In (t2, CEnter d2) (c_log (run_am progs sched)) -> t1 = t2.
Proof.
  intros progs sched t1 d1 t2 d2 H1 H2.
  pose proof (amb_single_caller progs sched t1 d1 H1) as E1.
  pose proof (amb_single_caller progs sched t2 d2 H2) as E2. congruence.
Qed.
