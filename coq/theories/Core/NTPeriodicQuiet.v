(* C35, new-thread loop: existence of invocations (audit thm-C35-C36-C42, C35 (b)).
   When nobody disposes and no invocation raises ([quiet] iterations, any durations),
   the loop invokes the action once per iteration and is still running. *)
From RxVerif Require Import Base.Prelude Core.NewThreadPeriodic Core.NewThreadPeriodicFacts.

Lemma run_quiet {T} p (f : T -> T) : forall durs s, l_flag s = false ->
  length (invs (fst (run p f s (map quiet durs)))) = length durs /\
  snd (run p f s (map quiet durs)) = Running.
Proof.
  induction durs as [|d durs IH]; intros s Hf; [split; reflexivity|].
  cbn [map run]. unfold step, wait_part, quiet at 1. cbn. rewrite Hf.
  destruct (0 <? l_tmo s); cbn;
  match goal with |- context [run p f ?s' _] =>
    destruct (IH s' eq_refl) as [A B]; destruct (run p f s' (map quiet durs)) as [es o] eqn:E end;
  cbn in *; rewrite ?invs_app; cbn; split; auto.
Qed.

Theorem periodic_quiet_runs {T} p (f : T -> T) st0 c0 durs :
  length (invs (fst (periodic p f st0 c0 false (map quiet durs)))) = length durs /\
  snd (periodic p f st0 c0 false (map quiet durs)) = Running.
Proof.
  destruct (run_quiet p f durs (init p st0 c0 false) eq_refl) as [A B]. split.
  - rewrite periodic_invs. exact A.
  - unfold periodic. destruct (run p f (init p st0 c0 false) (map quiet durs)) as [es o]. exact B.
Qed.

(* hence every k < number of iterations names an invocation, and by [periodic_kth] it is
   made with state f^k(st0) at c0 + max(0,p) + sum of the first k gaps *)
Corollary periodic_quiet_kth {T} p (f : T -> T) st0 c0 durs k : (k < length durs)%nat ->
  nth_error (invs (fst (periodic p f st0 c0 false (map quiet durs)))) k
  = Some (c0 + Z.max 0 p + gaps p (map quiet durs) k, Nat.iter k f st0).
Proof.
  intro Hk. destruct (periodic_quiet_runs p f st0 c0 durs) as [L _].
  destruct (nth_error (invs (fst (periodic p f st0 c0 false (map quiet durs)))) k) as [[c x]|] eqn:E.
  - destruct (periodic_kth p f st0 c0 false (map quiet durs) k c x E) as (-> & -> & _). reflexivity.
  - apply nth_error_None in E. lia.
Qed.
