(* C33, the clause "no earlier than their due time", on the transition system Core/AsyncIO.v.

   Every schedule call records the due time of the new call in the ghost list [adue] (index = uid of the
   call): the clock at the call, plus the relative delay when that is positive (schedule_absolute:
   the delay is `duetime - now`).  [adue] is append-only.  Proved over ALL schedules (thread steps and clock
   advances), for both schedulers, repaired or not, any loop-thread calls, any foreign threads, any action
   bodies, any placement of loop.stop() / run again:  an action starts only when the clock has reached the
   due time recorded for its call.

   The invariant [NI] follows a handle through the loop:
     - an `interval` handle (CbAction u) that is in _ready, or popped and being tested / run, is due:
       adue[u] <= clock  (call_soon: created with due = clock; a timer is moved to _ready by the timer-heap
       step of _run_once only when its `when` <= clock, see [split_due]);
     - an `interval` handle in the timer heap with key `when` has adue[u] <= when
       (plain scheduler: when = clock at the call + d = adue[u]; thread-safe: stage2 runs call_later(d) LATER
       than the call, when = clock' + d with clock' >= clock at the call);
     - a `stage2` handle (CbStage2 u d), wherever it is, has adue[u] <= clock + d (the clock never goes back);
     - every handle the loop can reach exists (index < number of handles), so a handle created later cannot
       be confused with it. *)
From RxVerif Require Import Base.Prelude Core.AsyncIO Core.AsyncIOFacts.
Local Open Scope Z_scope.

Definition dueat (due : list Z) (u : nat) (bound : Z) : Prop :=
  exists dv, nth_error due u = Some dv /\ dv <= bound.

Lemma dueat_ext : forall due x u b, dueat due u b -> dueat (due ++ [x]) u b.
Proof. intros due x u b [dv [N L]]. exists dv. split; [apply nth_error_app_old; exact N|exact L]. Qed.

Lemma dueat_mono : forall due u b b', dueat due u b -> b <= b' -> dueat due u b'.
Proof. intros due u b b' [dv [N L]] LE. exists dv. split; [exact N|lia]. Qed.

Record NI (clk : Z) (hs : list cb) (hd rd : list nat) (tm : list (Z * nat)) (due : list Z) (n : nat)
          (lg : list (nat * Z * aev)) : Prop := {
  n_len : length due = n;
  n_bound : forall h, In h (hd ++ rd ++ map snd tm) -> (h < length hs)%nat;
  n_ready : forall h u, In h (hd ++ rd) -> nth_error hs h = Some (CbAction u) -> dueat due u clk;
  n_timer : forall w h u, In (w, h) tm -> nth_error hs h = Some (CbAction u) -> dueat due u w;
  n_stage : forall h u d, nth_error hs h = Some (CbStage2 u d) -> dueat due u (clk + d);
  n_log : forall tid t u, In (tid, t, AStart u) lg -> dueat due u t
}.

Lemma NI_clock : forall clk clk' hs hd rd tm due n lg, clk <= clk' ->
  NI clk hs hd rd tm due n lg -> NI clk' hs hd rd tm due n lg.
Proof.
  intros clk clk' hs hd rd tm due n lg LE q. constructor; try apply q.
  - intros h u I N. eapply dueat_mono; [eapply (n_ready _ _ _ _ _ _ _ _ q); eassumption|exact LE].
  - intros h u d N. eapply dueat_mono; [eapply (n_stage _ _ _ _ _ _ _ _ q); eassumption|lia].
Qed.

Lemma NI_push_due : forall clk hs hd rd tm due n lg x,
  NI clk hs hd rd tm due n lg -> NI clk hs hd rd tm (due ++ [x]) (S n) lg.
Proof.
  intros clk hs hd rd tm due n lg x q. constructor.
  - rewrite app_length. cbn. rewrite (n_len _ _ _ _ _ _ _ _ q). lia.
  - apply q.
  - intros h u I N. apply dueat_ext. eapply (n_ready _ _ _ _ _ _ _ _ q); eassumption.
  - intros w h u I N. apply dueat_ext. eapply (n_timer _ _ _ _ _ _ _ _ q); eassumption.
  - intros h u d N. apply dueat_ext. eapply (n_stage _ _ _ _ _ _ _ _ q); eassumption.
  - intros tid t u I. apply dueat_ext. eapply (n_log _ _ _ _ _ _ _ _ q); eassumption.
Qed.

(* call_soon / call_soon_threadsafe of a new handle *)
Lemma NI_add_ready : forall clk hs hd rd tm due n lg c,
  NI clk hs hd rd tm due n lg ->
  (forall u, c = CbAction u -> dueat due u clk) ->
  (forall u d, c = CbStage2 u d -> dueat due u (clk + d)) ->
  NI clk (hs ++ [c]) hd (rd ++ [length hs]) tm due n lg.
Proof.
  intros clk hs hd rd tm due n lg c q CA CS. constructor.
  - apply q.
  - intros h I. rewrite app_length. cbn.
    rewrite app_assoc in I. apply in_app_or in I. destruct I as [I|I].
    + apply in_app_or in I. destruct I as [I|I].
      * assert (h < length hs)%nat; [apply (n_bound _ _ _ _ _ _ _ _ q); apply in_or_app; left; exact I|lia].
      * apply in_app_or in I. destruct I as [I|[<-|[]]]; [|lia].
        assert (h < length hs)%nat; [apply (n_bound _ _ _ _ _ _ _ _ q); apply in_or_app; right; apply in_or_app; left; exact I|lia].
    + assert (h < length hs)%nat; [apply (n_bound _ _ _ _ _ _ _ _ q); apply in_or_app; right; apply in_or_app; right; exact I|lia].
  - intros h u I N. apply nth_error_app_inv in N. destruct N as [N|[-> <-]].
    + rewrite app_assoc in I. apply in_app_or in I. destruct I as [I|[<-|[]]].
      * eapply (n_ready _ _ _ _ _ _ _ _ q); eassumption.
      * apply CA. assert (length hs < length hs)%nat; [apply nth_error_Some; congruence|lia].
    + apply CA. reflexivity.
  - intros w h u I N. apply nth_error_app_inv in N. destruct N as [N|[-> <-]].
    + eapply (n_timer _ _ _ _ _ _ _ _ q); eassumption.
    + exfalso. assert (length hs < length hs)%nat; [|lia].
      apply (n_bound _ _ _ _ _ _ _ _ q). apply in_or_app; right; apply in_or_app; right.
      apply in_map_iff. exists (w, length hs). split; [reflexivity|exact I].
  - intros h u d N. apply nth_error_app_inv in N. destruct N as [N|[-> <-]].
    + eapply (n_stage _ _ _ _ _ _ _ _ q); eassumption.
    + apply CS. reflexivity.
  - apply q.
Qed.

(* call_later of a new handle with expiry w *)
Lemma NI_add_timer : forall clk hs hd rd tm due n lg c w,
  NI clk hs hd rd tm due n lg ->
  (forall u, c = CbAction u -> dueat due u w) ->
  (forall u d, c = CbStage2 u d -> dueat due u (clk + d)) ->
  NI clk (hs ++ [c]) hd rd (tinsert w (length hs) tm) due n lg.
Proof.
  intros clk hs hd rd tm due n lg c w q CA CS. constructor.
  - apply q.
  - intros h I. rewrite app_length. cbn.
    apply in_app_or in I. destruct I as [I|I].
    + assert (h < length hs)%nat; [apply (n_bound _ _ _ _ _ _ _ _ q); apply in_or_app; left; exact I|lia].
    + apply in_app_or in I. destruct I as [I|I].
      * assert (h < length hs)%nat; [apply (n_bound _ _ _ _ _ _ _ _ q); apply in_or_app; right; apply in_or_app; left; exact I|lia].
      * apply tinsert_handles_in in I. destruct I as [->|I]; [lia|].
        assert (h < length hs)%nat; [apply (n_bound _ _ _ _ _ _ _ _ q); apply in_or_app; right; apply in_or_app; right; exact I|lia].
  - intros h u I N. apply nth_error_app_inv in N. destruct N as [N|[-> <-]].
    + eapply (n_ready _ _ _ _ _ _ _ _ q); eassumption.
    + exfalso. assert (length hs < length hs)%nat; [|lia].
      apply (n_bound _ _ _ _ _ _ _ _ q). rewrite app_assoc. apply in_or_app. left. exact I.
  - intros w0 h u I N. apply tinsert_in in I. apply nth_error_app_inv in N. destruct I as [E|I].
    + inv E. destruct N as [N|[_ <-]].
      * exfalso. assert (length hs < length hs)%nat; [apply nth_error_Some; congruence|lia].
      * apply CA. reflexivity.
    + destruct N as [N|[-> <-]].
      * eapply (n_timer _ _ _ _ _ _ _ _ q); eassumption.
      * exfalso. assert (length hs < length hs)%nat; [|lia].
        apply (n_bound _ _ _ _ _ _ _ _ q). apply in_or_app; right; apply in_or_app; right.
        apply in_map_iff. exists (w0, length hs). split; [reflexivity|exact I].
  - intros h u d N. apply nth_error_app_inv in N. destruct N as [N|[-> <-]].
    + eapply (n_stage _ _ _ _ _ _ _ _ q); eassumption.
    + apply CS. reflexivity.
  - apply q.
Qed.

(* `while self._scheduled and self._scheduled[0]._cancelled: heappop` *)
Lemma NI_drop : forall clk hs hd rd tm due n lg canc,
  NI clk hs hd rd tm due n lg -> NI clk hs hd rd (drop_cancelled canc tm) due n lg.
Proof.
  intros clk hs hd rd tm due n lg canc q. constructor; try apply q.
  - intros h I. apply (n_bound _ _ _ _ _ _ _ _ q).
    apply in_app_or in I. destruct I as [I|I]; [apply in_or_app; left; exact I|].
    apply in_app_or in I. destruct I as [I|I]; apply in_or_app; right; apply in_or_app; [left; exact I|right].
    apply in_map_iff in I. destruct I as [[w0 h0] [E I]]. apply in_map_iff. exists (w0, h0). split; [exact E|].
    eapply drop_cancelled_in, I.
  - intros w h u I N. eapply (n_timer _ _ _ _ _ _ _ _ q); [eapply drop_cancelled_in, I|exact N].
Qed.

(* the timer-heap step of _run_once: exactly the timers with `when <= now` are moved to _ready *)
Lemma NI_wake : forall clk hs rd tm due n lg dl rest, split_due clk tm = (dl, rest) ->
  NI clk hs [] rd tm due n lg -> NI clk hs [] (rd ++ dl) rest due n lg.
Proof.
  intros clk hs rd tm due n lg dl rest S q. constructor; try apply q.
  - intros h I. apply (n_bound _ _ _ _ _ _ _ _ q). cbn [app] in *. rewrite (split_due_handles _ _ _ _ S).
    rewrite <- app_assoc in I. exact I.
  - intros h u I N. cbn [app] in I. apply in_app_or in I. destruct I as [I|I].
    + eapply (n_ready _ _ _ _ _ _ _ _ q); [cbn [app]; exact I|exact N].
    + destruct (split_due_due _ _ _ _ S h I) as [w [IW LE]].
      eapply dueat_mono; [eapply (n_timer _ _ _ _ _ _ _ _ q); eassumption|exact LE].
  - intros w h u I N. eapply (n_timer _ _ _ _ _ _ _ _ q); [eapply split_due_rest; eassumption|exact N].
Qed.

(* the loop lets go of the handle it popped *)
Lemma NI_release : forall clk hs h rd tm due n lg,
  NI clk hs [h] rd tm due n lg -> NI clk hs [] rd tm due n lg.
Proof.
  intros clk hs h rd tm due n lg q. constructor; try apply q.
  - intros h0 I. apply (n_bound _ _ _ _ _ _ _ _ q). right. exact I.
  - intros h0 u I N. eapply (n_ready _ _ _ _ _ _ _ _ q); [right; exact I|exact N].
Qed.

Lemma NI_log : forall clk hs hd rd tm due n lg ext,
  NI clk hs hd rd tm due n lg ->
  (forall tid t u, In (tid, t, AStart u) ext -> dueat due u t) ->
  NI clk hs hd rd tm due n (lg ++ ext).
Proof.
  intros clk hs hd rd tm due n lg ext q E. constructor; try apply q.
  intros tid t u I. apply in_app_or in I. destruct I as [I|I]; [eapply (n_log _ _ _ _ _ _ _ _ q), I|eapply E, I].
Qed.

Definition N (s : ash) (hd : list nat) (lg : list (nat * Z * aev)) : Prop :=
  NI (aclock s) (ahs s) hd (aready s) (atimers s) (adue s) (length (ahl s)) lg.

Section Time.
Variable ts : bool.
Variable fixed : bool.
Variable abody : nat -> list aop.

(* what a schedule call records: the clock at the call plus the positive part of the delay *)
Lemma do_sched_due : forall s d,
  adue (fst (do_sched ts s d)) = adue s ++ [aclock s + Z.max 0 d] /\
  snd (do_sched ts s d) = [ARet (length (ahl s))].
Proof.
  intros s d. unfold do_sched. destruct (d <=? 0) eqn:E; [|destruct ts]; unfold set_core; cbn [fst snd adue].
  - apply Z.leb_le in E. rewrite Z.max_l by lia. rewrite Z.add_0_r. split; reflexivity.
  - apply Z.leb_gt in E. rewrite Z.max_r by lia. split; reflexivity.
  - apply Z.leb_gt in E. rewrite Z.max_r by lia. split; reflexivity.
Qed.

Lemma N_sched : forall s d hd lg, N s hd lg -> N (fst (do_sched ts s d)) hd lg.
Proof.
  intros s d hd lg q. unfold N in *. unfold do_sched.
  pose proof (n_len _ _ _ _ _ _ _ _ q) as LN.
  assert (NEW : forall x b, x <= b -> dueat (adue s ++ [x]) (length (ahl s)) b).
  { intros x b LE. exists x. split; [|exact LE]. rewrite <- LN. apply nth_error_app_last. }
  destruct (d <=? 0) eqn:E; [|destruct ts]; unfold set_core; cbn [fst]; proj; rewrite app_length; cbn [length];
    rewrite Nat.add_1_r.
  - apply NI_add_ready; [apply NI_push_due; exact q| |intros u d0 X; discriminate X].
    intros u X. inv X. apply NEW. lia.
  - apply Z.leb_gt in E. apply NI_add_ready; [apply NI_push_due; exact q|intros u X; discriminate X|].
    intros u d0 X. inv X. apply NEW. lia.
  - apply Z.leb_gt in E. apply NI_add_timer; [apply NI_push_due; exact q| |intros u d0 X; discriminate X].
    intros u X. inv X. apply NEW. lia.
Qed.

Lemma N_cstep : forall ol s cur todo s' cur' todo' out hd lg,
  cstep ts fixed ol s cur todo s' cur' todo' out -> N s hd lg -> N s' hd lg.
Proof.
  intros ol s cur todo s' cur' todo' out hd lg C q.
  inv C; try exact q; try (apply N_sched; exact q); unfold N in *; unfold set_stop; proj; rewrite ?aupd_length; try exact q.
  (* marshalled: call_soon_threadsafe(cancel_handle) *)
  apply NI_add_ready; [exact q|intros u0 X; discriminate X|intros u0 d X; discriminate X].
Qed.

Lemma cstep_due : forall ol s cur todo s' cur' todo' out,
  cstep ts fixed ol s cur todo s' cur' todo' out -> exists ext, adue s' = adue s ++ ext.
Proof.
  intros ol s cur todo s' cur' todo' out C.
  inv C; try (eexists; apply do_sched_due); exists []; rewrite app_nil_r; reflexivity.
Qed.

(* going on with the next handle of this iteration, or ending the iteration (run_forever tests _stopping;
   the next iteration begins by dropping cancelled timers from the head of the heap) *)
Lemma N_next : forall s k s' ph' lg, next_handle s k = (s', ph') -> N s [] lg -> N s' (held ph') lg.
Proof.
  intros s k s' ph' lg E q. unfold next_handle in E.
  assert (EI : forall s1 p1, end_iter s = (s1, p1) -> N s1 (held p1) lg).
  { intros s1 p1 X. unfold end_iter in X. destruct (astopping s).
    - unfold stop_loop in X. destruct (asegs s); inv X; exact q.
    - unfold begin_iter in X. inv X. unfold N, set_core. proj. cbn [held]. apply NI_drop. exact q. }
  destruct k as [|k']; [apply EI; exact E|]. destruct (aready s) as [|h r] eqn:R; [apply EI; exact E|].
  inv E. unfold N, set_core in *. proj. cbn [held]. rewrite R in q. constructor; try apply q.
Qed.

Lemma next_due : forall s k, adue (fst (next_handle s k)) = adue s.
Proof.
  intros s k. unfold next_handle, end_iter, stop_loop, begin_iter, set_core.
  destruct k; [|destruct (aready s)]; try reflexivity; destruct (astopping s); try reflexivity; destruct (asegs s); reflexivity.
Qed.

Lemma log_nil : forall (lg : list (nat * Z * aev)) tid clk, lg ++ astamp tid clk [] = lg.
Proof. intros. cbn. apply app_nil_r. Qed.

Lemma N_log_other : forall s hd lg tid clk out, N s hd lg -> (forall u, ~ In (AStart u) out) ->
  N s hd (lg ++ astamp tid clk out).
Proof.
  intros s hd lg tid clk out q NS. apply NI_log; [exact q|]. intros tid0 t u I. apply in_astamp in I.
  exfalso. eapply NS. apply I.
Qed.

Lemma N_loop_step : forall quiet s ph s' ph' out lg tid,
  loop_step ts fixed abody quiet s ph = Some (s', ph', out) -> N s (held ph) lg ->
  N s' (held ph') (lg ++ astamp tid (aclock s) out) /\ exists ext, adue s' = adue s ++ ext.
Proof.
  intros quiet s ph s' ph' out lg tid LS q.
  assert (SAME : forall s0, adue s0 = adue s -> exists ext, adue s0 = adue s ++ ext).
  { intros s0 E. exists []. rewrite app_nil_r. exact E. }
  assert (CALL : forall cur todo s1 cur1 todo1 out1 hd, call_step ts fixed true s cur todo = Some (s1, cur1, todo1, out1) ->
            N s hd lg -> N s1 hd (lg ++ astamp tid (aclock s) out1) /\ exists ext, adue s1 = adue s ++ ext).
  { intros cur todo s1 cur1 todo1 out1 hd CS q0. apply call_step_spec in CS. split.
    - apply N_log_other; [eapply N_cstep; eassumption|]. intros u. eapply cstep_no_start, CS.
    - eapply cstep_due, CS. }
  destruct ph as [cur todo|dl|h k|h k|u cur todo k|u h k|]; cbn [loop_step held] in *.
  - (* before run_forever() *)
    destruct cur as [c|].
    + destruct (call_step ts fixed true s (Some c) todo) as [[[[s1 cur1] todo1] out1]|] eqn:CS; [|discriminate LS].
      inv LS. cbn [held]. eapply CALL; eassumption.
    + destruct todo as [|o r].
      * destruct quiet; [|discriminate LS]. unfold begin_iter, set_core in LS. proj. inv LS. rewrite log_nil. split.
        -- unfold N. proj. cbn [held]. apply NI_drop. exact q.
        -- apply SAME. reflexivity.
      * destruct (call_step ts fixed true s None (o :: r)) as [[[[s1 cur1] todo1] out1]|] eqn:CS; [|discriminate LS].
        inv LS. cbn [held]. eapply CALL; eassumption.
  - (* select returns: the due timers move to _ready *)
    destruct (awoken s || match dl with Some t => t <=? aclock s | None => false end); [|discriminate LS].
    destruct (split_due (aclock s) (atimers s)) as [dd rest] eqn:SD.
    destruct (next_handle _ _) as [s1 p1] eqn:NH. inv LS. rewrite log_nil. split.
    + eapply N_next; [exact NH|]. unfold N, set_core. proj. eapply NI_wake; eassumption.
    + apply SAME. pose proof (next_due (set_core s false (ahs s) (aready s ++ dd) rest (ahl s) (adue s))
                                       (length (aready (set_core s false (ahs s) (aready s ++ dd) rest (ahl s) (adue s))))) as X.
      rewrite NH in X. exact X.
  - (* `if handle._cancelled` *)
    destruct (amem h (acanc s)).
    + destruct (next_handle s k) as [s1 p1] eqn:NH. inv LS. rewrite log_nil. split.
      * eapply N_next; [exact NH|]. eapply NI_release. exact q.
      * apply SAME. pose proof (next_due s k) as X. rewrite NH in X. exact X.
    + inv LS. rewrite log_nil. split; [exact q|apply SAME; reflexivity].
  - (* handle._run() *)
    destruct (amem h (acanc s)).
    { destruct (next_handle s k) as [s1 p1] eqn:NH. inv LS. split.
      - apply N_log_other; [|intros u [X|[]]; discriminate X]. eapply N_next; [exact NH|]. eapply NI_release. exact q.
      - apply SAME. pose proof (next_due s k) as X. rewrite NH in X. exact X. }
    destruct (nth_error (ahs s) h) as [[u|u d|u f]|] eqn:NT.
    + (* interval: the action starts -- the handle is due *)
      inv LS. cbn [held]. split; [|apply SAME; reflexivity].
      apply NI_log; [eapply NI_release; exact q|]. intros tid0 t u0 I. apply in_astamp in I.
      destruct I as (_ & -> & [X|[]]). inv X.
      eapply (n_ready _ _ _ _ _ _ _ _ q); [left; reflexivity|exact NT].
    + (* stage2: call_later(d, interval) *)
      unfold set_core in LS. proj. inv LS. rewrite log_nil. cbn [held]. split; [|apply SAME; reflexivity].
      unfold N. proj. apply NI_add_timer; [eapply NI_release; exact q| |intros u0 d0 X; discriminate X].
      intros u0 X. inv X. eapply (n_stage _ _ _ _ _ _ _ _ q). exact NT.
    + (* cancel_handle *)
      destruct (cancel_all s u) as [canc hl] eqn:CA.
      destruct (next_handle _ k) as [s1 p1] eqn:NH. inv LS. rewrite log_nil.
      assert (HL : length hl = length (ahl s)).
      { unfold cancel_all in CA. destruct (nth_error (ahl s) u) as [[[|] l]|]; inv CA; rewrite ?aupd_length; reflexivity. }
      split.
      * eapply N_next; [exact NH|]. unfold N, set_canc. proj. rewrite HL. eapply NI_release. exact q.
      * apply SAME. pose proof (next_due (set_canc s canc hl (f :: afut s) (u :: aeff s)) k) as X. rewrite NH in X. exact X.
    + destruct (next_handle s k) as [s1 p1] eqn:NH. inv LS. rewrite log_nil. split.
      * eapply N_next; [exact NH|]. eapply NI_release. exact q.
      * apply SAME. pose proof (next_due s k) as X. rewrite NH in X. exact X.
  - (* inside an action *)
    destruct cur as [c|].
    + destruct (call_step ts fixed true s (Some c) todo) as [[[[s1 cur1] todo1] out1]|] eqn:CS; [|discriminate LS].
      inv LS. cbn [held]. eapply CALL; eassumption.
    + destruct todo as [|o r].
      * destruct (next_handle s k) as [s1 p1] eqn:NH. inv LS. split.
        -- apply N_log_other; [|intros u0 [X|[]]; discriminate X]. eapply N_next; [exact NH|exact q].
        -- apply SAME. pose proof (next_due s k) as X. rewrite NH in X. exact X.
      * destruct (call_step ts fixed true s None (o :: r)) as [[[[s1 cur1] todo1] out1]|] eqn:CS; [|discriminate LS].
        inv LS. cbn [held]. eapply CALL; eassumption.
  - (* stage2: handle.append(timer) *)
    destruct (next_handle _ k) as [s1 p1] eqn:NH. inv LS. rewrite log_nil.
    set (hl := match nth_error (ahl s) u with Some (two, l) => aupd u (two, l ++ [h]) (ahl s) | None => ahl s end) in *.
    assert (HL : length hl = length (ahl s)).
    { unfold hl. destruct (nth_error (ahl s) u) as [[two l]|]; rewrite ?aupd_length; reflexivity. }
    split.
    + eapply N_next; [exact NH|]. unfold N, set_core. proj. rewrite HL. exact q.
    + apply SAME. pose proof (next_due (set_core s (awoken s) (ahs s) (aready s) (atimers s) hl (adue s)) k) as X.
      rewrite NH in X. exact X.
  - discriminate LS.
Qed.

Notation atstep := (atstep ts fixed abody).
Notation arun := (arun ts fixed abody).

Definition invT (c : aconfig) : Prop :=
  exists ph rest, a_ths c = AL ph :: rest /\ (forall t, In t rest -> is_af t = true) /\
                  N (a_sh c) (held ph) (a_log c).

Lemma in_aupd : forall A (l : list A) k x y, In y (aupd k x l) -> y = x \/ In y l.
Proof.
  induction l as [|z t IH]; intros k x y I; [destruct k; destruct I|].
  destruct k; cbn [aupd] in I; destruct I as [E|I].
  - left. symmetry. exact E.
  - right. right. exact I.
  - right. left. exact E.
  - destruct (IH _ _ _ I) as [E|J]; [left; exact E|right; right; exact J].
Qed.

Lemma invT_step : forall c tid, invT c ->
  invT (atstep c tid) /\ exists ext, adue (a_sh (atstep c tid)) = adue (a_sh c) ++ ext.
Proof.
  intros c tid (ph & rest & TH & AFS & q).
  assert (STAY : invT c /\ exists ext, adue (a_sh c) = adue (a_sh c) ++ ext).
  { split; [exists ph, rest; auto|exists []; rewrite app_nil_r; reflexivity]. }
  unfold AsyncIO.atstep. rewrite TH. destruct tid as [|n]; cbn [nth_error].
  - destruct (loop_step ts fixed abody _ (a_sh c) ph) as [[[s' ph'] out]|] eqn:LS; [|exact STAY].
    destruct (N_loop_step _ _ _ _ _ _ (a_log c) 0%nat LS q) as [q' D]. cbn [a_sh a_log]. split; [|exact D].
    exists ph', rest. split; [reflexivity|]. split; [exact AFS|exact q'].
  - destruct (nth_error rest n) as [t|] eqn:NT; [|exact STAY].
    pose proof (AFS t (nth_error_In _ _ NT)) as AFt. destruct t as [cur todo|p]; [|discriminate AFt].
    destruct (call_step ts fixed false (a_sh c) cur todo) as [[[[s' cur'] todo'] out]|] eqn:CS; [|exact STAY].
    apply call_step_spec in CS. cbn [a_sh a_log]. split; [|eapply cstep_due, CS].
    exists ph, (aupd n (AF cur' todo') rest). split; [reflexivity|]. split.
    + intros t I. apply in_aupd in I. destruct I as [->|I]; [reflexivity|apply AFS, I].
    + apply N_log_other; [eapply N_cstep; eassumption|]. intros u. eapply cstep_no_start, CS.
Qed.

Lemma invT_tick : forall c d, invT c -> invT (atick c d).
Proof.
  intros c d (ph & rest & TH & AFS & q). exists ph, rest. split; [exact TH|]. split; [exact AFS|].
  unfold atick, N in *. cbn [a_sh a_log]. proj. eapply NI_clock; [|exact q]. lia.
Qed.

Lemma invT_init : forall t0 pre segs progs, invT (ainit t0 pre segs progs).
Proof.
  intros. exists (LPre None pre), (map (fun p => AF None p) progs). split; [reflexivity|]. split.
  - intros t I. apply in_map_iff in I. destruct I as [p [<- _]]. reflexivity.
  - unfold ainit, N. cbn [a_sh a_log held]. proj. constructor; cbn; try (intros; contradiction); try reflexivity.
    all: intros; match goal with X : nth_error [] ?h = _ |- _ => destruct h; discriminate X end.
Qed.

Lemma invT_run : forall sched c, invT c ->
  invT (arun c sched) /\ exists ext, adue (a_sh (arun c sched)) = adue (a_sh c) ++ ext.
Proof.
  induction sched as [|m s IH]; intros c H.
  - split; [exact H|exists []; rewrite app_nil_r; reflexivity].
  - cbn [AsyncIO.arun fold_left].
    assert (X : invT (amstep ts fixed abody c m) /\ exists ext, adue (a_sh (amstep ts fixed abody c m)) = adue (a_sh c) ++ ext).
    { destruct m as [tid|d]; cbn [amstep]; [apply invT_step; exact H|].
      split; [apply invT_tick; exact H|exists []; rewrite app_nil_r; reflexivity]. }
    destruct X as [X [e1 E1]]. destruct (IH _ X) as [Y [e2 E2]]. split; [exact Y|].
    exists (e1 ++ e2). unfold AsyncIO.arun in E2. rewrite E2, E1, app_assoc. reflexivity.
Qed.

(* an action starts no earlier than the due time recorded for its call *)
Theorem aio_not_early : forall t0 pre segs progs sched tid t u,
  let c := arun (ainit t0 pre segs progs) sched in
  In (tid, t, AStart u) (a_log c) -> exists due, nth_error (adue (a_sh c)) u = Some due /\ due <= t.
Proof.
  intros t0 pre segs progs sched tid t u c I.
  destruct (invT_run sched _ (invT_init t0 pre segs progs)) as [(ph & rest & _ & _ & q) _]. fold c in q.
  exact (n_log _ _ _ _ _ _ _ _ q _ _ _ I).
Qed.

(* one recorded due time per call made so far *)
Theorem aio_due_len : forall t0 pre segs progs sched,
  let c := arun (ainit t0 pre segs progs) sched in length (adue (a_sh c)) = length (ahl (a_sh c)).
Proof.
  intros t0 pre segs progs sched c.
  destruct (invT_run sched _ (invT_init t0 pre segs progs)) as [(ph & rest & _ & _ & q) _]. fold c in q.
  exact (n_len _ _ _ _ _ _ _ _ q).
Qed.

(* the recorded due times are never changed afterwards *)
Lemma aio_due_stable_inv : forall c sched u due, invT c ->
  nth_error (adue (a_sh c)) u = Some due -> nth_error (adue (a_sh (arun c sched))) u = Some due.
Proof.
  intros c sched u due H NT. destruct (invT_run sched c H) as [_ [ext E]]. rewrite E.
  rewrite nth_error_app1; [exact NT|]. apply nth_error_Some. congruence.
Qed.

Theorem aio_due_stable : forall t0 pre segs progs sched1 sched2 u due,
  let c1 := arun (ainit t0 pre segs progs) sched1 in
  nth_error (adue (a_sh c1)) u = Some due -> nth_error (adue (a_sh (arun c1 sched2))) u = Some due.
Proof.
  intros t0 pre segs progs sched1 sched2 u due c1 NT. apply aio_due_stable_inv; [|exact NT].
  apply invT_run, invT_init.
Qed.

(* schedule / schedule_relative / schedule_absolute as steps of a thread: the new call gets the next uid and its
   due time is the clock at the call + the positive part of the delay (schedule_absolute: of t - clock) *)
Theorem aio_due_recorded : forall ol s o r s' cur' todo' out,
  length (adue s) = length (ahl s) ->
  call_step ts fixed ol s None (o :: r) = Some (s', cur', todo', out) ->
  forall d, (o = ANow /\ d = 0) \/ o = ARel d \/ (exists t, o = AAbs t /\ d = t - aclock s) ->
  out = [ARet (length (ahl s))] /\ nth_error (adue s') (length (ahl s)) = Some (aclock s + Z.max 0 d).
Proof.
  intros ol s o r s' cur' todo' out LN CS d H.
  assert (G : forall d0, (let '(s1, out1) := do_sched ts s d0 in Some (s1, @None dst, r, out1)) = Some (s', cur', todo', out) ->
              out = [ARet (length (ahl s))] /\ nth_error (adue s') (length (ahl s)) = Some (aclock s + Z.max 0 d0)).
  { intros d0 X. destruct (do_sched_due s d0) as [D O]. destruct (do_sched ts s d0) as [s1 out1]. inv X.
    cbn [fst snd] in *. split; [exact O|]. rewrite D, <- LN. apply nth_error_app_last. }
  destruct H as [[-> ->]|[->|[t [-> ->]]]]; cbn [call_step] in CS; apply G; exact CS.
Qed.

(* the timer-heap step on its own: a timer is moved to _ready only when the clock has reached its expiry *)
Lemma aio_timer_popped_when_due : forall now tm dl rest h, split_due now tm = (dl, rest) -> In h dl ->
  exists w, In (w, h) tm /\ w <= now.
Proof. intros. eapply split_due_due; eassumption. Qed.
End Time.
