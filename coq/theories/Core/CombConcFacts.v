(* Facts about the transition systems of Core/CombConc.v: for ALL schedules, all per-source programs
   and any number of source threads, the operator never has two calls of its downstream observer in
   progress at once, and what the subscriber's callbacks see obeys Next* (Err|Done)?. *)
From RxVerif Require Import Base.Prelude Core.Lts Core.LtsFacts Core.CombConc.
Local Open Scope nat_scope.

Notation thread := (@thread pos sev).

(* ======================================================================= *)
(* an "owner" discipline over any transition system: whoever is parked at a P-position is the
   owner recorded in the shared state; hence two threads at P-positions are the same thread *)
Section Owner.
Context {Sh L O Ob : Type}.
Variable start : O -> L.
Variable act : nat -> Sh -> L -> option (Sh * option L * list Ob).
Variable owner : Sh -> option nat.
Variable P : L -> bool.
Hypothesis Hstart : forall o, P (start o) = false.
Hypothesis HA : forall tid s l s' l' out,
  act tid s l = Some (s', Some l', out) -> P l' = true -> (P l = true -> owner s = Some tid) -> owner s' = Some tid.
Hypothesis HB : forall tid s l s' l' out tid',
  act tid s l = Some (s', l', out) -> owner s = Some tid' -> tid' <> tid -> P l = false -> owner s' = Some tid'.

Notation config := (@config Sh L O Ob).
Definition OInv (c : config) : Prop :=
  forall tid t, nth_error (c_ths c) tid = Some t -> at_pos P t = true -> owner (c_sh c) = Some tid.

Lemma frame_P : forall (t : @Lts.thread L O) l todo,
  next_frame start t = Some (l, todo) -> P l = true -> at_pos P t = true.
Proof.
  intros t l todo F H. destruct (next_frame_cur start t l todo F) as [[E _]|[_ [o [_ ->]]]].
  - unfold at_pos. rewrite E. exact H.
  - rewrite Hstart in H. discriminate H.
Qed.

Lemma oinv_step : forall c tid, OInv c -> OInv (tstep start act c tid).
Proof.
  intros c tid I.
  destruct (tstep_cases start act c tid) as [E|(t & l & todo & s' & l' & out & N & F & A & E)]; rewrite E; [exact I|].
  clear E. intros j y Ny Py. cbn [c_ths c_sh] in *.
  assert (Hl : P l = true -> owner (c_sh c) = Some tid).
  { intros H. apply (I tid t N). exact (frame_P t l todo F H). }
  destruct (Nat.eq_dec j tid) as [->|Hj].
  - rewrite (nth_upd_same _ _ _ _ _ N) in Ny. injection Ny as <-. unfold at_pos in Py. cbn [t_cur] in Py.
    destruct l' as [q|]; [|discriminate Py]. exact (HA tid (c_sh c) l s' q out A Py Hl).
  - rewrite nth_upd_other in Ny by exact Hj. pose proof (I j y Ny Py) as Oj.
    apply (HB tid (c_sh c) l s' l' out j A Oj Hj).
    destruct (P l) eqn:Pl; [|reflexivity]. rewrite (Hl eq_refl) in Oj. congruence.
Qed.

Lemma oinv_init : forall s progs, OInv (init s progs).
Proof.
  intros s progs tid t N H. unfold at_pos in H. rewrite (init_threads s progs tid t N) in H. discriminate H.
Qed.

Lemma oinv_excl : forall c i j ti tj, OInv c ->
  nth_error (c_ths c) i = Some ti -> nth_error (c_ths c) j = Some tj ->
  at_pos P ti = true -> at_pos P tj = true -> i = j.
Proof. intros c i j ti tj I Ni Nj Pi Pj. pose proof (I i ti Ni Pi). pose proof (I j tj Nj Pj). congruence. Qed.
End Owner.

(* ======================================================================= *)
(* folds over a growing log *)
Lemma cfold_app : forall a b, cfold (a ++ b) = fold_left cstep b (cfold a).
Proof. intros. unfold cfold. apply fold_left_app. Qed.
Lemma users_app : forall a b, users (a ++ b) = users a ++ users b.
Proof. intros. unfold users. apply flat_map_app. Qed.

Definition all_next (l : list dev) : bool := forallb (fun d => negb (is_term d)) l.
Lemma gram_next : forall l, all_next l = true -> gram l = true.
Proof.
  induction l as [|d r IH]; [reflexivity|]. cbn [all_next forallb]. intros H. apply andb_true_iff in H.
  destruct H as [H1 H2]. destruct d; try discriminate H1. cbn [gram]. apply IH, H2.
Qed.
Lemma gram_snoc : forall l d, all_next l = true -> gram (l ++ [d]) = true.
Proof.
  induction l as [|x r IH]; intros d H.
  - destruct d; reflexivity.
  - cbn [all_next forallb] in H. apply andb_true_iff in H. destruct H as [H1 H2].
    destruct x; try discriminate H1. cbn [app gram]. apply IH, H2.
Qed.
Lemma all_next_snoc : forall l, all_next l = true -> all_next (l ++ [DNext]) = true.
Proof. intros l H. unfold all_next in *. rewrite forallb_app, H. reflexivity. Qed.

(* ======================================================================= *)
Section GenFacts.
Context {S : Type}.
Variable ostep : nat -> S -> pos -> option (S * option pos).
Notation config := (@config (gsh S) pos sev cobs).
Notation gstep := (tstep start (gact ostep)).

Definition tinside (t : thread) : bool := at_pos inside t.
Definition excl (c : config) : Prop :=
  forall i j ti tj, nth_error (c_ths c) i = Some ti -> nth_error (c_ths c) j = Some tj ->
                    tinside ti = true -> tinside tj = true -> i = j.

Lemma tin_out : forall t : thread, tinside t = false -> tin t = [].
Proof. intros t. unfold tinside, at_pos, tin. destruct (t_cur t) as [[]|]; cbn; intros; try reflexivity; discriminate. Qed.

Lemma gact_inv : forall tid sh l sh' nxt out,
  gact ostep tid sh l = Some (sh', nxt, out) ->
  exists st',
    ostep tid (g_st sh) l = Some (st', nxt) /\ g_st sh' = st' /\
    (is_acq l = true -> lock_free tid (g_lock sh) = true) /\
    g_lock sh' = (if match nxt with Some q => holds q | None => false end then Some tid
                  else if holds l || is_acq l then None else g_lock sh) /\
    g_dn sh' = match l with PI _ d _ => fst (fin (g_dn sh) d) | _ => g_dn sh end /\
    out = match l with PI _ d _ => snd (fin (g_dn sh) d) | _ => [] end ++
          match nxt with Some (PI _ d _) => [CEnter d] | _ => [] end.
Proof.
  intros tid sh l sh' nxt out A. unfold gact in A.
  destruct (is_acq l && negb (lock_free tid (g_lock sh))) eqn:B; [discriminate A|].
  destruct (ostep tid (g_st sh) l) as [[st' nx]|] eqn:Os; [|discriminate A].
  destruct (match l with PI _ d _ => fin (g_dn sh) d | _ => (g_dn sh, []) end) as [dn1 out1] eqn:Fn.
  injection A as <- <- <-. exists st'. cbn [g_st g_lock g_dn]. repeat split.
  - intros Ha. rewrite Ha in B. cbn [andb] in B. destruct (lock_free tid (g_lock sh)); [reflexivity|discriminate B].
  - destruct l; try (injection Fn as <- <-; reflexivity); rewrite Fn; reflexivity.
  - destruct l; try (injection Fn as <- <-; reflexivity); rewrite Fn; reflexivity.
Qed.

(* the log invariant: the log is serial so far and the open call is the one of the thread inside *)
Definition LInv (c : config) : Prop := cfold (untag (c_log c)) = Some (flat_map tin (c_ths c)).

Lemma others_out : forall (c : config) tid t,
  excl c -> nth_error (c_ths c) tid = Some t -> tinside t = true ->
  forall j y, j <> tid -> nth_error (c_ths c) j = Some y -> tin y = [].
Proof.
  intros c tid t E N T j y Hj Ny. apply tin_out. destruct (tinside y) eqn:Ty; [|reflexivity].
  exfalso. apply Hj. exact (E j tid y t Ny N Ty T).
Qed.

Lemma frame_inside : forall (t : thread) l todo,
  next_frame start t = Some (l, todo) -> tin t = match l with PI _ d _ => [d] | _ => [] end /\ tinside t = inside l.
Proof.
  intros t l todo F. unfold tin, tinside, at_pos.
  destruct (next_frame_cur start t l todo F) as [[E _]|[E [o [_ ->]]]]; rewrite E.
  - destruct l; split; reflexivity.
  - destruct o; split; reflexivity.
Qed.

Lemma linv_step : forall c tid, excl c -> excl (gstep c tid) -> LInv c -> LInv (gstep c tid).
Proof.
  intros c tid E0 E1 I.
  destruct (tstep_cases start (gact ostep) c tid) as [E|(t & l & todo & s' & nxt & out & N & F & A & E)];
    rewrite E in *; [exact I|]. clear E.
  destruct (gact_inv _ _ _ _ _ _ A) as (st' & _ & _ & _ & _ & _ & Eout).
  destruct (frame_inside t l todo F) as [Tt Ti].
  unfold LInv in *. cbn [c_log c_ths] in *. rewrite untag_app, untag_tag, cfold_app, I.
  set (new := Thread nxt todo) in *.
  assert (Nn : nth_error (upd_nth tid new (c_ths c)) tid = Some new) by exact (nth_upd_same _ _ _ _ _ N).
  assert (Tn : tin new = match nxt with Some (PI _ d _) => [d] | _ => [] end) by (unfold tin, new; reflexivity).
  assert (Tni : tinside new = match nxt with Some q => inside q | None => false end) by reflexivity.
  destruct (inside l) eqn:Il.
  - (* the thread was inside a call: it is the only one *)
    pose proof (others_out c tid t E0 N Ti) as Oth.
    rewrite (fm_single _ _ tin (c_ths c) tid t N Oth), Tt.
    assert (Oth' : forall j y, j <> tid -> nth_error (upd_nth tid new (c_ths c)) j = Some y -> tin y = []).
    { intros j y Hj Ny. rewrite nth_upd_other in Ny by exact Hj. exact (Oth j y Hj Ny). }
    rewrite (fm_single _ _ tin _ tid new Nn Oth'), Tn.
    destruct l as [| | | | |h d k]; try discriminate Il. rewrite Eout. unfold fin.
    destruct (g_dn (c_sh c)); cbn [snd app fold_left cstep]; destruct nxt as [[]|]; reflexivity.
  - (* it was not *)
    assert (Eo : out = match nxt with Some (PI _ d _) => [CEnter d] | _ => [] end).
    { rewrite Eout. destruct l; try reflexivity. discriminate Il. }
    rewrite Eo. destruct (tinside new) eqn:Tnew.
    + (* and enters one now: nobody else is inside *)
      pose proof (others_out (gstep c tid) tid new) as Oth. unfold Lts.tstep in Oth.
      assert (Oth' : forall j y, j <> tid -> nth_error (upd_nth tid new (c_ths c)) j = Some y -> tin y = []).
      { intros j y Hj Ny. apply tin_out. destruct (tinside y) eqn:Ty; [|reflexivity]. exfalso. apply Hj.
        exact (E1 j tid y new Ny Nn Ty Tnew). }
      rewrite (fm_single _ _ tin _ tid new Nn Oth'), Tn.
      assert (Z : flat_map tin (c_ths c) = []).
      { apply fm_nil. intros y Hy. apply In_nth_error in Hy. destruct Hy as [j Nj].
        destruct (Nat.eq_dec j tid) as [->|Hj].
        - rewrite N in Nj. injection Nj as <-. apply tin_out. rewrite Ti. reflexivity.
        - apply (Oth' j y Hj). rewrite nth_upd_other by exact Hj. exact Nj. }
      rewrite Z. destruct nxt as [[]|]; reflexivity.
    + rewrite (fm_upd_same _ _ tin (c_ths c) tid new t N).
      * destruct nxt as [[]|]; cbn [inside] in Tni; try discriminate Tni; reflexivity.
      * rewrite (tin_out new Tnew). symmetry. apply tin_out. rewrite Ti. reflexivity.
Qed.

(* the subscriber's view: grammar, for every step function *)
Definition GInv (c : config) : Prop :=
  gram (users (untag (c_log c))) = true /\
  (g_dn (c_sh c) = false -> all_next (users (untag (c_log c))) = true).

Lemma ginv_step : forall c tid, GInv c -> GInv (gstep c tid).
Proof.
  intros c tid [G1 G2].
  destruct (tstep_cases start (gact ostep) c tid) as [E|(t & l & todo & s' & nxt & out & N & F & A & E)];
    rewrite E; [split; assumption|]. clear E.
  destruct (gact_inv _ _ _ _ _ _ A) as (st' & _ & _ & _ & _ & Edn & Eout).
  unfold GInv. cbn [c_log c_sh]. rewrite untag_app, untag_tag, users_app, Edn, Eout, users_app.
  assert (Z : users (match nxt with Some (PI _ d _) => [CEnter d] | _ => [] end) = []) by (destruct nxt as [[]|]; reflexivity).
  rewrite Z, app_nil_r.
  destruct l as [| | | | |h d k]; cbn [users flat_map]; rewrite ?app_nil_r; try (split; assumption).
  unfold fin. destruct (g_dn (c_sh c)) eqn:Dn; cbn [fst snd users flat_map app].
  - rewrite app_nil_r. split; [exact G1|discriminate].
  - specialize (G2 eq_refl). split; [apply gram_snoc, G2|].
    intros Hd. destruct d; try discriminate Hd. apply all_next_snoc, G2.
Qed.

Lemma ginv_init : forall st0 progs, GInv (init (GS None false st0) progs).
Proof. intros. split; [reflexivity|]. intros _. reflexivity. Qed.

Lemma linv_init : forall st0 progs, LInv (init (GS None false st0) progs).
Proof.
  intros. unfold LInv. cbn [init c_log c_ths untag map cfold fold_left]. f_equal. symmetry.
  apply fm_nil. intros y Hy. apply in_map_iff in Hy. destruct Hy as [p [<- _]]. reflexivity.
Qed.

(* the generic theorem: any invariant J that implies exclusivity of the downstream call gives
   seriality of the log; the grammar of the subscriber's view needs nothing *)
Theorem gen_serial : forall (J : config -> Prop) st0 progs,
  J (init (GS None false st0) progs) ->
  (forall c tid, J c -> J (gstep c tid)) ->
  (forall c, J c -> excl c) ->
  forall sched, let c := grun ostep st0 progs sched in
  J c /\ serial (untag (c_log c)) = true /\ gram (users (untag (c_log c))) = true.
Proof.
  intros J st0 progs J0 Js Je sched c.
  assert (H : J c /\ LInv c /\ GInv c).
  { unfold c, grun. apply (run_invariant start (gact ostep) (fun c => J c /\ LInv c /\ GInv c)).
    - intros c0 tid (Hj & Hl & Hg). pose proof (Js c0 tid Hj) as Hj'. split; [exact Hj'|split].
      + apply linv_step; [apply Je, Hj|apply Je, Hj'|exact Hl].
      + apply ginv_step, Hg.
    - split; [exact J0|split; [apply linv_init|apply ginv_init]]. }
  destruct H as (Hj & Hl & Hg & _). split; [exact Hj|split; [|exact Hg]].
  unfold serial. unfold LInv in Hl. fold c in Hl. rewrite Hl. reflexivity.
Qed.

(* ---- operators that make every downstream call while holding their lock ------- *)
Hypothesis wf_lock : forall tid st l st' q,
  ostep tid st l = Some (st', Some q) -> holds q = true -> holds l = true \/ is_acq l = true.
Hypothesis wf_inside : forall tid st l st' h d k,
  ostep tid st l = Some (st', Some (PI h d k)) -> h = true.

Lemma lock_HA : forall tid (s : gsh S) l s' l' out,
  gact ostep tid s l = Some (s', Some l', out) -> holds l' = true ->
  (holds l = true -> g_lock s = Some tid) -> g_lock s' = Some tid.
Proof.
  intros tid s l s' l' out A H _. destruct (gact_inv _ _ _ _ _ _ A) as (st' & _ & _ & _ & El & _).
  rewrite El, H. reflexivity.
Qed.

Lemma lock_HB : forall tid (s : gsh S) l s' l' out tid',
  gact ostep tid s l = Some (s', l', out) -> g_lock s = Some tid' -> tid' <> tid -> holds l = false ->
  g_lock s' = Some tid'.
Proof.
  intros tid s l s' l' out tid' A Ho Hn Hl.
  destruct (gact_inv _ _ _ _ _ _ A) as (st' & Os & _ & Hacq & El & _).
  assert (Ia : is_acq l = false).
  { destruct (is_acq l) eqn:Ia; [|reflexivity]. specialize (Hacq eq_refl). rewrite Ho in Hacq.
    cbn [lock_free] in Hacq. apply Nat.eqb_eq in Hacq. congruence. }
  rewrite El, Hl, Ia. cbn [orb].
  destruct l' as [q|]; [|exact Ho]. destruct (holds q) eqn:Hq; [|exact Ho].
  destruct (wf_lock tid (g_st s) l st' q Os Hq) as [H|H]; congruence.
Qed.

Lemma holds_start : forall e, holds (start e) = false.
Proof. destruct e; reflexivity. Qed.

(* every thread inside a downstream call holds the lock *)
Definition AllH (c : config) : Prop :=
  forall tid t h d k, nth_error (c_ths c) tid = Some t -> t_cur t = Some (PI h d k) -> h = true.

Lemma allh_step : forall c tid, AllH c -> AllH (gstep c tid).
Proof.
  intros c tid I.
  destruct (tstep_cases start (gact ostep) c tid) as [E|(t & l & todo & s' & nxt & out & N & F & A & E)];
    rewrite E; [exact I|]. clear E.
  destruct (gact_inv _ _ _ _ _ _ A) as (st' & Os & _).
  intros j y h d k Ny Cy. cbn [c_ths] in Ny. destruct (Nat.eq_dec j tid) as [->|Hj].
  - rewrite (nth_upd_same _ _ _ _ _ N) in Ny. injection Ny as <-. cbn [t_cur] in Cy. subst nxt.
    exact (wf_inside tid _ l st' h d k Os).
  - rewrite nth_upd_other in Ny by exact Hj. exact (I j y h d k Ny Cy).
Qed.

Definition JLock (c : config) : Prop := OInv g_lock holds c /\ AllH c.

Lemma jlock_excl : forall c, JLock c -> excl c.
Proof.
  intros c [Io Ia] i j ti tj Ni Nj Ti Tj.
  assert (H : forall k t, nth_error (c_ths c) k = Some t -> tinside t = true -> at_pos holds t = true).
  { intros k t Nk Tk. unfold tinside, at_pos in *. destruct (t_cur t) as [[| | | | |h d kk]|] eqn:Ec; try discriminate Tk.
    cbn [holds]. exact (Ia k t h d kk Nk Ec). }
  exact (oinv_excl g_lock holds c i j ti tj Io Ni Nj (H i ti Ni Ti) (H j tj Nj Tj)).
Qed.

(* the lock is held by at most one thread, and whoever is inside the downstream observer holds it *)
Theorem lock_serial : forall st0 progs sched,
  let c := grun ostep st0 progs sched in
  serial (untag (c_log c)) = true /\ gram (users (untag (c_log c))) = true /\ excl c /\
  (forall tid t, nth_error (c_ths c) tid = Some t -> at_pos holds t = true -> g_lock (c_sh c) = Some tid).
Proof.
  intros st0 progs sched c.
  destruct (gen_serial JLock st0 progs) with (sched := sched) as (Hj & Hs & Hg).
  - split; [apply oinv_init|]. intros tid t h d k N Ec. rewrite (init_threads _ _ _ _ N) in Ec. discriminate Ec.
  - intros c0 tid [Io Ia]. split; [|apply allh_step, Ia].
    apply (oinv_step start (gact ostep) g_lock holds holds_start lock_HA lock_HB), Io.
  - exact jlock_excl.
  - fold c in Hj, Hs, Hg. repeat split; [exact Hs|exact Hg|apply jlock_excl, Hj|]. destruct Hj as [Io _]. exact Io.
Qed.
End GenFacts.

(* ======================================================================= *)
(* the operators of the current tree make every downstream call while holding their lock *)
Ltac wf_tac H :=
  repeat (match type of H with
          | context [match ?x with _ => _ end] => destruct x
          | context [if ?x then _ else _] => destruct x
          end; try discriminate H).

Ltac wf_lock_tac :=
  let H := fresh "H" in let Hq := fresh "Hq" in
  intros ? ? ? ? ? H Hq; wf_tac H; injection H as <- <-; cbn in Hq |- *; try discriminate Hq; auto.
Ltac wf_inside_tac :=
  let H := fresh "H" in
  intros ? ? ? ? ? ? ? H; wf_tac H; inversion H; reflexivity.

Lemma zip_wf_lock : forall tid st l st' q,
  zip_step true tid st l = Some (st', Some q) -> holds q = true -> holds l = true \/ is_acq l = true.
Proof. unfold zip_step. wf_lock_tac. Qed.
Lemma zip_wf_inside : forall tid st l st' h d k, zip_step true tid st l = Some (st', Some (PI h d k)) -> h = true.
Proof. unfold zip_step. wf_inside_tac. Qed.

Lemma cl_wf_lock : forall tid st l st' q,
  cl_step true tid st l = Some (st', Some q) -> holds q = true -> holds l = true \/ is_acq l = true.
Proof. unfold cl_step. wf_lock_tac. Qed.
Lemma cl_wf_inside : forall tid st l st' h d k, cl_step true tid st l = Some (st', Some (PI h d k)) -> h = true.
Proof. unfold cl_step. wf_inside_tac. Qed.

Lemma wl_wf_lock : forall tid st l st' q,
  wl_step true tid st l = Some (st', Some q) -> holds q = true -> holds l = true \/ is_acq l = true.
Proof. unfold wl_step. wf_lock_tac. Qed.
Lemma wl_wf_inside : forall tid st l st' h d k, wl_step true tid st l = Some (st', Some (PI h d k)) -> h = true.
Proof. unfold wl_step. wf_inside_tac. Qed.

Lemma ma_wf_lock : forall n tid st l st' q,
  ma_step true n tid st l = Some (st', Some q) -> holds q = true -> holds l = true \/ is_acq l = true.
Proof. intros n. unfold ma_step. wf_lock_tac. Qed.
Lemma ma_wf_inside : forall n tid st l st' h d k, ma_step true n tid st l = Some (st', Some (PI h d k)) -> h = true.
Proof. intros n. unfold ma_step. wf_inside_tac. Qed.

Lemma mm_wf_lock : forall n m tid st l st' q,
  mm_step true n m tid st l = Some (st', Some q) -> holds q = true -> holds l = true \/ is_acq l = true.
Proof. intros n m. unfold mm_step. wf_lock_tac. Qed.
Lemma mm_wf_inside : forall n m tid st l st' h d k, mm_step true n m tid st l = Some (st', Some (PI h d k)) -> h = true.
Proof. intros n m. unfold mm_step. wf_inside_tac. Qed.

Lemma wc_wf_lock : forall count tid st l st' q,
  wc_step count tid st l = Some (st', Some q) -> holds q = true -> holds l = true \/ is_acq l = true.
Proof. intros count. unfold wc_step. wf_lock_tac. Qed.
Lemma wc_wf_inside : forall count tid st l st' h d k, wc_step count tid st l = Some (st', Some (PI h d k)) -> h = true.
Proof. intros count. unfold wc_step. wf_inside_tac. Qed.

Lemma wt_wf_lock : forall shift tid st l st' q,
  wt_step shift tid st l = Some (st', Some q) -> holds q = true -> holds l = true \/ is_acq l = true.
Proof. intros shift. unfold wt_step. wf_lock_tac. Qed.
Lemma wt_wf_inside : forall shift tid st l st' h d k, wt_step shift tid st l = Some (st', Some (PI h d k)) -> h = true.
Proof. intros shift. unfold wt_step. wf_inside_tac. Qed.

(* ======================================================================= *)
(* amb forwards OUTSIDE the lock; it is serial because only the chosen side forwards, the choice
   is written once, and each side is one thread *)
Definition am_owner (sh : gsh amst) : option nat := am_choice (g_st sh).

Lemma am_HA : forall tid (s : gsh amst) l s' l' out,
  gact am_step tid s l = Some (s', Some l', out) -> inside l' = true ->
  (inside l = true -> am_owner s = Some tid) -> am_owner s' = Some tid.
Proof.
  intros tid s l s' l' out A H _. destruct (gact_inv _ _ _ _ _ _ _ A) as (st' & Os & Es & _).
  unfold am_owner. rewrite Es. clear A Es. destruct l' as [| | | | |h d k]; try discriminate H.
  unfold am_step in Os. destruct (g_st s) as [ch gate].
  destruct l as [e| |k0 a|k0 a|h0 a|h0 d0 k0].
  - destruct e; try discriminate Os; destruct (getb gate tid); discriminate Os.
  - discriminate Os.
  - destruct k0; [|discriminate Os]. destruct ch as [c|]; [|discriminate Os].
    destruct (Nat.eqb c tid) eqn:Ec; [|discriminate Os]. injection Os as <- _ _ _.
    cbn [am_choice]. f_equal. apply Nat.eqb_eq, Ec.
  - destruct k0; [|discriminate Os]. destruct ch; discriminate Os.
  - discriminate Os.
  - discriminate Os.
Qed.

Lemma am_HB : forall tid (s : gsh amst) l s' l' out tid',
  gact am_step tid s l = Some (s', l', out) -> am_owner s = Some tid' -> tid' <> tid -> inside l = false ->
  am_owner s' = Some tid'.
Proof.
  intros tid s l s' l' out tid' A Ho _ _. destruct (gact_inv _ _ _ _ _ _ _ A) as (st' & Os & Es & _).
  unfold am_owner in *. rewrite Es. clear A Es. unfold am_step in Os. destruct (g_st s) as [ch gate].
  cbn [am_choice] in Ho. subst ch.
  wf_tac Os; injection Os as <- <-; reflexivity.
Qed.

Lemma inside_start : forall e, inside (start e) = false.
Proof. destruct e; reflexivity. Qed.

Theorem amb_serial : forall progs sched,
  let c := run_am progs sched in
  serial (untag (c_log c)) = true /\ gram (users (untag (c_log c))) = true /\ excl c /\
  (forall tid t, nth_error (c_ths c) tid = Some t -> tinside t = true -> am_choice (g_st (c_sh c)) = Some tid).
Proof.
  intros progs sched c.
  destruct (gen_serial am_step (OInv am_owner inside) am_init progs) with (sched := sched) as (Hj & Hs & Hg).
  - apply oinv_init.
  - intros c0 tid I. apply (oinv_step start (gact am_step) am_owner inside inside_start am_HA am_HB), I.
  - intros c0 I i j ti tj Ni Nj Ti Tj. exact (oinv_excl am_owner inside c0 i j ti tj I Ni Nj Ti Tj).
  - fold c in Hj, Hs, Hg. split; [exact Hs|split; [exact Hg|split]].
    + intros i j ti tj Ni Nj Ti Tj. exact (oinv_excl am_owner inside c i j ti tj Hj Ni Nj Ti Tj).
    + exact Hj.
Qed.

(* ---- the theorems, operator by operator (current tree: fx = true) ------------------ *)
Definition serial_grammar_excl {S} (c : @config (gsh S) pos sev cobs) : Prop :=
  serial (untag (c_log c)) = true /\ gram (users (untag (c_log c))) = true /\ excl c /\
  (forall tid t, nth_error (c_ths c) tid = Some t -> at_pos holds t = true -> g_lock (c_sh c) = Some tid).

Theorem zip_serial : forall progs sched, serial_grammar_excl (run_zip true progs sched).
Proof. intros. apply (lock_serial (zip_step true) zip_wf_lock zip_wf_inside). Qed.
Theorem combine_latest_serial : forall progs sched, serial_grammar_excl (run_cl true progs sched).
Proof. intros. apply (lock_serial (cl_step true) cl_wf_lock cl_wf_inside). Qed.
Theorem with_latest_from_serial : forall progs sched, serial_grammar_excl (run_wl true progs sched).
Proof. intros. apply (lock_serial (wl_step true) wl_wf_lock wl_wf_inside). Qed.
Theorem merge_all_serial : forall progs sched, serial_grammar_excl (run_ma true progs sched).
Proof. intros. apply (lock_serial (ma_step true (length progs)) (ma_wf_lock _) (ma_wf_inside _)). Qed.
Theorem merge_max_serial : forall m progs sched, serial_grammar_excl (run_mm true m progs sched).
Proof. intros. apply (lock_serial (mm_step true (length progs) m) (mm_wf_lock _ _) (mm_wf_inside _ _)). Qed.
Theorem window_time_or_count_serial : forall count progs sched, serial_grammar_excl (run_wc count progs sched).
Proof. intros. apply (lock_serial (wc_step count) (wc_wf_lock _) (wc_wf_inside _)). Qed.
Theorem window_time_serial : forall span shift progs sched, serial_grammar_excl (run_wt span shift progs sched).
Proof. intros. apply (lock_serial (wt_step shift) (wt_wf_lock _) (wt_wf_inside _)). Qed.

(* ---- the code before the fixes is refuted: schedules reproduced on the old source with k3 ---- *)
Lemma zip_refuted_completed :
  serial (untag (comb_log 0 false [] [[SNext; SDone]; [SNext; SNext]] [0;0;0;0;0;1;1;1;1;0;0;1;1;1;1])) = false.
Proof. vm_compute. reflexivity. Qed.
Lemma zip_refuted_error :
  serial (untag (comb_log 0 false [] [[SNext; SErr]; [SNext; SNext]] [0;0;0;0;1;1;1;1;1;1;1;0])) = false.
Proof. vm_compute. reflexivity. Qed.
Lemma combine_latest_refuted :
  serial (untag (comb_log 1 false [] [[SNext; SNext]; [SNext; SErr]] [0;0;0;1;1;1;1;0;0;1])) = false.
Proof. vm_compute. reflexivity. Qed.
Lemma with_latest_from_refuted :
  serial (untag (comb_log 2 false [] [[SNext; SNext]; [SNext; SErr]] [0;0;0;1;1;1;0;0;1])) = false.
Proof. vm_compute. reflexivity. Qed.
Lemma merge_all_refuted_error :
  serial (untag (comb_log 3 false [] [[SNext; SErr]; [SNext; SNext]] [0;0;1;0;0;1;1;1;0])) = false.
Proof. vm_compute. reflexivity. Qed.
Lemma merge_all_refuted_completed :
  serial (untag (comb_log 3 false [] [[SNext; SDone]; [SNext; SDone]] [1;0;0;0;0;0;1;1;0;0;1])) = false.
Proof. vm_compute. reflexivity. Qed.
Lemma merge_max_refuted_completed :
  serial (untag (comb_log 4 false [1] [[SNext; SDone]; [SNext; SDone]] [1;0;0;0;0;0;0;0;1;1;0;0;1])) = false.
Proof. vm_compute. reflexivity. Qed.
Lemma merge_max_refuted_error :
  serial (untag (comb_log 4 false [1] [[SNext; SErr]; [SNext; SNext]] [0;0;0;0;1;0;0;1;1;1;0])) = false.
Proof. vm_compute. reflexivity. Qed.
