(* Facts about Core/AsyncIO.v (C33): theorems over ALL schedules (thread steps and clock advances),
   any calls of the thread that runs the loop before run_forever(), any number of foreign threads
   with any programs, any action bodies.

   The invariant [Q] (a record) is about the shared state, the phase of the loop thread and the
   disposes in progress on the foreign threads:
     - every handle the loop can still reach is in exactly one of: held by the loop / _ready / _scheduled
       (no duplicates), stage handles never come back once consumed, so stage2 of a call runs at most
       once and the closure's handle list has at most two entries;
     - every handle of a call is cancelled, or still in the closure's handle list, or is the timer that
       stage2 has just created and not yet appended;
     - a call whose cancellation is complete has all its handles cancelled;
     - a foreign thread is in the middle of a direct dispose only while the loop has not started;
     - a thread waiting in future.result() is released only after its cancel_handle ran;
     - the log is accepted by the scanner "no AStart u after ADispRet u". *)
From RxVerif Require Import Base.Prelude Core.AsyncIO.
Local Open Scope Z_scope.

(* ---------------------------------------------------------------- part 1 *)
Ltac inv H := inversion H; subst; clear H.

(* ---- lists ------------------------------------------------------------------------- *)
Lemma anth_upd_same : forall A (l : list A) k x old,
  nth_error l k = Some old -> nth_error (aupd k x l) k = Some x.
Proof.
  induction l as [|y t IH]; intros k x old H; [destruct k; discriminate H|].
  destruct k as [|k']; cbn [aupd nth_error] in *; [reflexivity|]. eapply IH, H.
Qed.
Lemma anth_upd_other : forall A (l : list A) k j x, j <> k -> nth_error (aupd k x l) j = nth_error l j.
Proof.
  induction l as [|y t IH]; intros k j x H; [destruct k; reflexivity|].
  destruct k as [|k'], j as [|j']; cbn [aupd nth_error]; try reflexivity; [congruence|]. apply IH. congruence.
Qed.
Lemma aupd_length : forall A (l : list A) k x, length (aupd k x l) = length l.
Proof.
  induction l as [|y t IH]; intros k x; [destruct k; reflexivity|].
  destruct k; cbn [aupd length]; [reflexivity|]. rewrite IH. reflexivity.
Qed.
Lemma aupd_none : forall A (l : list A) k x, nth_error l k = None -> aupd k x l = l.
Proof.
  induction l as [|y t IH]; intros k x H; [destruct k; reflexivity|].
  destruct k; cbn in *; [discriminate H|]. f_equal. apply IH, H.
Qed.

Lemma amem_in : forall a l, amem a l = true <-> In a l.
Proof.
  induction l as [|b t IH]; cbn; [split; [discriminate|intros []]|].
  rewrite orb_true_iff, IH, Nat.eqb_eq. split; intros [H|H]; auto.
Qed.
Lemma amem_app : forall a l1 l2, amem a (l1 ++ l2) = amem a l1 || amem a l2.
Proof. induction l1; intros; cbn; [reflexivity|]. rewrite IHl1, orb_assoc. reflexivity. Qed.

Lemma nth_error_app_last : forall A (l : list A) x, nth_error (l ++ [x]) (length l) = Some x.
Proof. intros. rewrite nth_error_app2 by lia. rewrite Nat.sub_diag. reflexivity. Qed.

Lemma nth_error_app_old : forall A (l : list A) x h y, nth_error l h = Some y -> nth_error (l ++ [x]) h = Some y.
Proof. intros. rewrite nth_error_app1; [assumption|]. apply nth_error_Some. congruence. Qed.

Lemma nth_error_app_inv : forall A (l : list A) x h y,
  nth_error (l ++ [x]) h = Some y -> nth_error l h = Some y \/ (h = length l /\ y = x).
Proof.
  intros A l x h y H. destruct (Nat.lt_ge_cases h (length l)) as [L|L].
  - rewrite nth_error_app1 in H by exact L. left. exact H.
  - rewrite nth_error_app2 in H by exact L. destruct (h - length l)%nat as [|k] eqn:K; [|destruct k; discriminate H].
    inv H. right. split; [lia|reflexivity].
Qed.

(* timers *)
Lemma tinsert_in : forall w h l x, In x (tinsert w h l) <-> x = (w, h) \/ In x l.
Proof.
  induction l as [|[w' h'] t IH]; intros x; cbn; [intuition|].
  destruct (w <? w'); cbn; [intuition|]. rewrite IH. intuition.
Qed.

Lemma split_due_due : forall now l due rest, split_due now l = (due, rest) ->
  forall h, In h due -> exists w, In (w, h) l /\ w <= now.
Proof.
  induction l as [|[w h] t IH]; intros due rest H h0 I; cbn in H; [inv H; destruct I|].
  destruct (w <=? now) eqn:E; [|inv H; destruct I].
  destruct (split_due now t) as [d r] eqn:S. inv H. apply Z.leb_le in E. destruct I as [<-|I].
  - exists w. split; [left; reflexivity|exact E].
  - destruct (IH d rest eq_refl h0 I) as [w0 [X Y]]. exists w0. split; [right; exact X|exact Y].
Qed.

Lemma split_due_rest : forall now l due rest, split_due now l = (due, rest) ->
  forall x, In x rest -> In x l.
Proof.
  induction l as [|[w h] t IH]; intros due rest H x I; cbn in H; [inv H; destruct I|].
  destruct (w <=? now) eqn:E; [|inv H; exact I].
  destruct (split_due now t) as [d r] eqn:S. inv H. right. eapply IH; [reflexivity|exact I].
Qed.

Lemma split_due_handles : forall now l due rest, split_due now l = (due, rest) ->
  map snd l = due ++ map snd rest.
Proof.
  induction l as [|[w h] t IH]; intros due rest H; cbn in H; [inv H; reflexivity|].
  destruct (w <=? now) eqn:E; [|inv H; reflexivity].
  destruct (split_due now t) as [d r] eqn:S. inv H. cbn. f_equal. apply IH. reflexivity.
Qed.

Lemma tinsert_handles_in : forall w h l x, In x (map snd (tinsert w h l)) <-> x = h \/ In x (map snd l).
Proof.
  induction l as [|[w' h'] t IH]; intros x; cbn; [intuition|].
  destruct (w <? w'); cbn; [intuition|]. rewrite IH. intuition.
Qed.

Lemma tinsert_nodup : forall w h l, NoDup (map snd l) -> ~ In h (map snd l) -> NoDup (map snd (tinsert w h l)).
Proof.
  induction l as [|[w' h'] t IH]; intros N I; cbn; [constructor; [intros []|constructor]|].
  destruct (w <? w'); cbn; [constructor; assumption|]. cbn in N, I. inv N. constructor.
  - intros X. apply tinsert_handles_in in X. destruct X as [->|X]; [apply I; left; reflexivity|contradiction].
  - apply IH; [assumption|]. intros X. apply I. right. exact X.
Qed.

Lemma drop_cancelled_suffix : forall canc l, exists pre, l = pre ++ drop_cancelled canc l.
Proof.
  induction l as [|[w h] t IH]; cbn; [exists []; reflexivity|].
  destruct (amem h canc); [|exists []; reflexivity]. destruct IH as [pre E]. exists ((w, h) :: pre). cbn. f_equal. exact E.
Qed.

Lemma NoDup_app_r : forall A (a b : list A), NoDup (a ++ b) -> NoDup b.
Proof. induction a; intros b H; [exact H|]. inv H. apply IHa. assumption. Qed.
Lemma NoDup_app_l : forall A (a b : list A), NoDup (a ++ b) -> NoDup a.
Proof.
  induction a; intros b H; [constructor|]. inv H. constructor; [|eapply IHa; eassumption].
  intros X. apply H2. apply in_or_app. left. exact X.
Qed.
Lemma NoDup_app_disj : forall A (a b : list A) x, NoDup (a ++ b) -> In x a -> In x b -> False.
Proof.
  induction a; intros b x H I J; [destruct I|]. inv H. destruct I as [->|I].
  - apply H2. apply in_or_app. right. exact J.
  - eapply IHa; eassumption.
Qed.
Lemma NoDup_app_intro : forall A (a b : list A), NoDup a -> NoDup b -> (forall x, In x a -> In x b -> False) -> NoDup (a ++ b).
Proof.
  induction a; intros b Na Nb D; [exact Nb|]. inv Na. cbn. constructor.
  - intros X. apply in_app_or in X. destruct X as [X|X]; [contradiction|]. eapply D; [left; reflexivity|exact X].
  - apply IHa; auto. intros x I J. eapply D; [right; exact I|exact J].
Qed.

Lemma drop_cancelled_in : forall canc l x, In x (drop_cancelled canc l) -> In x l.
Proof.
  induction l as [|[w h] t IH]; intros x H; cbn in H; [exact H|].
  destruct (amem h canc); [right; apply IH, H|exact H].
Qed.

(* stacks *)
Lemma removelast_in : forall (l : list nat) x, In x (removelast l) -> In x l.
Proof.
  induction l as [|a l IH]; intros x H; [destruct H|]. cbn in H. destruct l; [destruct H|].
  destruct H as [<-|H]; [left; reflexivity|right; apply IH, H].
Qed.

Lemma in_last_or_removelast : forall (l : list nat) x, In x l -> x = last l 0%nat \/ In x (removelast l).
Proof.
  induction l as [|a l IH]; intros x H; [destruct H|]. destruct l as [|b l].
  - destruct H as [<-|[]]. left. reflexivity.
  - destruct H as [<-|H]; [right; left; reflexivity|]. destruct (IH x H) as [E|I]; [left; exact E|right; right; exact I].
Qed.

Lemma removelast_length : forall (l : list nat), length (removelast l) = pred (length l).
Proof. induction l as [|a l IH]; [reflexivity|]. cbn. destruct l; [reflexivity|]. cbn in *. rewrite IH. reflexivity. Qed.

Lemma last2_all : forall (l : list nat), (length l <= 2)%nat -> last2 l = l.
Proof. intros l H. unfold last2. replace (length l - 2)%nat with 0%nat by lia. reflexivity. Qed.

Lemma removelast2_nil : forall (l : list nat), (length l <= 2)%nat -> removelast2 l = [].
Proof.
  intros l H. unfold removelast2. destruct l as [|a [|b [|c l]]]; try reflexivity. cbn in H. lia.
Qed.

(* ---- the log scanner: no start after dispose() returned ---------------------------- *)
Fixpoint dseen (seen : list nat) (l : list aev) : list nat :=
  match l with
  | [] => seen
  | ADispRet u :: r => dseen (u :: seen) r
  | _ :: r => dseen seen r
  end.

Fixpoint disp_ok (seen : list nat) (l : list aev) : bool :=
  match l with
  | [] => true
  | ADispRet u :: r => disp_ok (u :: seen) r
  | AStart u :: r => negb (amem u seen) && disp_ok seen r
  | _ :: r => disp_ok seen r
  end.

Lemma dseen_app : forall a b seen, dseen seen (a ++ b) = dseen (dseen seen a) b.
Proof. induction a as [|e a IH]; intros b seen; [reflexivity|]. destruct e; cbn; apply IH. Qed.

Lemma disp_ok_app : forall a b seen, disp_ok seen (a ++ b) = disp_ok seen a && disp_ok (dseen seen a) b.
Proof.
  induction a as [|e a IH]; intros b seen; [reflexivity|]. destruct e; cbn; try apply IH.
  rewrite IH, andb_assoc. reflexivity.
Qed.

Lemma amem_dseen : forall l seen u, amem u seen = true \/ In (ADispRet u) l -> amem u (dseen seen l) = true.
Proof.
  induction l as [|e l IH]; intros seen u H; cbn.
  - destruct H as [H|[]]. exact H.
  - destruct e; try (apply IH; destruct H as [H|[H|H]]; [left; exact H|discriminate H|right; exact H]).
    apply IH. destruct H as [H|[H|H]].
    + left. cbn. rewrite H. apply orb_true_r.
    + inv H. left. cbn. rewrite Nat.eqb_refl. reflexivity.
    + right. exact H.
Qed.

Lemma disp_ok_spec : forall l1 u l2 seen,
  disp_ok seen (l1 ++ ADispRet u :: l2) = true -> ~ In (AStart u) l2.
Proof.
  intros l1 u l2 seen H I. rewrite disp_ok_app in H. apply andb_true_iff in H. destruct H as [_ H]. cbn in H.
  destruct (in_split _ _ I) as [m1 [m2 E]]. rewrite E, disp_ok_app in H. apply andb_true_iff in H. destruct H as [_ H].
  cbn in H. apply andb_true_iff in H. destruct H as [H _].
  rewrite (amem_dseen m1 (u :: dseen seen l1) u) in H; [discriminate H|]. left. cbn. rewrite Nat.eqb_refl. reflexivity.
Qed.

Definition aevs (l : list (nat * Z * aev)) : list aev := map snd l.
Definition AL_ (c : aconfig) : list aev := aevs (a_log c).
Lemma aevs_app : forall a b, aevs (a ++ b) = aevs a ++ aevs b.
Proof. intros. unfold aevs. apply map_app. Qed.
Lemma aevs_stamp : forall tid clk out, aevs (astamp tid clk out) = out.
Proof. intros. unfold aevs, astamp. rewrite map_map. cbn. apply map_id. Qed.

(* ---------------------------------------------------------------- part 2 *)
Definition owner (s : ash) (h : nat) : option nat :=
  match nth_error (ahs s) h with
  | Some (CbAction u) | Some (CbStage2 u _) => Some u
  | _ => None
  end.
Definition held (ph : aphase) : list nat :=
  match ph with LCheck h _ | LRun h _ => [h] | _ => [] end.
Definition lcur (ph : aphase) : option dst :=
  match ph with LPre c _ | LAct _ c _ _ => c | _ => None end.
Definition stack (s : ash) (u : nat) : list nat :=
  match nth_error (ahl s) u with Some (_, l) => l | None => [] end.
Definition twostage (s : ash) (u : nat) : bool :=
  match nth_error (ahl s) u with Some (b, _) => b | None => false end.
Definition is_pre (ph : aphase) : bool := match ph with LPre _ _ | LDone => true | _ => false end.
Definition stage2b_of (ph : aphase) : option (nat * nat) :=
  match ph with LStage2b u h _ => Some (u, h) | _ => None end.
Definition fcur (t : athread) : option dst := match t with AF c _ => c | AL _ => None end.
Definition is_af (t : athread) : bool := match t with AF _ _ => true | AL _ => false end.

(* the invariant: [s] shared state, [ph] phase of the loop thread, [rest] the foreign threads *)
Record Q (safe : bool) (s : ash) (ph : aphase) (rest : list athread) (log : list aev) : Prop := {
  q_af : forall t, In t rest -> is_af t = true;
  q_safe : rest <> [] -> safe = true;
  (* handles *)
  q_bound : forall h, In h (held ph ++ aready s ++ map snd (atimers s)) -> (h < length (ahs s))%nat;
  q_nodup : NoDup (held ph ++ aready s ++ map snd (atimers s));
  q_timers : forall w h, In (w, h) (atimers s) -> exists u, nth_error (ahs s) h = Some (CbAction u);
  q_owner : forall h u, owner s h = Some u -> (u < length (ahl s))%nat;
  q_eff_bound : forall u, In u (aeff s) -> (u < length (ahl s))%nat;
  q_ran_bound : forall u, In u (aran s) -> (u < length (ahl s))%nat;
  q_stage_uniq : forall h h' u d d', nth_error (ahs s) h = Some (CbStage2 u d) ->
                   nth_error (ahs s) h' = Some (CbStage2 u d') -> h = h';
  q_stage_two : forall h u d, nth_error (ahs s) h = Some (CbStage2 u d) -> twostage s u = true;
  q_ran : forall u h d, In u (aran s) -> nth_error (ahs s) h = Some (CbStage2 u d) -> ~ In h (held ph ++ aready s);
  (* cancellation *)
  q_eff : forall u h, In u (aeff s) -> owner s h = Some u -> amem h (acanc s) = true;
  q_where : forall u h, owner s h = Some u ->
              amem h (acanc s) = true \/ In h (stack s u) \/ stage2b_of ph = Some (u, h);
  q_len : forall u, twostage s u = true -> (length (stack s u) <= (if amem u (aran s) then 2 else 1))%nat;
  q_s2b : forall u h, stage2b_of ph = Some (u, h) ->
            twostage s u = true /\ In u (aran s) /\ (length (stack s u) <= 1)%nat;
  (* threads *)
  q_run : arunning s = negb (is_pre ph);
  q_fpop : forall t u, In t rest -> fcur t = Some (FPop2 u) ->
             arunning s = false /\ twostage s u = true /\ (length (stack s u) <= 1)%nat;
  q_lpop : forall u, lcur ph = Some (FPop2 u) -> twostage s u = true /\ (length (stack s u) <= 1)%nat;
  q_lwait : forall u f, lcur ph <> Some (FWait u f);
  q_fwait : forall t u f, In t rest -> fcur t = Some (FWait u f) ->
              (f < anfut s)%nat /\ (amem f (afut s) = true -> In u (aeff s));
  q_cancel_cb : forall h u' f', nth_error (ahs s) h = Some (CbCancel u' f') ->
              (f' < anfut s)%nat /\ forall t u, In t rest -> fcur t = Some (FWait u f') -> u = u';
  q_cancel_u : forall h u' f', nth_error (ahs s) h = Some (CbCancel u' f') -> (u' < length (ahl s))%nat;
  q_fut : forall f, In f (afut s) -> (f < anfut s)%nat;
  (* the log *)
  q_log : disp_ok [] log = true;
  q_seen : forall u, In u (dseen [] log) -> In u (aeff s)
}.

(* ---------------------------------------------------------------- part 3 *)
Section Facts.
Variable ts : bool.
Variable fixed : bool.
Variable abody : nat -> list aop.

(* a step of the calls a thread makes, as a relation *)
Inductive cstep (on_loop : bool) (s : ash) : option dst -> list aop -> ash -> option dst -> list aop -> list aev -> Prop :=
| C_now : forall r,
    cstep on_loop s None (ANow :: r) (fst (do_sched ts s 0)) None r (snd (do_sched ts s 0))
| C_rel : forall d r,
    cstep on_loop s None (ARel d :: r) (fst (do_sched ts s d)) None r (snd (do_sched ts s d))
| C_noop1 : forall u r, nth_error (ahl s) u = None ->
    cstep on_loop s None (ADispose u :: r) s None r [ADispNoop u]
| C_noop2 : forall u r two l, nth_error (ahl s) u = Some (two, l) -> amem u (adisp s) = true ->
    cstep on_loop s None (ADispose u :: r) s None r [ADispNoop u]
| C_single : forall u r l, nth_error (ahl s) u = Some (false, l) -> amem u (adisp s) = false ->
    (on_loop || negb (arunning s) || negb (ts && fixed)) = true ->
    cstep on_loop s None (ADispose u :: r)
      (ASh (aclock s) (arunning s) (awoken s) (ahs s) (aready s) (atimers s) (l ++ acanc s) (ahl s) (adue s)
           (u :: adisp s) (afut s) (anfut s) (aran s) (u :: aeff s) (astopping s) (asegs s)) None r [ADispRet u]
| C_two_empty : forall u r, nth_error (ahl s) u = Some (true, []) -> amem u (adisp s) = false ->
    (on_loop || negb (arunning s) || negb (ts && fixed)) = true ->
    cstep on_loop s None (ADispose u :: r)
      (ASh (aclock s) (arunning s) (awoken s) (ahs s) (aready s) (atimers s) (acanc s) (ahl s) (adue s)
           (u :: adisp s) (afut s) (anfut s) (aran s) (u :: aeff s) (astopping s) (asegs s)) None r [ADispRet u]
| C_two_first : forall u r x l, nth_error (ahl s) u = Some (true, x :: l) -> amem u (adisp s) = false ->
    (on_loop || negb (arunning s) || negb (ts && fixed)) = true ->
    cstep on_loop s None (ADispose u :: r)
      (ASh (aclock s) (arunning s) (awoken s) (ahs s) (aready s) (atimers s) (last (x :: l) 0%nat :: acanc s)
           (aupd u (true, removelast (x :: l)) (ahl s)) (adue s)
           (u :: adisp s) (afut s) (anfut s) (aran s) (aeff s) (astopping s) (asegs s)) (Some (FPop2 u)) r []
| C_marshal : forall u r two l, nth_error (ahl s) u = Some (two, l) -> amem u (adisp s) = false ->
    (on_loop || negb (arunning s) || negb (ts && fixed)) = false ->
    cstep on_loop s None (ADispose u :: r)
      (ASh (aclock s) (arunning s) true (ahs s ++ [CbCancel u (anfut s)]) (aready s ++ [length (ahs s)]) (atimers s)
           (acanc s) (ahl s) (adue s) (u :: adisp s) (afut s) (S (anfut s)) (aran s) (aeff s) (astopping s) (asegs s))
      (Some (FWait u (anfut s))) r []
| C_pop2 : forall u todo b x l, nth_error (ahl s) u = Some (b, x :: l) ->
    cstep on_loop s (Some (FPop2 u)) todo
      (ASh (aclock s) (arunning s) (awoken s) (ahs s) (aready s) (atimers s) (last (x :: l) 0%nat :: acanc s)
           (aupd u (true, removelast (x :: l)) (ahl s)) (adue s)
           (adisp s) (afut s) (anfut s) (aran s) (u :: aeff s) (astopping s) (asegs s)) None todo [ADispRet u]
| C_pop2_empty : forall u todo, stack s u = [] ->
    cstep on_loop s (Some (FPop2 u)) todo
      (ASh (aclock s) (arunning s) (awoken s) (ahs s) (aready s) (atimers s) (acanc s) (ahl s) (adue s)
           (adisp s) (afut s) (anfut s) (aran s) (u :: aeff s) (astopping s) (asegs s)) None todo [ADispRet u]
| C_wait : forall u f todo, amem f (afut s) = true ->
    cstep on_loop s (Some (FWait u f)) todo s None todo [ADispRet u]
| C_stop : forall r,
    cstep on_loop s None (AStop :: r) (set_stop s true (asegs s)) None r [AStopEv]
| C_sleep : forall t r, t <= aclock s ->
    cstep on_loop s None (ASleep t :: r) s None r [ASlept]
| C_abs : forall t r,
    cstep on_loop s None (AAbs t :: r) (fst (do_sched ts s (t - aclock s))) None r (snd (do_sched ts s (t - aclock s))).

Lemma call_step_spec : forall on_loop s cur todo s' cur' todo' out,
  call_step ts fixed on_loop s cur todo = Some (s', cur', todo', out) ->
  cstep on_loop s cur todo s' cur' todo' out.
Proof.
  intros on_loop s cur todo s' cur' todo' out H. unfold call_step in H. destruct cur as [[u|u f]|].
  - unfold do_cont in H. destruct (nth_error (ahl s) u) as [[b [|x l]]|] eqn:N; inv H;
      unfold set_canc; cbn [aclock arunning awoken ahs aready atimers acanc ahl adue adisp afut anfut aran aeff astopping asegs].
    + apply C_pop2_empty. unfold stack. rewrite N. reflexivity.
    + eapply C_pop2. exact N.
    + apply C_pop2_empty. unfold stack. rewrite N. reflexivity.
  - unfold do_cont in H. destruct (amem f (afut s)) eqn:M; inv H. apply C_wait. exact M.
  - destruct todo as [|[|d|u| |t|t] r]; [discriminate H| | | | | |].
    + pose proof (C_now on_loop s r) as X. destruct (do_sched ts s 0) as [s1 o1] eqn:D. inv H. exact X.
    + pose proof (C_rel on_loop s d r) as X. destruct (do_sched ts s d) as [s1 o1] eqn:D. inv H. exact X.
    + unfold do_dispose in H. destruct (nth_error (ahl s) u) as [[two l]|] eqn:N; [|inv H; apply C_noop1; exact N].
      destruct (amem u (adisp s)) eqn:M; [inv H; eapply C_noop2; eassumption|].
      destruct (on_loop || negb (arunning s) || negb (ts && fixed)) eqn:DIR.
      * destruct two.
        -- destruct l as [|x l]; inv H; unfold set_canc; cbn [aclock arunning awoken ahs aready atimers acanc ahl adue adisp afut anfut aran aeff astopping asegs];
             [apply C_two_empty|apply C_two_first]; assumption.
        -- inv H. unfold set_canc; cbn [aclock arunning awoken ahs aready atimers acanc ahl adue adisp afut anfut aran aeff astopping asegs].
           apply C_single; assumption.
      * inv H. eapply C_marshal; eassumption.
    + inv H. apply C_stop.
    + destruct (t <=? aclock s) eqn:E; inv H. apply C_sleep. apply Z.leb_le. exact E.
    + pose proof (C_abs on_loop s t r) as X. destruct (do_sched ts s (t - aclock s)) as [s1 o1] eqn:D. inv H. exact X.
Qed.
End Facts.

(* ---------------------------------------------------------------- part 4 *)
(* ---- stacks / kinds on raw tables ---------------------------------------------------- *)
Lemma stack_eq : forall s u, stack s u = match nth_error (ahl s) u with Some (_, l) => l | None => [] end.
Proof. reflexivity. Qed.

Definition hl_app_old : forall (hl : list (bool * list nat)) e u, (u < length hl)%nat ->
  nth_error (hl ++ [e]) u = nth_error hl u.
Proof. intros. apply nth_error_app1. assumption. Qed.

Lemma owner_app_old : forall s hs' c h u,
  ahs s = hs' -> forall s', ahs s' = hs' ++ [c] -> owner s h = Some u -> owner s' h = Some u.
Proof.
  intros s hs' c h u E s' E' O. unfold owner in *. rewrite E in O. rewrite E'.
  destruct (nth_error hs' h) as [x|] eqn:N; [|discriminate O]. rewrite (nth_error_app_old _ _ _ _ _ N). exact O.
Qed.

Lemma owner_lt : forall s h u, owner s h = Some u -> (h < length (ahs s))%nat.
Proof. intros s h u O. unfold owner in O. apply nth_error_Some. destruct (nth_error (ahs s) h); [discriminate|discriminate O]. Qed.

Lemma NoDup_app_fresh : forall (l : list nat) x, NoDup l -> ~ In x l -> NoDup (l ++ [x]).
Proof.
  induction l as [|a l IH]; intros x N I; cbn; [constructor; [intros []|constructor]|].
  inv N. constructor.
  - intros X. apply in_app_or in X. destruct X as [X|[X|[]]]; [contradiction|subst; apply I; left; reflexivity].
  - apply IH; [assumption|]. intros X. apply I. right. exact X.
Qed.

Lemma NoDup_insert_mid : forall (a b : list nat) x, NoDup (a ++ b) -> ~ In x (a ++ b) -> NoDup (a ++ x :: b).
Proof.
  induction a as [|y a IH]; intros b x N I; cbn in *; [constructor; assumption|].
  inv N. constructor.
  - intros X. apply in_app_or in X. destruct X as [X|[X|X]].
    + apply H1. apply in_or_app. left. exact X.
    + subst. apply I. left. reflexivity.
    + apply H1. apply in_or_app. right. exact X.
  - apply IH; [assumption|]. intros X. apply I. right. exact X.
Qed.

Lemma nodup3_fresh_ready : forall (H R T : list nat) h, NoDup (H ++ R ++ T) -> ~ In h (H ++ R ++ T) ->
  NoDup (H ++ (R ++ [h]) ++ T).
Proof.
  intros H R T h N I. replace (H ++ (R ++ [h]) ++ T) with ((H ++ R) ++ h :: T) by (rewrite <- !app_assoc; reflexivity).
  apply NoDup_insert_mid; rewrite <- app_assoc; assumption.
Qed.

Lemma nodup3_fresh_timer : forall (H R : list nat) tm w h, NoDup (H ++ R ++ map snd tm) -> ~ In h (H ++ R ++ map snd tm) ->
  NoDup (H ++ R ++ map snd (tinsert w h tm)).
Proof.
  intros H R tm w h N I. rewrite app_assoc in *. apply NoDup_app_intro.
  - eapply NoDup_app_l, N.
  - apply tinsert_nodup; [eapply NoDup_app_r, N|]. intros X. apply I. apply in_or_app. right. exact X.
  - intros x X Y. apply tinsert_handles_in in Y. destruct Y as [->|Y].
    + apply I. apply in_or_app. left. exact X.
    + eapply NoDup_app_disj; eassumption.
Qed.

Lemma disp_ok_one_other : forall seen e, (forall u, e <> AStart u) -> disp_ok seen [e] = true.
Proof. intros seen e H. destruct e; try reflexivity. exfalso. eapply H. reflexivity. Qed.
Lemma dseen_one_other : forall seen e, (forall u, e <> ADispRet u) -> dseen seen [e] = seen.
Proof. intros seen e H. destruct e; try reflexivity. exfalso. eapply H. reflexivity. Qed.

Section Facts.
Variable ts : bool.
Variable fixed : bool.

(* the calling thread: the loop thread (whose phase keeps its shape) or a foreign one *)
Inductive executor (safe : bool) (ph : aphase) (rest : list athread) (cur : option dst) (todo : list aop)
  : bool -> aphase -> list athread -> option dst -> list aop -> Prop :=
| EX_pre : forall cur' todo', ph = LPre cur todo ->
    executor safe ph rest cur todo true (LPre cur' todo') rest cur' todo'
| EX_act : forall u k cur' todo', ph = LAct u cur todo k ->
    executor safe ph rest cur todo true (LAct u cur' todo' k) rest cur' todo'
| EX_foreign : forall n cur' todo', nth_error rest n = Some (AF cur todo) -> safe = ts && fixed ->
    executor safe ph rest cur todo false ph (aupd n (AF cur' todo') rest) cur' todo'.

Lemma executor_shape : forall safe ph rest cur todo ol ph' rest' cur' todo',
  executor safe ph rest cur todo ol ph' rest' cur' todo' ->
  held ph' = held ph /\ stage2b_of ph' = stage2b_of ph /\ is_pre ph' = is_pre ph /\
  (ol = true -> held ph = [] /\ stage2b_of ph = None /\ lcur ph = cur /\ lcur ph' = cur' /\ rest' = rest) /\
  (ol = false -> lcur ph' = lcur ph).
Proof. intros. inv H; cbn; repeat split; auto; discriminate. Qed.

(* threads of rest' and their current dispose *)
Lemma executor_rest : forall safe ph rest cur todo ol ph' rest' cur' todo',
  executor safe ph rest cur todo ol ph' rest' cur' todo' ->
  forall t, In t rest' -> (In t rest /\ (ol = false -> fcur t <> cur \/ True)) \/ (ol = false /\ t = AF cur' todo').
Proof.
  intros. inv H; auto. apply In_nth_error in H0. destruct H0 as [j J].
  destruct (Nat.eq_dec j n) as [->|NE].
  - erewrite anth_upd_same in J by eassumption. inv J. right. auto.
  - rewrite anth_upd_other in J by exact NE. left. split; [eapply nth_error_In, J|auto].
Qed.

Lemma executor_af : forall safe ph rest cur todo ol ph' rest' cur' todo',
  executor safe ph rest cur todo ol ph' rest' cur' todo' ->
  (forall t, In t rest -> is_af t = true) -> forall t, In t rest' -> is_af t = true.
Proof.
  intros until 1. intros A t I. destruct (executor_rest _ _ _ _ _ _ _ _ _ _ H t I) as [[X _]|[_ ->]]; [apply A, X|reflexivity].
Qed.

Lemma executor_nonempty : forall safe ph rest cur todo ol ph' rest' cur' todo',
  executor safe ph rest cur todo ol ph' rest' cur' todo' -> rest' <> [] -> rest <> [].
Proof.
  intros. inv H; auto. intros ->. destruct n; discriminate H1.
Qed.
End Facts.

(* ---------------------------------------------------------------- part 5 *)
Ltac proj := cbn [aclock arunning awoken ahs aready atimers acanc ahl adue adisp afut anfut aran aeff astopping asegs] in *.

Section Facts.
Variable ts : bool.
Variable fixed : bool.

(* scheduling: a fresh handle for a fresh call *)
Lemma Q_sched : forall safe s ph rest log d ol ph' rest' todo todo',
  Q safe s ph rest log ->
  executor ts fixed safe ph rest None todo ol ph' rest' None todo' ->
  Q safe (fst (do_sched ts s d)) ph' rest' (log ++ snd (do_sched ts s d)).
Proof.
  intros safe s ph rest log d ol ph' rest' todo todo' q EX.
  destruct (executor_shape _ _ _ _ _ _ _ _ _ _ _ _ EX) as (HH & HS & HP & HL & HF).
  set (u := length (ahl s)). set (h := length (ahs s)).
  (* the three shapes share everything but where the handle goes and what it is *)
  assert (SH : exists c two woken rd tm dv,
            fst (do_sched ts s d) = ASh (aclock s) (arunning s) woken (ahs s ++ [c]) rd tm (acanc s)
                                        (ahl s ++ [(two, [h])]) (adue s ++ [dv]) (adisp s) (afut s) (anfut s) (aran s) (aeff s) (astopping s) (asegs s) /\
            snd (do_sched ts s d) = [ARet u] /\
            ((c = CbAction u /\ two = false) \/ (exists d', c = CbStage2 u d' /\ two = true)) /\
            ((rd = aready s ++ [h] /\ tm = atimers s) \/ (rd = aready s /\ exists w, tm = tinsert w h (atimers s) /\ c = CbAction u))).
  { unfold do_sched. fold u. fold h. destruct (d <=? 0); [|destruct ts]; unfold set_core; cbn [fst snd].
    - do 6 eexists. split; [reflexivity|]. split; [reflexivity|]. split; [left; auto|left; auto].
    - do 6 eexists. split; [reflexivity|]. split; [reflexivity|]. split; [right; eauto|left; auto].
    - do 6 eexists. split; [reflexivity|]. split; [reflexivity|]. split; [left; auto|right; eauto]. }
  destruct SH as (c & two & woken & rd & tm & dv & -> & -> & CK & PL).
  assert (OWN : owner (ASh (aclock s) (arunning s) woken (ahs s ++ [c]) rd tm (acanc s)
                           (ahl s ++ [(two, [h])]) (adue s ++ [dv]) (adisp s) (afut s) (anfut s) (aran s) (aeff s) (astopping s) (asegs s)) h = Some u).
  { unfold owner. proj. unfold h. rewrite nth_error_app_last. destruct CK as [[-> _]|[d' [-> _]]]; reflexivity. }
  assert (OLD : forall h0 u0, owner (ASh (aclock s) (arunning s) woken (ahs s ++ [c]) rd tm (acanc s)
                           (ahl s ++ [(two, [h])]) (adue s ++ [dv]) (adisp s) (afut s) (anfut s) (aran s) (aeff s) (astopping s) (asegs s)) h0 = Some u0 ->
                  (owner s h0 = Some u0) \/ (h0 = h /\ u0 = u)).
  { intros h0 u0 O. unfold owner in *. proj. destruct (nth_error (ahs s ++ [c]) h0) as [x|] eqn:N; [|discriminate O].
    apply nth_error_app_inv in N. destruct N as [N|[-> ->]].
    - left. rewrite N. exact O.
    - right. split; [reflexivity|]. destruct CK as [[-> _]|[d' [-> _]]]; inv O; reflexivity. }
  assert (STK : forall u0, (u0 < u)%nat ->
            stack (ASh (aclock s) (arunning s) woken (ahs s ++ [c]) rd tm (acanc s)
                       (ahl s ++ [(two, [h])]) (adue s ++ [dv]) (adisp s) (afut s) (anfut s) (aran s) (aeff s) (astopping s) (asegs s)) u0 = stack s u0 /\
            twostage (ASh (aclock s) (arunning s) woken (ahs s ++ [c]) rd tm (acanc s)
                       (ahl s ++ [(two, [h])]) (adue s ++ [dv]) (adisp s) (afut s) (anfut s) (aran s) (aeff s) (astopping s) (asegs s)) u0 = twostage s u0).
  { intros u0 L. unfold stack, twostage. proj. rewrite hl_app_old by exact L. auto. }
  assert (STKN : stack (ASh (aclock s) (arunning s) woken (ahs s ++ [c]) rd tm (acanc s)
                       (ahl s ++ [(two, [h])]) (adue s ++ [dv]) (adisp s) (afut s) (anfut s) (aran s) (aeff s) (astopping s) (asegs s)) u = [h] /\
                 twostage (ASh (aclock s) (arunning s) woken (ahs s ++ [c]) rd tm (acanc s)
                       (ahl s ++ [(two, [h])]) (adue s ++ [dv]) (adisp s) (afut s) (anfut s) (aran s) (aeff s) (astopping s) (asegs s)) u = two).
  { unfold stack, twostage. proj. unfold u. rewrite nth_error_app_last. auto. }
  assert (TWO_LT : forall u0, twostage s u0 = true -> (u0 < u)%nat).
  { intros u0 T. unfold twostage in T. apply nth_error_Some. destruct (nth_error (ahl s) u0); [discriminate|discriminate T]. }
  assert (HOLD : forall x, In x (held ph ++ aready s) -> (x < h)%nat).
  { intros x I. apply (q_bound _ _ _ _ _ q). apply in_app_or in I. apply in_or_app. destruct I; [left|right; apply in_or_app; left]; assumption. }
  assert (TMB : forall x, In x (map snd (atimers s)) -> (x < h)%nat).
  { intros x I. apply (q_bound _ _ _ _ _ q). apply in_or_app. right. apply in_or_app. right. exact I. }
  constructor; proj; rewrite ?HH, ?HS, ?HP.
  - eapply executor_af; [exact EX|apply (q_af _ _ _ _ _ q)].
  - intros NE. apply (q_safe _ _ _ _ _ q). eapply executor_nonempty; eassumption.
  - (* q_bound *)
    intros x I. rewrite app_length. cbn [length]. fold h.
    assert (x < h \/ x = h)%nat; [|lia].
    apply in_app_or in I. destruct I as [I|I]; [left; apply HOLD; apply in_or_app; left; exact I|].
    apply in_app_or in I. destruct PL as [[-> ->]|[-> [w [-> _]]]].
    + destruct I as [I|I]; [|left; apply TMB, I]. apply in_app_or in I.
      destruct I as [I|[<-|[]]]; [left; apply HOLD; apply in_or_app; right; exact I|right; reflexivity].
    + destruct I as [I|I]; [left; apply HOLD; apply in_or_app; right; exact I|].
      apply in_map_iff in I. destruct I as [[w0 x0] [E I]]. cbn in E. subst x0. apply tinsert_in in I. destruct I as [I|I].
      * inv I. right. reflexivity.
      * left. apply TMB. apply in_map_iff. exists (w0, x). auto.
  - (* q_nodup *)
    assert (FR : ~ In h (held ph ++ aready s ++ map snd (atimers s))).
    { intros I. apply in_app_or in I. destruct I as [I|I]; [specialize (HOLD h ltac:(apply in_or_app; left; exact I)); lia|].
      apply in_app_or in I. destruct I as [I|I]; [specialize (HOLD h ltac:(apply in_or_app; right; exact I)); lia|].
      specialize (TMB h I). lia. }
    destruct PL as [[-> ->]|[-> [w [-> _]]]].
    + apply nodup3_fresh_ready; [apply (q_nodup _ _ _ _ _ q)|exact FR].
    + apply nodup3_fresh_timer; [apply (q_nodup _ _ _ _ _ q)|exact FR].
  - (* q_timers *)
    intros w0 h0 I. destruct PL as [[-> ->]|[-> [w [-> CE]]]].
    + destruct (q_timers _ _ _ _ _ q w0 h0 I) as [u0 N]. exists u0. apply nth_error_app_old. exact N.
    + apply tinsert_in in I. destruct I as [I|I].
      * inv I. exists u. unfold h. apply nth_error_app_last.
      * destruct (q_timers _ _ _ _ _ q w0 h0 I) as [u0 N]. exists u0. apply nth_error_app_old. exact N.
  - (* q_owner *)
    intros h0 u0 O. rewrite app_length. cbn [length]. destruct (OLD h0 u0 O) as [O'|[-> ->]]; [|unfold u; lia].
    pose proof (q_owner _ _ _ _ _ q h0 u0 O'). lia.
  - intros u0 I. rewrite app_length. pose proof (q_eff_bound _ _ _ _ _ q u0 I). lia.
  - intros u0 I. rewrite app_length. pose proof (q_ran_bound _ _ _ _ _ q u0 I). lia.
  - (* q_stage_uniq *)
    intros h1 h2 u0 d1 d2 N1 N2. apply nth_error_app_inv in N1. apply nth_error_app_inv in N2.
    destruct N1 as [N1|[-> E1]]; destruct N2 as [N2|[-> E2]]; try reflexivity.
    + eapply (q_stage_uniq _ _ _ _ _ q); eassumption.
    + exfalso. assert (owner s h1 = Some u0) by (unfold owner; rewrite N1; reflexivity).
      pose proof (q_owner _ _ _ _ _ q _ _ H). destruct CK as [[-> _]|[d' [-> _]]]; inv E2. unfold u in H0. lia.
    + exfalso. assert (owner s h2 = Some u0) by (unfold owner; rewrite N2; reflexivity).
      pose proof (q_owner _ _ _ _ _ q _ _ H). destruct CK as [[-> _]|[d' [-> _]]]; inv E1. unfold u in H0. lia.
  - (* q_stage_two *)
    intros h0 u0 d0 N. apply nth_error_app_inv in N. destruct N as [N|[-> E]].
    + pose proof (q_stage_two _ _ _ _ _ q _ _ _ N) as T. destruct (STK u0 (TWO_LT _ T)) as [_ ->]. exact T.
    + destruct CK as [[-> _]|[d' [-> ->]]]; inv E. apply STKN.
  - (* q_ran *)
    intros u0 h0 d0 I N. apply nth_error_app_inv in N. destruct N as [N|[-> E]].
    + pose proof (q_ran _ _ _ _ _ q _ _ _ I N) as X. destruct PL as [[-> ->]|[-> _]]; [|exact X].
      rewrite app_assoc. intros Y. apply in_app_or in Y. destruct Y as [Y|[Y|[]]]; [contradiction|].
      subst h0. assert (h < length (ahs s))%nat by (apply nth_error_Some; congruence). unfold h in H. lia.
    + exfalso. pose proof (q_ran_bound _ _ _ _ _ q _ I). destruct CK as [[-> _]|[d' [-> _]]]; inv E. unfold u in H. lia.
  - (* q_eff *)
    intros u0 h0 I O. destruct (OLD h0 u0 O) as [O'|[-> ->]]; [eapply (q_eff _ _ _ _ _ q); eassumption|].
    pose proof (q_eff_bound _ _ _ _ _ q _ I). unfold u in H. lia.
  - (* q_where *)
    intros u0 h0 O. destruct (OLD h0 u0 O) as [O'|[-> ->]].
    + destruct (STK u0 (q_owner _ _ _ _ _ q _ _ O')) as [-> _]. apply (q_where _ _ _ _ _ q); exact O'.
    + right. left. destruct STKN as [-> _]. left. reflexivity.
  - (* q_len *)
    intros u0 T. destruct (Nat.lt_ge_cases u0 u) as [L|L].
    + destruct (STK u0 L) as [-> E]. rewrite E in T. apply (q_len _ _ _ _ _ q); exact T.
    + assert (u0 = u).
      { unfold twostage in T. proj. assert (u0 < length (ahl s ++ [(two, [h])]))%nat.
        { apply nth_error_Some. destruct (nth_error (ahl s ++ [(two, [h])]) u0); [discriminate|discriminate T]. }
        rewrite app_length in H. cbn in H. unfold u in L. lia. }
      subst u0. destruct STKN as [-> _]. cbn. destruct (amem u (aran s)); lia.
  - (* q_s2b *)
    intros u0 h0 E. destruct (q_s2b _ _ _ _ _ q _ _ E) as (T & R & LN). destruct (STK u0 (TWO_LT _ T)) as [-> ->]. auto.
  - apply (q_run _ _ _ _ _ q).
  - (* q_fpop *)
    intros t u0 I F. destruct (executor_rest _ _ _ _ _ _ _ _ _ _ _ _ EX t I) as [[I' _]|[_ ->]]; [|discriminate F].
    destruct (q_fpop _ _ _ _ _ q t u0 I' F) as (R & T & LN). destruct (STK u0 (TWO_LT _ T)) as [-> ->]. auto.
  - (* q_lpop *)
    intros u0 E. destruct ol.
    + destruct (HL eq_refl) as (_ & _ & _ & E' & _). rewrite E' in E. discriminate E.
    + rewrite (HF eq_refl) in E. destruct (q_lpop _ _ _ _ _ q u0 E) as (T & LN). destruct (STK u0 (TWO_LT _ T)) as [-> ->]. auto.
  - (* q_lwait *)
    intros u0 f E. destruct ol.
    + destruct (HL eq_refl) as (_ & _ & _ & E' & _). rewrite E' in E. discriminate E.
    + rewrite (HF eq_refl) in E. eapply (q_lwait _ _ _ _ _ q); exact E.
  - (* q_fwait *)
    intros t u0 f I F. destruct (executor_rest _ _ _ _ _ _ _ _ _ _ _ _ EX t I) as [[I' _]|[_ ->]]; [|discriminate F].
    apply (q_fwait _ _ _ _ _ q t u0 f I' F).
  - (* q_cancel_cb *)
    intros h0 u' f' N. apply nth_error_app_inv in N. destruct N as [N|[-> E]].
    + destruct (q_cancel_cb _ _ _ _ _ q _ _ _ N) as [B U]. split; [exact B|]. intros t u0 I F.
      destruct (executor_rest _ _ _ _ _ _ _ _ _ _ _ _ EX t I) as [[I' _]|[_ ->]]; [|discriminate F]. eapply U; eassumption.
    + exfalso. destruct CK as [[-> _]|[d' [-> _]]]; discriminate E.
  - (* q_cancel_u *)
    intros h0 u' f' N. rewrite app_length. apply nth_error_app_inv in N. destruct N as [N|[-> E]].
    + pose proof (q_cancel_u _ _ _ _ _ q _ _ _ N). lia.
    + exfalso. destruct CK as [[-> _]|[d' [-> _]]]; discriminate E.
  - apply (q_fut _ _ _ _ _ q).
  - rewrite disp_ok_app, (q_log _ _ _ _ _ q). reflexivity.
  - rewrite dseen_app. cbn. apply (q_seen _ _ _ _ _ q).
Qed.
End Facts.

(* ---------------------------------------------------------------- part 6 *)
Lemma stack_upd_same : forall (hl : list (bool * list nat)) u (b : bool) (l : list nat), (u < length hl)%nat ->
  nth_error (aupd u (b, l) hl) u = Some (b, l).
Proof.
  intros hl u b l L. destruct (nth_error hl u) as [x|] eqn:N; [eapply anth_upd_same, N|].
  apply nth_error_None in N. lia.
Qed.

Section Facts.
Variable ts : bool.
Variable fixed : bool.

(* cancelling: the cancelled set grows by [cn], the closure list of call u may shrink to [newstk],
   the cancellation of u may become complete ([effb]) *)
Lemma Q_cancel_gen : forall safe s ph rest log ol ph' rest' cur todo cur' todo' u (cn : list nat)
    (newstk : option (list nat)) (effb : bool) dsp,
  Q safe s ph rest log ->
  executor ts fixed safe ph rest cur todo ol ph' rest' cur' todo' ->
  (u < length (ahl s))%nat ->
  let stk' := match newstk with Some l' => l' | None => stack s u end in
  let hl' := match newstk with Some l' => aupd u (true, l') (ahl s) | None => ahl s end in
  let s' := ASh (aclock s) (arunning s) (awoken s) (ahs s) (aready s) (atimers s) (cn ++ acanc s) hl' (adue s) dsp
                (afut s) (anfut s) (aran s) (if effb then u :: aeff s else aeff s) (astopping s) (asegs s) in
  (newstk <> None -> twostage s u = true) ->
  (forall x, In x (stack s u) -> In x stk' \/ In x cn) ->
  (length stk' <= length (stack s u))%nat ->
  (effb = true -> (forall x, In x stk' -> In x cn \/ amem x (acanc s) = true) /\ stage2b_of ph = None) ->
  (cur' = None \/ (cur' = Some (FPop2 u) /\ twostage s u = true /\ (length stk' <= 1)%nat /\ (ol = false -> arunning s = false))) ->
  Q safe s' ph' rest' (log ++ (if effb then [ADispRet u] else [])).
Proof.
  intros safe s ph rest log ol ph' rest' cur todo cur' todo' u cn newstk effb dsp q EX UL stk' hl' s' TW SUB LEN EFF CUR.
  destruct (executor_shape _ _ _ _ _ _ _ _ _ _ _ _ EX) as (HH & HS & HP & HL & HF).
  assert (OWN : forall h0, owner s' h0 = owner s h0) by reflexivity.
  assert (STK : forall u0, stack s' u0 = if Nat.eqb u0 u then stk' else stack s u0).
  { intros u0. unfold stack, s', hl', stk'. proj. destruct (Nat.eqb u0 u) eqn:E.
    - apply Nat.eqb_eq in E. subst u0. destruct newstk as [l'|]; [|reflexivity]. rewrite stack_upd_same by exact UL. reflexivity.
    - apply Nat.eqb_neq in E. destruct newstk as [l'|]; [|reflexivity]. rewrite anth_upd_other by exact E. reflexivity. }
  assert (TWS : forall u0, twostage s' u0 = twostage s u0).
  { intros u0. unfold twostage, s', hl'. proj. destruct newstk as [l'|]; [|reflexivity].
    destruct (Nat.eq_dec u0 u) as [->|NE].
    - rewrite stack_upd_same by exact UL. specialize (TW ltac:(discriminate)). unfold twostage in TW. symmetry. exact TW.
    - rewrite anth_upd_other by exact NE. reflexivity. }
  assert (HLL : length (ahl s') = length (ahl s)).
  { unfold s', hl'. proj. destruct newstk; [apply aupd_length|reflexivity]. }
  assert (CANC : forall x, amem x (acanc s) = true -> amem x (acanc s') = true).
  { intros x M. unfold s'. proj. rewrite amem_app, M. apply orb_true_r. }
  assert (CANC2 : forall x, In x cn -> amem x (acanc s') = true).
  { intros x M. unfold s'. proj. rewrite amem_app. apply amem_in in M. rewrite M. reflexivity. }
  assert (EFFIN : forall u0, In u0 (aeff s') -> In u0 (aeff s) \/ (effb = true /\ u0 = u)).
  { intros u0 I. unfold s' in I. proj. destruct effb; [destruct I as [<-|I]; auto|auto]. }
  constructor; rewrite ?HH, ?HS, ?HP; try rewrite HLL.
  - eapply executor_af; [exact EX|apply (q_af _ _ _ _ _ q)].
  - intros NE. apply (q_safe _ _ _ _ _ q). eapply executor_nonempty; eassumption.
  - apply (q_bound _ _ _ _ _ q).
  - apply (q_nodup _ _ _ _ _ q).
  - apply (q_timers _ _ _ _ _ q).
  - intros h0 u0 O. rewrite OWN in O. apply (q_owner _ _ _ _ _ q _ _ O).
  - intros u0 I. destruct (EFFIN u0 I) as [I'|[_ ->]]; [apply (q_eff_bound _ _ _ _ _ q _ I')|exact UL].
  - apply (q_ran_bound _ _ _ _ _ q).
  - apply (q_stage_uniq _ _ _ _ _ q).
  - intros h0 u0 d0 N. rewrite TWS. eapply (q_stage_two _ _ _ _ _ q); exact N.
  - apply (q_ran _ _ _ _ _ q).
  - (* q_eff *)
    intros u0 h0 I O. rewrite OWN in O. destruct (EFFIN u0 I) as [I'|[EB ->]].
    + apply CANC. eapply (q_eff _ _ _ _ _ q); eassumption.
    + destruct (EFF EB) as [ALL NS2]. destruct (q_where _ _ _ _ _ q _ _ O) as [M|[M|M]].
      * apply CANC, M.
      * destruct (SUB _ M) as [X|X]; [|apply CANC2, X]. destruct (ALL _ X) as [Y|Y]; [apply CANC2, Y|apply CANC, Y].
      * rewrite NS2 in M. discriminate M.
  - (* q_where *)
    intros u0 h0 O. rewrite OWN in O. rewrite STK. destruct (q_where _ _ _ _ _ q _ _ O) as [M|[M|M]].
    + left. apply CANC, M.
    + destruct (Nat.eqb u0 u) eqn:E; [|right; left; exact M]. apply Nat.eqb_eq in E. subst u0.
      destruct (SUB _ M) as [X|X]; [right; left; exact X|left; apply CANC2, X].
    + right. right. exact M.
  - (* q_len *)
    intros u0 T. rewrite TWS in T. rewrite STK. pose proof (q_len _ _ _ _ _ q u0 T) as L0.
    destruct (Nat.eqb u0 u) eqn:E; [|exact L0]. apply Nat.eqb_eq in E. subst u0. unfold s'. proj. lia.
  - (* q_s2b *)
    intros u0 h0 E. destruct (q_s2b _ _ _ _ _ q _ _ E) as (T & R & LN). rewrite TWS, STK. repeat split; auto.
    destruct (Nat.eqb u0 u) eqn:E2; [|exact LN]. apply Nat.eqb_eq in E2. subst u0. lia.
  - apply (q_run _ _ _ _ _ q).
  - (* q_fpop *)
    intros t u0 I F. rewrite TWS, STK. destruct (executor_rest _ _ _ _ _ _ _ _ _ _ _ _ EX t I) as [[I' _]|[OL ->]].
    + destruct (q_fpop _ _ _ _ _ q t u0 I' F) as (R & T & LN). repeat split; auto.
      destruct (Nat.eqb u0 u) eqn:E2; [|exact LN]. apply Nat.eqb_eq in E2. subst u0. lia.
    + cbn in F. destruct CUR as [->|(-> & T & LN & RN)]; [discriminate F|]. inv F. rewrite Nat.eqb_refl. auto.
  - (* q_lpop *)
    intros u0 E. rewrite TWS, STK. destruct ol.
    + destruct (HL eq_refl) as (_ & _ & _ & E' & _). rewrite E' in E.
      destruct CUR as [->|(-> & T & LN & RN)]; [discriminate E|]. inv E. rewrite Nat.eqb_refl. auto.
    + rewrite (HF eq_refl) in E. destruct (q_lpop _ _ _ _ _ q u0 E) as (T & LN). split; [exact T|].
      destruct (Nat.eqb u0 u) eqn:E2; [|exact LN]. apply Nat.eqb_eq in E2. subst u0. lia.
  - (* q_lwait *)
    intros u0 f E. destruct ol.
    + destruct (HL eq_refl) as (_ & _ & _ & E' & _). rewrite E' in E. destruct CUR as [->|(-> & _)]; discriminate E.
    + rewrite (HF eq_refl) in E. eapply (q_lwait _ _ _ _ _ q); exact E.
  - (* q_fwait *)
    intros t u0 f I F. destruct (executor_rest _ _ _ _ _ _ _ _ _ _ _ _ EX t I) as [[I' _]|[OL ->]].
    + destruct (q_fwait _ _ _ _ _ q t u0 f I' F) as [B E]. split; [exact B|]. intros M. specialize (E M).
      unfold s'. proj. destruct effb; [right|]; exact E.
    + cbn in F. destruct CUR as [->|(-> & _)]; discriminate F.
  - (* q_cancel_cb *)
    intros h0 u' f' N. destruct (q_cancel_cb _ _ _ _ _ q _ _ _ N) as [B U]. split; [exact B|]. intros t u0 I F.
    destruct (executor_rest _ _ _ _ _ _ _ _ _ _ _ _ EX t I) as [[I' _]|[OL ->]]; [eapply U; eassumption|].
    cbn in F. destruct CUR as [->|(-> & _)]; discriminate F.
  - apply (q_cancel_u _ _ _ _ _ q).
  - apply (q_fut _ _ _ _ _ q).
  - rewrite disp_ok_app, (q_log _ _ _ _ _ q). destruct effb; reflexivity.
  - intros u0 I. rewrite dseen_app in I. unfold s'. proj. destruct effb; cbn in I.
    + destruct I as [<-|I]; [left; reflexivity|right; apply (q_seen _ _ _ _ _ q), I].
    + apply (q_seen _ _ _ _ _ q), I.
Qed.
End Facts.

(* ---------------------------------------------------------------- part 7 *)
Section Facts.
Variable ts : bool.
Variable fixed : bool.

(* nothing changes but the caller's dispose in progress (which ends) *)
Lemma Q_same : forall safe s ph rest log ol ph' rest' cur todo todo' e,
  Q safe s ph rest log ->
  executor ts fixed safe ph rest cur todo ol ph' rest' None todo' ->
  (forall u, e <> AStart u) ->
  (forall u, e = ADispRet u -> In u (aeff s)) ->
  Q safe s ph' rest' (log ++ [e]).
Proof.
  intros safe s ph rest log ol ph' rest' cur todo todo' e q EX NS DR.
  destruct (executor_shape _ _ _ _ _ _ _ _ _ _ _ _ EX) as (HH & HS & HP & HL & HF).
  constructor; rewrite ?HH, ?HS, ?HP; try (apply q; fail).
  - eapply executor_af; [exact EX|apply (q_af _ _ _ _ _ q)].
  - intros NE. apply (q_safe _ _ _ _ _ q). eapply executor_nonempty; eassumption.
  - intros t u0 I F. destruct (executor_rest _ _ _ _ _ _ _ _ _ _ _ _ EX t I) as [[I' _]|[_ ->]]; [|discriminate F].
    apply (q_fpop _ _ _ _ _ q t u0 I' F).
  - intros u0 E. destruct ol.
    + destruct (HL eq_refl) as (_ & _ & _ & E' & _). rewrite E' in E. discriminate E.
    + rewrite (HF eq_refl) in E. apply (q_lpop _ _ _ _ _ q u0 E).
  - intros u0 f E. destruct ol.
    + destruct (HL eq_refl) as (_ & _ & _ & E' & _). rewrite E' in E. discriminate E.
    + rewrite (HF eq_refl) in E. eapply (q_lwait _ _ _ _ _ q); exact E.
  - intros t u0 f I F. destruct (executor_rest _ _ _ _ _ _ _ _ _ _ _ _ EX t I) as [[I' _]|[_ ->]]; [|discriminate F].
    apply (q_fwait _ _ _ _ _ q t u0 f I' F).
  - intros h0 u' f' N. destruct (q_cancel_cb _ _ _ _ _ q _ _ _ N) as [B U]. split; [exact B|]. intros t u0 I F.
    destruct (executor_rest _ _ _ _ _ _ _ _ _ _ _ _ EX t I) as [[I' _]|[_ ->]]; [eapply U; eassumption|discriminate F].
  - rewrite disp_ok_app, (q_log _ _ _ _ _ q). cbn. apply disp_ok_one_other. exact NS.
  - intros u0 I. rewrite dseen_app in I. destruct e; cbn in I; try (apply (q_seen _ _ _ _ _ q), I).
    destruct I as [<-|I]; [apply DR; reflexivity|apply (q_seen _ _ _ _ _ q), I].
Qed.

(* the marshalled dispose: cancel_handle is posted to the loop, the caller waits *)
Lemma Q_marshal : forall safe s ph rest log ph' rest' todo todo' u dsp,
  Q safe s ph rest log ->
  executor ts fixed safe ph rest None todo false ph' rest' (Some (FWait u (anfut s))) todo' ->
  (u < length (ahl s))%nat ->
  Q safe (ASh (aclock s) (arunning s) true (ahs s ++ [CbCancel u (anfut s)]) (aready s ++ [length (ahs s)]) (atimers s)
              (acanc s) (ahl s) (adue s) dsp (afut s) (S (anfut s)) (aran s) (aeff s) (astopping s) (asegs s))
    ph' rest' (log ++ []).
Proof.
  intros safe s ph rest log ph' rest' todo todo' u dsp q EX UL.
  destruct (executor_shape _ _ _ _ _ _ _ _ _ _ _ _ EX) as (HH & HS & HP & HL & HF).
  set (h := length (ahs s)).
  set (s' := ASh (aclock s) (arunning s) true (ahs s ++ [CbCancel u (anfut s)]) (aready s ++ [h]) (atimers s)
              (acanc s) (ahl s) (adue s) dsp (afut s) (S (anfut s)) (aran s) (aeff s) (astopping s) (asegs s)).
  assert (OWN : forall h0 u0, owner s' h0 = Some u0 -> owner s h0 = Some u0).
  { intros h0 u0 O. unfold owner in *. unfold s' in O. proj. destruct (nth_error (ahs s ++ [CbCancel u (anfut s)]) h0) as [x|] eqn:N; [|discriminate O].
    apply nth_error_app_inv in N. destruct N as [N|[-> ->]]; [rewrite N; exact O|discriminate O]. }
  assert (HOLD : forall x, In x (held ph ++ aready s) -> (x < h)%nat).
  { intros x I. apply (q_bound _ _ _ _ _ q). apply in_app_or in I. apply in_or_app. destruct I; [left|right; apply in_or_app; left]; assumption. }
  rewrite app_nil_r.
  constructor; rewrite ?HH, ?HS, ?HP; unfold s'; proj; fold h.
  - eapply executor_af; [exact EX|apply (q_af _ _ _ _ _ q)].
  - intros NE. apply (q_safe _ _ _ _ _ q). eapply executor_nonempty; eassumption.
  - intros x I. rewrite app_length. cbn [length]. fold h. assert (x < h \/ x = h)%nat; [|lia].
    apply in_app_or in I. destruct I as [I|I]; [left; apply HOLD; apply in_or_app; left; exact I|].
    apply in_app_or in I. destruct I as [I|I].
    + apply in_app_or in I. destruct I as [I|[<-|[]]]; [left; apply HOLD; apply in_or_app; right; exact I|right; reflexivity].
    + left. apply (q_bound _ _ _ _ _ q). apply in_or_app. right. apply in_or_app. right. exact I.
  - apply nodup3_fresh_ready; [apply (q_nodup _ _ _ _ _ q)|]. intros I.
    apply in_app_or in I. destruct I as [I|I]; [specialize (HOLD h ltac:(apply in_or_app; left; exact I)); lia|].
    apply in_app_or in I. destruct I as [I|I]; [specialize (HOLD h ltac:(apply in_or_app; right; exact I)); lia|].
    assert (h < h)%nat; [|lia]. apply (q_bound _ _ _ _ _ q). apply in_or_app. right. apply in_or_app. right. exact I.
  - intros w0 h0 I. destruct (q_timers _ _ _ _ _ q w0 h0 I) as [u0 N]. exists u0. apply nth_error_app_old. exact N.
  - intros h0 u0 O. apply (q_owner _ _ _ _ _ q h0 u0). apply OWN. exact O.
  - apply (q_eff_bound _ _ _ _ _ q).
  - apply (q_ran_bound _ _ _ _ _ q).
  - intros h1 h2 u0 d1 d2 N1 N2. apply nth_error_app_inv in N1. apply nth_error_app_inv in N2.
    destruct N1 as [N1|[_ E1]]; [|discriminate E1]. destruct N2 as [N2|[_ E2]]; [|discriminate E2].
    eapply (q_stage_uniq _ _ _ _ _ q); eassumption.
  - intros h0 u0 d0 N. apply nth_error_app_inv in N. destruct N as [N|[_ E]]; [|discriminate E].
    apply (q_stage_two _ _ _ _ _ q _ _ _ N).
  - intros u0 h0 d0 I N. apply nth_error_app_inv in N. destruct N as [N|[_ E]]; [|discriminate E].
    pose proof (q_ran _ _ _ _ _ q _ _ _ I N) as X. rewrite app_assoc. intros Y. apply in_app_or in Y.
    destruct Y as [Y|[Y|[]]]; [contradiction|]. subst h0.
    assert (h < length (ahs s))%nat by (apply nth_error_Some; congruence). unfold h in H. lia.
  - intros u0 h0 I O. apply (q_eff _ _ _ _ _ q u0 h0 I). apply OWN. exact O.
  - intros u0 h0 O. apply (q_where _ _ _ _ _ q u0 h0). apply OWN. exact O.
  - apply (q_len _ _ _ _ _ q).
  - apply (q_s2b _ _ _ _ _ q).
  - apply (q_run _ _ _ _ _ q).
  - intros t u0 I F. destruct (executor_rest _ _ _ _ _ _ _ _ _ _ _ _ EX t I) as [[I' _]|[_ ->]]; [|discriminate F].
    apply (q_fpop _ _ _ _ _ q t u0 I' F).
  - intros u0 E. rewrite (HF eq_refl) in E. apply (q_lpop _ _ _ _ _ q u0 E).
  - intros u0 f E. rewrite (HF eq_refl) in E. eapply (q_lwait _ _ _ _ _ q); exact E.
  - intros t u0 f I F. destruct (executor_rest _ _ _ _ _ _ _ _ _ _ _ _ EX t I) as [[I' _]|[_ ->]].
    + destruct (q_fwait _ _ _ _ _ q t u0 f I' F) as [B E]. split; [lia|exact E].
    + cbn in F. inv F. split; [lia|]. intros M. apply amem_in in M. pose proof (q_fut _ _ _ _ _ q _ M). lia.
  - intros h0 u' f' N. apply nth_error_app_inv in N. destruct N as [N|[-> E]].
    + destruct (q_cancel_cb _ _ _ _ _ q _ _ _ N) as [B U]. split; [lia|]. intros t u0 I F.
      destruct (executor_rest _ _ _ _ _ _ _ _ _ _ _ _ EX t I) as [[I' _]|[_ ->]]; [eapply U; eassumption|].
      cbn in F. inv F. lia.
    + inv E. split; [lia|]. intros t u0 I F.
      destruct (executor_rest _ _ _ _ _ _ _ _ _ _ _ _ EX t I) as [[I' _]|[_ ->]].
      * destruct (q_fwait _ _ _ _ _ q t u0 _ I' F) as [B _]. lia.
      * cbn in F. inv F. reflexivity.
  - intros h0 u' f' N. apply nth_error_app_inv in N. destruct N as [N|[-> E]]; [apply (q_cancel_u _ _ _ _ _ q _ _ _ N)|].
    inv E. exact UL.
  - intros f I. pose proof (q_fut _ _ _ _ _ q f I). lia.
  - apply (q_log _ _ _ _ _ q).
  - apply (q_seen _ _ _ _ _ q).
Qed.
End Facts.

(* Q does not look at loop._stopping nor at the future segments of the loop thread *)
Lemma Q_fields : forall safe s ph rest log b sg,
  Q safe s ph rest log -> Q safe (set_stop s b sg) ph rest log.
Proof. intros safe s ph rest log b sg q. constructor; unfold set_stop; proj; apply q. Qed.

(* ---------------------------------------------------------------- part 8 *)
Section Facts.
Variable ts : bool.
Variable fixed : bool.

(* a foreign thread that takes the direct path found the loop not running: the loop thread is
   before run_forever(), in particular not inside stage2 *)
Lemma executor_foreign : forall safe ph rest cur todo ph' rest' cur' todo',
  executor ts fixed safe ph rest cur todo false ph' rest' cur' todo' ->
  exists n, nth_error rest n = Some (AF cur todo) /\ safe = ts && fixed /\ ph' = ph.
Proof. intros. inv H. eauto. Qed.

Lemma direct_no_stage2b : forall safe s ph rest log cur todo ol ph' rest' cur' todo',
  Q safe s ph rest log ->
  executor ts fixed safe ph rest cur todo ol ph' rest' cur' todo' ->
  (ol || negb (arunning s) || negb (ts && fixed)) = true ->
  stage2b_of ph = None /\ (ol = false -> arunning s = false).
Proof.
  intros safe s ph rest log cur todo ol ph' rest' cur' todo' q EX D.
  destruct (executor_shape _ _ _ _ _ _ _ _ _ _ _ _ EX) as (HH & HS & HP & HL & HF).
  destruct ol; [destruct (HL eq_refl) as (_ & X & _); split; [exact X|discriminate]|].
  destruct (executor_foreign _ _ _ _ _ _ _ _ _ EX) as (n & NT & SF & ->).
  assert (NE : rest <> []) by (intros ->; destruct n; discriminate NT).
  pose proof (q_safe _ _ _ _ _ q NE) as S. rewrite <- SF, S in D. cbn in D. rewrite orb_false_r in D. apply negb_true_iff in D.
  split; [|intros _; exact D]. pose proof (q_run _ _ _ _ _ q) as R. rewrite D in R. destruct ph; try discriminate R; reflexivity.
Qed.

Lemma Q_cstep : forall safe s ph rest log cur todo ol ph' rest' cur' todo' s' out,
  Q safe s ph rest log ->
  executor ts fixed safe ph rest cur todo ol ph' rest' cur' todo' ->
  cstep ts fixed ol s cur todo s' cur' todo' out ->
  Q safe s' ph' rest' (log ++ out).
Proof.
  intros safe s ph rest log cur todo ol ph' rest' cur' todo' s' out q EX C.
  destruct (executor_shape _ _ _ _ _ _ _ _ _ _ _ _ EX) as (HH & HS & HP & HL & HF).
  inv C.
  - eapply Q_sched; eassumption.
  - eapply Q_sched; eassumption.
  - eapply Q_same; try eassumption; [intros u0; discriminate|intros u0 E; discriminate E].
  - eapply Q_same; try eassumption; [intros u0; discriminate|intros u0 E; discriminate E].
  - (* single handle, direct *)
    destruct (direct_no_stage2b _ _ _ _ _ _ _ _ _ _ _ _ q EX H1) as [NS RN].
    assert (UL : (u < length (ahl s))%nat) by (apply nth_error_Some; congruence).
    assert (ST : stack s u = l) by (unfold stack; rewrite H; reflexivity).
    pose proof (Q_cancel_gen ts fixed safe s ph rest log ol ph' rest' None (ADispose u :: todo') None todo' u l None true
                  (u :: adisp s) q EX UL) as X. cbn zeta in X. rewrite ST in X. apply X; auto.
    all: try solve [intros x I; right; exact I | discriminate].
  - (* two-stage, nothing left to pop *)
    destruct (direct_no_stage2b _ _ _ _ _ _ _ _ _ _ _ _ q EX H1) as [NS RN].
    assert (UL : (u < length (ahl s))%nat) by (apply nth_error_Some; congruence).
    assert (ST : stack s u = []) by (unfold stack; rewrite H; reflexivity).
    pose proof (Q_cancel_gen ts fixed safe s ph rest log ol ph' rest' None (ADispose u :: todo') None todo' u [] None true
                  (u :: adisp s) q EX UL) as X. cbn zeta in X. rewrite ST in X. apply X; auto.
    all: try solve [intros x [] | intros _; split; [intros x []|exact NS] | discriminate].
  - (* two-stage, first pop *)
    destruct (direct_no_stage2b _ _ _ _ _ _ _ _ _ _ _ _ q EX H1) as [NS RN].
    assert (UL : (u < length (ahl s))%nat) by (apply nth_error_Some; congruence).
    assert (ST : stack s u = x :: l) by (unfold stack; rewrite H; reflexivity).
    assert (TW : twostage s u = true) by (unfold twostage; rewrite H; reflexivity).
    pose proof (q_len _ _ _ _ _ q u TW) as LN. rewrite ST in LN.
    assert (LN2 : (length (x :: l) <= 2)%nat) by (destruct (amem u (aran s)); lia).
    pose proof (Q_cancel_gen ts fixed safe s ph rest log ol ph' rest' None (ADispose u :: todo') (Some (FPop2 u)) todo' u
                  [last (x :: l) 0%nat] (Some (removelast (x :: l))) false (u :: adisp s) q EX UL) as X.
    cbn zeta in X. rewrite ST in X. cbn [app] in X. apply X; auto.
    all: try solve [intros y I; destruct (in_last_or_removelast _ _ I) as [->|J]; [right; left; reflexivity|left; exact J]
                   | rewrite removelast_length; cbn; lia
                   | discriminate
                   | right; repeat split; auto; rewrite removelast_length; cbn in *; lia].
  - (* marshalled *)
    destruct ol; [cbn in H1; discriminate H1|]. eapply Q_marshal; try eassumption. apply nth_error_Some. congruence.
  - (* second pop *)
    assert (FACT : twostage s u = true /\ (length (stack s u) <= 1)%nat /\ stage2b_of ph = None).
    { destruct ol.
      - destruct (HL eq_refl) as (_ & NS & LC & _). destruct (q_lpop _ _ _ _ _ q u LC) as [T LN]. auto.
      - destruct (executor_foreign _ _ _ _ _ _ _ _ _ EX) as (n & NT & SF & ->).
        destruct (q_fpop _ _ _ _ _ q _ u (nth_error_In _ _ NT) eq_refl) as (RN & T & LN). repeat split; auto.
        pose proof (q_run _ _ _ _ _ q) as R. rewrite RN in R. destruct ph; try discriminate R; reflexivity. }
    destruct FACT as (TW & LN & NS).
    assert (UL : (u < length (ahl s))%nat) by (apply nth_error_Some; congruence).
    assert (ST : stack s u = x :: l) by (unfold stack; rewrite H; reflexivity).
    rewrite ST in LN. assert (l = []) by (destruct l; [reflexivity|cbn in LN; lia]). subst l.
    pose proof (Q_cancel_gen ts fixed safe s ph rest log ol ph' rest' (Some (FPop2 u)) todo' None todo' u
                  [x] (Some []) true (adisp s) q EX UL) as X.
    cbn zeta in X. rewrite ST in X. cbn [app last removelast] in *. apply X; auto.
    all: try solve [intros y [<-|[]]; right; left; reflexivity | cbn; lia | intros _; split; [intros y []|exact NS]].
  - (* second pop: nothing left *)
    assert (FACT : stage2b_of ph = None /\ (u < length (ahl s))%nat).
    { destruct ol.
      - destruct (HL eq_refl) as (_ & NS & LC & _). destruct (q_lpop _ _ _ _ _ q u LC) as [T LN]. split; [exact NS|].
        unfold twostage in T. apply nth_error_Some. destruct (nth_error (ahl s) u); [discriminate|discriminate T].
      - destruct (executor_foreign _ _ _ _ _ _ _ _ _ EX) as (n & NT & SF & ->).
        destruct (q_fpop _ _ _ _ _ q _ u (nth_error_In _ _ NT) eq_refl) as (RN & T & LN). split.
        + pose proof (q_run _ _ _ _ _ q) as R. rewrite RN in R. destruct ph; try discriminate R; reflexivity.
        + unfold twostage in T. apply nth_error_Some. destruct (nth_error (ahl s) u); [discriminate|discriminate T]. }
    destruct FACT as (NS & UL).
    pose proof (Q_cancel_gen ts fixed safe s ph rest log ol ph' rest' (Some (FPop2 u)) todo' None todo' u
                  [] None true (adisp s) q EX UL) as X.
    cbn zeta in X. rewrite H in X. cbn [app] in X. apply X; auto.
    all: try solve [discriminate | intros _; split; [intros y []|exact NS]].
  - (* future.result() returns *)
    eapply Q_same; try eassumption; [intros u0; discriminate|]. intros u0 E. inv E.
    destruct ol.
    + destruct (HL eq_refl) as (_ & _ & LC & _). exfalso. eapply (q_lwait _ _ _ _ _ q); exact LC.
    + destruct (executor_foreign _ _ _ _ _ _ _ _ _ EX) as (n & NT & SF & ->).
      destruct (q_fwait _ _ _ _ _ q _ u0 f (nth_error_In _ _ NT) eq_refl) as [_ E]. apply E, H.
  - (* loop.stop() *)
    apply Q_fields. eapply Q_same; try eassumption; [intros u0; discriminate|intros u0 E; discriminate E].
  - (* the sleep is over *)
    eapply Q_same; try eassumption; [intros u0; discriminate|intros u0 E; discriminate E].
  - (* schedule_absolute *)
    eapply Q_sched; eassumption.
Qed.
End Facts.

(* ---------------------------------------------------------------- part 9 *)
(* Q depends on the phase only through four observations *)
Lemma Q_phase : forall safe s ph ph' rest log,
  held ph' = held ph -> stage2b_of ph' = stage2b_of ph -> is_pre ph' = is_pre ph -> lcur ph' = lcur ph ->
  Q safe s ph rest log -> Q safe s ph' rest log.
Proof.
  intros safe s ph ph' rest log H1 H2 H3 H4 q. constructor; rewrite ?H1, ?H2, ?H3, ?H4; apply q.
Qed.

(* the handle held by the loop is released *)
Lemma Q_release : forall safe s h k ph rest log dl,
  (ph = LCheck h k \/ ph = LRun h k) -> Q safe s ph rest log -> Q safe s (LIdle dl) rest log.
Proof.
  intros safe s h k ph rest log dl PH q.
  assert (HE : held ph = [h]) by (destruct PH as [-> | ->]; reflexivity).
  assert (S2 : stage2b_of ph = None) by (destruct PH as [-> | ->]; reflexivity).
  assert (PR : is_pre ph = false) by (destruct PH as [-> | ->]; reflexivity).
  assert (LC : lcur ph = None) by (destruct PH as [-> | ->]; reflexivity).
  constructor; cbn [held stage2b_of is_pre lcur app].
  - apply (q_af _ _ _ _ _ q).
  - apply (q_safe _ _ _ _ _ q).
  - intros x I. apply (q_bound _ _ _ _ _ q). rewrite HE. right. exact I.
  - pose proof (q_nodup _ _ _ _ _ q) as N. rewrite HE in N. inv N. assumption.
  - apply (q_timers _ _ _ _ _ q).
  - apply (q_owner _ _ _ _ _ q).
  - apply (q_eff_bound _ _ _ _ _ q).
  - apply (q_ran_bound _ _ _ _ _ q).
  - apply (q_stage_uniq _ _ _ _ _ q).
  - apply (q_stage_two _ _ _ _ _ q).
  - intros u0 h0 d0 I N X. eapply (q_ran _ _ _ _ _ q); try eassumption. rewrite HE. right. exact X.
  - apply (q_eff _ _ _ _ _ q).
  - intros u0 h0 O. destruct (q_where _ _ _ _ _ q _ _ O) as [M|[M|M]]; auto. rewrite S2 in M. discriminate M.
  - apply (q_len _ _ _ _ _ q).
  - intros u0 h0 E. discriminate E.
  - rewrite (q_run _ _ _ _ _ q), PR. reflexivity.
  - apply (q_fpop _ _ _ _ _ q).
  - intros u0 E. discriminate E.
  - intros u0 f E. discriminate E.
  - apply (q_fwait _ _ _ _ _ q).
  - apply (q_cancel_cb _ _ _ _ _ q).
  - apply (q_cancel_u _ _ _ _ _ q).
  - apply (q_fut _ _ _ _ _ q).
  - apply (q_log _ _ _ _ _ q).
  - apply (q_seen _ _ _ _ _ q).
Qed.

Lemma Q_log_other : forall safe s ph rest log e,
  (forall u, e <> AStart u) -> (forall u, e <> ADispRet u) ->
  Q safe s ph rest log -> Q safe s ph rest (log ++ [e]).
Proof.
  intros safe s ph rest log e N1 N2 q. constructor; try apply q.
  - rewrite disp_ok_app, (q_log _ _ _ _ _ q). cbn. apply disp_ok_one_other. exact N1.
  - rewrite dseen_app, dseen_one_other by exact N2. apply (q_seen _ _ _ _ _ q).
Qed.

Section Facts.
Variable ts : bool.
Variable fixed : bool.
Variable abody : nat -> list aop.

(* a state that differs only in woken / ready / timers, with the same handles overall *)
Lemma Q_requeue : forall safe s ph ph' rest log woken rd tm,
  stage2b_of ph' = stage2b_of ph -> is_pre ph' = is_pre ph -> lcur ph' = lcur ph ->
  Q safe s ph rest log ->
  (forall x, In x (held ph' ++ rd ++ map snd tm) -> In x (held ph ++ aready s ++ map snd (atimers s))) ->
  NoDup (held ph' ++ rd ++ map snd tm) ->
  (forall x, In x (held ph' ++ rd) -> In x (held ph ++ aready s) \/ exists w, In (w, x) (atimers s)) ->
  (forall x, In x tm -> In x (atimers s)) ->
  Q safe (set_core s woken (ahs s) rd tm (ahl s) (adue s)) ph' rest log.
Proof.
  intros safe s ph ph' rest log woken rd tm H2 H3 H4 q SUB ND HR TM.
  constructor; unfold set_core; proj; rewrite ?H2, ?H3, ?H4; try (apply q; fail).
  - intros x I. apply (q_bound _ _ _ _ _ q), SUB, I.
  - exact ND.
  - intros w h I. apply (q_timers _ _ _ _ _ q w h), TM, I.
  - intros u0 h0 d0 I N X. destruct (HR _ X) as [Y|[w Y]].
    + eapply (q_ran _ _ _ _ _ q); eassumption.
    + destruct (q_timers _ _ _ _ _ q _ _ Y) as [u1 N1]. congruence.
Qed.

Lemma Q_begin_iter : forall safe s rest log dl0,
  Q safe s (LIdle dl0) rest log -> Q safe (fst (begin_iter s)) (snd (begin_iter s)) rest log.
Proof.
  intros safe s rest log dl0 q. unfold begin_iter. cbn [fst snd].
  destruct (drop_cancelled_suffix (acanc s) (atimers s)) as [pre E].
  eapply Q_requeue with (ph := LIdle dl0); try reflexivity; try exact q; cbn [held app].
  - intros x I. apply in_app_or in I. apply in_or_app. destruct I as [I|I]; [left; exact I|right].
    rewrite E, map_app. apply in_or_app. right. exact I.
  - pose proof (q_nodup _ _ _ _ _ q) as N. cbn [held app] in N. rewrite E, map_app in N.
    apply NoDup_app_intro.
    + eapply NoDup_app_l, N.
    + apply NoDup_app_r in N. eapply NoDup_app_r, N.
    + intros x X Y. eapply NoDup_app_disj; [exact N|exact X|]. apply in_or_app. right. exact Y.
  - intros x I. left. exact I.
  - intros x I. eapply drop_cancelled_in, I.
Qed.

(* run_forever() returns between two iterations: nothing is held, stage2 is not in progress, no foreign
   thread is inside a direct dispose (it would have found the loop not running) *)
Lemma Q_stop : forall safe s rest log dl0 ph' sg,
  Q safe s (LIdle dl0) rest log -> is_pre ph' = true -> held ph' = [] -> stage2b_of ph' = None -> lcur ph' = None ->
  Q safe (ASh (aclock s) false (awoken s) (ahs s) (aready s) (atimers s) (acanc s) (ahl s) (adue s) (adisp s)
              (afut s) (anfut s) (aran s) (aeff s) false sg) ph' rest log.
Proof.
  intros safe s rest log dl0 ph' sg q P H S L.
  assert (RUN : arunning s = true) by (rewrite (q_run _ _ _ _ _ q); reflexivity).
  constructor; proj; rewrite ?P, ?H, ?S, ?L; cbn [app negb].
  - apply (q_af _ _ _ _ _ q).
  - apply (q_safe _ _ _ _ _ q).
  - apply (q_bound _ _ _ _ _ q).
  - apply (q_nodup _ _ _ _ _ q).
  - apply (q_timers _ _ _ _ _ q).
  - apply (q_owner _ _ _ _ _ q).
  - apply (q_eff_bound _ _ _ _ _ q).
  - apply (q_ran_bound _ _ _ _ _ q).
  - apply (q_stage_uniq _ _ _ _ _ q).
  - apply (q_stage_two _ _ _ _ _ q).
  - apply (q_ran _ _ _ _ _ q).
  - apply (q_eff _ _ _ _ _ q).
  - intros u0 h0 O. destruct (q_where _ _ _ _ _ q u0 h0 O) as [M|[M|M]]; auto; discriminate M.
  - apply (q_len _ _ _ _ _ q).
  - intros u0 h0 E. discriminate E.
  - reflexivity.
  - intros t u0 I F. destruct (q_fpop _ _ _ _ _ q t u0 I F) as (R & _). rewrite R in RUN. discriminate RUN.
  - intros u0 E. discriminate E.
  - intros u0 f E. discriminate E.
  - apply (q_fwait _ _ _ _ _ q).
  - apply (q_cancel_cb _ _ _ _ _ q).
  - apply (q_cancel_u _ _ _ _ _ q).
  - apply (q_fut _ _ _ _ _ q).
  - apply (q_log _ _ _ _ _ q).
  - apply (q_seen _ _ _ _ _ q).
Qed.

Lemma Q_end_iter : forall safe s rest log dl0,
  Q safe s (LIdle dl0) rest log -> Q safe (fst (end_iter s)) (snd (end_iter s)) rest log.
Proof.
  intros safe s rest log dl0 q. unfold end_iter. destruct (astopping s); [|eapply Q_begin_iter, q].
  unfold stop_loop. destruct (asegs s) as [|seg more]; cbn [fst snd]; eapply Q_stop; try exact q; reflexivity.
Qed.

Lemma Q_next : forall safe s rest log dl0 k,
  Q safe s (LIdle dl0) rest log -> Q safe (fst (next_handle s k)) (snd (next_handle s k)) rest log.
Proof.
  intros safe s rest log dl0 k q. unfold next_handle. destruct k as [|k']; [eapply Q_end_iter, q|].
  destruct (aready s) as [|h r] eqn:R; [eapply Q_end_iter, q|]. cbn [fst snd].
  pose proof (q_nodup _ _ _ _ _ q) as N. cbn [held app] in N. rewrite R in N.
  eapply Q_requeue with (ph := LIdle dl0); try reflexivity; try exact q; cbn [held app]; rewrite ?R.
  - intros x I. exact I.
  - exact N.
  - intros x I. left. exact I.
  - intros x I. exact I.
Qed.
End Facts.

(* ---------------------------------------------------------------- part 10 *)
Section Facts.
Variable ts : bool.
Variable fixed : bool.
Variable abody : nat -> list aop.

(* the action is entered: its call's cancellation is not complete *)
Lemma Q_run_action : forall safe s h k rest log u todo,
  Q safe s (LRun h k) rest log -> amem h (acanc s) = false -> nth_error (ahs s) h = Some (CbAction u) ->
  Q safe s (LAct u None todo k) rest (log ++ [AStart u]).
Proof.
  intros safe s h k rest log u todo q NC N.
  assert (NOTEFF : ~ In u (aeff s)).
  { intros I. assert (owner s h = Some u) by (unfold owner; rewrite N; reflexivity).
    rewrite (q_eff _ _ _ _ _ q _ _ I H) in NC. discriminate NC. }
  pose proof (Q_release _ _ _ _ _ _ _ None (or_intror eq_refl) q) as q1.
  pose proof (Q_phase _ _ (LIdle None) (LAct u None todo k) _ _ eq_refl eq_refl eq_refl eq_refl q1) as q2.
  constructor; try apply q2.
  - rewrite disp_ok_app, (q_log _ _ _ _ _ q2). cbn. rewrite andb_true_r. apply negb_true_iff.
    destruct (amem u (dseen [] log)) eqn:M; [|reflexivity]. exfalso. apply NOTEFF. apply (q_seen _ _ _ _ _ q). apply amem_in. exact M.
  - intros u0 I. rewrite dseen_app in I. cbn in I. apply (q_seen _ _ _ _ _ q2), I.
Qed.

(* stage2 up to `return timer` of call_later *)
Lemma Q_stage2a : forall safe s h k rest log u d,
  Q safe s (LRun h k) rest log -> amem h (acanc s) = false -> nth_error (ahs s) h = Some (CbStage2 u d) ->
  Q safe (ASh (aclock s) (arunning s) (awoken s) (ahs s ++ [CbAction u]) (aready s)
              (tinsert (aclock s + d) (length (ahs s)) (atimers s)) (acanc s) (ahl s) (adue s) (adisp s) (afut s)
              (anfut s) (u :: aran s) (aeff s) (astopping s) (asegs s))
    (LStage2b u (length (ahs s)) k) rest log.
Proof.
  intros safe s h k rest log u d q NC N.
  set (ht := length (ahs s)).
  set (s' := ASh (aclock s) (arunning s) (awoken s) (ahs s ++ [CbAction u]) (aready s)
              (tinsert (aclock s + d) ht (atimers s)) (acanc s) (ahl s) (adue s) (adisp s) (afut s)
              (anfut s) (u :: aran s) (aeff s) (astopping s) (asegs s)).
  assert (OH : owner s h = Some u) by (unfold owner; rewrite N; reflexivity).
  assert (UL : (u < length (ahl s))%nat) by (apply (q_owner _ _ _ _ _ q _ _ OH)).
  assert (TW : twostage s u = true) by (eapply (q_stage_two _ _ _ _ _ q); exact N).
  assert (NR : ~ In u (aran s)).
  { intros I. eapply (q_ran _ _ _ _ _ q); [exact I|exact N|]. left. reflexivity. }
  assert (LN : (length (stack s u) <= 1)%nat).
  { pose proof (q_len _ _ _ _ _ q u TW) as L. destruct (amem u (aran s)) eqn:M; [apply amem_in in M; contradiction|exact L]. }
  assert (OLD : forall h0 u0, owner s' h0 = Some u0 -> owner s h0 = Some u0 \/ (h0 = ht /\ u0 = u)).
  { intros h0 u0 O. unfold owner in *. unfold s' in O. proj. destruct (nth_error (ahs s ++ [CbAction u]) h0) as [x|] eqn:NN; [|discriminate O].
    apply nth_error_app_inv in NN. destruct NN as [NN|[-> ->]]; [left; rewrite NN; exact O|right; inv O; auto]. }
  assert (FR : forall x, In x (h :: aready s ++ map snd (atimers s)) -> (x < ht)%nat)
    by (intros x I; apply (q_bound _ _ _ _ _ q); exact I).
  assert (HNR : ~ In h (aready s)).
  { pose proof (q_nodup _ _ _ _ _ q) as ND. cbn [held app] in ND. inv ND. intros X. apply H1. apply in_or_app. left. exact X. }
  constructor; unfold s'; proj; cbn [held stage2b_of is_pre lcur app]; fold ht.
  - apply (q_af _ _ _ _ _ q).
  - apply (q_safe _ _ _ _ _ q).
  - intros x I. rewrite app_length. cbn [length]. fold ht. apply in_app_or in I. destruct I as [I|I].
    + assert (x < ht)%nat by (apply FR; right; apply in_or_app; left; exact I). lia.
    + apply tinsert_handles_in in I. destruct I as [->|I]; [lia|].
      assert (x < ht)%nat by (apply FR; right; apply in_or_app; right; exact I). lia.
  - pose proof (q_nodup _ _ _ _ _ q) as ND. cbn [held app] in ND. inv ND.
    apply (nodup3_fresh_timer [] (aready s)); [exact H2|]. cbn [app]. intros X.
    assert (ht < ht)%nat; [|lia]. apply FR. right. exact X.
  - intros w0 h0 I. apply tinsert_in in I. destruct I as [I|I].
    + inv I. exists u. apply nth_error_app_last.
    + destruct (q_timers _ _ _ _ _ q _ _ I) as [u0 NN]. exists u0. apply nth_error_app_old, NN.
  - intros h0 u0 O. destruct (OLD _ _ O) as [O'|[-> ->]]; [apply (q_owner _ _ _ _ _ q _ _ O')|exact UL].
  - apply (q_eff_bound _ _ _ _ _ q).
  - intros u0 [<-|I]; [exact UL|apply (q_ran_bound _ _ _ _ _ q _ I)].
  - intros h1 h2 u0 d1 d2 N1 N2. apply nth_error_app_inv in N1. apply nth_error_app_inv in N2.
    destruct N1 as [N1|[_ E1]]; [|discriminate E1]. destruct N2 as [N2|[_ E2]]; [|discriminate E2].
    eapply (q_stage_uniq _ _ _ _ _ q); eassumption.
  - intros h0 u0 d0 NN. apply nth_error_app_inv in NN. destruct NN as [NN|[_ E]]; [|discriminate E].
    apply (q_stage_two _ _ _ _ _ q _ _ _ NN).
  - intros u0 h0 d0 I NN. apply nth_error_app_inv in NN. destruct NN as [NN|[_ E]]; [|discriminate E].
    destruct I as [<-|I].
    + assert (h0 = h) by (eapply (q_stage_uniq _ _ _ _ _ q); eassumption). subst h0. exact HNR.
    + intros X. eapply (q_ran _ _ _ _ _ q); [exact I|exact NN|]. right. exact X.
  - intros u0 h0 I O. destruct (OLD _ _ O) as [O'|[-> ->]]; [eapply (q_eff _ _ _ _ _ q); eassumption|].
    exfalso. rewrite (q_eff _ _ _ _ _ q _ _ I OH) in NC. discriminate NC.
  - intros u0 h0 O. destruct (OLD _ _ O) as [O'|[-> ->]]; [|right; right; reflexivity].
    destruct (q_where _ _ _ _ _ q _ _ O') as [M|[M|M]]; auto. discriminate M.
  - intros u0 T. pose proof (q_len _ _ _ _ _ q u0) as L. unfold stack, twostage in *. proj. specialize (L T). cbn [amem].
    destruct (Nat.eqb u0 u) eqn:E; cbn [orb]; [|exact L]. apply Nat.eqb_eq in E. subst u0. lia.
  - intros u0 h0 E. inv E. repeat split; auto. left. reflexivity.
  - apply (q_run _ _ _ _ _ q).
  - apply (q_fpop _ _ _ _ _ q).
  - intros u0 E. discriminate E.
  - intros u0 f E. discriminate E.
  - apply (q_fwait _ _ _ _ _ q).
  - intros h0 u' f' NN. apply nth_error_app_inv in NN. destruct NN as [NN|[_ E]]; [|discriminate E].
    apply (q_cancel_cb _ _ _ _ _ q _ _ _ NN).
  - intros h0 u' f' NN. apply nth_error_app_inv in NN. destruct NN as [NN|[_ E]]; [|discriminate E].
    apply (q_cancel_u _ _ _ _ _ q _ _ _ NN).
  - apply (q_fut _ _ _ _ _ q).
  - apply (q_log _ _ _ _ _ q).
  - apply (q_seen _ _ _ _ _ q).
Qed.
End Facts.

(* ---------------------------------------------------------------- part 11 *)
Section Facts.
Variable ts : bool.
Variable fixed : bool.
Variable abody : nat -> list aop.

(* a future gets its result *)
Lemma Q_add_fut : forall safe s ph rest log f,
  Q safe s ph rest log -> (f < anfut s)%nat ->
  (forall t u0, In t rest -> fcur t = Some (FWait u0 f) -> In u0 (aeff s)) ->
  Q safe (ASh (aclock s) (arunning s) (awoken s) (ahs s) (aready s) (atimers s) (acanc s) (ahl s) (adue s) (adisp s)
              (f :: afut s) (anfut s) (aran s) (aeff s) (astopping s) (asegs s)) ph rest log.
Proof.
  intros safe s ph rest log f q B W. constructor; proj; try apply q.
  - intros t u0 f0 I F. destruct (q_fwait _ _ _ _ _ q t u0 f0 I F) as [B0 E]. split; [exact B0|].
    cbn [amem]. intros M. apply orb_true_iff in M. destruct M as [M|M]; [|apply E, M].
    apply Nat.eqb_eq in M. subst f0. eapply W; eassumption.
  - intros f0 [<-|I]; [exact B|apply (q_fut _ _ _ _ _ q _ I)].
Qed.

(* cancel_handle runs on the loop *)
Lemma Q_cancel_run : forall safe s h k rest log u f,
  Q safe s (LRun h k) rest log -> nth_error (ahs s) h = Some (CbCancel u f) ->
  Q safe (set_canc s (fst (cancel_all s u)) (snd (cancel_all s u)) (f :: afut s) (u :: aeff s)) (LIdle None) rest log.
Proof.
  intros safe s h k rest log u f q N.
  pose proof (q_cancel_u _ _ _ _ _ q _ _ _ N) as UL.
  destruct (q_cancel_cb _ _ _ _ _ q _ _ _ N) as [FB FU].
  pose proof (Q_release _ _ _ _ _ _ _ None (or_intror eq_refl) q) as q1.
  pose proof (Q_phase _ _ (LIdle None) (LAct 0 None [] k) _ _ eq_refl eq_refl eq_refl eq_refl q1) as q2.
  assert (EX : executor ts fixed safe (LAct 0 None [] k) rest None [] true (LAct 0 None [] k) rest None []) by (apply EX_act; reflexivity).
  assert (CORE : exists cn newstk,
            fst (cancel_all s u) = cn ++ acanc s /\
            snd (cancel_all s u) = match newstk with Some l' => aupd u (true, l') (ahl s) | None => ahl s end /\
            (newstk <> None -> twostage s u = true) /\
            (forall x, In x (stack s u) -> In x (match newstk with Some l' => l' | None => stack s u end) \/ In x cn) /\
            (length (match newstk with Some l' => l' | None => stack s u end) <= length (stack s u))%nat /\
            (forall x, In x (match newstk with Some l' => l' | None => stack s u end) -> In x cn \/ amem x (acanc s) = true)).
  { unfold cancel_all. destruct (nth_error (ahl s) u) as [[[|] l]|] eqn:NH; cbn [fst snd].
    - assert (TW : twostage s u = true) by (unfold twostage; rewrite NH; reflexivity).
      pose proof (q_len _ _ _ _ _ q u TW) as LN. assert (ST : stack s u = l) by (unfold stack; rewrite NH; reflexivity).
      rewrite ST in LN. assert (L2 : (length l <= 2)%nat) by (destruct (amem u (aran s)); lia).
      exists l, (Some []). rewrite (last2_all _ L2), (removelast2_nil _ L2), ST. repeat split; auto.
      all: try solve [cbn; lia | intros x []].
    - assert (ST : stack s u = l) by (unfold stack; rewrite NH; reflexivity).
      exists l, None. rewrite ST. repeat split; auto. all: try solve [intros C; contradiction].
    - apply nth_error_None in NH. lia. }
  destruct CORE as (cn & newstk & E1 & E2 & TW & SUB & LEN & ALL).
  pose proof (Q_cancel_gen ts fixed safe s (LAct 0 None [] k) rest log true (LAct 0 None [] k) rest None [] None [] u cn newstk true
                (adisp s) q2 EX UL TW SUB LEN) as X. cbn zeta in X.
  assert (q3 := X (fun _ => conj ALL eq_refl) (or_introl eq_refl)). clear X. rewrite app_nil_r in q3 || idtac.
  unfold set_canc. rewrite E1, E2.
  pose proof (Q_add_fut _ _ _ _ _ f q3 FB) as q4. proj.
  assert (q5 : forall t u0, In t rest -> fcur t = Some (FWait u0 f) -> In u0 (u :: aeff s)).
  { intros t u0 I F. left. symmetry. eapply FU; eassumption. }
  specialize (q4 q5). proj.
  eapply (Q_phase _ _ (LAct 0 None [] k) (LIdle None)); try reflexivity.
  (* the log: dispose() has not returned yet, nothing was appended but the empty list *)
  constructor; try apply q4.
  - pose proof (q_log _ _ _ _ _ q4) as L. rewrite disp_ok_app in L. apply andb_true_iff in L. destruct L as [L _]. exact L.
  - intros u0 I. apply (q_seen _ _ _ _ _ q4). rewrite dseen_app. cbn. right. exact I.
Qed.
End Facts.

(* ---------------------------------------------------------------- part 12 *)
Section Facts.
Variable ts : bool.
Variable fixed : bool.
Variable abody : nat -> list aop.

(* stage2: handle.append(timer) *)
Lemma Q_stage2b : forall safe s u h k rest log,
  Q safe s (LStage2b u h k) rest log ->
  Q safe (set_core s (awoken s) (ahs s) (aready s) (atimers s)
            (match nth_error (ahl s) u with Some (two, l) => aupd u (two, l ++ [h]) (ahl s) | None => ahl s end) (adue s))
    (LIdle None) rest log.
Proof.
  intros safe s u h k rest log q.
  destruct (q_s2b _ _ _ _ _ q u h eq_refl) as (TW & RN & LN).
  assert (RUN : arunning s = true) by (rewrite (q_run _ _ _ _ _ q); reflexivity).
  destruct (nth_error (ahl s) u) as [[two l]|] eqn:NH; [|unfold twostage in TW; rewrite NH in TW; discriminate TW].
  assert (two = true) by (unfold twostage in TW; rewrite NH in TW; exact TW). subst two.
  assert (ST : stack s u = l) by (unfold stack; rewrite NH; reflexivity). rewrite ST in LN.
  assert (UL : (u < length (ahl s))%nat) by (apply nth_error_Some; congruence).
  set (s' := set_core s (awoken s) (ahs s) (aready s) (atimers s) (aupd u (true, l ++ [h]) (ahl s)) (adue s)).
  assert (STK : forall u0, stack s' u0 = if Nat.eqb u0 u then l ++ [h] else stack s u0).
  { intros u0. unfold stack, s', set_core. proj. destruct (Nat.eqb u0 u) eqn:E.
    - apply Nat.eqb_eq in E. subst u0. rewrite stack_upd_same by exact UL. reflexivity.
    - apply Nat.eqb_neq in E. rewrite anth_upd_other by exact E. reflexivity. }
  assert (TWS : forall u0, twostage s' u0 = twostage s u0).
  { intros u0. unfold twostage, s', set_core. proj. destruct (Nat.eq_dec u0 u) as [->|NE].
    - rewrite stack_upd_same by exact UL. rewrite NH. reflexivity.
    - rewrite anth_upd_other by exact NE. reflexivity. }
  assert (HLL : length (ahl s') = length (ahl s)) by (unfold s', set_core; proj; apply aupd_length).
  constructor; cbn [held stage2b_of is_pre lcur app]; try rewrite HLL.
  - apply (q_af _ _ _ _ _ q).
  - apply (q_safe _ _ _ _ _ q).
  - apply (q_bound _ _ _ _ _ q).
  - apply (q_nodup _ _ _ _ _ q).
  - apply (q_timers _ _ _ _ _ q).
  - apply (q_owner _ _ _ _ _ q).
  - apply (q_eff_bound _ _ _ _ _ q).
  - apply (q_ran_bound _ _ _ _ _ q).
  - apply (q_stage_uniq _ _ _ _ _ q).
  - intros h0 u0 d0 N. rewrite TWS. eapply (q_stage_two _ _ _ _ _ q); exact N.
  - apply (q_ran _ _ _ _ _ q).
  - apply (q_eff _ _ _ _ _ q).
  - intros u0 h0 O. rewrite STK. destruct (q_where _ _ _ _ _ q u0 h0 O) as [M|[M|M]].
    + left. exact M.
    + right. left. destruct (Nat.eqb u0 u) eqn:E; [|exact M]. apply Nat.eqb_eq in E. subst u0. rewrite ST in M.
      apply in_or_app. left. exact M.
    + cbn in M. inv M. right. left. rewrite Nat.eqb_refl. apply in_or_app. right. left. reflexivity.
  - intros u0 T. rewrite TWS in T. rewrite STK. pose proof (q_len _ _ _ _ _ q u0 T) as L0.
    destruct (Nat.eqb u0 u) eqn:E; [|exact L0]. apply Nat.eqb_eq in E. subst u0.
    unfold s', set_core. proj. apply amem_in in RN. rewrite RN. rewrite app_length. cbn. lia.
  - intros u0 h0 E. discriminate E.
  - exact RUN.
  - intros t u0 I F. destruct (q_fpop _ _ _ _ _ q t u0 I F) as (R & _). rewrite R in RUN. discriminate RUN.
  - intros u0 E. discriminate E.
  - intros u0 f E. discriminate E.
  - apply (q_fwait _ _ _ _ _ q).
  - apply (q_cancel_cb _ _ _ _ _ q).
  - apply (q_cancel_u _ _ _ _ _ q).
  - apply (q_fut _ _ _ _ _ q).
  - apply (q_log _ _ _ _ _ q).
  - apply (q_seen _ _ _ _ _ q).
Qed.

(* run_forever() *)
Lemma Q_start : forall safe s rest log,
  Q safe s (LPre None []) rest log -> (forall t u, In t rest -> fcur t <> Some (FPop2 u)) ->
  Q safe (ASh (aclock s) true (awoken s) (ahs s) (aready s) (atimers s) (acanc s) (ahl s) (adue s) (adisp s) (afut s)
              (anfut s) (aran s) (aeff s) (astopping s) (asegs s)) (LIdle None) rest log.
Proof.
  intros safe s rest log q NP. constructor; proj; cbn [held stage2b_of is_pre lcur app].
  - apply (q_af _ _ _ _ _ q).
  - apply (q_safe _ _ _ _ _ q).
  - apply (q_bound _ _ _ _ _ q).
  - apply (q_nodup _ _ _ _ _ q).
  - apply (q_timers _ _ _ _ _ q).
  - apply (q_owner _ _ _ _ _ q).
  - apply (q_eff_bound _ _ _ _ _ q).
  - apply (q_ran_bound _ _ _ _ _ q).
  - apply (q_stage_uniq _ _ _ _ _ q).
  - apply (q_stage_two _ _ _ _ _ q).
  - apply (q_ran _ _ _ _ _ q).
  - apply (q_eff _ _ _ _ _ q).
  - intros u0 h0 O. destruct (q_where _ _ _ _ _ q u0 h0 O) as [M|[M|M]]; auto.
  - apply (q_len _ _ _ _ _ q).
  - intros u0 h0 E. discriminate E.
  - reflexivity.
  - intros t u0 I F. exfalso. eapply NP; eassumption.
  - intros u0 E. discriminate E.
  - intros u0 f E. discriminate E.
  - apply (q_fwait _ _ _ _ _ q).
  - apply (q_cancel_cb _ _ _ _ _ q).
  - apply (q_cancel_u _ _ _ _ _ q).
  - apply (q_fut _ _ _ _ _ q).
  - apply (q_log _ _ _ _ _ q).
  - apply (q_seen _ _ _ _ _ q).
Qed.

(* select returns: the due timers become ready *)
Lemma Q_wake : forall safe s rest log dl due rst,
  Q safe s (LIdle dl) rest log -> split_due (aclock s) (atimers s) = (due, rst) ->
  Q safe (set_core s false (ahs s) (aready s ++ due) rst (ahl s) (adue s)) (LIdle None) rest log.
Proof.
  intros safe s rest log dl due rst q SD.
  pose proof (split_due_handles _ _ _ _ SD) as HS.
  eapply Q_requeue with (ph := LIdle dl); try reflexivity; try exact q; cbn [held app].
  - intros x I. rewrite HS. rewrite <- app_assoc in I. exact I.
  - pose proof (q_nodup _ _ _ _ _ q) as N. cbn [held app] in N. rewrite HS in N. rewrite <- app_assoc. exact N.
  - intros x I. apply in_app_or in I. destruct I as [I|I]; [left; exact I|right].
    destruct (split_due_due _ _ _ _ SD x I) as [w [X _]]. eauto.
  - intros x I. eapply split_due_rest; eassumption.
Qed.

(* ---- one step of the loop thread ----------------------------------------------------- *)
Lemma Q_loop_step : forall safe s ph rest log quiet s' ph' out,
  Q safe s ph rest log ->
  (quiet = true -> forall t u, In t rest -> fcur t <> Some (FPop2 u)) ->
  loop_step ts fixed abody quiet s ph = Some (s', ph', out) ->
  Q safe s' ph' rest (log ++ out).
Proof.
  intros safe s ph rest log quiet s' ph' out q QT H. unfold loop_step in H. destruct ph as [cur todo|dl|h k|h k|u cur todo k|u h k|].
  - (* LPre *)
    assert (CALL : forall r1, match call_step ts fixed true s cur todo with
                         | Some (s1, c1, t1, o1) => Some (s1, LPre c1 t1, o1) | None => None end = Some r1 ->
                         r1 = (s', ph', out) -> Q safe s' ph' rest (log ++ out)).
    { intros r1 E1 E2. destruct (call_step ts fixed true s cur todo) as [[[[s1 c1] t1] o1]|] eqn:CS; [|discriminate E1].
      inv E1. inv H1. eapply Q_cstep; [exact q|apply EX_pre; reflexivity|apply call_step_spec; exact CS]. }
    destruct cur as [c0|]; [eapply CALL; [exact H|reflexivity]|].
    destruct todo as [|o r]; [|eapply CALL; [exact H|reflexivity]].
    destruct quiet; [|discriminate H].
    pose proof (Q_start _ _ _ _ q (QT eq_refl)) as q1.
    pose proof (Q_begin_iter _ _ _ _ _ q1) as q2.
    destruct (begin_iter _) as [s2 p2] eqn:EI. inv H. rewrite app_nil_r. exact q2.
  - (* LIdle *)
    destruct (awoken s || match dl with Some t => t <=? aclock s | None => false end); [|discriminate H].
    destruct (split_due (aclock s) (atimers s)) as [due rst] eqn:SD.
    pose proof (Q_wake _ _ _ _ _ _ _ q SD) as q1.
    pose proof (Q_next _ _ _ _ _ (length (aready (set_core s false (ahs s) (aready s ++ due) rst (ahl s) (adue s)))) q1) as q2.
    destruct (next_handle _ _) as [s2 p2] eqn:NX. inv H. rewrite app_nil_r. exact q2.
  - (* LCheck *)
    destruct (amem h (acanc s)) eqn:M.
    + pose proof (Q_release _ _ _ _ _ _ _ None (or_introl eq_refl) q) as q1.
      pose proof (Q_next _ _ _ _ _ k q1) as q2. destruct (next_handle s k) as [s2 p2]. inv H. rewrite app_nil_r. exact q2.
    + inv H. rewrite app_nil_r. eapply (Q_phase _ _ (LCheck h k)); try reflexivity. exact q.
  - (* LRun *)
    destruct (amem h (acanc s)) eqn:M.
    + pose proof (Q_release _ _ _ _ _ _ _ None (or_intror eq_refl) q) as q1.
      pose proof (Q_next _ _ _ _ _ k q1) as q2. destruct (next_handle s k) as [s2 p2]. inv H.
      apply Q_log_other; [intros u0; discriminate|intros u0; discriminate|exact q2].
    + destruct (nth_error (ahs s) h) as [[u|u d|u f]|] eqn:N.
      * inv H. eapply Q_run_action; eassumption.
      * inv H. rewrite app_nil_r. unfold set_core. proj. eapply Q_stage2a; eassumption.
      * destruct (cancel_all s u) as [canc hl] eqn:CA.
        pose proof (Q_cancel_run ts fixed _ _ _ _ _ _ _ _ q N) as q1. rewrite CA in q1. cbn [fst snd] in q1.
        pose proof (Q_next _ _ _ _ _ k q1) as q2. destruct (next_handle _ k) as [s2 p2]. inv H. rewrite app_nil_r. exact q2.
      * pose proof (Q_release _ _ _ _ _ _ _ None (or_intror eq_refl) q) as q1.
        pose proof (Q_next _ _ _ _ _ k q1) as q2. destruct (next_handle s k) as [s2 p2]. inv H. rewrite app_nil_r. exact q2.
  - (* LAct *)
    assert (CALL : forall r1, match call_step ts fixed true s cur todo with
                         | Some (s1, c1, t1, o1) => Some (s1, LAct u c1 t1 k, o1) | None => None end = Some r1 ->
                         r1 = (s', ph', out) -> Q safe s' ph' rest (log ++ out)).
    { intros r1 E1 E2. destruct (call_step ts fixed true s cur todo) as [[[[s1 c1] t1] o1]|] eqn:CS; [|discriminate E1].
      inv E1. inv H1. eapply Q_cstep; [exact q|apply EX_act; reflexivity|apply call_step_spec; exact CS]. }
    destruct cur as [c0|]; [eapply CALL; [exact H|reflexivity]|].
    destruct todo as [|o r]; [|eapply CALL; [exact H|reflexivity]].
    pose proof (Q_phase _ _ (LAct u None [] k) (LIdle None) _ _ eq_refl eq_refl eq_refl eq_refl q) as q1.
    pose proof (Q_next _ _ _ _ _ k q1) as q2. destruct (next_handle s k) as [s2 p2]. inv H.
    apply Q_log_other; [intros u0; discriminate|intros u0; discriminate|exact q2].
  - (* LStage2b *)
    pose proof (Q_stage2b _ _ _ _ _ _ _ q) as q1.
    pose proof (Q_next _ _ _ _ _ k q1) as q2. destruct (next_handle _ k) as [s2 p2]. inv H. rewrite app_nil_r. exact q2.
  - (* LDone *)
    discriminate H.
Qed.
End Facts.

(* ---------------------------------------------------------------- part 13 *)
Lemma Q_clock : forall safe s ph rest log t,
  Q safe s ph rest log ->
  Q safe (ASh t (arunning s) (awoken s) (ahs s) (aready s) (atimers s) (acanc s) (ahl s) (adue s) (adisp s) (afut s)
              (anfut s) (aran s) (aeff s) (astopping s) (asegs s)) ph rest log.
Proof. intros safe s ph rest log t q. constructor; proj; apply q. Qed.

Section Facts.
Variable ts : bool.
Variable fixed : bool.
Variable abody : nat -> list aop.
Notation atstep := (atstep ts fixed abody).
Notation arun := (arun ts fixed abody).

Definition invC (c : aconfig) : Prop :=
  exists ph rest, a_ths c = AL ph :: rest /\ Q (ts && fixed) (a_sh c) ph rest (AL_ c).

Lemma AL_step : forall s ths log tid clk out, AL_ (AConfig s ths (log ++ astamp tid clk out)) = aevs log ++ out.
Proof. intros. unfold AL_. cbn [a_log]. rewrite aevs_app, aevs_stamp. reflexivity. Qed.

Lemma invC_step : forall c tid, invC c -> invC (atstep c tid).
Proof.
  intros c tid (ph & rest & TH & q). unfold AsyncIO.atstep. rewrite TH. destruct tid as [|n]; cbn [nth_error].
  - (* the loop thread *)
    destruct (loop_step ts fixed abody (negb (existsb in_pop2 (AL ph :: rest))) (a_sh c) ph) as [[[s' ph'] out]|] eqn:LS;
      [|exists ph, rest; split; [exact TH|exact q]].
    exists ph', rest. split; [reflexivity|]. rewrite AL_step. fold (AL_ c).
    eapply Q_loop_step; [exact q| |exact LS].
    intros QT t u I F. apply negb_true_iff in QT. cbn [existsb in_pop2 orb] in QT.
    assert (existsb in_pop2 rest = true); [|congruence].
    apply existsb_exists. exists t. split; [exact I|]. destruct t as [cur todo|p]; [|discriminate F]. cbn in F. subst cur. reflexivity.
  - (* a foreign thread *)
    destruct (nth_error rest n) as [t|] eqn:N; [|exists ph, rest; split; [exact TH|exact q]].
    pose proof (q_af _ _ _ _ _ q t (nth_error_In _ _ N)) as AFt. destruct t as [cur todo|p]; [|discriminate AFt].
    destruct (call_step ts fixed false (a_sh c) cur todo) as [[[[s' cur'] todo'] out]|] eqn:CS;
      [|exists ph, rest; split; [exact TH|exact q]].
    exists ph, (aupd n (AF cur' todo') rest). split; [reflexivity|]. rewrite AL_step. fold (AL_ c).
    eapply Q_cstep; [exact q| |apply call_step_spec; exact CS]. apply EX_foreign; [exact N|reflexivity].
Qed.

Lemma invC_tick : forall c d, invC c -> invC (atick c d).
Proof.
  intros c d (ph & rest & TH & q). exists ph, rest. split; [exact TH|]. unfold atick, AL_. cbn [a_sh a_log]. apply Q_clock. exact q.
Qed.

Lemma invC_init : forall t0 pre segs progs, (ts && fixed = true \/ progs = []) -> invC (ainit t0 pre segs progs).
Proof.
  intros t0 pre segs progs H. exists (LPre None pre), (map (fun p => AF None p) progs). split; [reflexivity|].
  unfold ainit, AL_. cbn [a_sh a_log aevs map].
  constructor; proj; cbn [held stage2b_of is_pre lcur app length nth_error]; try (intros; contradiction); try discriminate.
  - intros t I. apply in_map_iff in I. destruct I as [p [<- _]]. reflexivity.
  - intros NE. destruct H as [H|H]; [exact H|]. subst progs. exfalso. apply NE. reflexivity.
  - constructor.
  - intros h u O. unfold owner in O. proj. destruct h; discriminate O.
  - intros h h' u d d' N. destruct h; discriminate N.
  - intros h u d N. destruct h; discriminate N.
  - intros u h O. unfold owner in O. proj. destruct h; discriminate O.
  - intros u T. unfold twostage in T. proj. destruct u; discriminate T.
  - reflexivity.
  - intros t u I F. apply in_map_iff in I. destruct I as [p [<- _]]. discriminate F.
  - intros t u f I F. apply in_map_iff in I. destruct I as [p [<- _]]. discriminate F.
  - intros h u' f' N. destruct h; discriminate N.
  - intros h u' f' N. destruct h; discriminate N.
  - reflexivity.
Qed.

Lemma invC_run : forall sched c, invC c -> invC (arun c sched).
Proof.
  induction sched as [|m s IH]; intros c H; [exact H|]. cbn. apply IH. destruct m; cbn; [apply invC_step|apply invC_tick]; exact H.
Qed.

(* once dispose() has returned, the action does not start *)
Theorem aio_cancel_effective : forall t0 pre segs progs sched l1 u l2,
  (ts && fixed = true \/ progs = []) ->
  AL_ (arun (ainit t0 pre segs progs) sched) = l1 ++ ADispRet u :: l2 -> ~ In (AStart u) l2.
Proof.
  intros t0 pre segs progs sched l1 u l2 H E.
  destruct (invC_run sched _ (invC_init t0 pre segs progs H)) as (ph & rest & _ & q).
  pose proof (q_log _ _ _ _ _ q) as L. rewrite E in L. eapply disp_ok_spec, L.
Qed.

(* dispose() returns only when the cancellation has been carried out: every handle created so far for the
   call (interval / stage2 / the timer) is cancelled at that moment and stays so -- whichever thread called
   dispose(), however often the loop was stopped and run again in between.  For the marshalled path this
   says that future.result() is not left before cancel_handle has run ON the loop. *)
Theorem aio_dispose_returns_cancelled : forall t0 pre segs progs sched u h,
  (ts && fixed = true \/ progs = []) ->
  let c := arun (ainit t0 pre segs progs) sched in
  In (ADispRet u) (AL_ c) -> owner (a_sh c) h = Some u -> amem h (acanc (a_sh c)) = true.
Proof.
  intros t0 pre segs progs sched u h H c I O.
  destruct (invC_run sched _ (invC_init t0 pre segs progs H)) as (ph & rest & _ & q). fold c in q.
  eapply (q_eff _ _ _ _ _ q); [|exact O]. apply (q_seen _ _ _ _ _ q). apply amem_in. apply amem_dseen. right. exact I.
Qed.

(* a thread waiting in future.result() does not move while the future has no result: in particular not
   while the loop is stopped (nothing but cancel_handle, run by the loop, sets it) *)
Lemma aio_wait_blocks : forall c tid u f todo,
  nth_error (a_ths c) tid = Some (AF (Some (FWait u f)) todo) -> amem f (afut (a_sh c)) = false ->
  atstep c tid = c.
Proof.
  intros c tid u f todo N M. unfold AsyncIO.atstep. rewrite N. unfold call_step, do_cont. rewrite M. reflexivity.
Qed.
End Facts.

(* ---------------------------------------------------------------- part 14 *)
Lemma in_astamp : forall tid clk out tid' t e,
  In (tid', t, e) (astamp tid clk out) <-> tid' = tid /\ t = clk /\ In e out.
Proof.
  intros. unfold astamp. rewrite in_map_iff. split.
  - intros [x [E I]]. inv E. auto.
  - intros [-> [-> I]]. exists e. auto.
Qed.

Section Facts.
Variable ts : bool.
Variable fixed : bool.
Variable abody : nat -> list aop.
Notation atstep := (atstep ts fixed abody).
Notation arun := (arun ts fixed abody).

Lemma do_sched_out : forall s d, snd (do_sched ts s d) = [ARet (length (ahl s))].
Proof. intros. unfold do_sched. destruct (d <=? 0); [|destruct ts]; reflexivity. Qed.

Lemma cstep_no_start : forall ol s cur todo s' cur' todo' out u,
  cstep ts fixed ol s cur todo s' cur' todo' out -> ~ In (AStart u) out.
Proof.
  intros ol s cur todo s' cur' todo' out u C I.
  inv C; rewrite ?do_sched_out in I; cbn in I;
    repeat match goal with H : _ \/ _ |- _ => destruct H as [H|H] end; try contradiction; discriminate.
Qed.

(* actions start on the loop thread (thread 0) only *)
Definition invL (c : aconfig) : Prop := forall tid t u, In (tid, t, AStart u) (a_log c) -> tid = 0%nat.

Lemma invL_step : forall c tid, invC ts fixed c -> invL c -> invL (atstep c tid).
Proof.
  intros c tid (ph & rest & TH & q) L. unfold AsyncIO.atstep. rewrite TH. destruct tid as [|n]; cbn [nth_error].
  - destruct (loop_step _ _ _ _ _ _) as [[[s' ph'] out]|]; [|exact L].
    intros tid t u I. cbn [a_log] in I. apply in_app_or in I. destruct I as [I|I]; [eapply L, I|].
    apply in_astamp in I. apply I.
  - destruct (nth_error rest n) as [t|] eqn:N; [|exact L].
    pose proof (q_af _ _ _ _ _ q t (nth_error_In _ _ N)) as AFt. destruct t as [cur todo|p]; [|discriminate AFt].
    destruct (call_step ts fixed false (a_sh c) cur todo) as [[[[s' cur'] todo'] out]|] eqn:CS; [|exact L].
    intros tid t u I. cbn [a_log] in I. apply in_app_or in I. destruct I as [I|I]; [eapply L, I|].
    apply in_astamp in I. destruct I as [_ [_ I]]. exfalso. eapply cstep_no_start; [apply call_step_spec; exact CS|exact I].
Qed.

Theorem aio_on_loop_thread : forall t0 pre segs progs sched tid t u,
  (ts && fixed = true \/ progs = []) ->
  In (tid, t, AStart u) (a_log (arun (ainit t0 pre segs progs) sched)) -> tid = 0%nat.
Proof.
  intros t0 pre segs progs sched tid t u H.
  assert (G : forall sched c, invC ts fixed c -> invL c -> invL (arun c sched)).
  { induction sched0 as [|m s IH]; intros c C L; [exact L|]. cbn. destruct m as [tid0|d]; cbn.
    - apply IH; [apply invC_step; exact C|apply invL_step; assumption].
    - apply IH; [apply invC_tick; exact C|exact L]. }
  apply (G sched _ (invC_init ts fixed t0 pre segs progs H)). intros ? ? ? [].
Qed.
End Facts.

(* ---- the code before the repair (fixed = false) --------------------------------------- *)
(* T1: schedule_relative(1000) ; loop: starts, wakes up, tests and runs stage2 up to `return timer` ;
   T1: dispose() -- direct path although the loop is running: pops and cancels stage 1 only, the
   second pop raises IndexError (swallowed), dispose() returns ; loop: appends the timer handle ;
   the clock reaches 1000 ; loop: the timer fires and the action starts -- after dispose() returned *)
Definition noaction (u : nat) : list aop := [].
Definition old_code_witness : aconfig :=
  arun true false noaction (ainit 0 [] [] [[ARel 1000; ADispose 0%nat]])
       ([AMStep 0; AMStep 1; AMStep 0; AMStep 0; AMStep 0; AMStep 1; AMStep 1; AMStep 0; AMTick 1000;
         AMStep 0; AMStep 0; AMStep 0]%nat).

Lemma aio_foreign_direct_cancel_refuted :
  map snd (a_log old_code_witness) = [ARet 0; ADispRet 0; AStart 0]%nat.
Proof. vm_compute. reflexivity. Qed.

(* the same schedule on the repaired code: dispose() waits for the loop and both handles are cancelled *)
Definition new_code_same_schedule : aconfig :=
  arun true true noaction (ainit 0 [] [] [[ARel 1000; ADispose 0%nat]])
       ([AMStep 0; AMStep 1; AMStep 0; AMStep 0; AMStep 0; AMStep 1; AMStep 1; AMStep 0; AMTick 1000;
         AMStep 0; AMStep 0; AMStep 0; AMStep 0; AMStep 1; AMStep 0; AMStep 0]%nat).
Lemma aio_same_schedule_repaired :
  map snd (a_log new_code_same_schedule) = [ARet 0; ADispRet 0]%nat.
Proof. vm_compute. reflexivity. Qed.
