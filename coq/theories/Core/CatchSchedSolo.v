(* C42: the CatchScheduler's periodic wrapper is invisible to the calls a solo
   periodic subscription makes (audit thm-C35-C36-C42, C42 (a)/(b)). *)
From RxVerif Require Import Base.Prelude Core.VTime Core.Periodic Core.PeriodicFacts
  Core.CatchSched Core.CatchSchedFacts.

Lemma solo_spec_cwrap h f p : forall n clk due st t,
  solo_spec (cwrap_tab h f) p n clk due st t = solo_spec f p n clk due st t.
Proof.
  induction n as [|n IH]; intros; cbn [solo_spec]; [reflexivity|].
  destruct (t <? due); [reflexivity|]. rewrite plookup_cwrap.
  destruct (plookup f st); cbn [cwrap_pres]; try reflexivity. rewrite IH. reflexivity.
Qed.

(* schedule_periodic(p, f, st0) made THROUGH a CatchScheduler with any handler h on a
   fresh scheduler, then advance_to(t): the calls (state, clock) are those of the
   unwrapped action table f on the inner scheduler -- for all tables, raising ones
   included; [solo_spec] stops at the first call that does not return a state. *)
Theorem catch_periodic_solo c fuel h c0 p f st0 t : 0 <= p -> c0 < t ->
  let r := run_catch c fuel h (init c0) (solo_history p f st0 t) in
  rev (ticks_of 0 (log (state_of r))) = solo_spec f p fuel c0 (c0 + p) st0 t /\
  (match r with ROutOfFuel _ => length (solo_spec f p fuel c0 (c0 + p) st0 t) = fuel
              | RDeadlock _ => False | RDone _ => True end).
Proof.
  intros Hp Hlt.
  change (run_catch c fuel h (init c0) (solo_history p f st0 t))
    with (run c fuel (init c0) (solo_history p (cwrap_tab h f) st0 t)).
  pose proof (periodic_solo c fuel c0 p (cwrap_tab h f) st0 t Hp Hlt) as H.
  cbv zeta in H. rewrite solo_spec_cwrap in H. exact H.
Qed.

Corollary catch_periodic_solo_ticks c fuel h c0 p f st0 t : 0 <= p -> c0 < t ->
  rev (ticks_of 0 (log (state_of (run_catch c fuel h (init c0) (solo_history p f st0 t)))))
  = solo_spec f p fuel c0 (c0 + p) st0 t.
Proof. intros Hp Hlt. exact (proj1 (catch_periodic_solo c fuel h c0 p f st0 t Hp Hlt)). Qed.

(* ... and it makes exactly the calls it makes on the wrapped scheduler alone *)
Corollary catch_periodic_solo_same c fuel h c0 p f st0 t : 0 <= p -> c0 < t ->
  ticks_of 0 (log (state_of (run_catch c fuel h (init c0) (solo_history p f st0 t))))
  = ticks_of 0 (log (state_of (run c fuel (init c0) (solo_history p f st0 t)))).
Proof.
  intros Hp Hlt. rewrite <- (rev_involutive (ticks_of 0 (log (state_of (run_catch _ _ _ _ _))))).
  rewrite <- (rev_involutive (ticks_of 0 (log (state_of (run c _ _ _))))).
  rewrite catch_periodic_solo_ticks by assumption.
  rewrite (proj1 (periodic_solo c fuel c0 p f st0 t Hp Hlt)). reflexivity.
Qed.

(* nothing leaves advance_to in that run unless the handler rejected it *)
Corollary catch_periodic_solo_escapes c fuel h c0 p f st0 t : raw_tab f = true ->
  excs_ok h (log (state_of (run_catch c fuel h (init c0) (solo_history p f st0 t)))).
Proof.
  intro Hr. apply (catch_routes_all c fuel h c0 (solo_history p f st0 t)).
  - cbn. rewrite Hr. reflexivity.
  - reflexivity.
Qed.
