(* C35: interval(p) / timer(p, p) on a virtual-time periodic scheduler emits 0, 1, 2, ...
   at c0 + p, c0 + 2p, ...  (audit thm-C35-C36-C42, C35 (a)).  [count_table n] is the
   action  count -> on_next(count); return count + 1  as a finite table good for the
   states 0 .. n-1 (state n hits the default entry, which raises). *)
From RxVerif Require Import Base.Prelude Core.VTime Core.Periodic Core.PeriodicFacts.

Local Arguments Z.of_nat : simpl never.

Lemma plookup_l_count_skip d : forall n r z, Z.of_nat n <= z ->
  plookup_l (count_table_l n ++ r) d z = plookup_l r d z.
Proof.
  induction n as [|n IH]; intros r z Hz; [reflexivity|].
  cbn [count_table_l]. rewrite <- app_assoc. rewrite IH by lia.
  cbn [app plookup_l]. destruct (Z.of_nat n =? z) eqn:E; [lia | reflexivity].
Qed.

Lemma plookup_l_count d : forall n r k, (k < n)%nat ->
  plookup_l (count_table_l n ++ r) d (Z.of_nat k) = PNext [] 0%N (Z.of_nat k + 1).
Proof.
  induction n as [|n IH]; intros r k Hk; [lia|].
  cbn [count_table_l]. rewrite <- app_assoc.
  destruct (Nat.eq_dec k n) as [->|Hne].
  - rewrite plookup_l_count_skip by lia. cbn [app plookup_l]. rewrite Z.eqb_refl. reflexivity.
  - apply IH. lia.
Qed.

(* the table is the successor function on 0 .. n-1 and emits nothing else / takes no time *)
Lemma plookup_count n k : (k < n)%nat ->
  plookup (count_table n) (Z.of_nat k) = PNext [] 0%N (Z.of_nat k + 1).
Proof.
  intro Hk. unfold plookup, count_table. cbn [fst snd].
  rewrite <- (app_nil_r (count_table_l n)). apply plookup_l_count. exact Hk.
Qed.

Lemma interval_nth_gen n p t : 0 <= p -> forall k m clk due j stk, clk <= due -> (j + k <= n)%nat ->
  nth_error (solo_spec (count_table n) p m clk due (Z.of_nat j) t) k = Some stk ->
  stk = (Z.of_nat (j + k), due + Z.of_nat k * p).
Proof.
  intro Hp. induction k as [|k IH]; intros m clk due j stk Hc Hj; (destruct m as [|m]; [discriminate|]);
    cbn [solo_spec]; (destruct (t <? due); [discriminate|]); cbn [nth_error].
  - intro E. inversion E. f_equal; [f_equal; lia | lia].
  - rewrite plookup_count by lia. intro E.
    replace (Z.of_nat j + 1) with (Z.of_nat (S j)) in E by lia.
    apply IH in E; [|lia|lia]. subst stk. f_equal; [f_equal; lia | lia].
Qed.

Lemma interval_has_nth_gen n p t : 0 <= p -> forall k m clk due j, clk <= due -> (j + k <= n)%nat ->
  (k < m)%nat -> due + Z.of_nat k * p <= t ->
  nth_error (solo_spec (count_table n) p m clk due (Z.of_nat j) t) k
  = Some (Z.of_nat (j + k), due + Z.of_nat k * p).
Proof.
  intro Hp. induction k as [|k IH]; intros m clk due j Hc Hj Hm Ht; (destruct m as [|m]; [lia|]);
    cbn [solo_spec].
  - destruct (t <? due) eqn:E; [lia|]. cbn [nth_error]. f_equal. f_equal; [f_equal; lia | lia].
  - destruct (t <? due) eqn:E; [nia|]. cbn [nth_error]. rewrite plookup_count by lia.
    replace (Z.of_nat j + 1) with (Z.of_nat (S j)) by lia.
    rewrite IH by nia. f_equal. f_equal; [f_equal; lia | lia].
Qed.

(* interval(p): the k-th call (k = 0, 1, ..), if it is made, is made with state k at
   c0 + (k+1)*p -- for every period p >= 0, every bound m on the number of calls, every
   target t; valid up to the size of the table (k = n is the call that hits the default) *)
Theorem interval_emits n m p c0 t k stk : 0 <= p -> (k <= n)%nat ->
  nth_error (solo_spec (count_table n) p m c0 (c0 + p) 0 t) k = Some stk ->
  stk = (Z.of_nat k, c0 + (Z.of_nat k + 1) * p).
Proof.
  intros Hp Hk E. change 0 with (Z.of_nat 0) in E.
  apply (interval_nth_gen n p t Hp) in E; [|lia|lia]. subst stk. f_equal. lia.
Qed.

(* ... and it IS made whenever c0 + (k+1)*p <= t (and the bound m allows k+1 calls) *)
Theorem interval_has_kth n m p c0 t k : 0 <= p -> (k <= n)%nat -> (k < m)%nat ->
  c0 + (Z.of_nat k + 1) * p <= t ->
  nth_error (solo_spec (count_table n) p m c0 (c0 + p) 0 t) k = Some (Z.of_nat k, c0 + (Z.of_nat k + 1) * p).
Proof.
  intros Hp Hk Hm Ht. change 0 with (Z.of_nat 0).
  rewrite (interval_has_nth_gen n p t Hp) by lia. f_equal. f_equal. lia.
Qed.

(* the same on the machine: interval(p) subscribed on a fresh virtual-time scheduler at
   clock c0, then advance_to(t): the k-th call recorded in the log *)
Theorem interval_run_kth c fuel n p c0 t k stk : 0 <= p -> c0 < t -> (k <= n)%nat ->
  nth_error (rev (ticks_of 0 (log (state_of (run c fuel (init c0) (solo_history p (count_table n) 0 t)))))) k
    = Some stk ->
  stk = (Z.of_nat k, c0 + (Z.of_nat k + 1) * p).
Proof.
  intros Hp Hlt Hk. rewrite (proj1 (periodic_solo c fuel c0 p (count_table n) 0 t Hp Hlt)).
  apply interval_emits; assumption.
Qed.

Theorem interval_run_has_kth c fuel n p c0 t k : 0 <= p -> c0 < t -> (k <= n)%nat -> (k < fuel)%nat ->
  c0 + (Z.of_nat k + 1) * p <= t ->
  nth_error (rev (ticks_of 0 (log (state_of (run c fuel (init c0) (solo_history p (count_table n) 0 t)))))) k
    = Some (Z.of_nat k, c0 + (Z.of_nat k + 1) * p).
Proof.
  intros Hp Hlt Hk Hf Ht. rewrite (proj1 (periodic_solo c fuel c0 p (count_table n) 0 t Hp Hlt)).
  apply interval_has_kth; assumption.
Qed.
