(* Real-time schedulers (C34): small transition systems with an environment clock.

   - TimeoutScheduler (reactivex/scheduler/timeoutscheduler.py): one threading.Timer per action.
     threading.Timer is modelled by its CPython source (Lib/threading.py):
         def run(self):
             self.finished.wait(self.interval)        # returns when set() or after interval
             if not self.finished.is_set():
                 self.function( ...args... )
             self.finished.set()
         def cancel(self): self.finished.set()
     with Event.wait modelled as "returns no earlier than its timeout unless the event is set"
     (the clock that measures the timeout is the scheduler clock: the harness controls both).
   - ImmediateScheduler (reactivex/scheduler/immediatescheduler.py): a function.
   - NewThreadScheduler / ThreadPoolScheduler: every call makes a fresh
     EventLoopScheduler(exit_if_empty=True) and delegates to it (newthreadscheduler.py; the pool only
     changes who runs `run`), so their model is Core/EventLoop.v; what this file adds is the
     arithmetic of NewThreadScheduler.schedule_absolute (absolute -> relative -> absolute).

   Granularity of the TimeoutScheduler system (= yield points of the harness, coarse mode):
     schedule / schedule_relative: the whole call is one step (no lock, no clock read);
     schedule_absolute: a step up to the clock read, then one step;
     dispose of the returned disposable: one step (sets Timer.finished);
     timer thread: entry up to `finished.wait` | waking up and testing `is_set()` | entering the
     action | leaving the action. *)
From RxVerif Require Import Base.Prelude.
Local Open Scope Z_scope.

(* ======================================================================= *)
(* ImmediateScheduler *)
Inductive iev := IStart (a : nat) (t : Z) | IEnd (a : nat) | IRet (a : nat) | IWouldBlock (a : nat).

(* schedule: `return self.invoke_action(action, state)` *)
Definition imm_schedule (clock : Z) (a : nat) : list iev := [IStart a clock; IEnd a; IRet a].
(* schedule_relative: `if duetime > DELTA_ZERO: raise WouldBlockException()` *)
Definition imm_relative (clock d : Z) (a : nat) : list iev :=
  if d >? 0 then [IWouldBlock a] else imm_schedule clock a.
(* schedule_absolute: `self.schedule_relative(duetime - self.now, ...)`; the clock may have
   advanced by [later >= 0] between reading it and entering the action *)
Definition imm_absolute (clock t later : Z) (a : nat) : list iev := imm_relative (clock + later) (t - clock) a.

(* ======================================================================= *)
(* NewThreadScheduler.schedule_absolute(t): `dt - self.now` read at now1, then the inner
   EventLoopScheduler.schedule_relative computes `self.now + max(0, delta)` at now2 >= now1 *)
Definition newthread_abs_due (t now1 now2 : Z) : Z := now2 + Z.max 0 (t - now1).

(* ======================================================================= *)
(* TimeoutScheduler *)
Inductive top :=
| TNow (a : nat)                (* schedule *)
| TRel (d : Z) (a : nat)        (* schedule_relative *)
| TAbs (t : Z) (a : nat)        (* schedule_absolute *)
| TCancel (a : nat).            (* dispose of the returned disposable *)

Inductive tph :=
| PNew (interval : Z)           (* thread started, before finished.wait(interval) *)
| PWaiting (deadline : Z)       (* inside finished.wait *)
| PFire                         (* is_set() was False; about to call the action *)
| PRunning                      (* inside the action *)
| PDone.

Inductive tthread :=
| Caller (pending : option (Z * nat)) (todo : list top)   (* Some (t, a): in schedule_absolute, before `self.now` *)
| Timer (a : nat) (due : Z) (ph : tph).                   (* due: ghost, the requested due time *)

Inductive tev :=
| TRet (a : nat) (due : Z)      (* the call returned; due is ghost *)
| TCancelRet (a : nat)
| TSpawn (tid : nat)
| TStart (a : nat) (due : Z)
| TEnd (a : nat)
| TExit.

Record tshared := TSh { tclock : Z; tflags : list nat }.   (* tflags: labels whose Timer.finished is set by cancel() *)

Record tconfig := TConfig { t_sh : tshared; t_ths : list tthread; t_log : list (nat * Z * tev) }.

Inductive tmove := TMStep (tid : nat) | TMTick (d : N).   (* N: a step of the clock may be days in microseconds *)

Fixpoint tmem (a : nat) (l : list nat) : bool :=
  match l with [] => false | b :: t => Nat.eqb a b || tmem a t end.

Fixpoint tupd {A} (k : nat) (x : A) (l : list A) : list A :=
  match l, k with
  | [], _ => []
  | _ :: t, O => x :: t
  | y :: t, S k' => y :: tupd k' x t
  end.

(* result of a step: shared, new own state, events, optionally a started timer thread *)
Definition caller_step (ntid : nat) (s : tshared) (pending : option (Z * nat)) (todo : list top)
  : option (tshared * tthread * list tev * option tthread) :=
  match pending with
  | Some (t, a) =>
      (* `duetime - self.now`, then schedule_relative: Timer(max(0, seconds)) *)
      Some (s, Caller None todo, [TSpawn ntid; TRet a t], Some (Timer a t (PNew (Z.max 0 (t - tclock s)))))
  | None =>
      match todo with
      | [] => None
      | TNow a :: r =>
          Some (s, Caller None r, [TSpawn ntid; TRet a (tclock s)], Some (Timer a (tclock s) (PNew 0)))
      | TRel d a :: r =>
          Some (s, Caller None r, [TSpawn ntid; TRet a (tclock s + Z.max 0 d)],
                Some (Timer a (tclock s + Z.max 0 d) (PNew (Z.max 0 d))))
      | TAbs t a :: r => Some (s, Caller (Some (t, a)) r, [], None)
      | TCancel a :: r => Some (TSh (tclock s) (a :: tflags s), Caller None r, [TCancelRet a], None)
      end
  end.

Definition timer_step (s : tshared) (a : nat) (ph : tph) : option (tph * list tev) :=
  match ph with
  | PNew iv =>                                   (* Event.wait returns at once when the flag is set *)
      if tmem a (tflags s) then Some (PDone, [TExit]) else Some (PWaiting (tclock s + iv), [])
  | PWaiting dl =>
      if tmem a (tflags s) then Some (PDone, [TExit])
      else if dl <=? tclock s then Some (PFire, []) else None       (* blocked *)
  | PFire => Some (PRunning, [])                 (* event TStart added by [tstep] (it carries due) *)
  | PRunning => Some (PDone, [TEnd a; TExit])
  | PDone => None
  end.

Definition tstamp (tid : nat) (t : Z) (out : list tev) : list (nat * Z * tev) :=
  map (fun e => (tid, t, e)) out.

Definition ttstep (c : tconfig) (tid : nat) : tconfig :=
  let s := t_sh c in
  match nth_error (t_ths c) tid with
  | None => c
  | Some (Caller pending todo) =>
      match caller_step (length (t_ths c)) s pending todo with
      | None => c
      | Some (s', me, out, sp) =>
          TConfig s' (tupd tid me (t_ths c) ++ match sp with Some th => [th] | None => [] end)
                  (t_log c ++ tstamp tid (tclock s) out)
      end
  | Some (Timer a due ph) =>
      match timer_step s a ph with
      | None => c
      | Some (ph', out) =>
          let out' := match ph with PFire => [TStart a due] | _ => out end in
          TConfig s (tupd tid (Timer a due ph') (t_ths c)) (t_log c ++ tstamp tid (tclock s) out')
      end
  end.

Definition ttick (c : tconfig) (d : N) : tconfig :=
  TConfig (TSh (tclock (t_sh c) + Z.of_N d) (tflags (t_sh c))) (t_ths c) (t_log c).

Definition tmstep (c : tconfig) (m : tmove) : tconfig :=
  match m with TMStep tid => ttstep c tid | TMTick d => ttick c d end.

Definition trun (c : tconfig) (sched : list tmove) : tconfig := fold_left tmstep sched c.

Definition tinit (t0 : Z) (progs : list (list top)) : tconfig :=
  TConfig (TSh t0 []) (map (fun p => Caller None p) progs) [].

(* ---- what the harness compares ------------------------------------------------------ *)
(* (kind, label): 0 ret, 2 cancelret, 6 start, 7 end, 8 spawn (label = tid), 9 exit *)
Definition tobs_of (e : tev) : nat * nat :=
  match e with
  | TRet a _ => (0, a) | TCancelRet a => (2, a) | TStart a _ => (6, a) | TEnd a => (7, a)
  | TSpawn t => (8, t) | TExit => (9, 0)
  end%nat.

Definition tobservable (l : list (nat * Z * tev)) : list (nat * Z * (nat * nat)) :=
  map (fun x => (fst (fst x), snd (fst x), tobs_of (snd x))) l.

Definition tstatus (t : tthread) : nat :=
  match t with
  | Caller None [] => 1
  | Caller _ _ => 0
  | Timer _ _ PDone => 1
  | Timer _ _ (PWaiting _) => 2
  | Timer _ _ _ => 0
  end%nat.

Definition toutcome (c : tconfig) : list (nat * Z * (nat * nat)) * list nat :=
  (tobservable (t_log c), map tstatus (t_ths c)).

Definition tobs_eqb (x y : nat * Z * (nat * nat)) : bool :=
  let '(a, t, (k, l)) := x in let '(b, t', (k', l')) := y in
  Nat.eqb a b && Z.eqb t t' && Nat.eqb k k' && Nat.eqb l l'.

Definition toutcome_eqb (x y : list (nat * Z * (nat * nat)) * list nat) : bool :=
  list_eqb tobs_eqb (fst x) (fst y) && list_eqb Nat.eqb (snd x) (snd y).

(* Immediate: kinds 6 start, 7 end, 0 ret, 1 raise(WouldBlock); with the clock of the start *)
Definition iobs_of (e : iev) : nat * nat * Z :=
  match e with
  | IStart a t => (6%nat, a, t) | IEnd a => (7%nat, a, 0) | IRet a => (0%nat, a, 0) | IWouldBlock a => (1%nat, a, 0)
  end.
Definition iobs_eqb (x y : nat * nat * Z) : bool :=
  let '(k, a, t) := x in let '(k', a', t') := y in Nat.eqb k k' && Nat.eqb a a' && Z.eqb t t'.
