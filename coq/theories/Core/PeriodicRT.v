(* The arithmetic of PeriodicScheduler.schedule_periodic's closure on a REAL-TIME scheduler
   (EventLoopScheduler, TimeoutScheduler; reactivex/scheduler/periodicscheduler.py, function `periodic`):

       now  = scheduler.now                                   (reading n1, right before the action is called)
       state = action(state)
       time = seconds - (scheduler.now - now).total_seconds() (reading n2)
       disp.disposable = scheduler.schedule_relative(time, periodic, state)
                                                              (the scheduler reads its clock again: n3, and
                                                               clamps a negative delay to 0 -- EventLoopScheduler:
                                                               max(DELTA_ZERO, .), TimeoutScheduler: seconds <= 0
                                                               -> Timer(0))

   so the item of the next tick is due at  n3 + max(0, p - (n2 - n1)).  That an item never starts before
   its due time is C31's / C34's theorem; here: what follows for the ticks from that and from the clock
   being monotone -- for ALL sequences of readings (any latency, any preemption, any duration of the
   action).  No proof here is about the code directly; the direct oracle of harness/eldrv.py
   (periodic_oracle) demands exactly the bounds proved below on every explored interleaving. *)
From RxVerif Require Import Base.Prelude.

Local Open Scope Z_scope.

Record rtick := RTick { r_now1 : Z; r_now2 : Z; r_now3 : Z }.

Definition rt_next_due (p : Z) (t : rtick) : Z := r_now3 t + Z.max 0 (p - (r_now2 t - r_now1 t)).

(* the clock never goes back *)
Definition rt_mono (t : rtick) : Prop := r_now1 t <= r_now2 t /\ r_now2 t <= r_now3 t.

(* a run of ticks: each starts (reading n1) no earlier than the due time of its item *)
Fixpoint rt_chain (p due : Z) (l : list rtick) : Prop :=
  match l with
  | [] => True
  | t :: r => due <= r_now1 t /\ rt_mono t /\ rt_chain p (rt_next_due p t) r
  end.

Lemma rt_next_due_ge_period : forall p t, rt_mono t -> r_now1 t + p <= rt_next_due p t.
Proof. intros p t [A B]. unfold rt_next_due. lia. Qed.

(* no latency between the two readings after the action and no overrun: the compensation is exact *)
Lemma rt_next_due_exact : forall p t,
  rt_mono t -> r_now3 t = r_now2 t -> r_now2 t - r_now1 t <= p -> rt_next_due p t = r_now1 t + p.
Proof. intros p t [A B] E O. unfold rt_next_due. lia. Qed.

(* an overrunning action: the next tick is due at once, nothing is caught up *)
Lemma rt_next_due_overrun : forall p t, p <= r_now2 t - r_now1 t -> rt_next_due p t = r_now3 t.
Proof. intros p t O. unfold rt_next_due. lia. Qed.

(* consecutive ticks are never less than a period apart *)
Theorem rt_spacing : forall p l due k a b,
  rt_chain p due l -> nth_error l k = Some a -> nth_error l (S k) = Some b -> r_now1 a + p <= r_now1 b.
Proof.
  intros p. induction l as [|t r IH]; intros due k a b C Na Nb.
  - destruct k; discriminate Na.
  - destruct C as (D & M & C). destruct k as [|k].
    + inversion Na; subst a. cbn in Nb. destruct r as [|u r']; [discriminate Nb|]. inversion Nb; subst u.
      destruct C as (D' & _). pose proof (rt_next_due_ge_period p t M). lia.
    + cbn in Na, Nb. exact (IH _ k a b C Na Nb).
Qed.

(* tick k is never earlier than k periods after the due time of the first *)
Theorem rt_kth_lower_bound : forall p, 0 <= p -> forall l due k a,
  rt_chain p due l -> nth_error l k = Some a -> due + Z.of_nat k * p <= r_now1 a.
Proof.
  intros p Hp. induction l as [|t r IH]; intros due k a C N.
  - destruct k; discriminate N.
  - destruct C as (D & M & C). destruct k as [|k].
    + inversion N; subst a. lia.
    + cbn in N. specialize (IH _ k a C N). pose proof (rt_next_due_ge_period p t M). lia.
Qed.
