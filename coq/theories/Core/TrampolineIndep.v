(* C30: independence of the per-thread trampolines over WHOLE runs.

   Core/TrampolineFacts.independent is a one-step statement.  Here:
   - [others_stutter]: any stretch of a schedule in which thread o is not scheduled (other threads
     run, time passes) leaves thread o itself, every trampoline that belongs to o and everything
     the log says about those trampolines unchanged -- other threads reach o only through the
     shared clock, the set of disposed items and the item counter;
   - the proposal "what the log says about o's trampolines is what it says in the run where every
     step of another thread is replaced by the passage of the time it took" is FALSE of the model
     in general ([proj], two refutations: another thread disposes an item of o; a shared
     TrampolineScheduler whose runner is o executes another thread's action, which schedules on
     o's current-thread scheduler). *)
From RxVerif Require Import Base.Prelude Core.Trampoline Core.TrampolineFacts.
Local Open Scope Z_scope.

Definition key_is (k : key) (e : event) : bool :=
  match ev_key e with Some k' => key_eqb k' k | None => false end.
(* what the log says about trampoline k *)
Definition klog (k : key) (l : list event) : list event := filter (key_is k) l.

Lemma klog_app k a b : klog k (a ++ b) = klog k a ++ klog k b.
Proof. apply filter_app. Qed.

Lemma klog_none k evs : Forall (fun e => ev_key e <> Some k) evs -> klog k evs = [].
Proof.
  induction 1 as [|e t He _ IH]; [reflexivity|]. cbn [klog filter]. unfold key_is at 1.
  destruct (ev_key e) as [k'|] eqn:E; [|exact IH].
  destruct (key_eqb k' k) eqn:Ek; [|exact IH]. apply key_eqb_eq in Ek. subst k'. exfalso. apply He. reflexivity.
Qed.

Definition no_run (o : nat) (b : list sstep) : Prop := forall th, In (Run th) b -> th <> o.

(* a stretch of the schedule without steps of thread o *)
Theorem others_stutter : forall c c0 hs a b o,
  no_run o b ->
  let cf := crun c (start_config c0 hs) a in
  let cf' := crun c cf b in
  nth_error (snd cf') o = nth_error (snd cf) o /\
  forall k, owner k = Some o ->
    tramps (fst cf') k = tramps (fst cf) k /\ klog k (log (fst cf')) = klog k (log (fst cf)).
Proof.
  intros c c0 hs a b o. revert a. induction b as [|s b IH]; intros a Hb cf cf'; [split; [reflexivity | intros; split; reflexivity]|].
  assert (Hb' : no_run o b) by (intros th Hin; apply Hb; right; exact Hin).
  specialize (IH (a ++ [s]) Hb'). cbv zeta in IH. unfold crun in IH. rewrite fold_left_app in IH. cbn [fold_left] in IH.
  fold (crun c (start_config c0 hs) a) in IH. fold cf in IH.
  change (fold_left (cstep c) b (cstep c cf s)) with (crun c (cstep c cf s) b) in IH.
  assert (Ecf' : cf' = crun c (cstep c cf s) b) by reflexivity. rewrite Ecf'. clear Ecf' cf'.
  destruct IH as [IH1 IH2].
  assert (One : nth_error (snd (cstep c cf s)) o = nth_error (snd cf) o /\
                forall k, owner k = Some o ->
                  tramps (fst (cstep c cf s)) k = tramps (fst cf) k /\
                  klog k (log (fst (cstep c cf s))) = klog k (log (fst cf))).
  { destruct s as [th|d].
    - assert (Hn : o <> th) by (intro E; apply (Hb th); [left; reflexivity | congruence]).
      split.
      + destruct cf as [w ts]. unfold cstep. destruct (nth_error ts th) as [t|] eqn:N; [|reflexivity].
        destruct (mstep c th w t) as [[w' t']|]; [|reflexivity]. cbn [snd].
        apply nth_error_set_nth_neq. congruence.
      + intros k Ho. destruct (independent c c0 hs a th k o Ho Hn) as [T (evs & El & Hev)]. fold cf in T, El.
        split; [exact T|]. rewrite El, klog_app, (klog_none k evs Hev). reflexivity.
    - destruct cf as [w ts]. cbn [cstep fst snd set_clock tramps log]. split; [reflexivity | intros; split; reflexivity]. }
  destruct One as [O1 O2]. split; [rewrite IH1; exact O1|].
  intros k Ho. destruct (IH2 k Ho) as [A B]. destruct (O2 k Ho) as [A' B']. split; congruence.
Qed.

(* ---- the run in which the other threads are replaced by the passage of time ---------------- *)
Fixpoint proj (c : cfg) (o : nat) (cf : config) (sch : list sstep) : list sstep :=
  match sch with
  | [] => []
  | s :: r =>
      match s with
      | Run th => if Nat.eqb th o then Run th else Tick (clock (fst (cstep c cf s)) - clock (fst cf))
      | Tick d => Tick d
      end :: proj c o (cstep c cf s) r
  end.

(* (1) thread 1 disposes the item thread 0 scheduled on its current-thread scheduler while thread 0
       waits for it to become due: skipped in the real run, started in the projected one *)
Definition hs_cancel : list (list cmd) := [[CSched CTS (Rel 10) 5 []]; [CCancel 0]].
Definition sch_cancel : list sstep := [Run 0; Run 0; Run 0; Run 0; Run 0; Run 1; Run 0; Run 0; Run 0; Run 0; Run 0]%nat.

Lemma proj_refuted_cancel :
  let cf0 := start_config 0 hs_cancel in
  proj (Cfg false) 0 cf0 sch_cancel
    = [Run 0; Run 0; Run 0; Run 0; Run 0; Tick 0; Run 0; Run 0; Run 0; Run 0; Run 0]%nat /\
  klog (KLocal 0) (log (fst (crun (Cfg false) cf0 sch_cancel)))
    = [EIdle (KLocal 0) 0; ESkip (KLocal 0) 0; EEnq (KLocal 0) 0 0 true; ECreate (KLocal 0) 0 0 10 0] /\
  klog (KLocal 0) (log (fst (crun (Cfg false) cf0 (proj (Cfg false) 0 cf0 sch_cancel))))
    = [EEnd (KLocal 0) 0 5 false; EStart (KLocal 0) 0 5 0 10 10 0 0; EEnq (KLocal 0) 0 0 true; ECreate (KLocal 0) 0 0 10 0].
Proof. vm_compute. repeat split; reflexivity. Qed.

(* (2) thread 0 is the runner of a shared TrampolineScheduler and waits; thread 1 schedules on it an
       action that schedules on the CURRENT-THREAD scheduler; thread 0 runs it, so the nested action
       lands on thread 0's own trampoline -- which in the projected run is never used at all *)
Definition hs_shared : list (list cmd) :=
  [[CSched (TS 0) (Rel 10) 1 []]; [CSched (TS 0) Now 7 [CSched CTS Now 8 []]]].
Definition sch_shared : list sstep :=
  [Run 0; Run 0; Run 0; Run 0; Run 0; Run 1; Run 1; Run 0; Run 0; Run 0; Run 0; Run 0; Run 0; Run 0; Run 0; Run 0;
   Run 0; Run 0; Run 0; Run 0]%nat.

Lemma proj_refuted_shared :
  let cf0 := start_config 0 hs_shared in
  klog (KLocal 0) (log (fst (crun (Cfg false) cf0 sch_shared)))
    = [EIdle (KLocal 0) 0; EEnd (KLocal 0) 2 8 false; EStart (KLocal 0) 2 8 0 0 0 0 1; EEnq (KLocal 0) 2 0 true;
       ECreate (KLocal 0) 2 0 0 0] /\
  klog (KLocal 0) (log (fst (crun (Cfg false) cf0 (proj (Cfg false) 0 cf0 sch_shared)))) = [].
Proof. vm_compute. split; reflexivity. Qed.

(* (3) even without cancellation and shared schedulers the two logs agree only UP TO THE ITEM IDS:
       the id counter is shared, so an item of thread 0 created after one of thread 1 is item 1
       in the real run and item 0 in the projected one *)
Definition hs_ids : list (list cmd) := [[CSched CTS Now 1 []]; [CSched CTS Now 2 []]].
Definition sch_ids : list sstep := [Run 1; Run 0; Run 0]%nat.

Lemma proj_refuted_ids :
  let cf0 := start_config 0 hs_ids in
  klog (KLocal 0) (log (fst (crun (Cfg false) cf0 sch_ids)))
    = [EEnq (KLocal 0) 1 0 true; ECreate (KLocal 0) 1 0 0 0] /\
  klog (KLocal 0) (log (fst (crun (Cfg false) cf0 (proj (Cfg false) 0 cf0 sch_ids))))
    = [EEnq (KLocal 0) 0 0 true; ECreate (KLocal 0) 0 0 0 0].
Proof. vm_compute. split; reflexivity. Qed.

(* the proposal, stated in general, is refuted *)
Theorem independence_by_projection_refuted :
  ~ (forall c c0 hs sch k o, owner k = Some o ->
       klog k (log (fst (crun c (start_config c0 hs) sch)))
       = klog k (log (fst (crun c (start_config c0 hs) (proj c o (start_config c0 hs) sch))))).
Proof.
  intro H. specialize (H (Cfg false) 0 hs_shared sch_shared (KLocal 0) 0%nat eq_refl).
  destruct proj_refuted_shared as [A B]. cbv zeta in A, B. rewrite A, B in H. discriminate H.
Qed.
