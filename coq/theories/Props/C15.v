(* C15 -- time-shifting operators move notifications by the requested time.

   Machines: Ops/Timed.v (written from reactivex/operators/_delay.py,
   _delaysubscription.py, _delaywithmapper.py, _timestamp.py, _timeinterval.py),
   tied to the implementation by the K2 correspondence on delivered input
   sequences (harness/props/C15.py).  The theorems below are about the CLOSED
   WORLD of Ops/TimedSim.v: [simulate m t0 ext] subscribes at clock t0, delivers
   the external events [ext] at their instants and fires every timer the machine
   requests exactly at request time + delay (at equal instants: source
   notifications first, then timers in scheduling order -- the policy of the
   proxy scheduler the implementation is driven with).  [timed_emits] is the
   list of (clock reading, notification) delivered downstream.  Time is integer
   milliseconds; [tevents tl tm] is a conforming timed source: elements [tl] =
   [(t_i, x_i)], then the terminal [tm]. *)
From RxVerif Require Import Base.Prelude Ops.Machine Ops.Multi Ops.MultiFacts Ops.Timed Ops.TimedSim
  Ops.TimedFacts Ops.TimedWindowFacts Ops.TimedDelayFacts Ops.TimedSubFacts Ops.TimedMapperFacts.

(* the closed world is a run of the machine: the simulator only chooses the next
   input, the runner of Ops/Multi.v (the one compared with the implementation) handles it *)
Theorem C15_simulation_is_a_run : forall A B (m : machine A B) fuel t0 ext,
  fst (run m (sim_inputs (snd (simulate_fuel m fuel t0 ext))))
  = map (fun o => (0%nat, o)) (fst (simulate_fuel m fuel t0 ext)) ++ tag_from 1 (snd (simulate_fuel m fuel t0 ext)).
Proof. exact @sim_is_run. Qed.
Print Assumptions C15_simulation_is_a_run.

(* delay(d), d >= 0: every element and the completion exactly d later, in order
   (bursts at one instant keep their order); an error immediately, the elements
   still pending (due at or after the error instant) dropped *)
Theorem C15_delay_spec : forall A d t0 (tl : list (Z * A)) tm,
  0 <= d -> tsorted (tevents tl tm) -> Forall (fun e => t0 <= fst e) (tevents tl tm) ->
  timed_emits t0 (simulate (x_delay d) t0 (ext_of (tevents tl tm)))
  = match tm with
    | TTDone T => shift d tl ++ [(T + d, Done)]
    | TTErr T c => filter (fun n => fst n <? T) (shift d tl) ++ [(T, Err c)]
    | TTNever => shift d tl
    end.
Proof. exact @delay_spec. Qed.
Print Assumptions C15_delay_spec.

(* the same for ANY time-sorted notification sequence of the source (also
   non-conforming ones): the walk [dspec] with the queue of pending notifications *)
Theorem C15_delay_walk : forall A d t0 (es : list (Z * ev A)),
  0 <= d -> tsorted es -> Forall (fun e => t0 <= fst e) es ->
  timed_emits t0 (simulate (x_delay d) t0 (ext_of es)) = dspec d [] es.
Proof. exact @delay_sim_spec. Qed.
Print Assumptions C15_delay_walk.

Theorem C15_delay_zero : forall A t0 (tl : list (Z * A)) T,
  tsorted (tevents tl (TTDone T)) -> Forall (fun e => t0 <= fst e) (tevents tl (TTDone T)) ->
  timed_emits t0 (simulate (x_delay 0) t0 (ext_of (tevents tl (TTDone T)))) = tevents tl (TTDone T).
Proof. exact @delay_zero. Qed.
Print Assumptions C15_delay_zero.

(* an absolute (datetime) due time is the delay [due - t0] fixed at subscription *)
Theorem C15_delay_absolute : forall A ts t0 (tl : list (Z * A)) tm,
  0 <= tdelay ts t0 -> tsorted (tevents tl tm) -> Forall (fun e => t0 <= fst e) (tevents tl tm) ->
  timed_emits t0 (simulate (x_delay_at ts t0) t0 (ext_of (tevents tl tm))) = delay_out (tdelay ts t0) tl tm.
Proof. exact @delay_at_spec. Qed.
Print Assumptions C15_delay_absolute.

(* delay_subscription: the first thing observed is the subscription of the
   source, exactly at the due instant t0 + max(0, delay); every notification the
   (hot) source sent up to and at that instant found nobody listening *)
Theorem C15_delay_subscription_subscribes_at : forall A ts t0 (es : list (Z * ev A)),
  exists rest,
    snd (simulate (x_delay_subscription ts t0) t0 (ext_of es))
    = map (fun te => (fst te, ISrc 0%nat (snd te), @nil (obs A))) (take_upto (due_at ts t0) es)
      ++ (due_at ts t0, ITick 0%nat, [@OSub A 0%nat]) :: rest.
Proof. exact @delay_subscription_subscribes_at. Qed.
Print Assumptions C15_delay_subscription_subscribes_at.

(* ... and afterwards the source is mirrored: the elements after the subscription
   instant at their own instants, then the source's terminal (elements arriving
   at the very instant of an error are dropped with it) *)
Theorem C15_delay_subscription_spec : forall A ts t0 (tl : list (Z * A)) tm,
  tsorted (tevents tl tm) ->
  timed_emits t0 (simulate (x_delay_subscription ts t0) t0 (ext_of (tevents tl tm)))
  = ds_outq (own (after (due_at ts t0) tl)) (term_after (due_at ts t0) tm).
Proof. exact @delay_subscription_spec. Qed.
Print Assumptions C15_delay_subscription_spec.

(* delay_with_mapper, step level (the instants at which the delay observables
   notify are inputs): an element is delivered at the first on_next OR
   on_completed of its delay observable and only then; errors end the sequence.
   PARTIAL: no closed form over absolute time (the delay observables are
   arbitrary); whole-run behaviour is covered by the K2 correspondence. *)
Theorem C15_delay_with_mapper_step_partial : forall A has_sub (mapper : A -> nat -> res unit) (s : dwm_st) now,
  let m := x_delay_with_mapper has_sub mapper in
  (forall k e x, dwm_special has_sub k = false -> lookup k (dw_delays s) = Some x -> not_err e ->
     emitted_cmds (snd (fst (x_step m s now (ISrc k e)))) = [x]
     /\ dw_delays (fst (fst (x_step m s now (ISrc k e)))) = remove_key k (dw_delays s)
     /\ snd (x_step m s now (ISrc k e))
        = if dw_at_end s && Nat.eqb (length (remove_key k (dw_delays s))) 0 then Complete else Cont)
  /\ (forall i x, In x (emitted_cmds (snd (fst (x_step m s now i)))) ->
        exists k e, i = ISrc k e /\ dwm_special has_sub k = false /\ not_err e /\ lookup k (dw_delays s) = Some x)
  /\ (forall x u, mapper x (dw_cnt s) = Ok u ->
        x_step m s now (ISrc 0%nat (Next x))
        = (DwmSt (S (dw_cnt s)) (dw_at_end s)
                 (dw_delays s ++ [(((if has_sub then 2 else 1) + dw_cnt s)%nat, x)]),
           [CSub ((if has_sub then 2 else 1) + dw_cnt s)%nat], Cont))
  /\ (forall k c, snd (x_step m s now (ISrc k (Err c))) = Fail c
                  /\ emitted_cmds (snd (fst (x_step m s now (ISrc k (Err c))))) = [])
  /\ (forall x c, mapper x (dw_cnt s) = Raise c -> snd (x_step m s now (ISrc 0%nat (Next x))) = Fail c).
Proof. exact @delay_with_mapper_step_partial. Qed.
Print Assumptions C15_delay_with_mapper_step_partial.

(* timestamp / time_interval attach the clock reading / the time since the
   previous element or the subscription; no hypothesis on the instants *)
Theorem C15_timestamp_spec : forall A t0 (tl : list (Z * A)) tm,
  timed_emits t0 (simulate x_timestamp t0 (ext_of (tevents tl tm)))
  = map (fun tx => (fst tx, Next (snd tx, fst tx))) tl ++ term_ev tm.
Proof. exact @timestamp_spec. Qed.
Print Assumptions C15_timestamp_spec.

Theorem C15_time_interval_spec : forall A t0 (tl : list (Z * A)) tm,
  timed_emits t0 (simulate (x_time_interval t0) t0 (ext_of (tevents tl tm)))
  = intervals t0 tl ++ term_ev tm.
Proof. exact @time_interval_spec. Qed.
Print Assumptions C15_time_interval_spec.

(* ---- non-vacuity: the hypotheses are satisfiable, the closed forms compute --- *)
Example C15_ex_timeline_sorted :
  tsorted (tevents [(0, 1); (0, 2); (5, 0)] (TTDone 20))
  /\ Forall (fun e : Z * ev Z => 0 <= fst e) (tevents [(0, 1); (0, 2); (5, 0)] (TTDone 20)).
Proof. cbn. repeat split; repeat constructor; cbn; lia. Qed.

Example C15_ex_delay :
  timed_emits 0 (simulate (x_delay 10) 0 (ext_of (tevents [(0, 1); (0, 2); (5, 0)] (TTDone 20))))
  = [(10, Next 1); (10, Next 2); (15, Next 0); (30, Done)].
Proof. vm_compute. reflexivity. Qed.

Example C15_ex_delay_error_drops_pending :
  timed_emits 0 (simulate (x_delay 10) 0 (ext_of (tevents [(0, 1); (5, 2)] (TTErr 15 7))))
  = [(10, Next 1); (15, Err 7)].
Proof. vm_compute. reflexivity. Qed.

Example C15_ex_delay_subscription :
  timed_emits 0 (simulate (x_delay_subscription (Rel 10) 0) 0 (ext_of (tevents [(5, 1); (10, 2); (15, 3); (15, 0)] (TTDone 15))))
  = [(15, Next 3); (15, Next 0); (15, Done)].
Proof. vm_compute. reflexivity. Qed.

Example C15_ex_time_interval :
  timed_emits 5 (simulate (x_time_interval 5) 5 (ext_of (tevents [(5, 1); (20, 0)] (TTDone 20))))
  = [(5, Next (1, 0)); (20, Next (0, 15)); (20, Done)].
Proof. vm_compute. reflexivity. Qed.
