From RxVerif Require Import Base.Prelude Ops.Machine Ops.Multi Ops.Timed.
