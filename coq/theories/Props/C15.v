(* C15 -- time-shifting operators move notifications by the requested time.

   Machines: Ops/Timed.v (written from reactivex/operators/_delay.py,
   _delaysubscription.py, _delaywithmapper.py, _timestamp.py, _timeinterval.py),
   tied to the implementation by the K2 correspondence on delivered input
   sequences (harness/props/C15.py).  The theorems below are about the CLOSED
   WORLD of Ops/TimedSim.v: [simulate m t0 ext] subscribes at clock t0, delivers
   the external events [ext] at their instants and fires every timer the machine
   requests exactly at request time + delay (at equal instants: source
   notifications first, then timers in scheduling order -- the policy of the
   proxy scheduler the implementation is driven with).  [timed_emits] is the
   list of (clock reading, notification) delivered downstream.  Time is integer
   milliseconds; [tevents tl tm] is a conforming timed source: elements [tl] =
   [(t_i, x_i)], then the terminal [tm]. *)
From RxVerif Require Import Base.Prelude Ops.Machine Ops.Multi Ops.MultiFacts Ops.Timed Ops.TimedSim
  Ops.TimedFacts Ops.TimedWindowFacts Ops.TimedDelayFacts Ops.TimedSubFacts Ops.TimedMapperFacts.

(* the closed world is a run of the machine: the simulator only chooses the next
   input, the runner of Ops/Multi.v (the one compared with the implementation) handles it *)
Theorem C15_simulation_is_a_run : forall A B (m : machine A B) fuel t0 ext,
  fst (run m (sim_inputs (snd (simulate_fuel m fuel t0 ext))))
  = map (fun o => (0%nat, o)) (fst (simulate_fuel m fuel t0 ext)) ++ tag_from 1 (snd (simulate_fuel m fuel t0 ext)).
Proof. exact @sim_is_run. Qed.
Print Assumptions C15_simulation_is_a_run.

(* delay(d), d >= 0: every element and the completion exactly d later, in order
   (bursts at one instant keep their order); an error immediately, the elements
   still pending (due at or after the error instant) dropped *)
Theorem C15_delay_spec : forall A d t0 (tl : list (Z * A)) tm,
  0 <= d -> tsorted (tevents tl tm) -> Forall (fun e => t0 <= fst e) (tevents tl tm) ->
  timed_emits t0 (simulate (x_delay d) t0 (ext_of (tevents tl tm)))
  = match tm with
    | TTDone T => shift d tl ++ [(T + d, Done)]
    | TTErr T c => filter (fun n => fst n <? T) (shift d tl) ++ [(T, Err c)]
    | TTNever => shift d tl
    end.
Proof. exact @delay_spec. Qed.
Print Assumptions C15_delay_spec.

(* the same for ANY time-sorted notification sequence of the source (also
   non-conforming ones): the walk [dspec] with the queue of pending notifications *)
Theorem C15_delay_walk : forall A d t0 (es : list (Z * ev A)),
  0 <= d -> tsorted es -> Forall (fun e => t0 <= fst e) es ->
  timed_emits t0 (simulate (x_delay d) t0 (ext_of es)) = dspec d [] es.
Proof. exact @delay_sim_spec. Qed.
Print Assumptions C15_delay_walk.

Theorem C15_delay_zero : forall A t0 (tl : list (Z * A)) T,
  tsorted (tevents tl (TTDone T)) -> Forall (fun e => t0 <= fst e) (tevents tl (TTDone T)) ->
  timed_emits t0 (simulate (x_delay 0) t0 (ext_of (tevents tl (TTDone T)))) = tevents tl (TTDone T).
Proof. exact @delay_zero. Qed.
Print Assumptions C15_delay_zero.

(* an absolute (datetime) due time is the delay [due - t0] fixed at subscription *)
Theorem C15_delay_absolute : forall A ts t0 (tl : list (Z * A)) tm,
  0 <= tdelay ts t0 -> tsorted (tevents tl tm) -> Forall (fun e => t0 <= fst e) (tevents tl tm) ->
  timed_emits t0 (simulate (x_delay_at ts t0) t0 (ext_of (tevents tl tm))) = delay_out (tdelay ts t0) tl tm.
Proof. exact @delay_at_spec. Qed.
Print Assumptions C15_delay_absolute.

(* delay_subscription: the first thing observed is the subscription of the
   source, exactly at the due instant t0 + max(0, delay); every notification the
   (hot) source sent up to and at that instant found nobody listening *)
Theorem C15_delay_subscription_subscribes_at : forall A ts t0 (es : list (Z * ev A)),
  exists rest,
    snd (simulate (x_delay_subscription ts t0) t0 (ext_of es))
    = map (fun te => (fst te, ISrc 0%nat (snd te), @nil (obs A))) (take_upto (due_at ts t0) es)
      ++ (due_at ts t0, ITick 0%nat, [@OSub A 0%nat]) :: rest.
Proof. exact @delay_subscription_subscribes_at. Qed.
Print Assumptions C15_delay_subscription_subscribes_at.

(* ... and afterwards the source is mirrored: the elements after the subscription
   instant at their own instants, then the source's terminal (elements arriving
   at the very instant of an error are dropped with it) *)
Theorem C15_delay_subscription_spec : forall A ts t0 (tl : list (Z * A)) tm,
  tsorted (tevents tl tm) ->
  timed_emits t0 (simulate (x_delay_subscription ts t0) t0 (ext_of (tevents tl tm)))
  = ds_outq (own (after (due_at ts t0) tl)) (term_after (due_at ts t0) tm).
Proof. exact @delay_subscription_spec. Qed.
Print Assumptions C15_delay_subscription_spec.

(* delay_with_mapper, step level (the instants at which the delay observables
   notify are inputs): an element is delivered at the first on_next OR
   on_completed of its delay observable and only then; errors end the sequence.
   PARTIAL: no closed form over absolute time (the delay observables are
   arbitrary); whole-run behaviour is covered by the K2 correspondence. *)
Theorem C15_delay_with_mapper_step_partial : forall A has_sub (mapper : A -> nat -> res unit) (s : dwm_st) now,
  let m := x_delay_with_mapper has_sub mapper in
  (forall k e x, dwm_special has_sub k = false -> lookup k (dw_delays s) = Some x -> not_err e ->
     emitted_cmds (snd (fst (x_step m s now (ISrc k e)))) = [x]
     /\ dw_delays (fst (fst (x_step m s now (ISrc k e)))) = remove_key k (dw_delays s)
     /\ snd (x_step m s now (ISrc k e))
        = if dw_at_end s && Nat.eqb (length (remove_key k (dw_delays s))) 0 then Complete else Cont)
  /\ (forall i x, In x (emitted_cmds (snd (fst (x_step m s now i)))) ->
        exists k e, i = ISrc k e /\ dwm_special has_sub k = false /\ not_err e /\ lookup k (dw_delays s) = Some x)
  /\ (forall x u, mapper x (dw_cnt s) = Ok u ->
        x_step m s now (ISrc 0%nat (Next x))
        = (DwmSt (S (dw_cnt s)) (dw_at_end s)
                 (dw_delays s ++ [(((if has_sub then 2 else 1) + dw_cnt s)%nat, x)]),
           [CSub ((if has_sub then 2 else 1) + dw_cnt s)%nat], Cont))
  /\ (forall k c, snd (x_step m s now (ISrc k (Err c))) = Fail c
                  /\ emitted_cmds (snd (fst (x_step m s now (ISrc k (Err c))))) = [])
  /\ (forall x c, mapper x (dw_cnt s) = Raise c -> snd (x_step m s now (ISrc 0%nat (Next x))) = Fail c).
Proof. exact @delay_with_mapper_step_partial. Qed.
Print Assumptions C15_delay_with_mapper_step_partial.

(* timestamp / time_interval attach the clock reading / the time since the
   previous element or the subscription; no hypothesis on the instants *)
Theorem C15_timestamp_spec : forall A t0 (tl : list (Z * A)) tm,
  timed_emits t0 (simulate x_timestamp t0 (ext_of (tevents tl tm)))
  = map (fun tx => (fst tx, Next (snd tx, fst tx))) tl ++ term_ev tm.
Proof. exact @timestamp_spec. Qed.
Print Assumptions C15_timestamp_spec.

Theorem C15_time_interval_spec : forall A t0 (tl : list (Z * A)) tm,
  timed_emits t0 (simulate (x_time_interval t0) t0 (ext_of (tevents tl tm)))
  = intervals t0 tl ++ term_ev tm.
Proof. exact @time_interval_spec. Qed.
Print Assumptions C15_time_interval_spec.

(* ---- non-vacuity: the hypotheses are satisfiable, the closed forms compute --- *)
Example C15_ex_timeline_sorted :
  tsorted (tevents [(0, 1); (0, 2); (5, 0)] (TTDone 20))
  /\ Forall (fun e : Z * ev Z => 0 <= fst e) (tevents [(0, 1); (0, 2); (5, 0)] (TTDone 20)).
Proof. cbn. repeat split; repeat constructor; cbn; lia. Qed.

Example C15_ex_delay :
  timed_emits 0 (simulate (x_delay 10) 0 (ext_of (tevents [(0, 1); (0, 2); (5, 0)] (TTDone 20))))
  = [(10, Next 1); (10, Next 2); (15, Next 0); (30, Done)].
Proof. vm_compute. reflexivity. Qed.

Example C15_ex_delay_error_drops_pending :
  timed_emits 0 (simulate (x_delay 10) 0 (ext_of (tevents [(0, 1); (5, 2)] (TTErr 15 7))))
  = [(10, Next 1); (15, Err 7)].
Proof. vm_compute. reflexivity. Qed.

Example C15_ex_delay_subscription :
  timed_emits 0 (simulate (x_delay_subscription (Rel 10) 0) 0 (ext_of (tevents [(5, 1); (10, 2); (15, 3); (15, 0)] (TTDone 15))))
  = [(15, Next 3); (15, Next 0); (15, Done)].
Proof. vm_compute. reflexivity. Qed.

Example C15_ex_time_interval :
  timed_emits 5 (simulate (x_time_interval 5) 5 (ext_of (tevents [(5, 1); (20, 0)] (TTDone 20))))
  = [(5, Next (1, 0)); (20, Next (0, 15)); (20, Done)].
Proof. vm_compute. reflexivity. Qed.

(* ---- added after the theorem-quality audit ------------------------------------------------ *)
From RxVerif Require Import Ops.SimPortSteps Ops.TimedDelayNeg Ops.DelayMapperRun.

(* delay_with_mapper, WHOLE RUN, over all interleavings of the notifications of the source
   (port 0), of the optional subscription delay (port 1 when has_sub) and of the delay
   observables the mapper makes (port base + j for the j-th accepted element, base = 2 with a
   subscription delay, else 1): the timed emissions of the machine equal the walk [dwm_spec]
   (Ops/DelayMapperRun.v).  The walk: the source is heard once the subscription delay notified
   (on_next or on_completed); an accepted element waits in the pending set under the port of its
   delay observable; the FIRST notification of that port delivers it if it is an on_next or an
   on_completed (later notifications of the port find nothing); an error of any heard port and a
   raising mapper end the output with that error; completion is emitted when the source is done
   and the pending set is empty (at the source's completion, or at the delivery that empties it).
   Ports that are not subscribed (not yet made, already fired, the source after its terminal) are
   not heard. *)
Theorem C15_delay_with_mapper_walk : forall A has_sub (mapper : A -> nat -> res unit) t0 (ins : list (Z * nat * ev A)),
  timed_emits t0 (simulate (x_delay_with_mapper has_sub mapper) t0 (ext2_of ins))
  = dwm_spec has_sub mapper has_sub (negb has_sub) false 0 [] ins.
Proof. exact @delay_with_mapper_walk. Qed.
Print Assumptions C15_delay_with_mapper_walk.

(* property-level reading (no subscription delay), "only then": an element x emitted at t was
   the source's notification number j = count0 pre, and t is the instant of the FIRST
   notification of port j+1 after x arrived, an on_next or an on_completed *)
Theorem C15_delay_with_mapper_emitted_at_first_fire :
  forall A (mapper : A -> nat -> res unit) t0 (ins : list (Z * nat * ev A)) t x,
  In (t, Next x) (timed_emits t0 (simulate (x_delay_with_mapper false mapper) t0 (ext2_of ins))) ->
  exists pre tx mid e rest,
    ins = pre ++ (tx, 0%nat, Next x) :: mid ++ (t, S (count0 pre), e) :: rest
    /\ fires e /\ port_silent (S (count0 pre)) mid.
Proof. exact @delay_with_mapper_nosub_emitted_at_first_fire. Qed.
Print Assumptions C15_delay_with_mapper_emitted_at_first_fire.

(* ... and "then": if the mapper does not raise, nothing failed and the source had not completed
   before x arrived, and nothing fails while x is pending, x IS emitted at the first notification
   of its delay observable *)
Theorem C15_delay_with_mapper_emits_when_fired :
  forall A (mapper : A -> nat -> res unit) t0 (pre mid rest : list (Z * nat * ev A)) tx t x e,
  mapper_total mapper -> no_err_tl pre -> (forall t', ~ In (t', 0%nat, Done) pre) ->
  no_err_tl mid -> port_silent (S (count0 pre)) mid -> fires e ->
  In (t, Next x) (timed_emits t0 (simulate (x_delay_with_mapper false mapper) t0
        (ext2_of (pre ++ (tx, 0%nat, Next x) :: mid ++ (t, S (count0 pre), e) :: rest)))).
Proof. exact @delay_with_mapper_nosub_emits_when_fired. Qed.
Print Assumptions C15_delay_with_mapper_emits_when_fired.

(* delay(d), d <= 0 (a negative delay; a datetime due time not in the future): the scheduler
   clamps the negative delay of the drain action to zero, so in the closed world the WHOLE
   simulation (inputs delivered, everything the runner observes) is that of delay(0) -- for
   every event sequence of the source, no hypothesis on the instants *)
Theorem C15_delay_nonpositive_is_zero : forall A d t0 (es : list (Z * ev A)),
  d <= 0 -> simulate (x_delay d) t0 (ext_of es) = simulate (x_delay 0) t0 (ext_of es).
Proof. exact @delay_nonpositive_is_zero. Qed.
Print Assumptions C15_delay_nonpositive_is_zero.

(* closed form: every element and the completion at the instant they arrive (bursts in order);
   an error at once, the elements of its own instant dropped (they are still queued: at equal
   instants the closed world delivers the source's notifications before the drain action) *)
Theorem C15_delay_nonpositive_spec : forall A d t0 (tl : list (Z * A)) tm,
  d <= 0 -> tsorted (tevents tl tm) -> Forall (fun e => t0 <= fst e) (tevents tl tm) ->
  timed_emits t0 (simulate (x_delay d) t0 (ext_of (tevents tl tm))) = delay_out 0 tl tm.
Proof. exact @delay_nonpositive_spec. Qed.
Print Assumptions C15_delay_nonpositive_spec.

Theorem C15_delay_absolute_past : forall A ts t0 (tl : list (Z * A)) tm,
  tdelay ts t0 <= 0 -> tsorted (tevents tl tm) -> Forall (fun e => t0 <= fst e) (tevents tl tm) ->
  timed_emits t0 (simulate (x_delay_at ts t0) t0 (ext_of (tevents tl tm))) = delay_out 0 tl tm.
Proof. exact @delay_at_past_spec. Qed.
Print Assumptions C15_delay_absolute_past.

(* ---- non-vacuity of the added theorems ---- *)
Definition C15_ex_mapper (x : Z) (i : nat) : res unit := if x =? 99 then Raise 5 else Ok tt.

(* delay observables firing out of order, a second notification of a port, completion of the
   source while elements are pending, delivery by on_completed *)
Example C15_ex_delay_with_mapper :
  timed_emits 0 (simulate (x_delay_with_mapper false C15_ex_mapper) 0
    (ext2_of [(1, 0%nat, Next 10); (2, 0%nat, Next 20); (3, 2%nat, Next 0); (4, 2%nat, Next 0);
              (5, 0%nat, Done); (6, 1%nat, Done); (7, 1%nat, Next 0)]))
  = [(3, Next 20); (6, Next 10); (6, Done)].
Proof. vm_compute. reflexivity. Qed.

(* with a subscription delay: what the source sends before it fires is lost; a raising mapper *)
Example C15_ex_delay_with_mapper_sub :
  timed_emits 0 (simulate (x_delay_with_mapper true C15_ex_mapper) 0
    (ext2_of [(1, 0%nat, Next 10); (2, 1%nat, Next 0); (3, 0%nat, Next 7); (4, 2%nat, Done);
              (5, 0%nat, Next 99); (6, 0%nat, Done)]))
  = [(4, Next 7); (5, Err 5)].
Proof. vm_compute. reflexivity. Qed.

(* the hypotheses of C15_delay_with_mapper_emits_when_fired hold for a mapper that never raises
   on a timeline with a notification of a port that does not exist (port 5), an older element
   delivered and the source completing while x = 20 (the source's notification number 2) is pending *)
Example C15_ex_emits_when_fired_hyps :
  let pre := [(1, 0%nat, Next 10); (2, 5%nat, Next 0); (3, 0%nat, Next 30)] in
  let mid := [(5, 1%nat, Done); (6, 0%nat, Done)] in
  @mapper_total Z (fun _ _ => Ok tt) /\ @no_err_tl Z pre /\ (forall t', ~ In (t', 0%nat, @Done Z) pre)
  /\ @no_err_tl Z mid /\ port_silent (S (count0 pre)) mid /\ count0 pre = 2%nat
  /\ timed_emits 0 (simulate (x_delay_with_mapper false (fun (_ : Z) _ => Ok tt)) 0
       (ext2_of (pre ++ (4, 0%nat, Next 20) :: mid ++ [(7, 3%nat, Done)])))
     = [(5, Next 10); (7, Next 20)].
Proof.
  cbn zeta. split; [intros y i; exists tt; reflexivity|].
  split; [intros t k c H; cbn in H; intuition discriminate|].
  split; [intros t H; cbn in H; intuition discriminate|].
  split; [intros t k c H; cbn in H; intuition discriminate|].
  split; [intros t e H; cbn in H; intuition discriminate|].
  split; [reflexivity|vm_compute; reflexivity].
Qed.

Example C15_ex_delay_negative :
  timed_emits 0 (simulate (x_delay (-7)) 0 (ext_of (tevents [(0, 1); (0, 2); (5, 0)] (TTDone 20))))
  = [(0, Next 1); (0, Next 2); (5, Next 0); (20, Done)]
  /\ timed_emits 0 (simulate (x_delay (-7)) 0 (ext_of (tevents [(0, 1); (5, 2); (5, 3)] (TTErr 5 9))))
     = [(0, Next 1); (5, Err 9)].
Proof. vm_compute. split; reflexivity. Qed.
