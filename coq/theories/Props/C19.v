(* C19 -- grouping routes each element to exactly one live group.
   Machines: Ops/Groups.v (group_by_until / group_by as a machine of the window-aware runner
   Ops/MultiWin.v; partition = publish + ref_count + two filters as a model of its own). *)
From RxVerif Require Import Base.Prelude Ops.Machine Ops.MultiWin Ops.MultiWinFacts Ops.Groups Ops.GroupFacts
  Ops.WindowCountFacts Ops.GroupRunFacts Ops.GroupsSubject Ops.GroupsIndexed Ops.GroupsIndexedFacts Ops.PartitionRunFacts.

(* ---- group_by / group_by_until: EVERY state (= every input history), every callback -------- *)
(* the key has a live writer: the element goes to that group and nowhere else; no group is handed *)
Theorem C19_group_existing : forall A W B (key : A -> res Z) (elem : A -> res W) (dur : nat -> res bool) s now (x : A) k g (y : W),
  key x = Ok k -> gb_lookup k (gb_writers s) = Some g -> elem x = Ok y ->
  x_step (x_group_by_until (B:=B) key elem dur) s now (ISrc 0%nat (Next x)) = (s, [CWin g (Next y)], Cont).
Proof. exact @group_existing. Qed.
(* the key has no live writer (first time seen, or its group expired): a NEW group with a fresh id is
   handed with that key, its duration is subscribed, the element goes to the new group only *)
Theorem C19_group_new : forall A W B (key : A -> res Z) (elem : A -> res W) (dur : nat -> res bool) s now (x : A) k hot (y : W),
  key x = Ok k -> gb_lookup k (gb_writers s) = None -> dur (gb_calls s) = Ok hot -> elem x = Ok y ->
  x_step (x_group_by_until (B:=B) key elem dur) s now (ISrc 0%nat (Next x))
  = (GbSt (gb_writers s ++ [(k, gb_next s, if hot then S (gb_calls s) else 0%nat)]) (S (gb_next s)) (S (gb_calls s)),
     CHand (gb_next s) k :: (if hot then [CSub (S (gb_calls s))] else []) ++ [CWin (gb_next s) (Next y)], Cont).
Proof. exact @group_new. Qed.
Theorem C19_group_new_iff : forall A W B (key : A -> res Z) (elem : A -> res W) (dur : nat -> res bool) s now (x : A) k,
  key x = Ok k ->
  (ghands (snd (fst (x_step (x_group_by_until (W:=W) (B:=B) key elem dur) s now (ISrc 0%nat (Next x))))) <> []
   <-> gb_lookup k (gb_writers s) = None /\ exists hot, dur (gb_calls s) = Ok hot).
Proof. exact @group_new_iff. Qed.
(* every routed element goes to exactly ONE group: the group of its key *)
Theorem C19_group_route_one : forall A W B (key : A -> res Z) (elem : A -> res W) (dur : nat -> res bool) s now (x : A),
  snd (x_step (x_group_by_until (W:=W) (B:=B) key elem dur) s now (ISrc 0%nat (Next x))) = Cont ->
  exists g y, gwin_nexts (snd (fst (x_step (x_group_by_until (W:=W) (B:=B) key elem dur) s now (ISrc 0%nat (Next x))))) = [(g, y)]
              /\ elem x = Ok y
              /\ exists k, key x = Ok k
                 /\ g = match gb_lookup k (gb_writers s) with Some g0 => g0 | None => gb_next s end.
Proof. exact @group_route_one. Qed.
Print Assumptions C19_group_existing.
Print Assumptions C19_group_new.
Print Assumptions C19_group_new_iff.
Print Assumptions C19_group_route_one.

(* every open group ends with the source's terminal; so does the outer *)
Theorem C19_group_source_done : forall A W B (key : A -> res Z) (elem : A -> res W) (dur : nat -> res bool) s now,
  x_step (x_group_by_until (A:=A) (W:=W) (B:=B) key elem dur) s now (ISrc 0%nat Done)
  = (s, gb_all (gb_writers s) Done, Complete).
Proof. exact @group_source_done. Qed.
(* an error of the source OR of a duration observable reaches every open group and the outer *)
Theorem C19_group_error_fanout : forall A W B (key : A -> res Z) (elem : A -> res W) (dur : nat -> res bool) s now k e,
  x_step (x_group_by_until (A:=A) (W:=W) (B:=B) key elem dur) s now (ISrc k (Err e))
  = (s, gb_all (gb_writers s) (Err e), Fail e).
Proof. exact @group_source_error. Qed.
(* raising callbacks *)
Theorem C19_group_key_raises : forall A W B (key : A -> res Z) (elem : A -> res W) (dur : nat -> res bool) s now (x : A) e,
  key x = Raise e ->
  x_step (x_group_by_until (W:=W) (B:=B) key elem dur) s now (ISrc 0%nat (Next x))
  = (s, gb_all (gb_writers s) (Err e), Fail e).
Proof. exact @group_key_raises. Qed.
Theorem C19_group_elem_raises_existing : forall A W B (key : A -> res Z) (elem : A -> res W) (dur : nat -> res bool) s now (x : A) k g e,
  key x = Ok k -> gb_lookup k (gb_writers s) = Some g -> elem x = Raise e ->
  x_step (x_group_by_until (W:=W) (B:=B) key elem dur) s now (ISrc 0%nat (Next x))
  = (s, gb_all (gb_writers s) (Err e), Fail e).
Proof. exact @group_elem_raises_existing. Qed.
Theorem C19_group_elem_raises_new : forall A W B (key : A -> res Z) (elem : A -> res W) (dur : nat -> res bool) s now (x : A) k hot e,
  key x = Ok k -> gb_lookup k (gb_writers s) = None -> dur (gb_calls s) = Ok hot -> elem x = Raise e ->
  let ws := gb_writers s ++ [(k, gb_next s, if hot then S (gb_calls s) else 0%nat)] in
  x_step (x_group_by_until (W:=W) (B:=B) key elem dur) s now (ISrc 0%nat (Next x))
  = (GbSt ws (S (gb_next s)) (S (gb_calls s)),
     CHand (gb_next s) k :: (if hot then [CSub (S (gb_calls s))] else []) ++ gb_all ws (Err e), Fail e).
Proof. exact @group_elem_raises_new. Qed.
Theorem C19_group_dur_raises : forall A W B (key : A -> res Z) (elem : A -> res W) (dur : nat -> res bool) s now (x : A) k e,
  key x = Ok k -> gb_lookup k (gb_writers s) = None -> dur (gb_calls s) = Raise e ->
  x_step (x_group_by_until (W:=W) (B:=B) key elem dur) s now (ISrc 0%nat (Next x))
  = (GbSt (gb_writers s ++ [(k, gb_next s, 0%nat)]) (S (gb_next s)) (S (gb_calls s)),
     gb_all (gb_writers s ++ [(k, gb_next s, 0%nat)]) (Err e), Fail e).
Proof. exact @group_dur_raises. Qed.
Print Assumptions C19_group_source_done.
Print Assumptions C19_group_error_fanout.
Print Assumptions C19_group_key_raises.
Print Assumptions C19_group_elem_raises_existing.
Print Assumptions C19_group_elem_raises_new.
Print Assumptions C19_group_dur_raises.

(* expiry and re-creation *)
Theorem C19_group_expire : forall A W B (key : A -> res Z) (elem : A -> res W) (dur : nat -> res bool) s now d (e : ev A) k g,
  (forall z, e <> Err z) -> gb_by_dur (S d) (gb_writers s) = Some (k, g) ->
  x_step (x_group_by_until (W:=W) (B:=B) key elem dur) s now (ISrc (S d) e)
  = (GbSt (gb_del k (gb_writers s)) (gb_next s) (gb_calls s), [CWin g Done; CUnsub (S d)], Cont).
Proof. exact @group_expire. Qed.
Theorem C19_group_recreate_after_expiry : forall A W B (key : A -> res Z) (elem : A -> res W) (dur : nat -> res bool) s now d (e : ev A) k g,
  gb_inv s -> (forall z, e <> Err z) -> gb_by_dur (S d) (gb_writers s) = Some (k, g) ->
  gb_lookup k (gb_writers (fst (fst (x_step (x_group_by_until (W:=W) (B:=B) key elem dur) s now (ISrc (S d) e))))) = None.
Proof. exact @group_recreate_after_expiry. Qed.
(* the writers table is a dict (keys unique, ids fresh) in every reachable state *)
Theorem C19_group_invariant_always : forall A W B (key : A -> res Z) (elem : A -> res W) (dur : nat -> res bool) (imm : nat -> bool) (ins : list (Z * inp A)),
  gb_inv (fst (after imm (x_group_by_until (W:=W) (B:=B) key elem dur)
                     (fst (start_state imm (x_group_by_until (W:=W) (B:=B) key elem dur)))
                     (snd (start_state imm (x_group_by_until (W:=W) (B:=B) key elem dur))) ins)).
Proof. exact @gb_inv_always. Qed.
Print Assumptions C19_group_expire.
Print Assumptions C19_group_recreate_after_expiry.
Print Assumptions C19_group_invariant_always.

(* ---- group_by as a dict of lists: CLOSED FORM for total key / element functions, every finite source,
   every termination, every group subscribed when handed ------------------------------------------- *)
(* group j is the group of the j-th distinct key (first-occurrence order); it receives exactly the mapped
   elements with that key, in arrival order, then the source's terminal *)
Theorem C19_group_by_closed_form : forall A W B (kf : A -> Z) (ef : A -> W) (xs : list A) (tm : term) (j : nat),
  wevents j (fst (run all_imm (x_group_by (B:=B) (fun x => Ok (kf x)) (fun x => Ok (ef x))) (src_events xs tm)))
  = match nth_error (distinct_keys kf xs) j with
    | Some k => map Next (map ef (filter (fun y => kf y =? k) xs)) ++ term_ev tm
    | None => []
    end.
Proof. exact @group_by_closed_form. Qed.
Theorem C19_group_by_hands : forall A W B (kf : A -> Z) (ef : A -> W) (xs : list A) (tm : term),
  hands (fst (run all_imm (x_group_by (B:=B) (fun x => Ok (kf x)) (fun x => Ok (ef x))) (src_events xs tm)))
  = combine (seq 0 (length (distinct_keys kf xs))) (distinct_keys kf xs).
Proof. exact @group_by_hands. Qed.
Print Assumptions C19_group_by_closed_form.
Print Assumptions C19_group_by_hands.

(* ---- release clauses (C02/C03 for handed groups): EVERY machine, policy, input sequence ------ *)
Theorem C19_release_when_all_ended : forall A W B (imm : nat -> bool) (m : machine A W B) ins,
  r_outer (snd (run imm m ins)) = false -> r_wsubs (snd (run imm m ins)) = [] ->
  r_live (snd (run imm m ins)) = [] /\ r_timers (snd (run imm m ins)) = [].
Proof. exact @run_all_ended_released. Qed.
Theorem C19_source_stays_subscribed : forall A W B (imm : nat -> bool) (m : machine A W B) k ins s r,
  never_unsubs m k -> mem k (r_live r) = true ->
  (forall now e, In (now, ISrc k e) ins -> is_terminal e = false) ->
  r_released (snd (after imm m s r ins)) = false ->
  mem k (r_live (snd (after imm m s r ins))) = true.
Proof. exact @source_stays_subscribed. Qed.
Theorem C19_group_keeps_source : forall A W B (key : A -> res Z) (elem : A -> res W) (dur : nat -> res bool),
  never_unsubs (x_group_by_until (A:=A) (W:=W) (B:=B) key elem dur) 0%nat.
Proof. exact @group_never_unsubs_source. Qed.
Print Assumptions C19_release_when_all_ended.
Print Assumptions C19_source_stays_subscribed.
Print Assumptions C19_group_keeps_source.

(* ---- partition ----------------------------------------------------------------------------- *)
(* a non-raising predicate sends the element to the subscribers of output 0 if it holds, of output 1
   otherwise; nothing else happens *)
Theorem C19_partition_deliver : forall A (pred : A -> res bool) (x : A) b, pred x = Ok b ->
  forall todo subs conn,
  pt_deliver pred x todo subs conn = (subs, conn, map (fun g => OWin g (Next x)) (filter (goes_to b) todo)).
Proof. exact @partition_deliver. Qed.
(* exactly one of the two outputs, never both *)
Theorem C19_partition_exactly_one : forall A (pred : A -> res bool) (x : A) b s,
  pred x = Ok b -> pt_conn s = true -> pt_stopped s = None ->
  let o := snd (pt_step pred s (ISrc 0%nat (Next x))) in
  (forall g, In (OWin g (Next x)) o <-> In g (pt_subs s) /\ goes_to b g = true)
  /\ ~ (In (OWin 0%nat (Next x)) o /\ In (OWin 1%nat (Next x)) o)
  /\ fst (pt_step pred s (ISrc 0%nat (Next x))) = s.
Proof. exact @partition_exactly_one. Qed.
(* the source is subscribed iff some output subscriber is live, in every reachable state *)
Theorem C19_partition_connected_iff_subscribed : forall A (pred : A -> res bool) (ins : list (Z * inp A)),
  pt_inv (pt_after pred (PtSt [] false None) ins).
Proof. exact @pt_inv_always. Qed.
Theorem C19_partition_last_leaves : forall A (pred : A -> res bool) s g, pt_inv s -> pt_subs s = [g] ->
  pt_step pred s (IUnsubWin g) = (PtSt [] false (pt_stopped s), [OUnsub 0%nat]).
Proof. exact @partition_last_leaves. Qed.
Theorem C19_partition_other_stays : forall A (pred : A -> res bool) s g,
  mem g (pt_subs s) = true -> remove g (pt_subs s) <> [] ->
  pt_step pred s (IUnsubWin g) = (PtSt (remove g (pt_subs s)) (pt_conn s) (pt_stopped s), []).
Proof. exact @partition_other_stays. Qed.
Print Assumptions C19_partition_deliver.
Print Assumptions C19_partition_exactly_one.
Print Assumptions C19_partition_connected_iff_subscribed.
Print Assumptions C19_partition_last_leaves.
Print Assumptions C19_partition_other_stays.

(* ---- subject_mapper (custom subject factory of group_by / group_by_until): EVERY state ---------- *)
(* the key has a live writer: the factory is not consulted; the step is the one of the default factory *)
Theorem C19_subject_factory_not_consulted : forall A W B (key : A -> res Z) (elem : A -> res W) (dur : nat -> res bool)
    (subj : nat -> res unit) s now (x : A) k g,
  key x = Ok k -> gb_lookup k (gb_writers s) = Some g ->
  x_step (x_group_by_until_sm (B:=B) key elem dur subj) s now (ISrc 0%nat (Next x))
  = x_step (x_group_by_until (B:=B) key elem dur) s now (ISrc 0%nat (Next x)).
Proof. exact @group_sm_existing. Qed.
(* the key has no live writer and the factory raises: every open group and the outer get the error; no
   group is handed, the element goes nowhere, the state is unchanged *)
Theorem C19_subject_factory_raises : forall A W B (key : A -> res Z) (elem : A -> res W) (dur : nat -> res bool)
    (subj : nat -> res unit) s now (x : A) k e,
  key x = Ok k -> gb_lookup k (gb_writers s) = None -> subj (gb_calls s) = Raise e ->
  x_step (x_group_by_until_sm (B:=B) key elem dur subj) s now (ISrc 0%nat (Next x))
  = (s, gb_all (gb_writers s) (Err e), Fail e).
Proof. exact @group_sm_raises. Qed.
Theorem C19_subject_factory_raises_no_group : forall A W B (key : A -> res Z) (elem : A -> res W) (dur : nat -> res bool)
    (subj : nat -> res unit) s now (x : A) k e,
  key x = Ok k -> gb_lookup k (gb_writers s) = None -> subj (gb_calls s) = Raise e ->
  ghands (snd (fst (x_step (x_group_by_until_sm (B:=B) key elem dur subj) s now (ISrc 0%nat (Next x))))) = []
  /\ gwin_nexts (snd (fst (x_step (x_group_by_until_sm (B:=B) key elem dur subj) s now (ISrc 0%nat (Next x))))) = [].
Proof. exact @group_sm_raises_no_hand. Qed.
(* a factory that never raises: the machine is the machine of the default factory, at every step and
   hence on every run -- all theorems above hold with a custom factory *)
Theorem C19_subject_factory_total_step : forall A W B (key : A -> res Z) (elem : A -> res W) (dur : nat -> res bool)
    (subj : nat -> res unit), (forall j, exists u, subj j = Ok u) ->
  forall s now i, x_step (x_group_by_until_sm (B:=B) key elem dur subj) s now i
                  = x_step (x_group_by_until (B:=B) key elem dur) s now i.
Proof. exact @group_sm_total_step. Qed.
Theorem C19_subject_factory_total_run : forall A W B (key : A -> res Z) (elem : A -> res W) (dur : nat -> res bool)
    (subj : nat -> res unit) (imm : nat -> bool), (forall j, exists u, subj j = Ok u) ->
  forall ins, run imm (x_group_by_until_sm (B:=B) key elem dur subj) ins
              = run imm (x_group_by_until (B:=B) key elem dur) ins.
Proof. exact @group_sm_total_run. Qed.
Theorem C19_group_by_subject_factory_closed_form : forall A W B (kf : A -> Z) (ef : A -> W) (subj : nat -> res unit),
  (forall j, exists u, subj j = Ok u) -> forall (xs : list A) (tm : term) (j : nat),
  wevents j (fst (run all_imm (x_group_by_until_sm (B:=B) (fun x => Ok (kf x)) (fun x => Ok (ef x))
                                  (fun _ => Ok false) subj) (src_events xs tm)))
  = match nth_error (distinct_keys kf xs) j with
    | Some k => map Next (map ef (filter (fun y => kf y =? k) xs)) ++ term_ev tm
    | None => []
    end.
Proof. exact @group_by_sm_closed_form. Qed.
Theorem C19_subject_factory_invariant : forall A W B (key : A -> res Z) (elem : A -> res W) (dur : nat -> res bool)
    (subj : nat -> res unit) s now i,
  gb_inv s -> gb_inv (fst (fst (x_step (x_group_by_until_sm (B:=B) key elem dur subj) s now i))).
Proof. exact @gbs_inv_step. Qed.
Theorem C19_subject_factory_keeps_source : forall A W B (key : A -> res Z) (elem : A -> res W) (dur : nat -> res bool)
    (subj : nat -> res unit), never_unsubs (x_group_by_until_sm (A:=A) (W:=W) (B:=B) key elem dur subj) 0%nat.
Proof. exact @group_sm_never_unsubs_source. Qed.
Print Assumptions C19_subject_factory_not_consulted.
Print Assumptions C19_subject_factory_raises.
Print Assumptions C19_subject_factory_raises_no_group.
Print Assumptions C19_subject_factory_total_step.
Print Assumptions C19_subject_factory_total_run.
Print Assumptions C19_group_by_subject_factory_closed_form.
Print Assumptions C19_subject_factory_invariant.
Print Assumptions C19_subject_factory_keeps_source.

(* ---- partition_indexed: EVERY state ------------------------------------------------------------ *)
(* a non-raising indexed predicate: the element reaches exactly the subscribers whose verdict -- the
   predicate at THAT subscriber's own index -- selects their output; every index advances by one *)
Theorem C19_partition_indexed_routing : forall A (pred : A -> nat -> res bool) (x : A) (pb : nat -> bool) s,
  pti_conn s = true -> pti_stopped s = None ->
  (forall g c, In (g, c) (pti_subs s) -> pred x c = Ok (pb c)) ->
  let '(s', o) := pti_step pred s (ISrc 0%nat (Next x)) in
  (forall g, In (OWin g (Next x)) o <-> exists c, In (g, c) (pti_subs s) /\ goes_to_i (pb c) g = true)
  /\ s' = PtiSt (pti_bumped (pti_subs s)) true None.
Proof. exact @partition_indexed_routing. Qed.
(* subscribers that share an index (all of them subscribed before the first element, say): exactly one of
   the two outputs, never both; they still share an index afterwards *)
Theorem C19_partition_indexed_exactly_one : forall A (pred : A -> nat -> res bool) (x : A) b c s,
  pti_conn s = true -> pti_stopped s = None ->
  (forall g c', In (g, c') (pti_subs s) -> c' = c) -> pred x c = Ok b ->
  let '(s', o) := pti_step pred s (ISrc 0%nat (Next x)) in
  (forall g, In (OWin g (Next x)) o <-> In g (pti_outs (pti_subs s)) /\ goes_to_i b g = true)
  /\ ~ (In (OWin 0%nat (Next x)) o /\ In (OWin 1%nat (Next x)) o)
  /\ pti_subs s' = map (fun gc => (fst gc, S c)) (pti_subs s)
  /\ (forall g c', In (g, c') (pti_subs s') -> c' = S c).
Proof. exact @partition_indexed_exactly_one. Qed.
Theorem C19_partition_indexed_fresh_index : forall A (pred : A -> nat -> res bool) s g, pti_stopped s = None ->
  pti_subs (fst (pti_step pred s (ISubWin g))) = pti_subs s ++ [(g, 0%nat)].
Proof. exact @partition_indexed_fresh_index. Qed.
Theorem C19_partition_indexed_connected_iff_subscribed : forall A (pred : A -> nat -> res bool) (ins : list (Z * inp A)),
  pti_inv (pti_after pred (PtiSt [] false None) ins).
Proof. exact @pti_inv_always. Qed.
Print Assumptions C19_partition_indexed_routing.
Print Assumptions C19_partition_indexed_exactly_one.
Print Assumptions C19_partition_indexed_fresh_index.
Print Assumptions C19_partition_indexed_connected_iff_subscribed.

(* ---- witnesses ------------------------------------------------------------------------------ *)
Example C19_witness_group_by :
  (* key = parity; 0 is a falsy key; every group subscribed when handed *)
  let tr := fst (run all_imm (x_group_by (B:=unit) (fun x => Ok (x mod 2)) (fun x => Ok (10 * x)))
                     [(0, ISrc 0%nat (Next 1)); (0, ISrc 0%nat (Next 2)); (0, ISrc 0%nat (Next 3));
                      (0, ISrc 0%nat (Next 4)); (0, ISrc 0%nat Done)]) in
  hands tr = [(0%nat, 1); (1%nat, 0)]
  /\ wevents 0 tr = [Next 10; Next 30; Done] /\ wevents 1 tr = [Next 20; Next 40; Done]
  /\ emitted tr = [Done].
Proof. vm_compute. auto. Qed.
Example C19_witness_expiry_and_rebirth :
  let tr := fst (run all_imm (x_group_by_until (B:=unit) (fun _ => Ok 0) (fun x => Ok x) (fun _ => Ok true))
                     [(0, ISrc 0%nat (Next 1)); (1, ISrc 1%nat (Next 99)); (2, ISrc 0%nat (Next 2));
                      (3, ISrc 0%nat (Err 7))]) in
  hands tr = [(0%nat, 0); (1%nat, 0)]
  /\ wevents 0 tr = [Next 1; Done] /\ wevents 1 tr = [Next 2; Err 7] /\ emitted tr = [Err 7].
Proof. vm_compute. auto. Qed.
Example C19_witness_partition :
  map snd (pt_run (fun x => Ok (x <? 5))
      [(0, ISubWin 0%nat); (0, ISubWin 1%nat); (1, ISrc 0%nat (Next 3)); (2, ISrc 0%nat (Next 8));
       (3, IUnsubWin 0%nat); (4, ISrc 0%nat (Next 4)); (5, IUnsubWin 1%nat); (6, ISrc 0%nat (Next 9))])
  = [OSub 0%nat; OWin 0%nat (Next 3); OWin 1%nat (Next 8); OUnsub 0%nat].
Proof. vm_compute. reflexivity. Qed.
Example C19_witness_subject_factory_raises :
  (* the factory raises at its second call: key 1 gets a group, key 0 does not -- everything errors *)
  let tr := fst (run all_imm (x_group_by_until_sm (B:=unit) (fun x => Ok (x mod 2)) (fun x => Ok x) (fun _ => Ok false)
                                (fun j => if Nat.eqb j 1 then Raise 85 else Ok tt))
                     [(0, ISrc 0%nat (Next 1)); (0, ISrc 0%nat (Next 3)); (0, ISrc 0%nat (Next 2));
                      (0, ISrc 0%nat (Next 5))]) in
  hands tr = [(0%nat, 1)] /\ wevents 0 tr = [Next 1; Next 3; Err 85] /\ emitted tr = [Err 85].
Proof. vm_compute. auto. Qed.
Example C19_witness_partition_indexed :
  (* predicate_indexed = (i is even).  Both outputs subscribed from the start share the index: 10 goes to
     output 0 only.  Output 1 then leaves and re-subscribes: its index restarts at 0 while output 0 is at 1,
     so 20 reaches neither output and 30 reaches both (each subscriber is served by its own index) *)
  map snd (pti_run (fun (_ : Z) i => Ok (Nat.even i))
      [(0, ISubWin 0%nat); (0, ISubWin 1%nat); (1, ISrc 0%nat (Next 10)); (2, IUnsubWin 1%nat); (3, ISubWin 1%nat);
       (4, ISrc 0%nat (Next 20)); (5, ISrc 0%nat (Next 30)); (6, ISrc 0%nat Done)])
  = [OSub 0%nat; OWin 0%nat (Next 10); OWin 0%nat (Next 30); OWin 1%nat (Next 30);
     OWin 0%nat Done; OWin 1%nat Done; OUnsub 0%nat].
Proof. vm_compute. reflexivity. Qed.

(* ---- partition: whole runs (Ops/PartitionRunFacts.v) ---------------------------------------- *)
(* total predicate, conforming source, both outputs subscribed before the source emits: output 0 receives
   exactly the elements satisfying the predicate, output 1 exactly the others, each in source order and
   followed by the source's terminal (ALL xs, all three terminations) *)
Theorem C19_partition_closed_form : forall A (pf : A -> bool) (xs : list A) tm,
  let tr := pt_run (fun x => Ok (pf x)) ((0, ISubWin 0%nat) :: (0, ISubWin 1%nat) :: src_events xs tm) in
  wevents 0 tr = map Next (filter pf xs) ++ term_ev tm
  /\ wevents 1 tr = map Next (filter (fun x => negb (pf x)) xs) ++ term_ev tm.
Proof. exact @partition_closed_form. Qed.
Print Assumptions C19_partition_closed_form.
(* the same from ANY connected, unstopped state: an output with exactly one live subscription (whatever
   else is subscribed, in whatever order) receives its side of the predicate ... *)
Theorem C19_partition_from_connected : forall A (pf : A -> bool) subs g k (xs : list A) tm,
  count_of g subs = 1%nat ->
  wevents g (pt_run_from (fun x => Ok (pf x)) (PtSt subs true None) k (src_events xs tm))
  = map Next (filter (fun x => goes_to (pf x) g) xs) ++ term_ev tm.
Proof. exact @partition_from_connected. Qed.
Print Assumptions C19_partition_from_connected.
(* ... and an output nobody is subscribed to sees nothing, not even the terminal *)
Theorem C19_partition_unsubscribed_output_silent : forall A (pf : A -> bool) subs g k (xs : list A) tm,
  count_of g subs = 0%nat ->
  wevents g (pt_run_from (fun x => Ok (pf x)) (PtSt subs true None) k (src_events xs tm)) = [].
Proof. exact @partition_unsubscribed_silent. Qed.
Print Assumptions C19_partition_unsubscribed_output_silent.
(* the published source is shared and hot: output 1 subscribed after the prefix xs1 misses its share of
   xs1; output 0 sees its share of everything *)
Theorem C19_partition_late_subscriber : forall A (pf : A -> bool) (xs1 xs2 : list A) tm,
  let tr := pt_run (fun x => Ok (pf x)) ((0, ISubWin 0%nat) :: src_events xs1 TNever
                                         ++ (0, ISubWin 1%nat) :: src_events xs2 tm) in
  wevents 0 tr = map Next (filter pf (xs1 ++ xs2)) ++ term_ev tm
  /\ wevents 1 tr = map Next (filter (fun x => negb (pf x)) xs2) ++ term_ev tm.
Proof. exact @partition_late_subscriber. Qed.
Print Assumptions C19_partition_late_subscriber.
Example C19_witness_partition_late_subscriber :
  let tr := pt_run (fun x => Ok (x <? 5)) ((0, ISubWin 0%nat) :: src_events [3; 8] TNever
                                           ++ (0, ISubWin 1%nat) :: src_events [9; 4; 7] TDone) in
  wevents 0 tr = [Next 3; Next 4; Done] /\ wevents 1 tr = [Next 9; Next 7; Done].
Proof. vm_compute. auto. Qed.

(* ======== round 9: run-level theorems for group_by_until and for partition with several subscriptions
   of one output (Ops/GroupUntilRunFacts.v, Ops/PartitionMultiFacts.v) ======================== *)
From RxVerif Require Import Ops.GroupUntilRunFacts Ops.PartitionMultiFacts.

(* ---- group_by_until, WHOLE RUNS: every interleaving of the source port (0) and the duration ports (1+j),
   every key / element / duration callback (raising ones included), every group subscribed when handed.
   The routing part of the trace (hand-overs, notifications on the groups, the outer's terminal, each with
   its input position) EQUALS the trace of the functional specification gbu_spec of Ops/GroupUntilRunFacts.v:
   a map key -> live group id (in creation order), a counter of fresh ids, a flag "over".  An element goes to
   the live group of its key, or -- iff there is none -- to a new group handed just before; a group whose
   duration fired is no longer live, and the next element of its key creates a fresh group; a group's
   completion comes from its duration or from the source's completion; an error of the source / of a live
   duration / of a callback goes to every live group and to the outer; nothing after the outer's terminal. *)
Theorem C19_group_by_until_refines_spec : forall A W B (key : A -> res Z) (elem : A -> res W) (dur : nat -> res bool)
    (ins : list (Z * inp A)), ports_only ins ->
  routing (fst (run all_imm (x_group_by_until (B:=B) key elem dur) ins)) = gbu_spec key elem dur ins.
Proof. exact @group_by_until_refines_spec. Qed.
Print Assumptions C19_group_by_until_refines_spec.
(* the specification's state is not hidden: after any input sequence its live map is the list of groups handed
   and not ended in its trace, "over" = the outer got its terminal, the fresh id = number of groups handed *)
Theorem C19_gbu_spec_state_is_trace_state : forall A W B (key : A -> res Z) (elem : A -> res W) (dur : nat -> res bool)
    (ins : list (Z * inp A)),
  let st := gbu_after (W:=W) (B:=B) key elem dur gbu_init ins in
  let tr := gbu_spec (W:=W) (B:=B) key elem dur ins in
  gbu_live st = trace_live tr /\ gbu_over st = negb (outer_open tr)
  /\ (gbu_over st = false -> gbu_next st = length (hands tr)).
Proof. exact @gbu_state_is_trace_state. Qed.
Print Assumptions C19_gbu_spec_state_is_trace_state.
(* hence, on the run's trace alone: what the next input adds is the specification's step from the state that
   the trace so far shows *)
Theorem C19_gbu_next_input_run : forall A W B (key : A -> res Z) (elem : A -> res W) (dur : nat -> res bool)
    (pre : list (Z * inp A)) now i, ports_only (pre ++ [(now, i)]) ->
  let tr := routing (fst (run all_imm (x_group_by_until (B:=B) key elem dur) pre)) in
  routing (fst (run all_imm (x_group_by_until (B:=B) key elem dur) (pre ++ [(now, i)])))
  = tr ++ map (fun o => (S (length pre), o)) (snd (gbu_step key elem dur (trace_state tr) i)).
Proof. exact @gbu_next_input_run. Qed.
Print Assumptions C19_gbu_next_input_run.
(* an element (non-raising callbacks) goes to exactly ONE group: the live group of its key if the trace shows
   one -- then nothing is handed --, otherwise a NEW group, numbered by the groups handed so far, handed to the
   outer just before the element *)
Theorem C19_gbu_element_run : forall A W B (key : A -> res Z) (elem : A -> res W) (dur : nat -> res bool)
    (pre : list (Z * inp A)) now (x : A) k (y : W), ports_only pre ->
  let tr := routing (fst (run all_imm (x_group_by_until (B:=B) key elem dur) pre)) in
  outer_open tr = true -> key x = Ok k -> elem x = Ok y ->
  (gbu_find k (trace_live tr) = None -> exists h, dur (length (hands tr)) = Ok h) ->
  routing (fst (run all_imm (x_group_by_until (B:=B) key elem dur) (pre ++ [(now, ISrc 0%nat (Next x))])))
  = tr ++ map (fun o => (S (length pre), o))
       (match gbu_find k (trace_live tr) with
        | Some g => [OWin g (Next y)]
        | None => [OHand (length (hands tr)) k; OWin (length (hands tr)) (Next y)]
        end).
Proof. exact @gbu_element_run. Qed.
Print Assumptions C19_gbu_element_run.
(* the live groups always have pairwise different keys (and ids): "THE live group of a key" *)
Theorem C19_gbu_live_keys_unique : forall A W B (key : A -> res Z) (elem : A -> res W) (dur : nat -> res bool)
    (pre : list (Z * inp A)), ports_only pre ->
  let tr := routing (fst (run all_imm (x_group_by_until (B:=B) key elem dur) pre)) in
  NoDup (map fst (trace_live tr)) /\ NoDup (map snd (trace_live tr)).
Proof. exact @gbu_live_keys_unique. Qed.
Print Assumptions C19_gbu_live_keys_unique.
(* a duration port fires (element or completion): its group, if live, completes and is no longer live --
   nothing else happens; a port whose group is not live (any more) does nothing *)
Theorem C19_gbu_expiry_run : forall A W B (key : A -> res Z) (elem : A -> res W) (dur : nat -> res bool)
    (pre : list (Z * inp A)) now d (e : ev A), ports_only pre ->
  let tr := routing (fst (run all_imm (x_group_by_until (B:=B) key elem dur) pre)) in
  let tr' := routing (fst (run all_imm (x_group_by_until (B:=B) key elem dur) (pre ++ [(now, ISrc (S d) e)]))) in
  outer_open tr = true -> (forall z, e <> Err z) ->
  tr' = tr ++ (if gbu_is_live d (trace_live tr) && gbu_hot dur d then [(S (length pre), OWin d Done)] else [])
  /\ (gbu_is_live d (trace_live tr) && gbu_hot dur d = true -> gbu_is_live d (trace_live tr') = false).
Proof. exact @gbu_expiry_run. Qed.
Print Assumptions C19_gbu_expiry_run.
(* the source's terminal (z = None: completion, Some e: error): every live group gets it, in hand-over
   order, then the outer; whatever comes after adds nothing *)
Theorem C19_gbu_source_terminal_run : forall A W B (key : A -> res Z) (elem : A -> res W) (dur : nat -> res bool)
    (pre : list (Z * inp A)) now z post, ports_only (pre ++ (now, ISrc 0%nat (tev z)) :: post) ->
  let tr := routing (fst (run all_imm (x_group_by_until (B:=B) key elem dur) pre)) in
  outer_open tr = true ->
  routing (fst (run all_imm (x_group_by_until (B:=B) key elem dur) (pre ++ (now, ISrc 0%nat (tev z)) :: post)))
  = tr ++ map (fun o => (S (length pre), o)) (gbu_end (trace_live tr) z).
Proof. exact @gbu_source_terminal_run. Qed.
Print Assumptions C19_gbu_source_terminal_run.
(* any input that ends the specification (source terminal, error of a live duration, raising callback):
   the trace is the trace so far plus that input's routing -- nothing after *)
Theorem C19_gbu_ending_run : forall A W B (key : A -> res Z) (elem : A -> res W) (dur : nat -> res bool)
    (pre : list (Z * inp A)) now i post, ports_only (pre ++ (now, i) :: post) ->
  gbu_over (fst (gbu_step (W:=W) (B:=B) key elem dur (gbu_after (W:=W) (B:=B) key elem dur gbu_init pre) i)) = true ->
  routing (fst (run all_imm (x_group_by_until (B:=B) key elem dur) (pre ++ (now, i) :: post)))
  = routing (fst (run all_imm (x_group_by_until (B:=B) key elem dur) pre))
    ++ map (fun o => (S (length pre), o)) (snd (gbu_step key elem dur (gbu_after (W:=W) (B:=B) key elem dur gbu_init pre) i)).
Proof. exact @gbu_ending_run. Qed.
Print Assumptions C19_gbu_ending_run.

(* ---- raising callbacks, WHOLE RUNS: the error goes to every group handed and not ended (hand-over order),
   then to the outer; nothing after, whatever the rest of the input is ---- *)
Theorem C19_gbu_key_raises_run : forall A W B (key : A -> res Z) (elem : A -> res W) (dur : nat -> res bool)
    (pre : list (Z * inp A)) now (x : A) post e, ports_only (pre ++ (now, ISrc 0%nat (Next x)) :: post) ->
  let tr := routing (fst (run all_imm (x_group_by_until (B:=B) key elem dur) pre)) in
  outer_open tr = true -> key x = Raise e ->
  routing (fst (run all_imm (x_group_by_until (B:=B) key elem dur) (pre ++ (now, ISrc 0%nat (Next x)) :: post)))
  = tr ++ map (fun o => (S (length pre), o)) (gbu_end (trace_live tr) (Some e)).
Proof. exact @gbu_key_raises_trace. Qed.
Theorem C19_gbu_elem_raises_existing_run : forall A W B (key : A -> res Z) (elem : A -> res W) (dur : nat -> res bool)
    (pre : list (Z * inp A)) now (x : A) post k g e, ports_only (pre ++ (now, ISrc 0%nat (Next x)) :: post) ->
  let tr := routing (fst (run all_imm (x_group_by_until (B:=B) key elem dur) pre)) in
  outer_open tr = true -> key x = Ok k -> gbu_find k (trace_live tr) = Some g -> elem x = Raise e ->
  routing (fst (run all_imm (x_group_by_until (B:=B) key elem dur) (pre ++ (now, ISrc 0%nat (Next x)) :: post)))
  = tr ++ map (fun o => (S (length pre), o)) (gbu_end (trace_live tr) (Some e)).
Proof. exact @gbu_elem_raises_existing_trace. Qed.
(* the element mapper raises on the first element of a new group: the group is handed first, then errored
   together with all the others *)
Theorem C19_gbu_elem_raises_new_run : forall A W B (key : A -> res Z) (elem : A -> res W) (dur : nat -> res bool)
    (pre : list (Z * inp A)) now (x : A) post k hb e, ports_only (pre ++ (now, ISrc 0%nat (Next x)) :: post) ->
  let tr := routing (fst (run all_imm (x_group_by_until (B:=B) key elem dur) pre)) in
  let n := length (hands tr) in
  outer_open tr = true -> key x = Ok k -> gbu_find k (trace_live tr) = None -> dur n = Ok hb -> elem x = Raise e ->
  routing (fst (run all_imm (x_group_by_until (B:=B) key elem dur) (pre ++ (now, ISrc 0%nat (Next x)) :: post)))
  = tr ++ map (fun o => (S (length pre), o)) (OHand n k :: gbu_end (trace_live tr ++ [(k, n)]) (Some e)).
Proof. exact @gbu_elem_raises_new_trace. Qed.
(* the duration mapper raises: no group is handed; the groups that were live and the outer get the error *)
Theorem C19_gbu_dur_raises_run : forall A W B (key : A -> res Z) (elem : A -> res W) (dur : nat -> res bool)
    (pre : list (Z * inp A)) now (x : A) post k e, ports_only (pre ++ (now, ISrc 0%nat (Next x)) :: post) ->
  let tr := routing (fst (run all_imm (x_group_by_until (B:=B) key elem dur) pre)) in
  outer_open tr = true -> key x = Ok k -> gbu_find k (trace_live tr) = None -> dur (length (hands tr)) = Raise e ->
  routing (fst (run all_imm (x_group_by_until (B:=B) key elem dur) (pre ++ (now, ISrc 0%nat (Next x)) :: post)))
  = tr ++ map (fun o => (S (length pre), o)) (gbu_end (trace_live tr) (Some e)).
Proof. exact @gbu_dur_raises_trace. Qed.
Print Assumptions C19_gbu_key_raises_run.
Print Assumptions C19_gbu_elem_raises_existing_run.
Print Assumptions C19_gbu_elem_raises_new_run.
Print Assumptions C19_gbu_dur_raises_run.

(* witnesses: the hypotheses are satisfiable in non-trivial reachable states, and the specification is not
   the empty trace.  Keys = parity; every duration is a real observable.  1 -> group 0 (key 1); 2 -> group 1
   (key 0); duration of group 0 fires; 3 -> group 2 (key 1, reborn); 99: the key mapper raises *)
Example C19_witness_gbu_spec :
  let key := fun x => if x =? 99 then Raise 7 else Ok (x mod 2) in
  let ins := [(0, ISrc 0%nat (Next 1)); (1, ISrc 0%nat (Next 2)); (2, ISrc 1%nat (Next 50)); (3, ISrc 0%nat (Next 3));
              (4, ISrc 1%nat (Next 51)); (5, ISrc 0%nat (Next 99)); (6, ISrc 0%nat (Next 5)); (7, ISrc 2%nat Done)] in
  ports_only ins
  /\ gbu_spec (B:=unit) key (fun x => Ok (10 * x)) (fun _ => Ok true) ins
     = [(1%nat, OHand 0%nat 1); (1%nat, OWin 0%nat (Next 10)); (2%nat, OHand 1%nat 0); (2%nat, OWin 1%nat (Next 20));
        (3%nat, OWin 0%nat Done); (4%nat, OHand 2%nat 1); (4%nat, OWin 2%nat (Next 30));
        (6%nat, OWin 1%nat (Err 7)); (6%nat, OWin 2%nat (Err 7)); (6%nat, OEmit (Err 7))]
  /\ routing (fst (run all_imm (x_group_by_until (B:=unit) key (fun x => Ok (10 * x)) (fun _ => Ok true)) ins))
     = gbu_spec (B:=unit) key (fun x => Ok (10 * x)) (fun _ => Ok true) ins.
Proof.
  cbn zeta. split; [|split; vm_compute; reflexivity].
  intros p Hp. repeat (destruct Hp as [<-|Hp]; [reflexivity|]). destruct Hp.
Qed.
Example C19_witness_gbu_trace_state :
  (* after 1, 2, duration of group 0, 3: the trace shows groups 1 (key 0) and 2 (key 1) live, three groups
     handed, outer open; key 1 has the live group 2, key 5 has none *)
  let tr := routing (fst (run all_imm (x_group_by_until (B:=unit) (fun x => Ok (x mod 2)) (fun x => Ok x) (fun _ => Ok true))
                       [(0, ISrc 0%nat (Next 1)); (1, ISrc 0%nat (Next 2)); (2, ISrc 1%nat (Next 50)); (3, ISrc 0%nat (Next 3))])) in
  trace_live tr = [(0, 1%nat); (1, 2%nat)] /\ outer_open tr = true /\ length (hands tr) = 3%nat
  /\ gbu_find 1 (trace_live tr) = Some 2%nat /\ gbu_find 5 (trace_live tr) = None
  /\ gbu_is_live 1 (trace_live tr) = true /\ gbu_is_live 0 (trace_live tr) = false.
Proof. vm_compute. repeat split; reflexivity. Qed.

(* ---- partition with ANY number of simultaneous subscriptions of the same output: WHOLE RUNS ------------
   total predicate; EVERY input sequence (subscriptions / disposals of either output in any number at any time,
   source notifications conforming or not): output g shows exactly the trace of the counting specification
   pv_view (Ops/PartitionMultiFacts.v) -- an element of g's side is delivered once per subscription of g live
   when it is emitted (each subscription gets its own copy, from ITS subscription point on: the published
   source is hot, nothing is replayed), elements of the other side never, the terminal once per live
   subscription, a subscription after the terminal gets it at once, nothing is delivered (and what the source
   emits is lost) while nobody is subscribed *)
Theorem C19_partition_refines_counting_spec : forall A (pf : A -> bool) g (ins : list (Z * inp A)),
  wevents g (pt_run (fun x => Ok (pf x)) ins) = pv_view pf g ins.
Proof. exact @partition_refines_counting_spec. Qed.
Print Assumptions C19_partition_refines_counting_spec.
(* n live subscriptions of output g while a conforming source runs: every element of g's side and the terminal
   are delivered n times, one copy per subscription (n = 1: C19_partition_from_connected; n = 0: ..._silent) *)
Theorem C19_partition_from_connected_n : forall A (pf : A -> bool) subs g k (xs : list A) tm,
  wevents g (pt_run_from (fun x => Ok (pf x)) (PtSt subs true None) k (src_events xs tm))
  = flat_map (fun x => repeat (Next x) (count_of g subs)) (filter (fun x => goes_to (pf x) g) xs)
    ++ flat_map (fun e => repeat e (count_of g subs)) (term_ev tm).
Proof. exact @partition_from_connected_n. Qed.
Print Assumptions C19_partition_from_connected_n.
(* two subscriptions of the SAME output, the second made after the prefix xs1: the output shows g's side of
   xs1 once (first subscription only), g's side of xs2 twice and the terminal twice -- the first subscription
   gets g's side of xs1 ++ xs2, the second g's side of xs2 only *)
Theorem C19_partition_same_output_twice : forall A (pf : A -> bool) g (xs1 xs2 : list A) tm,
  wevents g (pt_run (fun x => Ok (pf x)) ((0, ISubWin g) :: src_events xs1 TNever ++ (0, ISubWin g) :: src_events xs2 tm))
  = map Next (filter (fun x => goes_to (pf x) g) xs1)
    ++ flat_map (fun x => [Next x; Next x]) (filter (fun x => goes_to (pf x) g) xs2)
    ++ flat_map (fun e => [e; e]) (term_ev tm).
Proof. exact @partition_same_output_twice. Qed.
Print Assumptions C19_partition_same_output_twice.
Example C19_witness_partition_multi :
  (* output 0 subscribed, 3 8; output 0 subscribed again, 9 4; one subscription of 0 disposed, 1; output 1
     subscribed, 7 2, done; output 0 subscribed after the end *)
  let ins := [(0, ISubWin 0%nat); (1, ISrc 0%nat (Next 3)); (2, ISrc 0%nat (Next 8)); (3, ISubWin 0%nat);
              (4, ISrc 0%nat (Next 9)); (5, ISrc 0%nat (Next 4)); (6, IUnsubWin 0%nat); (7, ISrc 0%nat (Next 1));
              (8, ISubWin 1%nat); (9, ISrc 0%nat (Next 7)); (10, ISrc 0%nat (Next 2)); (11, ISrc 0%nat Done);
              (12, ISubWin 0%nat)] in
  pv_view (fun x => x <? 5) 0 ins = [Next 3; Next 4; Next 4; Next 1; Next 2; Done; Done]
  /\ pv_view (fun x => x <? 5) 1 ins = [Next 7; Done]
  /\ wevents 0 (pt_run (fun x => Ok (x <? 5)) ins) = pv_view (fun x => x <? 5) 0 ins.
Proof. vm_compute. repeat split; reflexivity. Qed.
