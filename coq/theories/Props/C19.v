(* C19 -- grouping (placeholder, filled below). *)
From RxVerif Require Import Base.Prelude Ops.Machine Ops.MultiWin Ops.Groups.
Example C19_placeholder : (1 + 1 = 2)%nat. Proof. reflexivity. Qed.
