(* C19 -- grouping routes each element to exactly one live group.
   Machines: Ops/Groups.v (group_by_until / group_by as a machine of the window-aware runner
   Ops/MultiWin.v; partition = publish + ref_count + two filters as a model of its own). *)
From RxVerif Require Import Base.Prelude Ops.Machine Ops.MultiWin Ops.MultiWinFacts Ops.Groups Ops.GroupFacts
  Ops.WindowCountFacts Ops.GroupRunFacts Ops.GroupsSubject Ops.GroupsIndexed Ops.GroupsIndexedFacts Ops.PartitionRunFacts.

(* ---- group_by / group_by_until: EVERY state (= every input history), every callback -------- *)
(* the key has a live writer: the element goes to that group and nowhere else; no group is handed *)
Theorem C19_group_existing : forall A W B (key : A -> res Z) (elem : A -> res W) (dur : nat -> res bool) s now (x : A) k g (y : W),
  key x = Ok k -> gb_lookup k (gb_writers s) = Some g -> elem x = Ok y ->
  x_step (x_group_by_until (B:=B) key elem dur) s now (ISrc 0%nat (Next x)) = (s, [CWin g (Next y)], Cont).
Proof. exact @group_existing. Qed.
(* the key has no live writer (first time seen, or its group expired): a NEW group with a fresh id is
   handed with that key, its duration is subscribed, the element goes to the new group only *)
Theorem C19_group_new : forall A W B (key : A -> res Z) (elem : A -> res W) (dur : nat -> res bool) s now (x : A) k hot (y : W),
  key x = Ok k -> gb_lookup k (gb_writers s) = None -> dur (gb_calls s) = Ok hot -> elem x = Ok y ->
  x_step (x_group_by_until (B:=B) key elem dur) s now (ISrc 0%nat (Next x))
  = (GbSt (gb_writers s ++ [(k, gb_next s, if hot then S (gb_calls s) else 0%nat)]) (S (gb_next s)) (S (gb_calls s)),
     CHand (gb_next s) k :: (if hot then [CSub (S (gb_calls s))] else []) ++ [CWin (gb_next s) (Next y)], Cont).
Proof. exact @group_new. Qed.
Theorem C19_group_new_iff : forall A W B (key : A -> res Z) (elem : A -> res W) (dur : nat -> res bool) s now (x : A) k,
  key x = Ok k ->
  (ghands (snd (fst (x_step (x_group_by_until (W:=W) (B:=B) key elem dur) s now (ISrc 0%nat (Next x))))) <> []
   <-> gb_lookup k (gb_writers s) = None /\ exists hot, dur (gb_calls s) = Ok hot).
Proof. exact @group_new_iff. Qed.
(* every routed element goes to exactly ONE group: the group of its key *)
Theorem C19_group_route_one : forall A W B (key : A -> res Z) (elem : A -> res W) (dur : nat -> res bool) s now (x : A),
  snd (x_step (x_group_by_until (W:=W) (B:=B) key elem dur) s now (ISrc 0%nat (Next x))) = Cont ->
  exists g y, gwin_nexts (snd (fst (x_step (x_group_by_until (W:=W) (B:=B) key elem dur) s now (ISrc 0%nat (Next x))))) = [(g, y)]
              /\ elem x = Ok y
              /\ exists k, key x = Ok k
                 /\ g = match gb_lookup k (gb_writers s) with Some g0 => g0 | None => gb_next s end.
Proof. exact @group_route_one. Qed.
Print Assumptions C19_group_existing.
Print Assumptions C19_group_new.
Print Assumptions C19_group_new_iff.
Print Assumptions C19_group_route_one.

(* every open group ends with the source's terminal; so does the outer *)
Theorem C19_group_source_done : forall A W B (key : A -> res Z) (elem : A -> res W) (dur : nat -> res bool) s now,
  x_step (x_group_by_until (A:=A) (W:=W) (B:=B) key elem dur) s now (ISrc 0%nat Done)
  = (s, gb_all (gb_writers s) Done, Complete).
Proof. exact @group_source_done. Qed.
(* an error of the source OR of a duration observable reaches every open group and the outer *)
Theorem C19_group_error_fanout : forall A W B (key : A -> res Z) (elem : A -> res W) (dur : nat -> res bool) s now k e,
  x_step (x_group_by_until (A:=A) (W:=W) (B:=B) key elem dur) s now (ISrc k (Err e))
  = (s, gb_all (gb_writers s) (Err e), Fail e).
Proof. exact @group_source_error. Qed.
(* raising callbacks *)
Theorem C19_group_key_raises : forall A W B (key : A -> res Z) (elem : A -> res W) (dur : nat -> res bool) s now (x : A) e,
  key x = Raise e ->
  x_step (x_group_by_until (W:=W) (B:=B) key elem dur) s now (ISrc 0%nat (Next x))
  = (s, gb_all (gb_writers s) (Err e), Fail e).
Proof. exact @group_key_raises. Qed.
Theorem C19_group_elem_raises_existing : forall A W B (key : A -> res Z) (elem : A -> res W) (dur : nat -> res bool) s now (x : A) k g e,
  key x = Ok k -> gb_lookup k (gb_writers s) = Some g -> elem x = Raise e ->
  x_step (x_group_by_until (W:=W) (B:=B) key elem dur) s now (ISrc 0%nat (Next x))
  = (s, gb_all (gb_writers s) (Err e), Fail e).
Proof. exact @group_elem_raises_existing. Qed.
Theorem C19_group_elem_raises_new : forall A W B (key : A -> res Z) (elem : A -> res W) (dur : nat -> res bool) s now (x : A) k hot e,
  key x = Ok k -> gb_lookup k (gb_writers s) = None -> dur (gb_calls s) = Ok hot -> elem x = Raise e ->
  let ws := gb_writers s ++ [(k, gb_next s, if hot then S (gb_calls s) else 0%nat)] in
  x_step (x_group_by_until (W:=W) (B:=B) key elem dur) s now (ISrc 0%nat (Next x))
  = (GbSt ws (S (gb_next s)) (S (gb_calls s)),
     CHand (gb_next s) k :: (if hot then [CSub (S (gb_calls s))] else []) ++ gb_all ws (Err e), Fail e).
Proof. exact @group_elem_raises_new. Qed.
Theorem C19_group_dur_raises : forall A W B (key : A -> res Z) (elem : A -> res W) (dur : nat -> res bool) s now (x : A) k e,
  key x = Ok k -> gb_lookup k (gb_writers s) = None -> dur (gb_calls s) = Raise e ->
  x_step (x_group_by_until (W:=W) (B:=B) key elem dur) s now (ISrc 0%nat (Next x))
  = (GbSt (gb_writers s ++ [(k, gb_next s, 0%nat)]) (S (gb_next s)) (S (gb_calls s)),
     gb_all (gb_writers s ++ [(k, gb_next s, 0%nat)]) (Err e), Fail e).
Proof. exact @group_dur_raises. Qed.
Print Assumptions C19_group_source_done.
Print Assumptions C19_group_error_fanout.
Print Assumptions C19_group_key_raises.
Print Assumptions C19_group_elem_raises_existing.
Print Assumptions C19_group_elem_raises_new.
Print Assumptions C19_group_dur_raises.

(* expiry and re-creation *)
Theorem C19_group_expire : forall A W B (key : A -> res Z) (elem : A -> res W) (dur : nat -> res bool) s now d (e : ev A) k g,
  (forall z, e <> Err z) -> gb_by_dur (S d) (gb_writers s) = Some (k, g) ->
  x_step (x_group_by_until (W:=W) (B:=B) key elem dur) s now (ISrc (S d) e)
  = (GbSt (gb_del k (gb_writers s)) (gb_next s) (gb_calls s), [CWin g Done; CUnsub (S d)], Cont).
Proof. exact @group_expire. Qed.
Theorem C19_group_recreate_after_expiry : forall A W B (key : A -> res Z) (elem : A -> res W) (dur : nat -> res bool) s now d (e : ev A) k g,
  gb_inv s -> (forall z, e <> Err z) -> gb_by_dur (S d) (gb_writers s) = Some (k, g) ->
  gb_lookup k (gb_writers (fst (fst (x_step (x_group_by_until (W:=W) (B:=B) key elem dur) s now (ISrc (S d) e))))) = None.
Proof. exact @group_recreate_after_expiry. Qed.
(* the writers table is a dict (keys unique, ids fresh) in every reachable state *)
Theorem C19_group_invariant_always : forall A W B (key : A -> res Z) (elem : A -> res W) (dur : nat -> res bool) (imm : nat -> bool) (ins : list (Z * inp A)),
  gb_inv (fst (after imm (x_group_by_until (W:=W) (B:=B) key elem dur)
                     (fst (start_state imm (x_group_by_until (W:=W) (B:=B) key elem dur)))
                     (snd (start_state imm (x_group_by_until (W:=W) (B:=B) key elem dur))) ins)).
Proof. exact @gb_inv_always. Qed.
Print Assumptions C19_group_expire.
Print Assumptions C19_group_recreate_after_expiry.
Print Assumptions C19_group_invariant_always.

(* ---- group_by as a dict of lists: CLOSED FORM for total key / element functions, every finite source,
   every termination, every group subscribed when handed ------------------------------------------- *)
(* group j is the group of the j-th distinct key (first-occurrence order); it receives exactly the mapped
   elements with that key, in arrival order, then the source's terminal *)
Theorem C19_group_by_closed_form : forall A W B (kf : A -> Z) (ef : A -> W) (xs : list A) (tm : term) (j : nat),
  wevents j (fst (run all_imm (x_group_by (B:=B) (fun x => Ok (kf x)) (fun x => Ok (ef x))) (src_events xs tm)))
  = match nth_error (distinct_keys kf xs) j with
    | Some k => map Next (map ef (filter (fun y => kf y =? k) xs)) ++ term_ev tm
    | None => []
    end.
Proof. exact @group_by_closed_form. Qed.
Theorem C19_group_by_hands : forall A W B (kf : A -> Z) (ef : A -> W) (xs : list A) (tm : term),
  hands (fst (run all_imm (x_group_by (B:=B) (fun x => Ok (kf x)) (fun x => Ok (ef x))) (src_events xs tm)))
  = combine (seq 0 (length (distinct_keys kf xs))) (distinct_keys kf xs).
Proof. exact @group_by_hands. Qed.
Print Assumptions C19_group_by_closed_form.
Print Assumptions C19_group_by_hands.

(* ---- release clauses (C02/C03 for handed groups): EVERY machine, policy, input sequence ------ *)
Theorem C19_release_when_all_ended : forall A W B (imm : nat -> bool) (m : machine A W B) ins,
  r_outer (snd (run imm m ins)) = false -> r_wsubs (snd (run imm m ins)) = [] ->
  r_live (snd (run imm m ins)) = [] /\ r_timers (snd (run imm m ins)) = [].
Proof. exact @run_all_ended_released. Qed.
Theorem C19_source_stays_subscribed : forall A W B (imm : nat -> bool) (m : machine A W B) k ins s r,
  never_unsubs m k -> mem k (r_live r) = true ->
  (forall now e, In (now, ISrc k e) ins -> is_terminal e = false) ->
  r_released (snd (after imm m s r ins)) = false ->
  mem k (r_live (snd (after imm m s r ins))) = true.
Proof. exact @source_stays_subscribed. Qed.
Theorem C19_group_keeps_source : forall A W B (key : A -> res Z) (elem : A -> res W) (dur : nat -> res bool),
  never_unsubs (x_group_by_until (A:=A) (W:=W) (B:=B) key elem dur) 0%nat.
Proof. exact @group_never_unsubs_source. Qed.
Print Assumptions C19_release_when_all_ended.
Print Assumptions C19_source_stays_subscribed.
Print Assumptions C19_group_keeps_source.

(* ---- partition ----------------------------------------------------------------------------- *)
(* a non-raising predicate sends the element to the subscribers of output 0 if it holds, of output 1
   otherwise; nothing else happens *)
Theorem C19_partition_deliver : forall A (pred : A -> res bool) (x : A) b, pred x = Ok b ->
  forall todo subs conn,
  pt_deliver pred x todo subs conn = (subs, conn, map (fun g => OWin g (Next x)) (filter (goes_to b) todo)).
Proof. exact @partition_deliver. Qed.
(* exactly one of the two outputs, never both *)
Theorem C19_partition_exactly_one : forall A (pred : A -> res bool) (x : A) b s,
  pred x = Ok b -> pt_conn s = true -> pt_stopped s = None ->
  let o := snd (pt_step pred s (ISrc 0%nat (Next x))) in
  (forall g, In (OWin g (Next x)) o <-> In g (pt_subs s) /\ goes_to b g = true)
  /\ ~ (In (OWin 0%nat (Next x)) o /\ In (OWin 1%nat (Next x)) o)
  /\ fst (pt_step pred s (ISrc 0%nat (Next x))) = s.
Proof. exact @partition_exactly_one. Qed.
(* the source is subscribed iff some output subscriber is live, in every reachable state *)
Theorem C19_partition_connected_iff_subscribed : forall A (pred : A -> res bool) (ins : list (Z * inp A)),
  pt_inv (pt_after pred (PtSt [] false None) ins).
Proof. exact @pt_inv_always. Qed.
Theorem C19_partition_last_leaves : forall A (pred : A -> res bool) s g, pt_inv s -> pt_subs s = [g] ->
  pt_step pred s (IUnsubWin g) = (PtSt [] false (pt_stopped s), [OUnsub 0%nat]).
Proof. exact @partition_last_leaves. Qed.
Theorem C19_partition_other_stays : forall A (pred : A -> res bool) s g,
  mem g (pt_subs s) = true -> remove g (pt_subs s) <> [] ->
  pt_step pred s (IUnsubWin g) = (PtSt (remove g (pt_subs s)) (pt_conn s) (pt_stopped s), []).
Proof. exact @partition_other_stays. Qed.
Print Assumptions C19_partition_deliver.
Print Assumptions C19_partition_exactly_one.
Print Assumptions C19_partition_connected_iff_subscribed.
Print Assumptions C19_partition_last_leaves.
Print Assumptions C19_partition_other_stays.

(* ---- subject_mapper (custom subject factory of group_by / group_by_until): EVERY state ---------- *)
(* the key has a live writer: the factory is not consulted; the step is the one of the default factory *)
Theorem C19_subject_factory_not_consulted : forall A W B (key : A -> res Z) (elem : A -> res W) (dur : nat -> res bool)
    (subj : nat -> res unit) s now (x : A) k g,
  key x = Ok k -> gb_lookup k (gb_writers s) = Some g ->
  x_step (x_group_by_until_sm (B:=B) key elem dur subj) s now (ISrc 0%nat (Next x))
  = x_step (x_group_by_until (B:=B) key elem dur) s now (ISrc 0%nat (Next x)).
Proof. exact @group_sm_existing. Qed.
(* the key has no live writer and the factory raises: every open group and the outer get the error; no
   group is handed, the element goes nowhere, the state is unchanged *)
Theorem C19_subject_factory_raises : forall A W B (key : A -> res Z) (elem : A -> res W) (dur : nat -> res bool)
    (subj : nat -> res unit) s now (x : A) k e,
  key x = Ok k -> gb_lookup k (gb_writers s) = None -> subj (gb_calls s) = Raise e ->
  x_step (x_group_by_until_sm (B:=B) key elem dur subj) s now (ISrc 0%nat (Next x))
  = (s, gb_all (gb_writers s) (Err e), Fail e).
Proof. exact @group_sm_raises. Qed.
Theorem C19_subject_factory_raises_no_group : forall A W B (key : A -> res Z) (elem : A -> res W) (dur : nat -> res bool)
    (subj : nat -> res unit) s now (x : A) k e,
  key x = Ok k -> gb_lookup k (gb_writers s) = None -> subj (gb_calls s) = Raise e ->
  ghands (snd (fst (x_step (x_group_by_until_sm (B:=B) key elem dur subj) s now (ISrc 0%nat (Next x))))) = []
  /\ gwin_nexts (snd (fst (x_step (x_group_by_until_sm (B:=B) key elem dur subj) s now (ISrc 0%nat (Next x))))) = [].
Proof. exact @group_sm_raises_no_hand. Qed.
(* a factory that never raises: the machine is the machine of the default factory, at every step and
   hence on every run -- all theorems above hold with a custom factory *)
Theorem C19_subject_factory_total_step : forall A W B (key : A -> res Z) (elem : A -> res W) (dur : nat -> res bool)
    (subj : nat -> res unit), (forall j, exists u, subj j = Ok u) ->
  forall s now i, x_step (x_group_by_until_sm (B:=B) key elem dur subj) s now i
                  = x_step (x_group_by_until (B:=B) key elem dur) s now i.
Proof. exact @group_sm_total_step. Qed.
Theorem C19_subject_factory_total_run : forall A W B (key : A -> res Z) (elem : A -> res W) (dur : nat -> res bool)
    (subj : nat -> res unit) (imm : nat -> bool), (forall j, exists u, subj j = Ok u) ->
  forall ins, run imm (x_group_by_until_sm (B:=B) key elem dur subj) ins
              = run imm (x_group_by_until (B:=B) key elem dur) ins.
Proof. exact @group_sm_total_run. Qed.
Theorem C19_group_by_subject_factory_closed_form : forall A W B (kf : A -> Z) (ef : A -> W) (subj : nat -> res unit),
  (forall j, exists u, subj j = Ok u) -> forall (xs : list A) (tm : term) (j : nat),
  wevents j (fst (run all_imm (x_group_by_until_sm (B:=B) (fun x => Ok (kf x)) (fun x => Ok (ef x))
                                  (fun _ => Ok false) subj) (src_events xs tm)))
  = match nth_error (distinct_keys kf xs) j with
    | Some k => map Next (map ef (filter (fun y => kf y =? k) xs)) ++ term_ev tm
    | None => []
    end.
Proof. exact @group_by_sm_closed_form. Qed.
Theorem C19_subject_factory_invariant : forall A W B (key : A -> res Z) (elem : A -> res W) (dur : nat -> res bool)
    (subj : nat -> res unit) s now i,
  gb_inv s -> gb_inv (fst (fst (x_step (x_group_by_until_sm (B:=B) key elem dur subj) s now i))).
Proof. exact @gbs_inv_step. Qed.
Theorem C19_subject_factory_keeps_source : forall A W B (key : A -> res Z) (elem : A -> res W) (dur : nat -> res bool)
    (subj : nat -> res unit), never_unsubs (x_group_by_until_sm (A:=A) (W:=W) (B:=B) key elem dur subj) 0%nat.
Proof. exact @group_sm_never_unsubs_source. Qed.
Print Assumptions C19_subject_factory_not_consulted.
Print Assumptions C19_subject_factory_raises.
Print Assumptions C19_subject_factory_raises_no_group.
Print Assumptions C19_subject_factory_total_step.
Print Assumptions C19_subject_factory_total_run.
Print Assumptions C19_group_by_subject_factory_closed_form.
Print Assumptions C19_subject_factory_invariant.
Print Assumptions C19_subject_factory_keeps_source.

(* ---- partition_indexed: EVERY state ------------------------------------------------------------ *)
(* a non-raising indexed predicate: the element reaches exactly the subscribers whose verdict -- the
   predicate at THAT subscriber's own index -- selects their output; every index advances by one *)
Theorem C19_partition_indexed_routing : forall A (pred : A -> nat -> res bool) (x : A) (pb : nat -> bool) s,
  pti_conn s = true -> pti_stopped s = None ->
  (forall g c, In (g, c) (pti_subs s) -> pred x c = Ok (pb c)) ->
  let '(s', o) := pti_step pred s (ISrc 0%nat (Next x)) in
  (forall g, In (OWin g (Next x)) o <-> exists c, In (g, c) (pti_subs s) /\ goes_to_i (pb c) g = true)
  /\ s' = PtiSt (pti_bumped (pti_subs s)) true None.
Proof. exact @partition_indexed_routing. Qed.
(* subscribers that share an index (all of them subscribed before the first element, say): exactly one of
   the two outputs, never both; they still share an index afterwards *)
Theorem C19_partition_indexed_exactly_one : forall A (pred : A -> nat -> res bool) (x : A) b c s,
  pti_conn s = true -> pti_stopped s = None ->
  (forall g c', In (g, c') (pti_subs s) -> c' = c) -> pred x c = Ok b ->
  let '(s', o) := pti_step pred s (ISrc 0%nat (Next x)) in
  (forall g, In (OWin g (Next x)) o <-> In g (pti_outs (pti_subs s)) /\ goes_to_i b g = true)
  /\ ~ (In (OWin 0%nat (Next x)) o /\ In (OWin 1%nat (Next x)) o)
  /\ pti_subs s' = map (fun gc => (fst gc, S c)) (pti_subs s)
  /\ (forall g c', In (g, c') (pti_subs s') -> c' = S c).
Proof. exact @partition_indexed_exactly_one. Qed.
Theorem C19_partition_indexed_fresh_index : forall A (pred : A -> nat -> res bool) s g, pti_stopped s = None ->
  pti_subs (fst (pti_step pred s (ISubWin g))) = pti_subs s ++ [(g, 0%nat)].
Proof. exact @partition_indexed_fresh_index. Qed.
Theorem C19_partition_indexed_connected_iff_subscribed : forall A (pred : A -> nat -> res bool) (ins : list (Z * inp A)),
  pti_inv (pti_after pred (PtiSt [] false None) ins).
Proof. exact @pti_inv_always. Qed.
Print Assumptions C19_partition_indexed_routing.
Print Assumptions C19_partition_indexed_exactly_one.
Print Assumptions C19_partition_indexed_fresh_index.
Print Assumptions C19_partition_indexed_connected_iff_subscribed.

(* ---- witnesses ------------------------------------------------------------------------------ *)
Example C19_witness_group_by :
  (* key = parity; 0 is a falsy key; every group subscribed when handed *)
  let tr := fst (run all_imm (x_group_by (B:=unit) (fun x => Ok (x mod 2)) (fun x => Ok (10 * x)))
                     [(0, ISrc 0%nat (Next 1)); (0, ISrc 0%nat (Next 2)); (0, ISrc 0%nat (Next 3));
                      (0, ISrc 0%nat (Next 4)); (0, ISrc 0%nat Done)]) in
  hands tr = [(0%nat, 1); (1%nat, 0)]
  /\ wevents 0 tr = [Next 10; Next 30; Done] /\ wevents 1 tr = [Next 20; Next 40; Done]
  /\ emitted tr = [Done].
Proof. vm_compute. auto. Qed.
Example C19_witness_expiry_and_rebirth :
  let tr := fst (run all_imm (x_group_by_until (B:=unit) (fun _ => Ok 0) (fun x => Ok x) (fun _ => Ok true))
                     [(0, ISrc 0%nat (Next 1)); (1, ISrc 1%nat (Next 99)); (2, ISrc 0%nat (Next 2));
                      (3, ISrc 0%nat (Err 7))]) in
  hands tr = [(0%nat, 0); (1%nat, 0)]
  /\ wevents 0 tr = [Next 1; Done] /\ wevents 1 tr = [Next 2; Err 7] /\ emitted tr = [Err 7].
Proof. vm_compute. auto. Qed.
Example C19_witness_partition :
  map snd (pt_run (fun x => Ok (x <? 5))
      [(0, ISubWin 0%nat); (0, ISubWin 1%nat); (1, ISrc 0%nat (Next 3)); (2, ISrc 0%nat (Next 8));
       (3, IUnsubWin 0%nat); (4, ISrc 0%nat (Next 4)); (5, IUnsubWin 1%nat); (6, ISrc 0%nat (Next 9))])
  = [OSub 0%nat; OWin 0%nat (Next 3); OWin 1%nat (Next 8); OUnsub 0%nat].
Proof. vm_compute. reflexivity. Qed.
Example C19_witness_subject_factory_raises :
  (* the factory raises at its second call: key 1 gets a group, key 0 does not -- everything errors *)
  let tr := fst (run all_imm (x_group_by_until_sm (B:=unit) (fun x => Ok (x mod 2)) (fun x => Ok x) (fun _ => Ok false)
                                (fun j => if Nat.eqb j 1 then Raise 85 else Ok tt))
                     [(0, ISrc 0%nat (Next 1)); (0, ISrc 0%nat (Next 3)); (0, ISrc 0%nat (Next 2));
                      (0, ISrc 0%nat (Next 5))]) in
  hands tr = [(0%nat, 1)] /\ wevents 0 tr = [Next 1; Next 3; Err 85] /\ emitted tr = [Err 85].
Proof. vm_compute. auto. Qed.
Example C19_witness_partition_indexed :
  (* predicate_indexed = (i is even).  Both outputs subscribed from the start share the index: 10 goes to
     output 0 only.  Output 1 then leaves and re-subscribes: its index restarts at 0 while output 0 is at 1,
     so 20 reaches neither output and 30 reaches both (each subscriber is served by its own index) *)
  map snd (pti_run (fun (_ : Z) i => Ok (Nat.even i))
      [(0, ISubWin 0%nat); (0, ISubWin 1%nat); (1, ISrc 0%nat (Next 10)); (2, IUnsubWin 1%nat); (3, ISubWin 1%nat);
       (4, ISrc 0%nat (Next 20)); (5, ISrc 0%nat (Next 30)); (6, ISrc 0%nat Done)])
  = [OSub 0%nat; OWin 0%nat (Next 10); OWin 0%nat (Next 30); OWin 1%nat (Next 30);
     OWin 0%nat Done; OWin 1%nat Done; OUnsub 0%nat].
Proof. vm_compute. reflexivity. Qed.

(* ---- partition: whole runs (Ops/PartitionRunFacts.v) ---------------------------------------- *)
(* total predicate, conforming source, both outputs subscribed before the source emits: output 0 receives
   exactly the elements satisfying the predicate, output 1 exactly the others, each in source order and
   followed by the source's terminal (ALL xs, all three terminations) *)
Theorem C19_partition_closed_form : forall A (pf : A -> bool) (xs : list A) tm,
  let tr := pt_run (fun x => Ok (pf x)) ((0, ISubWin 0%nat) :: (0, ISubWin 1%nat) :: src_events xs tm) in
  wevents 0 tr = map Next (filter pf xs) ++ term_ev tm
  /\ wevents 1 tr = map Next (filter (fun x => negb (pf x)) xs) ++ term_ev tm.
Proof. exact @partition_closed_form. Qed.
Print Assumptions C19_partition_closed_form.
(* the same from ANY connected, unstopped state: an output with exactly one live subscription (whatever
   else is subscribed, in whatever order) receives its side of the predicate ... *)
Theorem C19_partition_from_connected : forall A (pf : A -> bool) subs g k (xs : list A) tm,
  count_of g subs = 1%nat ->
  wevents g (pt_run_from (fun x => Ok (pf x)) (PtSt subs true None) k (src_events xs tm))
  = map Next (filter (fun x => goes_to (pf x) g) xs) ++ term_ev tm.
Proof. exact @partition_from_connected. Qed.
Print Assumptions C19_partition_from_connected.
(* ... and an output nobody is subscribed to sees nothing, not even the terminal *)
Theorem C19_partition_unsubscribed_output_silent : forall A (pf : A -> bool) subs g k (xs : list A) tm,
  count_of g subs = 0%nat ->
  wevents g (pt_run_from (fun x => Ok (pf x)) (PtSt subs true None) k (src_events xs tm)) = [].
Proof. exact @partition_unsubscribed_silent. Qed.
Print Assumptions C19_partition_unsubscribed_output_silent.
(* the published source is shared and hot: output 1 subscribed after the prefix xs1 misses its share of
   xs1; output 0 sees its share of everything *)
Theorem C19_partition_late_subscriber : forall A (pf : A -> bool) (xs1 xs2 : list A) tm,
  let tr := pt_run (fun x => Ok (pf x)) ((0, ISubWin 0%nat) :: src_events xs1 TNever
                                         ++ (0, ISubWin 1%nat) :: src_events xs2 tm) in
  wevents 0 tr = map Next (filter pf (xs1 ++ xs2)) ++ term_ev tm
  /\ wevents 1 tr = map Next (filter (fun x => negb (pf x)) xs2) ++ term_ev tm.
Proof. exact @partition_late_subscriber. Qed.
Print Assumptions C19_partition_late_subscriber.
Example C19_witness_partition_late_subscriber :
  let tr := pt_run (fun x => Ok (x <? 5)) ((0, ISubWin 0%nat) :: src_events [3; 8] TNever
                                           ++ (0, ISubWin 1%nat) :: src_events [9; 4; 7] TDone) in
  wevents 0 tr = [Next 3; Next 4; Done] /\ wevents 1 tr = [Next 9; Next 7; Done].
Proof. vm_compute. auto. Qed.
