(* C24 -- multicasting shares one source subscription per connection.
   Model: Subjects/Connectable.v -- ConnectableObservable.connect / auto_connect, ref_count (share),
   publish, publish_value, replay, multicast as a machine that drives the subject engines of
   C20-C23 (Subjects/Subject.v, Subjects/Replay.v) one instruction at a time, with a hand-driven
   source that logs its own subscribe/unsubscribe instants; tied to the code by the K1/K2
   correspondence of harness/props/C24.py.
   Proofs: Subjects/ConnectableFacts.v (the connection: every engine, every call tree),
   Subjects/ConnectableCountFacts.v (ref_count, auto_connect: every engine, histories of top-level
   calls), Subjects/ConnectableViewFacts.v (what a subscriber receives: Subject / BehaviorSubject /
   AsyncSubject, histories of top-level calls). *)
From RxVerif Require Import Base.Prelude Ops.Machine Subjects.Subject Subjects.Behavior Subjects.Async
  Subjects.Family Subjects.Replay Subjects.Connectable Subjects.ConnectableFacts Subjects.ConnectableViewFacts
  Subjects.ConnectableCountFacts Subjects.ConnectableDiscFacts.

(* ---- 1. the connection.  For EVERY subject engine, every mode (plain connectable, ref_count,
        auto_connect), every cold prefix, every call tree (subscribers that subscribe, unsubscribe,
        connect, disconnect or make the source emit from inside their callbacks) and every fuel ---- *)

(* the source's own log reads  subscribe c, unsubscribe c, subscribe c', unsubscribe c', ...:
   it is subscribed at most once at any time ([src_state] = None would be a second subscribe
   while one is open, or an unsubscribe without subscription) *)
Theorem C24_source_subscribed_at_most_once :
  forall (A E_st E_in E_op : Type) (e_exec : E_in -> E_st -> E_st * list E_in * list sev)
         (e_call : sop -> list E_in) (md : mode) (reach : bool) (cold : list (ev A))
         (react : nat -> nat -> list cop) (e_drain : list E_in) (st0 : E_st) (top : list cop) (fuel : nat),
    src_state (src_log (klog_of (krun e_exec e_call md reach cold react fuel (kinit (E_op := E_op) e_drain md st0 top))))
    <> None.
Proof. exact (@source_subscribed_at_most_once). Qed.
Print Assumptions C24_source_subscribed_at_most_once.

(* while the connectable is disconnected (has_subscription is False) the source has no subscription *)
Theorem C24_no_source_subscription_while_disconnected :
  forall (A E_st E_in E_op : Type) (e_exec : E_in -> E_st -> E_st * list E_in * list sev)
         (e_call : sop -> list E_in) (md : mode) (reach : bool) (cold : list (ev A))
         (react : nat -> nat -> list cop) (e_drain : list E_in) (st0 : E_st) (top : list cop) (fuel : nat),
    let c := krun e_exec e_call md reach cold react fuel (kinit (E_op := E_op) e_drain md st0 top) in
    has_sub (k_bk c) = false -> src_state (src_log (klog_of c)) = Some None.
Proof. exact (@no_source_subscription_while_disconnected). Qed.
Print Assumptions C24_no_source_subscription_while_disconnected.

(* a source record that is alive is THE open subscription of the log and belongs to the latest
   connection: there is never a second one *)
Theorem C24_open_subscription_is_the_latest_connection :
  forall (A E_st E_in E_op : Type) (e_exec : E_in -> E_st -> E_st * list E_in * list sev)
         (e_call : sop -> list E_in) (md : mode) (reach : bool) (cold : list (ev A))
         (react : nat -> nat -> list cop) (e_drain : list E_in) (st0 : E_st) (top : list cop) (fuel cid : nat),
    let c := krun e_exec e_call md reach cold react fuel (kinit (E_op := E_op) e_drain md st0 top) in
    (cid < blen (k_bk c))%nat -> s_live (get_conn (k_bk c) cid) = true ->
    blen (k_bk c) = S cid /\ src_state (src_log (klog_of c)) = Some (Some cid).
Proof. exact (@open_subscription_is_the_latest_connection). Qed.
Print Assumptions C24_open_subscription_is_the_latest_connection.

(* disposing the handle returned by connect() RELEASES the source: in every configuration reached
   on any call tree, when the driver (or a subscriber from inside a callback) disposes the j-th
   connect() result and that connection has not been disposed yet, the step leaves the connectable
   disconnected, the source's log closed (no open subscription), and logs exactly the operation
   followed by the source's unsubscription if that subscription was still alive (nothing if the
   source had already ended it) *)
Theorem C24_disconnect_releases_the_source :
  forall (A E_st E_in E_op : Type) (e_exec : E_in -> E_st -> E_st * list E_in * list sev)
         (e_call : sop -> list E_in) (md : mode) (reach : bool) (cold : list (ev A))
         (react : nat -> nat -> list cop) (e_drain : list E_in) (st0 : E_st) (top : list cop)
         (fuel j : nat) (k : list kinstr) (cid : nat),
    let c := krun e_exec e_call md reach cold react fuel (kinit (E_op := E_op) e_drain md st0 top) in
    k_k c = KOp (CDisc j) :: k ->
    nth_error (handles (k_bk c)) j = Some (Some cid) ->
    comp_disposed (get_conn (k_bk c) cid) = false ->
    has_sub (k_bk (kstep e_exec e_call md reach cold react c)) = false /\
    src_state (src_log (klog_of (kstep e_exec e_call md reach cold react c))) = Some None /\
    klog_of (kstep e_exec e_call md reach cold react c) =
      klog_of c ++ CEOp (CDisc j) :: (if s_live (get_conn (k_bk c) cid) then [CESUnsub cid] else []).
Proof. exact (@disconnect_releases). Qed.
Print Assumptions C24_disconnect_releases_the_source.

(* ... and a handle whose connection is already over is inert: it does not touch the book (in
   particular not the current connection) and logs nothing but the operation *)
Theorem C24_stale_handle_is_inert :
  forall (A E_st E_in E_op : Type) (e_exec : E_in -> E_st -> E_st * list E_in * list sev)
         (e_call : sop -> list E_in) (md : mode) (reach : bool) (cold : list (ev A))
         (react : nat -> nat -> list cop) (c : @kcfg A E_st E_in E_op) (j : nat) (k : list kinstr) (cid : nat),
    k_k c = KOp (CDisc j) :: k ->
    nth_error (handles (k_bk c)) j = Some (Some cid) ->
    comp_disposed (get_conn (k_bk c) cid) = true ->
    k_bk (kstep e_exec e_call md reach cold react c) = k_bk c /\
    klog_of (kstep e_exec e_call md reach cold react c) = klog_of c ++ [CEOp (CDisc j)].
Proof. exact (@stale_handle_is_inert). Qed.
Print Assumptions C24_stale_handle_is_inert.

(* the hypotheses of C24_disconnect_releases_the_source hold in a reachable configuration in which
   the source subscription is open *)
Example C24_witness_disconnect_hyp :
  let c := krun (sync_exec (cls_of 0 KSubject)) sync_call MPlain true [] (fun _ _ => []) 11
             (kinit [] MPlain (sync_init 0) [CSub 0%nat; CConnect; CNext 5; CDisc 0%nat; CNext 6]) in
  k_k c = [KOp (CDisc 0%nat); KOp (CNext 6)] /\
  nth_error (handles (k_bk c)) 0 = Some (Some 0%nat) /\
  comp_disposed (get_conn (k_bk c) 0) = false /\ s_live (get_conn (k_bk c) 0) = true /\
  src_state (src_log (klog_of c)) = Some (Some 0%nat).
Proof. vm_compute. repeat split; reflexivity. Qed.

(* connect() while connected subscribes nothing: the caller just gets the current disposable *)
Theorem C24_second_connect_does_not_subscribe :
  forall (A E_st E_in E_op : Type) (e_exec : E_in -> E_st -> E_st * list E_in * list sev)
         (e_call : sop -> list E_in) (md : mode) (reach : bool) (cold : list (ev A))
         (react : nat -> nat -> list cop) (st : E_st) (b : book) (m : outmap) (w : caller)
         (k : list kinstr) (l : list (@cevent A E_op)),
    has_sub b = true ->
    kstep e_exec e_call md reach cold react (KCfg st b m (KConnect w :: k) l) =
    KCfg st (conn_return w (cur b) b) m k l.
Proof. exact (@connect_while_connected). Qed.
Print Assumptions C24_second_connect_does_not_subscribe.

(* connect() while disconnected subscribes the source exactly once, before anything else happens *)
Theorem C24_connect_subscribes_once :
  forall (A E_st E_in E_op : Type) (e_exec : E_in -> E_st -> E_st * list E_in * list sev)
         (e_call : sop -> list E_in) (md : mode) (reach : bool) (cold : list (ev A))
         (react : nat -> nat -> list cop) (st : E_st) (b : book) (m : outmap) (w : caller)
         (k : list kinstr) (l : list (@cevent A E_op)),
    has_sub b = false ->
    kstep e_exec e_call md reach cold react (KCfg st b m (KConnect w :: k) l) =
    KCfg st (set_conns (conns b ++ [fresh_sconn]) (set_has true b)) m
         (map (KSrc (blen b)) cold ++ KConnRet (blen b) w :: k) (CESSub (blen b) :: l).
Proof. exact (@connect_while_disconnected). Qed.
Print Assumptions C24_connect_subscribes_once.

(* and nothing else ever subscribes it: per step, the number of source subscriptions in the log
   grows by one exactly when the step is a connect() made while disconnected *)
Theorem C24_only_connect_subscribes :
  forall (A E_st E_in E_op : Type) (e_exec : E_in -> E_st -> E_st * list E_in * list sev)
         (e_call : sop -> list E_in) (md : mode) (reach : bool) (cold : list (ev A))
         (react : nat -> nat -> list cop) (c : @kcfg A E_st E_in E_op),
    nssub (k_log (kstep e_exec e_call md reach cold react c)) =
    (nssub (k_log c) + match k_k c with
                       | KConnect _ :: _ => if has_sub (k_bk c) then 0 else 1
                       | _ => 0
                       end)%nat.
Proof. exact (@only_connect_subscribes). Qed.
Print Assumptions C24_only_connect_subscribes.

(* a source notification is forwarded to the subject only through a live subscription whose
   observer has not been stopped by a terminal notification or a dispose *)
Theorem C24_source_notification_needs_live_subscription :
  forall (A E_st E_in E_op : Type) (e_exec : E_in -> E_st -> E_st * list E_in * list sev)
         (e_call : sop -> list E_in) (md : mode) (reach : bool) (cold : list (ev A))
         (react : nat -> nat -> list cop) (st : E_st) (b : book) (m : outmap) (cid : nat) (n : ev A)
         (k : list kinstr) (l : list (@cevent A E_op)),
    s_live (get_conn b cid) = false \/ s_stopped (get_conn b cid) = true ->
    kstep e_exec e_call md reach cold react (KCfg st b m (KSrc cid n :: k) l) = KCfg st b m k l.
Proof. exact (@source_notification_dropped). Qed.
Print Assumptions C24_source_notification_needs_live_subscription.

(* ---- 2. ref_count / share.  Every subject engine, every cold prefix, every history of top-level
        calls (subscribers do not call back) without manual connect() / dispose of the connection ---- *)

(* connected  <=>  subscriber count > 0  -- at every instant of the run except the window inside
   subscribe() between `count += 1` and `source.connect()` (one pending KConnect) *)
Theorem C24_ref_count_connected_iff_count_positive :
  forall (A E_st E_in E_op : Type) (e_exec : E_in -> E_st -> E_st * list E_in * list sev)
         (e_call : sop -> list E_in) (reach : bool) (cold : list (ev A)) (e_drain : list E_in)
         (st0 : E_st) (top : list cop) (fuel : nat),
    Forall nomanual top ->
    let c := krun e_exec e_call MRefCount reach cold (fun _ _ => []) fuel (kinit (E_op := E_op) e_drain MRefCount st0 top) in
    has_sub (k_bk c) = (0 <? count (k_bk c) - Z.of_nat (nconnect (k_k c))).
Proof. exact (@rc_connected_iff_count). Qed.
Print Assumptions C24_ref_count_connected_iff_count_positive.

(* the count is the number of subscribers whose dispose has not run yet: those whose subscribe()
   returned and which have neither unsubscribed nor been terminated (armed), the one still inside
   subscribe() (pending KRet), those whose dispose() is in progress (pending KDec) *)
Theorem C24_ref_count_counts_subscribers :
  forall (A E_st E_in E_op : Type) (e_exec : E_in -> E_st -> E_st * list E_in * list sev)
         (e_call : sop -> list E_in) (reach : bool) (cold : list (ev A)) (e_drain : list E_in)
         (st0 : E_st) (top : list cop) (fuel : nat),
    Forall nomanual top ->
    let c := krun e_exec e_call MRefCount reach cold (fun _ _ => []) fuel (kinit (E_op := E_op) e_drain MRefCount st0 top) in
    exists L : list nat,
      NoDup L /\ (forall o : nat, oflag (k_out c) o = true -> In o L) /\
      count (k_bk c) = Z.of_nat (nact (k_out c) L + nret (k_k c) + ndec (k_k c)).
Proof. exact (@rc_count_is_subscribers). Qed.
Print Assumptions C24_ref_count_counts_subscribers.

(* the connect() ref_count makes (when the count went 0 -> 1) always finds the connectable
   disconnected, so it subscribes the source (C24_connect_subscribes_once) *)
Theorem C24_ref_count_connect_at_first_subscriber :
  forall (A E_st E_in E_op : Type) (e_exec : E_in -> E_st -> E_st * list E_in * list sev)
         (e_call : sop -> list E_in) (reach : bool) (cold : list (ev A)) (e_drain : list E_in)
         (st0 : E_st) (top : list cop) (fuel : nat) (w : caller) (k : list kinstr),
    Forall nomanual top ->
    let c := krun e_exec e_call MRefCount reach cold (fun _ _ => []) fuel (kinit (E_op := E_op) e_drain MRefCount st0 top) in
    k_k c = KConnect w :: k -> has_sub (k_bk c) = false /\ count (k_bk c) = 1.
Proof. exact (@rc_connect_subscribes). Qed.
Print Assumptions C24_ref_count_connect_at_first_subscriber.

(* ---- 3. auto_connect(n), same scope ---- *)

(* the source is subscribed at most once in the whole run: once connected, never again *)
Theorem C24_auto_connect_connects_once :
  forall (A E_st E_in E_op : Type) (e_exec : E_in -> E_st -> E_st * list E_in * list sev)
         (e_call : sop -> list E_in) (n : nat) (reach : bool) (cold : list (ev A)) (e_drain : list E_in)
         (st0 : E_st) (top : list cop) (fuel : nat),
    Forall nomanual top ->
    let c := krun e_exec e_call (MAuto n) reach cold (fun _ _ => []) fuel (kinit (E_op := E_op) e_drain (MAuto n) st0 top) in
    nssub (k_log c) = (if has_sub (k_bk c) then 1%nat else 0%nat).
Proof. exact (@auto_connects_once). Qed.
Print Assumptions C24_auto_connect_connects_once.

(* connected  <=>  at least n subscribers have arrived (window inside the n-th subscribe() excepted;
   n = 0: connected from the construction on) *)
Theorem C24_auto_connect_connected_iff_n_arrived :
  forall (A E_st E_in E_op : Type) (e_exec : E_in -> E_st -> E_st * list E_in * list sev)
         (e_call : sop -> list E_in) (n : nat) (reach : bool) (cold : list (ev A)) (e_drain : list E_in)
         (st0 : E_st) (top : list cop) (fuel : nat),
    Forall nomanual top ->
    let c := krun e_exec e_call (MAuto n) reach cold (fun _ _ => []) fuel (kinit (E_op := E_op) e_drain (MAuto n) st0 top) in
    has_sub (k_bk c) = (Z.of_nat n <=? count (k_bk c) - Z.of_nat (nconnect (k_k c))).
Proof. exact (@auto_connected_iff_arrivals). Qed.
Print Assumptions C24_auto_connect_connected_iff_n_arrived.

(* where `count` is the number of subscribe() calls made so far: +1 at each, never decremented *)
Theorem C24_auto_connect_count_counts_arrivals :
  forall (A E_st E_in E_op : Type) (e_exec : E_in -> E_st -> E_st * list E_in * list sev)
         (e_call : sop -> list E_in) (n : nat) (reach : bool) (cold : list (ev A)) (c : @kcfg A E_st E_in E_op),
    count (k_bk (kstep e_exec e_call (MAuto n) reach cold (fun _ _ => []) c)) =
    count (k_bk c) + match k_k c with KInc _ :: _ => 1 | _ => 0 end.
Proof. exact (@auto_count_counts_arrivals). Qed.
Print Assumptions C24_auto_connect_count_counts_arrivals.

(* ---- 4. what a subscriber receives.  publish / share (KSubject), publish_value (KBehavior),
        multicast(AsyncSubject()) (KAsync); plain connectable, ref_count or auto_connect; every cold
        prefix; every history of top-level calls (manual connect()/dispose included) ---- *)

(* when the history has been executed, every subscriber has received exactly what the subject
   family's specification (C20/C21/C23: nothing before its subscribe call, the greeting -- the
   current value for publish_value, the terminal notification if the subject has already ended --,
   then every notification the subject receives while it is subscribed) gives it on the sequence of
   calls made on the shared subject: the subscribers' subscribe / unsubscribe calls and the source
   notifications that came through the connection *)
Theorem C24_subscriber_receives_what_the_subject_receives :
  forall (A : Type) (pynone : A) (K : kind) (v0 : A) (md : mode) (reach : bool) (cold : list (ev A))
         (top : list cop) (fuel : nat),
    let c := krun (sync_exec (cls_of pynone K)) sync_call md reach cold (fun _ _ => []) fuel
                  (kinit [] md (sync_init v0) top) in
    k_k c = [] ->
    forall o : nat, cview o (klog_of c) = oview K o Before (g_init v0) (calls_of (klog_of c)).
Proof. exact (@multicast_view). Qed.
Print Assumptions C24_subscriber_receives_what_the_subject_receives.

(* ---- 5. multicast(subject_factory, mapper) (publish / publish_value / replay with a mapper):
        every subscription is its own multicast invocation.  Every engine, identity mapper,
        histories of top-level calls: each per-subscriber connection satisfies section 1 -- its
        source subscription log alternates and it holds no subscription while disconnected ---- *)
Theorem C24_mapper_form_one_connection_per_subscription :
  forall (A E_st E_in E_op : Type) (e_exec : E_in -> E_st -> E_st * list E_in * list sev)
         (e_call : sop -> list E_in) (e_drain : list E_in) (cold : list (ev A)) (st0 : E_st)
         (fuel : nat) (top : list cop) (o : nat) (c : @kcfg A E_st E_in E_op),
    In (o, c) (fst (mrun e_exec e_call e_drain cold st0 fuel [] top)) ->
    src_state (src_log (klog_of c)) <> None /\
    (has_sub (k_bk c) = false -> src_state (src_log (klog_of c)) = Some None).
Proof. exact (@mapper_source_log_alternates). Qed.
Print Assumptions C24_mapper_form_one_connection_per_subscription.

(* ---- witnesses (values are pool ids: 0 = None, 2 = False, 3 = '') ---- *)

(* publish: the second connect() does not subscribe again; disposing the handle it returned
   disconnects; reconnecting subscribes again; after the source completed a late subscriber gets
   only the completion *)
Example C24_witness_publish :
  run_config 0 (Config (FSync KSubject 0) MPlain true []) 1000
    ([CSub 0%nat; CConnect; CConnect; CNext 0; CDisc 1%nat; CNext 2; CConnect; CNext 3; CDone; CSub 1%nat], [])
  = ([XOp (CSub 0%nat); XOp CConnect; XSSub 0%nat; XOp CConnect; XOp (CNext 0); XGot 0%nat (Next 0);
      XOp (CDisc 1%nat); XSUnsub 0%nat; XOp (CNext 2); XOp CConnect; XSSub 1%nat; XOp (CNext 3);
      XGot 0%nat (Next 3); XOp CDone; XGot 0%nat Done; XSUnsub 1%nat; XOp (CSub 1%nat); XGot 1%nat Done], true).
Proof. vm_compute. reflexivity. Qed.

(* share: connect at 0 -> 1, disconnect at 1 -> 0, reconnect; a subscriber arriving after the
   source completed is greeted with the completion, and its 0 -> 1 -> 0 connects and disconnects *)
Example C24_witness_share :
  run_config 0 (Config (FSync KSubject 0) MRefCount false []) 1000
    ([CSub 0%nat; CSub 1%nat; CNext 0; CUnsub 0%nat; CUnsub 1%nat; CNext 2; CSub 2%nat; CNext 3; CDone; CSub 3%nat], [])
  = ([XOp (CSub 0%nat); XSSub 0%nat; XOp (CSub 1%nat); XOp (CNext 0); XGot 0%nat (Next 0); XGot 1%nat (Next 0);
      XOp (CUnsub 0%nat); XOp (CUnsub 1%nat); XSUnsub 0%nat; XOp (CNext 2); XOp (CSub 2%nat); XSSub 1%nat;
      XOp (CNext 3); XGot 2%nat (Next 3); XOp CDone; XGot 2%nat Done; XSUnsub 1%nat; XOp (CSub 3%nat);
      XGot 3%nat Done; XSSub 2%nat; XSUnsub 2%nat], true).
Proof. vm_compute. reflexivity. Qed.

(* auto_connect(2): the second ARRIVAL connects, although the first subscriber has left *)
Example C24_witness_auto_connect :
  run_config 0 (Config (FSync KSubject 0) (MAuto 2) true []) 1000
    ([CSub 0%nat; CUnsub 0%nat; CSub 1%nat; CNext 1; CSub 2%nat; CNext 2], [])
  = ([XOp (CSub 0%nat); XOp (CUnsub 0%nat); XOp (CSub 1%nat); XSSub 0%nat; XOp (CNext 1); XGot 1%nat (Next 1);
      XOp (CSub 2%nat); XOp (CNext 2); XGot 1%nat (Next 2); XGot 2%nat (Next 2)], true).
Proof. vm_compute. reflexivity. Qed.

(* publish_value(None) + ref_count: the current value first (None for the first subscriber) *)
Example C24_witness_publish_value :
  run_config 0 (Config (FSync KBehavior 0) MRefCount true []) 1000
    ([CSub 0%nat; CNext 3; CSub 1%nat; CDone; CSub 2%nat], [])
  = ([XOp (CSub 0%nat); XGot 0%nat (Next 0); XSSub 0%nat; XOp (CNext 3); XGot 0%nat (Next 3); XOp (CSub 1%nat);
      XGot 1%nat (Next 3); XOp CDone; XGot 0%nat Done; XGot 1%nat Done; XSUnsub 0%nat; XOp (CSub 2%nat);
      XGot 2%nat Done; XSSub 1%nat; XSUnsub 1%nat], true).
Proof. vm_compute. reflexivity. Qed.

(* replay(buffer_size=2) + ref_count: the last two values are replayed, also after completion *)
Example C24_witness_replay :
  run_config 0 (Config (FReplay (Some 2) None) MRefCount true []) 1000
    ([CSub 0%nat; CNext 3; CNext 4; CNext 5; CSub 1%nat; CDone; CSub 2%nat], [])
  = ([XOp (CSub 0%nat); XSSub 0%nat; XOp (CNext 3); XGot 0%nat (Next 3); XOp (CNext 4); XGot 0%nat (Next 4);
      XOp (CNext 5); XGot 0%nat (Next 5); XOp (CSub 1%nat); XGot 1%nat (Next 4); XGot 1%nat (Next 5); XOp CDone;
      XSUnsub 0%nat; XGot 0%nat Done; XGot 1%nat Done; XOp (CSub 2%nat); XSSub 1%nat; XGot 2%nat (Next 4);
      XGot 2%nat (Next 5); XGot 2%nat Done; XSUnsub 1%nat], true).
Proof. vm_compute. reflexivity. Qed.

(* re-entrancy: subscriber 0 disposes the connection from inside its first callback, in the
   middle of the delivery loop: subscriber 1 still gets that value, nobody gets the next one *)
Example C24_witness_reentrant :
  run_config 0 (Config (FSync KSubject 0) MPlain true []) 1000
    ([CSub 0%nat; CSub 1%nat; CConnect; CNext 5; CNext 6], [(0%nat, [[CDisc 0%nat]])])
  = ([XOp (CSub 0%nat); XOp (CSub 1%nat); XOp CConnect; XSSub 0%nat; XOp (CNext 5); XGot 0%nat (Next 5);
      XOp (CDisc 0%nat); XSUnsub 0%nat; XGot 1%nat (Next 5); XOp (CNext 6)], true).
Proof. vm_compute. reflexivity. Qed.

(* a cold source completing inside connect(): ref_count still disconnects (the first subscriber's
   dispose runs when its subscribe() returns), the second subscriber reconnects *)
Example C24_witness_cold :
  run_config 0 (Config (FSync KSubject 0) MRefCount true [Next 1; Next 2; Done]) 1000
    ([CSub 0%nat; CSub 1%nat], [])
  = ([XOp (CSub 0%nat); XSSub 0%nat; XGot 0%nat (Next 1); XGot 0%nat (Next 2); XGot 0%nat Done; XSUnsub 0%nat;
      XOp (CSub 1%nat); XGot 1%nat Done; XSSub 1%nat; XSUnsub 1%nat], true).
Proof. vm_compute. reflexivity. Qed.

(* the hypotheses are satisfiable: a history without manual connect, a finished run *)
Example C24_witness_hypotheses :
  Forall (@nomanual Z) [CSub 0%nat; CNext 0; CUnsub 0%nat; CDone] /\
  k_k (krun (sync_exec (cls_of 0 KSubject)) sync_call MRefCount true [] (fun _ _ => []) 100
            (kinit [] MRefCount (sync_init 0) [CSub 0%nat; CNext 0; CUnsub 0%nat; CDone])) = [].
Proof. split; [repeat constructor|vm_compute; reflexivity]. Qed.

(* publish_value(None, mapper): every subscriber gets its own BehaviorSubject (the INITIAL value,
   not the source's last one) and its own source subscription, disposed with it *)
Example C24_witness_mapper_form :
  run_mapper 0 (FSync KBehavior 0) [] 1000
    [CSub 0%nat; CNext 3; CSub 1%nat; CNext 4; CUnsub 0%nat; CDone; CSub 2%nat]
  = ([XOp (CSub 0%nat); XGot 0%nat (Next 0); XSSub 0%nat; XOp (CNext 3); XGot 0%nat (Next 3); XOp (CSub 1%nat);
      XGot 1%nat (Next 0); XSSub 1%nat; XOp (CNext 4); XGot 0%nat (Next 4); XGot 1%nat (Next 4); XOp (CUnsub 0%nat);
      XSUnsub 0%nat; XOp CDone; XGot 1%nat Done; XSUnsub 1%nat; XOp (CSub 2%nat); XGot 2%nat (Next 0); XSSub 2%nat], true).
Proof. vm_compute. reflexivity. Qed.

(* ======================================================================================
   Added after the theorem audit (second wave): P1 and P2 of audit/thm-C23-C24.md.
   Proofs: Subjects/ConnectableReplayFacts.v, Subjects/ConnectableMapperFacts.v.
   ====================================================================================== *)
From RxVerif Require Import Subjects.SubjectFacts Subjects.ReplaySpec Subjects.ReplayTreeFacts Subjects.ConnectableMapperFacts
  Subjects.ConnectableReplayFacts.

(* ---- 4b. what a subscriber receives, replay() flavour (multicast(ReplaySubject(buffer, window))),
        for EVERY call tree (arbitrary reactions: subscribers that subscribe, unsubscribe, connect,
        disconnect, make the source emit from inside their callbacks), every mode, every cold prefix,
        every buffer size and window.  When the run is finished, a subscriber whose wrapper is still
        live, or that was stopped by a terminal notification, has received EXACTLY the C22
        entitlement [xview] on the sequence of calls made on the shared ReplaySubject: nothing before
        its subscribe call; at that call the values RETAINED at that moment (the last buffer_size
        ones not older than the window -- "plus the replayed values"), then the terminal notification
        if the subject had ended; afterwards every notification that came through the connection.
        (The audit proposed this for histories of top-level calls; the proof -- the subject's side of
        the machine satisfies the C22 invariant of arbitrary call trees, a call being a push in FRONT
        of the pending engine instructions -- gives it for all trees.) ---- *)
Theorem C24_replay_subscriber_receives_retained_then_later :
  forall (A : Type) (bs w : option Z) (md : mode) (reach : bool) (cold : list (ev A))
         (react : nat -> nat -> list cop) (top : list cop) (fuel o : nat) (os : @rostate A),
    let c := krun replay_exec replay_call md reach cold react fuel
                  (kinit [RIDrain] md (replay_init bs w) top) in
    k_k c = [] -> snd (k_eng c) o = Some os ->
    (ra_stopped os = false \/ has_term (cview o (klog_of c)) = true) ->
    cview o (klog_of c) = xview (bufsize_of bs) w o false rg_init (calls_of (klog_of c)).
Proof. exact (@multicast_view_replay). Qed.
Print Assumptions C24_replay_subscriber_receives_retained_then_later.

(* ... and at EVERY moment of every run (any fuel, finished or not) what a subscriber has received
   is a PREFIX of that entitlement: the multicast layer duplicates, reorders and invents nothing *)
Theorem C24_replay_subscriber_view_is_a_prefix :
  forall (A : Type) (bs w : option Z) (md : mode) (reach : bool) (cold : list (ev A))
         (react : nat -> nat -> list cop) (top : list cop) (fuel o : nat),
    let c := krun replay_exec replay_call md reach cold react fuel
                  (kinit [RIDrain] md (replay_init bs w) top) in
    prefix (cview o (klog_of c)) (xview (bufsize_of bs) w o false rg_init (calls_of (klog_of c))).
Proof. exact (@multicast_prefix_replay). Qed.
Print Assumptions C24_replay_subscriber_view_is_a_prefix.

(* the hypotheses hold on a re-entrant tree: replay(2) + ref_count, subscriber 0 subscribes
   subscriber 1 from inside its first callback; subscriber 1 is replayed the value being delivered *)
Example C24_witness_replay_view_hyp :
  let c := krun replay_exec replay_call MRefCount true [] (creact_tbl [(0%nat, [[CSub 1%nat]])]) 1000
             (kinit [RIDrain] MRefCount (replay_init (Some 2) None)
                    [CSub 0%nat; CNext 3; CNext 4; CNext 5; CSub 2%nat]) in
  k_k c = [] /\ (exists os, snd (k_eng c) 1%nat = Some os /\ ra_stopped os = false) /\
  calls_of (klog_of c) = [RSub 0%nat; RNext 3; RSub 1%nat; RNext 4; RNext 5; RSub 2%nat] /\
  cview 1%nat (klog_of c) = [Next 3; Next 4; Next 5] /\ cview 2%nat (klog_of c) = [Next 4; Next 5].
Proof. vm_compute. split; [reflexivity|]. split; [eexists; split; reflexivity|]. repeat split; reflexivity. Qed.

(* ---- 5b. multicast(subject_factory, mapper): ONE source subscription per subscription.  Every
        engine, identity mapper, histories of top-level calls, every fuel: the per-subscriber
        connection never subscribes the source more than once, and has subscribed it exactly once
        as soon as it has nothing pending (invariant: source subscriptions logged + connects still
        pending = 1, and while a connect is pending the instance is disconnected) ---- *)
Theorem C24_mapper_form_exactly_one_source_subscription :
  forall (A E_st E_in E_op : Type) (e_exec : E_in -> E_st -> E_st * list E_in * list sev)
         (e_call : sop -> list E_in) (e_drain : list E_in) (cold : list (ev A)) (st0 : E_st)
         (fuel : nat) (top : list cop) (o : nat) (c : @kcfg A E_st E_in E_op),
    In (o, c) (fst (mrun e_exec e_call e_drain cold st0 fuel [] top)) ->
    (nssub (k_log c) <= 1)%nat /\ (kfinished c = true -> nssub (k_log c) = 1%nat).
Proof. exact (@mapper_one_source_subscription). Qed.
Print Assumptions C24_mapper_form_exactly_one_source_subscription.

(* ... and (Subject / BehaviorSubject / AsyncSubject factories) the subscriber of a finished
   instance has received exactly the family specification on the calls made on ITS OWN subject:
   the greeting of a fresh subject (the INITIAL value for publish_value, never the source's last
   one), then what its own connection delivered *)
Theorem C24_mapper_form_subscriber_view :
  forall (A : Type) (pynone : A) (K : kind) (v0 : A) (cold : list (ev A)) (fuel : nat)
         (top : list cop) (o : nat) (c : @kcfg A (@sync_st A) (@instr A) (@op A)),
    In (o, c) (fst (mrun (sync_exec (cls_of pynone K)) sync_call [] cold (sync_init v0) fuel [] top)) ->
    k_k c = [] ->
    forall o' : nat, cview o' (klog_of c) = oview K o' Before (g_init v0) (calls_of (klog_of c)).
Proof. exact (@mapper_view). Qed.
Print Assumptions C24_mapper_form_subscriber_view.

(* the instances of the run of C24_witness_mapper_form: each finished, each with exactly one source
   subscription, each subscriber greeted with the initial value 0 *)
Example C24_witness_mapper_instances :
  map (fun x => (fst x, nssub (k_log (snd x)), kfinished (snd x), cview (fst x) (klog_of (snd x))))
      (fst (mrun (sync_exec (cls_of 0 KBehavior)) sync_call [] [] (sync_init 0) 1000 []
                 [CSub 0%nat; CNext 3; CSub 1%nat; CNext 4; CUnsub 0%nat; CDone; CSub 2%nat]))
  = [(0%nat, 1%nat, true, [Next 0; Next 3; Next 4]); (1%nat, 1%nat, true, [Next 0; Next 4; Done]);
     (2%nat, 1%nat, true, [Next 0])].
Proof. vm_compute. reflexivity. Qed.

(* ---- 2b. ref_count / share ON CALL TREES (Subjects/ConnectableRefCountTreeFacts.v).  Every subject
        engine, every cold prefix, every fuel, ARBITRARY reactions: subscribers that subscribe other
        subscribers, unsubscribe, make the source emit from inside their callbacks -- re-entrantly,
        while a subscribe() or the connect() further down the stack is still in progress.  Only
        manual connect() / dispose of the connection next to the operator stay excluded (top level
        and scripts: [nomanual]).  Invariant over the stack of suspended frames: every pending
        connect() is immediately followed by the pending return of the subscribe() that made it;
        count = armed + subscribe() in progress + dispose() in progress. ---- *)
From RxVerif Require Import Subjects.ConnectableRefCountTreeFacts.

(* connected  <=>  count > 0 and no connect() is pending.  (On histories of top-level calls the
   pending connect sits in the one subscribe() in progress, whose count is 1, which gives the
   formula of C24_ref_count_connected_iff_count_positive; on trees a subscriber may come in from the
   greeting callback of the first one, between `count += 1` and `source.connect()`: count 2, not yet
   connected -- that formula is FALSE there, see the _refuted example below.) *)
Theorem C24_ref_count_on_trees_connected_iff :
  forall (A E_st E_in E_op : Type) (e_exec : E_in -> E_st -> E_st * list E_in * list sev)
         (e_call : sop -> list E_in) (reach : bool) (cold : list (ev A)) (react : nat -> nat -> list cop),
    (forall o k : nat, Forall nomanual (react o k)) ->
    forall (e_drain : list E_in) (st0 : E_st) (top : list cop) (fuel : nat),
    Forall nomanual top ->
    let c := krun e_exec e_call MRefCount reach cold react fuel (kinit (E_op := E_op) e_drain MRefCount st0 top) in
    has_sub (k_bk c) = (0 <? count (k_bk c)) && (nconnect (k_k c) =? 0)%nat.
Proof. exact (@rc_tree_connected_iff). Qed.
Print Assumptions C24_ref_count_on_trees_connected_iff.

(* the count is the number of subscribers whose dispose has not run yet, on every tree *)
Theorem C24_ref_count_on_trees_counts_subscribers :
  forall (A E_st E_in E_op : Type) (e_exec : E_in -> E_st -> E_st * list E_in * list sev)
         (e_call : sop -> list E_in) (reach : bool) (cold : list (ev A)) (react : nat -> nat -> list cop),
    (forall o k : nat, Forall nomanual (react o k)) ->
    forall (e_drain : list E_in) (st0 : E_st) (top : list cop) (fuel : nat),
    Forall nomanual top ->
    let c := krun e_exec e_call MRefCount reach cold react fuel (kinit (E_op := E_op) e_drain MRefCount st0 top) in
    exists L : list nat,
      NoDup L /\ (forall o : nat, oflag (k_out c) o = true -> In o L) /\
      count (k_bk c) = Z.of_nat (nact (k_out c) L + nret (k_k c) + ndec (k_k c)).
Proof. exact (@rc_tree_count_is_subscribers). Qed.
Print Assumptions C24_ref_count_on_trees_counts_subscribers.

(* "connects on the FIRST subscriber": a subscribe() of ref_count pushes a connect() exactly when it
   finds the count at 0, and that is exactly when the connectable is disconnected with no connect
   pending; the count becomes 1 ... *)
Theorem C24_ref_count_on_trees_first_subscriber_connects :
  forall (A E_st E_in E_op : Type) (e_exec : E_in -> E_st -> E_st * list E_in * list sev)
         (e_call : sop -> list E_in) (reach : bool) (cold : list (ev A)) (react : nat -> nat -> list cop),
    (forall o k : nat, Forall nomanual (react o k)) ->
    forall (e_drain : list E_in) (st0 : E_st) (top : list cop) (fuel o : nat) (k : list kinstr),
    Forall nomanual top ->
    let c := krun e_exec e_call MRefCount reach cold react fuel (kinit (E_op := E_op) e_drain MRefCount st0 top) in
    k_k c = KInc o :: k ->
    (count (k_bk c) = 0 <-> has_sub (k_bk c) = false /\ nconnect k = 0%nat) /\
    (count (k_bk c) = 0 ->
       nconnect (k_k (kstep e_exec e_call MRefCount reach cold react c)) = 1%nat /\
       count (k_bk (kstep e_exec e_call MRefCount reach cold react c)) = 1) /\
    (count (k_bk c) <> 0 ->
       nconnect (k_k (kstep e_exec e_call MRefCount reach cold react c)) = nconnect k).
Proof. exact (@rc_tree_first_subscriber_connects). Qed.
Print Assumptions C24_ref_count_on_trees_first_subscriber_connects.

(* ... and when that connect() runs it is the only one in progress, it was made by ref_count, the
   connectable is disconnected -- so it subscribes the source (C24_connect_subscribes_once) -- and
   the count is at least 1 (exactly 1 on a history of top-level calls) *)
Theorem C24_ref_count_on_trees_connect_finds_it_disconnected :
  forall (A E_st E_in E_op : Type) (e_exec : E_in -> E_st -> E_st * list E_in * list sev)
         (e_call : sop -> list E_in) (reach : bool) (cold : list (ev A)) (react : nat -> nat -> list cop),
    (forall o k : nat, Forall nomanual (react o k)) ->
    forall (e_drain : list E_in) (st0 : E_st) (top : list cop) (fuel : nat) (w : caller) (k : list kinstr),
    Forall nomanual top ->
    let c := krun e_exec e_call MRefCount reach cold react fuel (kinit (E_op := E_op) e_drain MRefCount st0 top) in
    k_k c = KConnect w :: k ->
    w = ByRefCount /\ has_sub (k_bk c) = false /\ 1 <= count (k_bk c) /\ nconnect k = 0%nat.
Proof. exact (@rc_tree_connect_at_first_subscriber). Qed.
Print Assumptions C24_ref_count_on_trees_connect_finds_it_disconnected.

(* "disconnects on the LAST subscriber": the body of a dispose() that finds the count at 1 finds the
   connectable connected and leaves it disconnected with count 0, in that very step; one that finds
   a larger count changes nothing but the count *)
Theorem C24_ref_count_on_trees_last_subscriber_disconnects :
  forall (A E_st E_in E_op : Type) (e_exec : E_in -> E_st -> E_st * list E_in * list sev)
         (e_call : sop -> list E_in) (reach : bool) (cold : list (ev A)) (react : nat -> nat -> list cop),
    (forall o k : nat, Forall nomanual (react o k)) ->
    forall (e_drain : list E_in) (st0 : E_st) (top : list cop) (fuel : nat) (k : list kinstr),
    Forall nomanual top ->
    let c := krun e_exec e_call MRefCount reach cold react fuel (kinit (E_op := E_op) e_drain MRefCount st0 top) in
    k_k c = KDec :: k ->
    (count (k_bk c) = 1 ->
       has_sub (k_bk c) = true /\
       has_sub (k_bk (kstep e_exec e_call MRefCount reach cold react c)) = false /\
       count (k_bk (kstep e_exec e_call MRefCount reach cold react c)) = 0) /\
    (count (k_bk c) <> 1 ->
       has_sub (k_bk (kstep e_exec e_call MRefCount reach cold react c)) = has_sub (k_bk c) /\
       0 < count (k_bk (kstep e_exec e_call MRefCount reach cold react c))).
Proof. exact (@rc_tree_last_subscriber_disconnects). Qed.
Print Assumptions C24_ref_count_on_trees_last_subscriber_disconnects.

(* run level, in terms of the source's own log: at every moment of every run on every tree, when
   no subscriber is left (count 0) the source has no open subscription *)
Theorem C24_ref_count_on_trees_no_subscriber_no_source_subscription :
  forall (A E_st E_in E_op : Type) (e_exec : E_in -> E_st -> E_st * list E_in * list sev)
         (e_call : sop -> list E_in) (reach : bool) (cold : list (ev A)) (react : nat -> nat -> list cop),
    (forall o k : nat, Forall nomanual (react o k)) ->
    forall (e_drain : list E_in) (st0 : E_st) (top : list cop) (fuel : nat),
    Forall nomanual top ->
    let c := krun e_exec e_call MRefCount reach cold react fuel (kinit (E_op := E_op) e_drain MRefCount st0 top) in
    count (k_bk c) = 0 -> src_state (src_log (klog_of c)) = Some None.
Proof. exact (@rc_tree_no_subscriber_no_source_subscription). Qed.
Print Assumptions C24_ref_count_on_trees_no_subscriber_no_source_subscription.

(* the formula of the flat theorem is FALSE on trees: publish_value(0) + ref_count, subscriber 0
   subscribes subscriber 1 from inside its greeting callback, i.e. inside its own subscribe(),
   after `count += 1` and before `source.connect()`: count 2, one connect pending, NOT connected *)
Example C24_ref_count_flat_formula_on_trees_refuted :
  let c := krun (sync_exec (cls_of 0 KBehavior)) sync_call MRefCount true []
                (creact_tbl [(0%nat, [[CSub 1%nat]])]) 6 (kinit [] MRefCount (sync_init 0) [CSub 0%nat]) in
  has_sub (k_bk c) = false /\ count (k_bk c) = 2 /\ nconnect (k_k c) = 1%nat /\
  (0 <? count (k_bk c) - Z.of_nat (nconnect (k_k c))) = true.
Proof. vm_compute. repeat split; reflexivity. Qed.

(* the hypotheses of the tree theorems are met by re-entrant runs: a subscriber that unsubscribes
   itself from inside its first callback is the last one (dispose() finds count 1, the source is
   released: the log shows XSUnsub); and a connect() that finds count 2 *)
Example C24_witness_ref_count_on_trees :
  let tbl := [(0%nat, [[CUnsub 0%nat]])] in
  let c := krun (sync_exec (cls_of 0 KSubject)) sync_call MRefCount true [] (creact_tbl tbl) 14
                (kinit [] MRefCount (sync_init 0) [CSub 0%nat; CNext 5; CNext 6]) in
  (forall o k, Forall (@nomanual Z) (creact_tbl tbl o k)) /\
  k_k c = [KDec; KOp (CNext 6)] /\ count (k_bk c) = 1 /\
  run_config 0 (Config (FSync KSubject 0) MRefCount true []) 1000 ([CSub 0%nat; CNext 5; CNext 6], tbl)
  = ([XOp (CSub 0%nat); XSSub 0%nat; XOp (CNext 5); XGot 0%nat (Next 5); XOp (CUnsub 0%nat); XSUnsub 0%nat;
      XOp (CNext 6)], true).
Proof.
  cbv zeta. split; [|vm_compute; repeat split; reflexivity].
  intros o k. cbn [creact_tbl]. destruct (Nat.eqb 0 o); [|constructor].
  destruct k as [|[|k]]; cbn [nth]; repeat constructor.
Qed.
