(* C23 -- an AsyncSubject delivers only the final value.
   Model: Subjects/Async.v (the methods AsyncSubject overrides) run by the engine
   of Subjects/Subject.v; tied to reactivex/subject/asyncsubject.py by the K1
   correspondence of harness/props/C23.py.  Specification: Subjects/Family.v. *)
From RxVerif Require Import Base.Prelude Ops.Machine Subjects.Subject Subjects.Async Subjects.Family
  Subjects.SubjectFacts Subjects.FamilyFacts Subjects.AsyncEndFacts Subjects.AsyncTreeFacts.

(* Refinement: on EVERY history of top-level calls the AsyncSubject's complete
   log is the log of the specification in which on_next reaches nobody, completion
   is answered with [final] = the last value (if any) then completion to every
   current subscriber, an error with the error only, and later subscribers are
   greeted with the same. *)
Theorem C23_refines_spec :
  forall (A : Type) (pynone v0 : A) (h : list (@op A)),
  exists fuel0, forall fuel, (fuel0 <= fuel)%nat ->
    run_history (async_cls pynone) v0 fuel (h, []) = (spec KAsync v0 h, true).
Proof. exact (fun A pynone v0 h => refines_spec pynone KAsync v0 h). Qed.
Print Assumptions C23_refines_spec.

Theorem C23_observer_view :
  forall (A : Type) (pynone v0 : A) (h : list (@op A)),
  exists fuel0, forall fuel, (fuel0 <= fuel)%nat ->
    snd (run_history (async_cls pynone) v0 fuel (h, [])) = true /\
    forall o, view o (fst (run_history (async_cls pynone) v0 fuel (h, [])))
              = oview KAsync o Before (g_init v0) h.
Proof. exact (fun A pynone v0 h => class_observer_view pynone KAsync v0 h). Qed.
Print Assumptions C23_observer_view.

(* nothing before termination: as long as no on_error / on_completed / dispose
   occurs, nobody receives anything, whatever is subscribed or emitted *)
Theorem C23_nothing_before_termination :
  forall (A : Type) (o : nat) (h : list (@op A)) (g : @gstate A) (ph : phase),
    no_end h -> live g = true -> oview KAsync o ph g h = [].
Proof. exact (@async_silent_until_end). Qed.
Print Assumptions C23_nothing_before_termination.

(* on completion / error a current subscriber receives [bcast]: the last value
   (if any) followed by completion, resp. only the error -- and nothing afterwards *)
Theorem C23_current_subscriber_at_end :
  forall (A : Type) (o : nat) (g : @gstate A) (p : @op A) (h : list (@op A)),
    live g = true -> (match p with OErr _ | ODone => True | _ => False end) ->
    oview KAsync o Active g (p :: h) = bcast KAsync g p.
Proof. exact (fun A => oview_active_end KAsync). Qed.
Print Assumptions C23_current_subscriber_at_end.

(* ... and a later subscriber receives the same as its greeting, and nothing else *)
Theorem C23_late_subscriber :
  forall (A : Type) (o : nat) (g : @gstate A) (h : list (@op A)),
    live g = false -> oview KAsync o Before g (OSub o :: h) = greet KAsync g.
Proof. exact (fun A => late_subscriber KAsync). Qed.
Print Assumptions C23_late_subscriber.

Theorem C23_greeting_after_end :
  forall (A : Type) (g : @gstate A) (t : ev A), g_status g = Ended t ->
    greet KAsync g = match t with Done => final g | _ => [t] end.
Proof. exact (fun A => greet_ended KAsync). Qed.
Print Assumptions C23_greeting_after_end.

(* ---- end to end, on the machine itself (histories of top-level calls) ----
   [last_value h] is the value of the last on_next call in h (None if there is
   none); [final_of h] = [Next v; Done] if last_value h = Some v, else [Done].
   An observer that subscribes (for the first time) after the calls pre1, is
   not unsubscribed during pre2, where pre1 and pre2 contain no
   on_error/on_completed/dispose, receives from the REAL machine, when
   on_completed is then called, exactly the value of the last on_next call of
   pre1++pre2 followed by completion (completion alone if there was none) -- and
   nothing else, whatever calls follow; the run terminates. *)
Theorem C23_end_to_end :
  forall (A : Type) (pynone v0 : A) (o : nat) (pre1 pre2 post : list (@op A)),
    no_end (pre1 ++ pre2) -> no_sub o pre1 -> no_unsub o pre2 ->
    exists fuel0, forall fuel, (fuel0 <= fuel)%nat ->
      snd (run_history (async_cls pynone) v0 fuel (pre1 ++ OSub o :: pre2 ++ ODone :: post, [])) = true /\
      view o (fst (run_history (async_cls pynone) v0 fuel (pre1 ++ OSub o :: pre2 ++ ODone :: post, []))) =
      final_of (pre1 ++ pre2).
Proof. exact (@async_end_to_end). Qed.
Print Assumptions C23_end_to_end.

(* the same when on_error(e) is called instead: exactly the error *)
Theorem C23_end_to_end_error :
  forall (A : Type) (pynone v0 : A) (o : nat) (pre1 pre2 : list (@op A)) (e : Z) (post : list (@op A)),
    no_end (pre1 ++ pre2) -> no_sub o pre1 -> no_unsub o pre2 ->
    exists fuel0, forall fuel, (fuel0 <= fuel)%nat ->
      snd (run_history (async_cls pynone) v0 fuel (pre1 ++ OSub o :: pre2 ++ OErr e :: post, [])) = true /\
      view o (fst (run_history (async_cls pynone) v0 fuel (pre1 ++ OSub o :: pre2 ++ OErr e :: post, []))) =
      [Err e].
Proof. exact (@async_end_to_end_error). Qed.
Print Assumptions C23_end_to_end_error.

(* an observer that subscribes (for the first time) after on_completed -- the
   subject not being disposed in between -- receives the last on_next value
   before the completion followed by completion, immediately and nothing else *)
Theorem C23_late_subscriber_end_to_end :
  forall (A : Type) (pynone v0 : A) (o : nat) (pre1 pre2 post : list (@op A)),
    no_end pre1 -> no_dispose pre2 -> no_sub o (pre1 ++ ODone :: pre2) ->
    exists fuel0, forall fuel, (fuel0 <= fuel)%nat ->
      snd (run_history (async_cls pynone) v0 fuel ((pre1 ++ ODone :: pre2) ++ OSub o :: post, [])) = true /\
      view o (fst (run_history (async_cls pynone) v0 fuel ((pre1 ++ ODone :: pre2) ++ OSub o :: post, []))) =
      final_of pre1.
Proof. exact (@async_late_subscriber). Qed.
Print Assumptions C23_late_subscriber_end_to_end.

Theorem C23_late_subscriber_error_end_to_end :
  forall (A : Type) (pynone v0 : A) (o : nat) (pre1 : list (@op A)) (e : Z) (pre2 post : list (@op A)),
    no_end pre1 -> no_dispose pre2 -> no_sub o (pre1 ++ OErr e :: pre2) ->
    exists fuel0, forall fuel, (fuel0 <= fuel)%nat ->
      snd (run_history (async_cls pynone) v0 fuel ((pre1 ++ OErr e :: pre2) ++ OSub o :: post, [])) = true /\
      view o (fst (run_history (async_cls pynone) v0 fuel ((pre1 ++ OErr e :: pre2) ++ OSub o :: post, []))) =
      [Err e].
Proof. exact (@async_late_subscriber_error). Qed.
Print Assumptions C23_late_subscriber_error_end_to_end.

(* the hypotheses of the end-to-end theorems are satisfiable by a non-trivial
   history (another subscriber, values before and after the subscription, an
   unsubscription of someone else), and the promised sequence is not empty *)
Example C23_witness_end_to_end_hyp :
  no_end ([OSub 1%nat; ONext 4] ++ [ONext 0; OUnsub 1%nat; ONext 2]) /\
  no_sub 0%nat [OSub 1%nat; ONext 4] /\ no_unsub 0%nat [ONext 0; OUnsub 1%nat; ONext 2] /\
  final_of ([OSub 1%nat; ONext 4] ++ [ONext 0; OUnsub 1%nat; ONext 2]) = [Next 2; Done] /\
  final_of [OSub 1%nat] = [@Done Z].
Proof.
  repeat split; try reflexivity; intros p H; cbn in H;
    repeat (destruct H as [<-|H]; [first [exact I|discriminate]|]); destruct H.
Qed.

Example C23_witness_late_hyp :
  no_end [OSub 1%nat; ONext 4; ONext 2] /\ no_dispose [ONext 7; OErr 11; ODone] /\
  no_sub 0%nat ([OSub 1%nat; ONext 4; ONext 2] ++ ODone :: [ONext 7; OErr 11; ODone]) /\
  final_of [OSub 1%nat; ONext 4; ONext 2] = [Next 2; Done].
Proof.
  repeat split; try reflexivity; intros p H; cbn in H;
    repeat (destruct H as [<-|H]; [first [exact I|discriminate]|]); destruct H.
Qed.

(* ---- arbitrary call trees ---- *)
(* NOTHING BEFORE TERMINATION, on every call tree (observers that subscribe, unsubscribe, emit,
   complete or dispose from inside their callbacks) and every fuel: while the subject's is_stopped
   flag is false (it is set by on_error, on_completed and dispose) no observer has received
   anything *)
Theorem C23_tree_nothing_before_termination :
  forall (A : Type) (pynone : A) (react : nat -> nat -> list (@op A)) (v0 : A) (top : list (@op A)) (fuel o : nat),
    let c := run (async_cls pynone) react fuel (init_cfg v0 top) in
    is_stopped (c_st c) = false -> view o (log_of c) = [].
Proof. exact (@async_tree_nothing_before_termination). Qed.
Print Assumptions C23_tree_nothing_before_termination.

(* the same in terms of the calls alone: as long as the log contains no on_error / on_completed /
   dispose call -- made by the driver or from inside ANY callback -- nobody has received anything *)
Theorem C23_tree_silent_until_an_end_call :
  forall (A : Type) (pynone : A) (react : nat -> nat -> list (@op A)) (v0 : A) (top : list (@op A)) (fuel o : nat),
    let c := run (async_cls pynone) react fuel (init_cfg v0 top) in
    forallb no_end_event (log_of c) = true -> view o (log_of c) = [].
Proof. exact (@async_tree_silent_until_an_end_call). Qed.
Print Assumptions C23_tree_silent_until_an_end_call.

Theorem C23_views_wellformed :
  forall (A : Type) (pynone : A) (react : nat -> nat -> list (@op A)) (v0 : A) (top : list (@op A)) (fuel o : nat),
    wellformed (view o (log_of (run (async_cls pynone) react fuel (init_cfg v0 top)))) = true.
Proof. exact (fun A pynone react => views_wellformed (async_cls pynone) react). Qed.
Print Assumptions C23_views_wellformed.

Theorem C23_unsubscribed_gets_nothing_more :
  forall (A : Type) (pynone : A) (react : nat -> nat -> list (@op A)) s m k l o os n,
    m o = Some os -> handle os = true ->
    view o (log_of (run (async_cls pynone) react n (Cfg s m (IOp (OUnsub o) :: k) l))) = view o (rev l).
Proof. exact (fun A pynone react => unsubscribed_gets_nothing_more (async_cls pynone) react). Qed.
Print Assumptions C23_unsubscribed_gets_nothing_more.

Theorem C23_disposed_emit_raises :
  forall (A : Type) (pynone : A) (react : nat -> nat -> list (@op A)) (s : @sstate A) m k l p,
    is_disposed s = true -> is_emission p = true ->
    step (async_cls pynone) react (Cfg s m (IOp p :: k) l) = Cfg s m k (ERaised disposed_exn :: EOp p :: l).
Proof. exact (fun A pynone react => disposed_emit_raises pynone KAsync react). Qed.
Print Assumptions C23_disposed_emit_raises.

Theorem C23_disposed_subscribe_fails :
  forall (A : Type) (pynone : A) (react : nat -> nat -> list (@op A)) (s : @sstate A) m k l o,
    is_disposed s = true -> m o = None ->
    step (async_cls pynone) react (Cfg s m (IOp (OSub o) :: k) l) =
    Cfg s (upd m o (called true fresh_ostate)) (map IOp (react o 0%nat) ++ ISubRet o None :: k)
        (EGot o (Err disposed_exn) :: EOp (OSub o) :: l).
Proof. exact (fun A pynone react => disposed_subscribe_fails pynone KAsync react). Qed.
Print Assumptions C23_disposed_subscribe_fails.


(* a subscribed observer stays registered: on every call tree, an observer whose
   wrapper is not stopped (it subscribed, has not unsubscribed, has received no
   terminal) is in the observer list of a live subject -- i.e. in the snapshot
   `self.observers.copy()` of the next emission *)
Theorem C23_subscribed_observer_is_in_the_snapshot :
  forall (A : Type) (pynone : A) (react : nat -> nat -> list (@op A)) (v0 : A) (top : list (@op A)) (fuel o : nat) os,
    let c := run (async_cls pynone) react fuel (init_cfg v0 top) in
    c_obs c o = Some os -> a_stopped os = false -> subject_live (c_st c) -> In o (observers (c_st c)).
Proof. exact (fun A pynone react v0 => live_observer_registered pynone KAsync react v0). Qed.
Print Assumptions C23_subscribed_observer_is_in_the_snapshot.

(* completion hands [last value; completion] (or just completion) to every registered observer *)
Theorem C23_completion_goes_to_the_snapshot :
  forall (A : Type) (pynone : A) (s : @sstate A),
    snd (c_completed (async_cls pynone) s) =
    flat_map (fun o => map (IDeliver o) (if has_value s then [Next (value s); Done] else [Done])) (observers s).
Proof. exact (@async_completed_snapshot). Qed.
Print Assumptions C23_completion_goes_to_the_snapshot.

(* ---- witnesses (pool ids: 0 = None, 1 = 0, 2 = False) ---- *)
(* values None, 0, False are swallowed; completion hands False then completion
   to the current and to a later subscriber *)
Example C23_witness_flat :
  run_history (async_cls 0) 0 100
    ([OSub 0%nat; ONext 0; ONext 1; OSub 1%nat; ONext 2; ODone; OSub 2%nat; ONext 1], [])
  = ([EOp (OSub 0%nat); EOp (ONext 0); EOp (ONext 1); EOp (OSub 1%nat); EOp (ONext 2); EOp ODone;
      EGot 0%nat (Next 2); EGot 0%nat Done; EGot 1%nat (Next 2); EGot 1%nat Done;
      EOp (OSub 2%nat); EGot 2%nat (Next 2); EGot 2%nat Done; EOp (ONext 1)], true).
Proof. vm_compute. reflexivity. Qed.

(* no value: only completion; error: only the error, also for a late subscriber *)
Example C23_witness_error :
  run_history (async_cls 0) 0 100 ([OSub 0%nat; ONext 1; OErr 11; OSub 1%nat], [])
  = ([EOp (OSub 0%nat); EOp (ONext 1); EOp (OErr 11); EGot 0%nat (Err 11);
      EOp (OSub 1%nat); EGot 1%nat (Err 11)], true).
Proof. vm_compute. reflexivity. Qed.

(* re-entrancy: observer 0 unsubscribes itself inside on_next(final value): it
   does not get the completion; observer 1 still gets both *)
Example C23_witness_reentrant :
  run_history (async_cls 0) 0 100 ([OSub 0%nat; OSub 1%nat; ONext 5; ODone], [(0%nat, [[OUnsub 0%nat]])])
  = ([EOp (OSub 0%nat); EOp (OSub 1%nat); EOp (ONext 5); EOp ODone; EGot 0%nat (Next 5); EOp (OUnsub 0%nat);
      EGot 1%nat (Next 5); EGot 1%nat Done], true).
Proof. vm_compute. reflexivity. Qed.

Example C23_witness_hyp : no_end [OSub 0%nat; ONext 1; OUnsub 0%nat] /\ live (g_init 0) = true.
Proof. split; [intros p [<-|[<-|[<-|[]]]]; exact I|reflexivity]. Qed.

(* the hypothesis of the tree-level silence theorems holds on a run with subscriptions, values and
   an unsubscription (and the subject is still live) *)
Example C23_witness_tree_silent_hyp :
  let c := run (async_cls 0) (react_tbl []) 100 (init_cfg 0 [OSub 0%nat; ONext 4; OSub 1%nat; OUnsub 0%nat; ONext 5]) in
  forallb no_end_event (log_of c) = true /\ is_stopped (c_st c) = false /\ c_k c = [].
Proof. vm_compute. repeat split. Qed.
