(* C08 -- falsy values are ordinary elements.
   Formal content: the operators below are natural in the element type.  For
   EVERY relabelling g : A -> A' of the elements (in particular one that maps
   None, 0, False, "" or () to any other value, or several values to one) and
   EVERY input stream (also non-conforming), running the operator on the
   relabelled input gives the relabelled output, at the same instants.  Hence
   no element value can be dropped, counted, buffered or compared differently
   from any other.  (That the machines are the code is the K2 correspondence,
   run on a pool headed by the falsy values, and a metamorphic oracle.) *)
From RxVerif Require Import Base.Prelude Ops.Machine Ops.Elementwise Ops.Aggregates Ops.Naturality.

Theorem C08_naturality_generic :
  forall A A' B B' (g : A -> A') (h : B -> B') (m : mealy A B) (m' : mealy A' B'),
    msim g h m m' -> forall ins, exec m' (map (ev_map g) ins) = tag_map h (exec m ins).
Proof. intros A A' B B' g h m m' S ins. exact (sim_exec g h m m' S ins). Qed.
Print Assumptions C08_naturality_generic.

Theorem C08_take : forall A A' (g : A -> A') c ins,
  exec (op_take c) (map (ev_map g) ins) = tag_map g (exec (op_take c) ins).
Proof. intros. exact (sim_exec _ _ _ _ (sim_take g c) ins). Qed.
Print Assumptions C08_take.

Theorem C08_skip : forall A A' (g : A -> A') c ins,
  exec (op_skip c) (map (ev_map g) ins) = tag_map g (exec (op_skip c) ins).
Proof. intros. exact (sim_exec _ _ _ _ (sim_skip g c) ins). Qed.
Print Assumptions C08_skip.

Theorem C08_take_last : forall A A' (g : A -> A') c ins,
  exec (op_take_last c) (map (ev_map g) ins) = tag_map g (exec (op_take_last c) ins).
Proof. intros. exact (sim_exec _ _ _ _ (sim_take_last g c) ins). Qed.
Print Assumptions C08_take_last.

Theorem C08_skip_last : forall A A' (g : A -> A') c ins,
  exec (op_skip_last c) (map (ev_map g) ins) = tag_map g (exec (op_skip_last c) ins).
Proof. intros. exact (sim_exec _ _ _ _ (sim_skip_last g c) ins). Qed.
Print Assumptions C08_skip_last.

Theorem C08_take_last_buffer : forall A A' (g : A -> A') c ins,
  exec (op_take_last_buffer c) (map (ev_map g) ins) = tag_map (map g) (exec (op_take_last_buffer c) ins).
Proof. intros. exact (sim_exec _ _ _ _ (sim_take_last_buffer g c) ins). Qed.
Print Assumptions C08_take_last_buffer.

Theorem C08_pairwise : forall A A' (g : A -> A') ins,
  exec op_pairwise (map (ev_map g) ins)
  = tag_map (fun p => (g (fst p), g (snd p))) (exec op_pairwise ins).
Proof. intros. exact (sim_exec _ _ _ _ (sim_pairwise g) ins). Qed.
Print Assumptions C08_pairwise.

Theorem C08_start_with : forall A A' (g : A -> A') args ins,
  exec (op_start_with (map g args)) (map (ev_map g) ins) = tag_map g (exec (op_start_with args) ins).
Proof. intros. exact (sim_exec _ _ _ _ (sim_start_with g args) ins). Qed.
Print Assumptions C08_start_with.

Theorem C08_default_if_empty : forall A A' (g : A -> A') d ins,
  exec (op_default_if_empty (g d)) (map (ev_map g) ins) = tag_map g (exec (op_default_if_empty d) ins).
Proof. intros. exact (sim_exec _ _ _ _ (sim_default_if_empty g d) ins). Qed.
Print Assumptions C08_default_if_empty.

Theorem C08_element_at : forall A A' (g : A -> A') i d exn ins,
  exec (op_element_at i (option_map g d) exn) (map (ev_map g) ins)
  = tag_map g (exec (op_element_at i d exn) ins).
Proof. intros. exact (sim_exec _ _ _ _ (sim_element_at g i d exn) ins). Qed.
Print Assumptions C08_element_at.

Theorem C08_first : forall A A' (g : A -> A') d ins,
  exec (op_first (option_map g d)) (map (ev_map g) ins) = tag_map g (exec (op_first d) ins).
Proof. intros. exact (sim_exec _ _ _ _ (sim_first g d) ins). Qed.
Print Assumptions C08_first.

Theorem C08_last : forall A A' (g : A -> A') d ins,
  exec (op_last (option_map g d)) (map (ev_map g) ins) = tag_map g (exec (op_last d) ins).
Proof. intros. exact (sim_exec _ _ _ _ (sim_last g d) ins). Qed.
Print Assumptions C08_last.

Theorem C08_single : forall A A' (g : A -> A') d ins,
  exec (op_single (option_map g d)) (map (ev_map g) ins) = tag_map g (exec (op_single d) ins).
Proof. intros. exact (sim_exec _ _ _ _ (sim_single g d) ins). Qed.
Print Assumptions C08_single.

Theorem C08_to_list : forall A A' (g : A -> A') ins,
  exec op_to_list (map (ev_map g) ins) = tag_map (map g) (exec op_to_list ins).
Proof. intros. exact (sim_exec _ _ _ _ (sim_to_list g) ins). Qed.
Print Assumptions C08_to_list.

Theorem C08_some : forall A A' (g : A -> A') ins,
  exec op_some (map (ev_map g) ins) = tag_map (fun b : bool => b) (exec (@op_some A) ins).
Proof. intros. exact (sim_exec _ _ _ _ (sim_some g) ins). Qed.
Print Assumptions C08_some.

Theorem C08_materialize : forall A A' (g : A -> A') ins,
  exec op_materialize (map (ev_map g) ins) = tag_map (ev_map g) (exec op_materialize ins).
Proof. intros. exact (sim_exec _ _ _ _ (sim_materialize g) ins). Qed.
Print Assumptions C08_materialize.

Theorem C08_ignore_elements : forall A A' (g : A -> A') ins,
  exec op_ignore_elements (map (ev_map g) ins) = tag_map g (exec op_ignore_elements ins).
Proof. intros. exact (sim_exec _ _ _ _ (sim_ignore_elements g) ins). Qed.
Print Assumptions C08_ignore_elements.

(* callbacks only ever see the element itself *)
Theorem C08_map : forall A A' B (g : A -> A') (f' : A' -> res B) ins,
  exec (op_map f') (map (ev_map g) ins) = tag_map (fun b => b) (exec (op_map (fun x => f' (g x))) ins).
Proof. intros. exact (sim_exec _ _ _ _ (sim_map g f') ins). Qed.
Print Assumptions C08_map.

Theorem C08_filter : forall A A' (g : A -> A') (p' : A' -> res bool) ins,
  exec (op_filter p') (map (ev_map g) ins) = tag_map g (exec (op_filter (fun x => p' (g x))) ins).
Proof. intros. exact (sim_exec _ _ _ _ (sim_filter g p') ins). Qed.
Print Assumptions C08_filter.

(* non-vacuity: 0 stands for None; skip_last keeps it *)
Example C08_witness :
  untag (exec (op_skip_last 1) (events [0; 5; 6] TDone)) = [Next 0; Next 5; Done].
Proof. vm_compute. reflexivity. Qed.
