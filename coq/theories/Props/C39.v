(* C39 -- fluent operator methods equal their piped operators.
   [fluent_table] / [op_table] are REGENERATED from
   /repo/reactivex/observable/mixins/*.py and /repo/reactivex/operators/__init__.py on
   every run (Gen/FluentTable.v); these theorems are re-checked against them.

   Reading: a fluent method "behaves like the piped operator with the same
   arguments" when every call its signature accepts makes it apply, to the
   source, the operator function of the same name with exactly the bound
   arguments a direct call  ops.NAME(<same arguments>)  binds.  [bind] = Python's
   argument binding (None = TypeError), [meth39 e c] = what the translated body
   of method e applies for the call c, [dir39 n c] = what ops.n(c) binds. *)
From Coq Require Import List String Bool.
From RxVerif Require Import Ops.Fluent Ops.FluentFacts Gen.FluentTable Ops.FluentProof Ops.FluentProof2.
Import ListNotations.
Open Scope string_scope.

(* generic (all tables, all entries, ALL calls: any number of positionals, any
   keywords, any values): the finite per-entry check implies faithful forwarding *)
Theorem C39_check_is_sound :
  forall tbl ops fuel K e,
    forallb (guards_in K) tbl = true -> entry_ok tbl ops fuel K e = true ->
    forall c b, bind (esig e) c = Some b ->
    exists r, eval_method tbl ops fuel e c = Some r /\ direct ops (ename e) c = Some r.
Proof. exact forward_sound. Qed.
Print Assumptions C39_check_is_sound.

(* the generated table: every fluent method outside the listed six forwards every
   accepted call faithfully *)
Theorem C39_forwarding :
  forall e, In e fluent_table -> ~ In (ename e) known_mismatch ->
  forall c b, bind (esig e) c = Some b ->
  exists r, meth39 e c = Some r /\ dir39 (ename e) c = Some r.
Proof. exact forwarding. Qed.
Print Assumptions C39_forwarding.

(* exactly the listed six fail the check *)
Theorem C39_table_check :
  map ename (filter (fun e => negb (ok39 e)) fluent_table) = known_mismatch.
Proof. exact table_known_fail. Qed.
Print Assumptions C39_table_check.

(* ... and each of them is a genuine mismatch of /repo: a call the method accepts
   that the same-named operator binds differently or rejects *)
Theorem C39_known_mismatch_refuted :
  forall n, In n known_mismatch ->
  exists e c b, find_entry fluent_table n = Some e /\ bind (esig e) c = Some b
                /\ meth39 e c <> dir39 n c.
Proof. exact mismatch_refuted. Qed.
Print Assumptions C39_known_mismatch_refuted.

(* four of the six differ only in a parameter NAME: without keywords they forward faithfully *)
Theorem C39_positional_forwarding :
  forall e, In e fluent_table -> In (ename e) keyword_name_only ->
  forall c b, ckws c = [] -> bind (esig e) c = Some b ->
  exists r, meth39 e c = Some r /\ dir39 (ename e) c = Some r.
Proof. exact positional_forwarding. Qed.
Print Assumptions C39_positional_forwarding.

(* outside the six and the four narrower ones, method and operator also REJECT the same calls *)
Theorem C39_exact :
  forall e, In e fluent_table -> ~ In (ename e) known_mismatch ->
  ~ In (ename e) narrower_than_operator ->
  forall c, meth39 e c = dir39 (ename e) c.
Proof. exact exactness. Qed.
Print Assumptions C39_exact.

Theorem C39_narrower_listed :
  map ename (filter (fun e => negb (listed known_mismatch e) && negb (entry_sig_same op_table e)) fluent_table)
  = narrower_than_operator.
Proof. exact table_narrower. Qed.
Print Assumptions C39_narrower_listed.

(* well-formedness of the generated tables *)
Theorem C39_tables_wellformed :
  (nodupb (map ename fluent_table) = true /\ nodupb (map oname op_table) = true)
  /\ forallb (fun e => match find_op op_table (ename e) with Some _ => true | None => false end)
             fluent_table = true.
Proof. exact (conj table_names_unique table_every_method_has_operator). Qed.
Print Assumptions C39_tables_wellformed.

(* ---- "behaves exactly like", with the trust base explicit ---------------------------
   ASSUMPTION made a parameter: what an operator call produces is a function [op_sem] of the
   canonical operator name, the bound arguments and the source only (and X.pipe(f) = f(X)).  For
   EVERY type of observables O and EVERY such op_sem: for each accepted call, the method applied
   to a source x and the piped same-named operator give the same observable, and neither is a
   TypeError *)
Theorem C39_behaves :
  forall (O : Type) (op_sem : string -> benv -> O -> O),
  forall e, In e fluent_table -> ~ In (ename e) known_mismatch ->
  forall c b x, bind (esig e) c = Some b ->
  meth_sem O op_sem e c x = pipe_sem O op_sem (ename e) c x /\ meth_sem O op_sem e c x <> None.
Proof. exact behaves. Qed.
Print Assumptions C39_behaves.

(* ... outside the four narrower methods also on the rejected calls (both None) *)
Theorem C39_behaves_exact :
  forall (O : Type) (op_sem : string -> benv -> O -> O),
  forall e, In e fluent_table -> ~ In (ename e) known_mismatch -> ~ In (ename e) narrower_than_operator ->
  forall c x, meth_sem O op_sem e c x = pipe_sem O op_sem (ename e) c x.
Proof. exact behaves_exact. Qed.
Print Assumptions C39_behaves_exact.

(* ... and for the four parameter-name-only mismatches on calls without keywords *)
Theorem C39_behaves_positional :
  forall (O : Type) (op_sem : string -> benv -> O -> O),
  forall e, In e fluent_table -> In (ename e) keyword_name_only ->
  forall c b x, ckws c = [] -> bind (esig e) c = Some b ->
  meth_sem O op_sem e c x = pipe_sem O op_sem (ename e) c x /\ meth_sem O op_sem e c x <> None.
Proof. exact behaves_positional. Qed.
Print Assumptions C39_behaves_positional.

(* the converse gap (not required by the property): exactly these operators of
   reactivex.operators have no fluent method *)
Theorem C39_operators_without_method :
  map oname (filter (fun o => negb (mem (oname o) (map ename fluent_table))) op_table) = ["tap"; "zip_with_list"].
Proof. exact table_no_method. Qed.
Print Assumptions C39_operators_without_method.

(* ---- non-vacuity ---------------------------------------------------------------- *)
(* source.replay(5, scheduler=s, mapper=None)  ==  ops.replay(5, scheduler=s, mapper=None)(source) *)
Example C39_witness_replay :
  exists e, find_entry fluent_table "replay" = Some e /\
  meth39 e (mkcall [VOpaque 0] [("scheduler", VOpaque 1); ("mapper", VConst "None")])
  = Some (mkres "replay" (mkenv [("buffer_size", VOpaque 0); ("window", VConst "None");
                                 ("mapper", VConst "None"); ("scheduler", VOpaque 1)] []))
  /\ dir39 "replay" (mkcall [VOpaque 0] [("scheduler", VOpaque 1); ("mapper", VConst "None")])
     = meth39 e (mkcall [VOpaque 0] [("scheduler", VOpaque 1); ("mapper", VConst "None")]).
Proof. eexists. split; [vm_compute; reflexivity|]. split; vm_compute; reflexivity. Qed.

(* source.merge(a, b, c, max_concurrent=n): the three sources arrive in ops.merge's *sources *)
Example C39_witness_merge :
  exists e, find_entry fluent_table "merge" = Some e /\
  meth39 e (mkcall [VOpaque 0; VOpaque 1; VOpaque 2] [("max_concurrent", VOpaque 3)])
  = Some (mkres "merge" (mkenv [("max_concurrent", VOpaque 3)] [VOpaque 0; VOpaque 1; VOpaque 2])).
Proof. eexists. split; vm_compute; reflexivity. Qed.

(* take_while_indexed(predicate_indexed=p): accepted by the method, TypeError from the operator *)
Example C39_witness_keyword_mismatch :
  exists e, find_entry fluent_table "take_while_indexed" = Some e /\
  meth39 e (mkcall [] [("predicate_indexed", VOpaque 0)])
  = Some (mkres "take_while_indexed" (mkenv [("predicate", VOpaque 0); ("inclusive", VConst "False")] []))
  /\ dir39 "take_while_indexed" (mkcall [] [("predicate_indexed", VOpaque 0)]) = None.
Proof. eexists. split; [vm_compute; reflexivity|]. split; vm_compute; reflexivity. Qed.

Example C39_table_nonempty : 100 <= List.length fluent_table /\ 100 <= List.length op_table.
Proof. split; vm_compute; repeat constructor. Qed.

(* C39_behaves at a concrete semantics (the observable = the log of what was applied) *)
Example C39_witness_behaves :
  let sem := fun (n : string) (b : benv) (x : list (string * benv)) => (n, b) :: x in
  exists e, find_entry fluent_table "replay" = Some e /\
  meth_sem _ sem e (mkcall [VOpaque 0] [("scheduler", VOpaque 1)]) []
  = Some [("replay", mkenv [("buffer_size", VOpaque 0); ("window", VConst "None");
                            ("mapper", VConst "None"); ("scheduler", VOpaque 1)] [])]
  /\ pipe_sem _ sem "replay" (mkcall [VOpaque 0] [("scheduler", VOpaque 1)]) []
     = meth_sem _ sem e (mkcall [VOpaque 0] [("scheduler", VOpaque 1)]) [].
Proof. eexists. split; [vm_compute; reflexivity|]. split; vm_compute; reflexivity. Qed.
