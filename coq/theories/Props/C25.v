(* C25 -- a disposable's action runs at most once.
   Disposable: the action is invoked at most once, and is_disposed is True as soon as any dispose()
   executed its test-and-set (a fortiori once any dispose() returned); BooleanDisposable only flips
   its flag; ScheduledDisposable disposes the wrapped item on its scheduler exactly once.
   Part 1: all call histories of one thread (models Core/Disposables.v).
   Part 2: ALL schedules of ANY number of threads running ANY programs (transition systems
   Core/DispConc.v: one locked block / one unlocked access / one call out = one step).
   Models are tied to /repo by harness/props/C25.py (K1 histories, K3 controlled interleavings). *)
From RxVerif Require Import Base.Prelude Core.Disposables Core.DisposablesFacts Core.DispConc Core.DispConcFacts
  Core.DispConcFacts2.

(* ---- one thread: all call histories ------------------------------------------ *)
Local Open Scope nat_scope.

(* the action runs exactly once iff dispose() was called at all, whatever the history *)
Theorem C25_action_once :
  forall h,
  runs (log d_step d_init h) = (if existsb is_ddispose h then 1 else 0) /\
  final d_step d_init h = existsb is_ddispose h.
Proof. exact disposable_action_once. Qed.
Print Assumptions C25_action_once.

Theorem C25_action_at_most_once :
  forall h, runs (log d_step d_init h) <= 1.
Proof. exact disposable_action_at_most_once. Qed.
Print Assumptions C25_action_at_most_once.

(* is_disposed is reported by every query that follows a dispose() *)
Theorem C25_reports_is_disposed :
  forall h1 h2,
  last (outs d_step d_init (h1 ++ DDispose :: h2 ++ [DIsDisposed])) [] = [OBool true].
Proof. exact disposable_reports. Qed.
Print Assumptions C25_reports_is_disposed.

(* BooleanDisposable only flips its flag *)
Theorem C25_boolean_flag_only :
  forall h,
  final b_step d_init h = existsb is_ddispose h /\
  runs (log b_step d_init h) = 0 /\ (forall i, disposes i (log b_step d_init h) = 0).
Proof. exact boolean_flag_only. Qed.
Print Assumptions C25_boolean_flag_only.

(* the wrapped item is disposed exactly once iff the scheduler ran at least one of the queued
   actions, never otherwise, and nothing else is disposed; is_disposed reports exactly that *)
Theorem C25_scheduled_once :
  forall h i,
  let s0 := sch_init i in
  disposes i (log sch_step s0 h) = (if 0 <? eff_runs 0 h then 1 else 0) /\
  (forall j, j <> i -> disposes j (log sch_step s0 h) = 0) /\
  s_disposed (sch_inner (final sch_step s0 h)) = (0 <? eff_runs 0 h).
Proof. exact scheduled_once. Qed.
Print Assumptions C25_scheduled_once.

(* every dispose() call schedules one action (repeated calls schedule repeatedly) *)
Theorem C25_scheduled_schedules_each_call :
  forall h s,
  scheds (log sch_step s h) = length (filter is_schdispose h).
Proof. exact scheduled_schedules_each. Qed.
Print Assumptions C25_scheduled_schedules_each_call.

(* the scheduler invoked exactly [eff_runs] queued actions (observable: ORun) *)
Theorem C25_scheduled_runs_observable :
  forall h s, runs (log sch_step s h) = eff_runs (sch_queue s) h.
Proof. exact scheduled_runs. Qed.
Print Assumptions C25_scheduled_runs_observable.

(* non-vacuity *)
Example C25_witness_seq :
  outs d_step d_init [DIsDisposed; DDispose; DDispose; DIsDisposed] = [[OBool false]; [ORun]; []; [OBool true]].
Proof. vm_compute. reflexivity. Qed.
Example C25_witness_scheduled_seq :
  log sch_step (sch_init 3) [SchDispose; SchDispose; SchRunOne; SchRunOne; SchIsDisposed]
  = [OSched; OSched; ORun; ODisp 3; ORun; OBool true].
Proof. vm_compute. reflexivity. Qed.

(* ---- any number of threads: all schedules -------------------------------------- *)
Local Close Scope nat_scope.
Local Open Scope Z_scope.

(* the action is invoked at most once under every interleaving of any number of threads and calls:
   (#invocations) + (1 if not yet disposed) + (#threads between the test-and-set and the call) = 1 *)
Theorem C25_once_all_interleavings :
  forall progs sched,
  let c := dd_run progs sched in
  Z.of_nat (runs (plain (c_log c))) + dd_held (c_sh c) + dd_in_flight c = 1 /\
  (runs (plain (c_log c)) <= 1)%nat /\
  (quiescent c = true -> runs (plain (c_log c)) = if c_sh c then 1%nat else 0%nat).
Proof. exact disposable_conc_once. Qed.
Print Assumptions C25_once_all_interleavings.

Theorem C25_reports_all_interleavings :
  forall progs sched k t,
  let c := dd_run progs sched in
  nth_error (c_ths c) k = Some t -> In DDispose (t_hist t) -> c_sh c = true.
Proof. exact disposable_conc_reports. Qed.
Print Assumptions C25_reports_all_interleavings.

Theorem C25_boolean_reports_all_interleavings :
  forall progs sched k t,
  let c := bd_run progs sched in
  nth_error (c_ths c) k = Some t -> In DDispose (t_hist t) -> c_sh c = true.
Proof. exact boolean_conc_reports. Qed.
Print Assumptions C25_boolean_reports_all_interleavings.

Theorem C25_boolean_flag_only_all_interleavings :
  forall progs sched,
  forallb quiet (plain (c_log (bd_run progs sched))) = true.
Proof. exact boolean_conc_flag_only. Qed.
Print Assumptions C25_boolean_flag_only_all_interleavings.

Theorem C25_scheduled_conservation_all_interleavings :
  forall w progs sched i,
  let c := hc_run w progs sched in
  zdisp i (plain (c_log c)) + Z.of_nat (ocnt i (s_cur (sch_inner (c_sh c)))) + hc_in_flight i c
  = (if Nat.eqb i w then 1 else 0).
Proof. exact scheduled_conc_conservation. Qed.
Print Assumptions C25_scheduled_conservation_all_interleavings.

(* EXACTLY ONCE, ON THE SCHEDULER: under every interleaving the wrapped item receives at most one
   dispose() and nothing else is disposed; once all calls returned it received exactly one iff the
   scheduler invoked at least one of the queued actions *)
Theorem C25_scheduled_once_all_interleavings :
  forall w progs sched,
  let c := hc_run w progs sched in
  zdisp w (plain (c_log c)) <= 1 /\
  (forall j, j <> w -> zdisp j (plain (c_log c)) = 0) /\
  (quiescent c = true ->
   zdisp w (plain (c_log c)) = (if (1 <=? runs (plain (c_log c)))%nat then 1 else 0) /\
   s_disposed (sch_inner (c_sh c)) = (1 <=? runs (plain (c_log c)))%nat).
Proof. exact scheduled_conc_once. Qed.
Print Assumptions C25_scheduled_once_all_interleavings.

(* non-vacuity: two threads race on dispose(); T0 passes the test-and-set first, T1's call returns
   before T0 has invoked the action, is_disposed is already reported, the action runs once *)
Example C25_witness_race :
  let c := dd_run [[DDispose]; [DDispose; DIsDisposed]] [0; 1; 1; 0]%nat in
  c_log c = [(1%nat, OBool true); (0%nat, ORun)] /\ quiescent c = true /\ c_sh c = true.
Proof. vm_compute. repeat split. Qed.
Example C25_witness_reports_hyp :
  let c := dd_run [[DDispose]; [DDispose]] [1]%nat in
  exists t, nth_error (c_ths c) 1 = Some t /\ In DDispose (t_hist t) /\ quiescent c = false.
Proof. vm_compute. eexists. split; [reflexivity|]. split; [left; reflexivity|reflexivity]. Qed.
(* two dispose() calls, two workers: both queued actions are invoked, the item is disposed once *)
Example C25_witness_scheduled_race :
  let c := hc_run 3%nat [[SchDispose; SchDispose]; [SchRunOne]; [SchRunOne]] [0; 0; 1; 2; 1; 2; 1]%nat in
  plain (c_log c) = [OSched; OSched; ORun; ORun; ODisp 3%nat] /\ quiescent c = true.
Proof. vm_compute. repeat split. Qed.

(* ---- the ghost histories and the programs; exactly once IFF CALLED ----------------- *)
(* at every moment of every schedule, thread k's program is: the calls it has started (oldest first)
   followed by the calls it has not started yet (any of the transition systems) *)
Theorem C25_history_is_program_prefix :
  forall progs sched k t,
  nth_error (c_ths (dd_run progs sched)) k = Some t ->
  nth_error progs k = Some (rev (t_hist t) ++ t_todo t).
Proof. exact (hist_todo_progs dd_start dd_act d_init). Qed.
Print Assumptions C25_history_is_program_prefix.

(* EXACTLY ONCE IFF dispose() WAS CALLED, any number of threads, every schedule: once all calls have
   returned the action was invoked exactly once if some thread's program contains a dispose() call and
   not at all otherwise *)
Theorem C25_exactly_once_iff_called :
  forall progs sched,
  let c := dd_run progs sched in
  quiescent c = true ->
  runs (plain (c_log c)) = if existsb (existsb is_ddispose) progs then 1%nat else 0%nat.
Proof. exact disposable_conc_exactly_once_iff_called. Qed.
Print Assumptions C25_exactly_once_iff_called.

(* ... and at every moment (quiescent or not) it was not invoked if no program contains a dispose() *)
Theorem C25_never_if_not_called :
  forall progs sched,
  existsb (existsb is_ddispose) progs = false -> runs (plain (c_log (dd_run progs sched))) = 0%nat.
Proof. exact disposable_conc_never_if_not_called. Qed.
Print Assumptions C25_never_if_not_called.

(* the flag is only ever set by a dispose() call (converse of C25_reports_all_interleavings), and once
   all calls returned it says exactly whether some program contains one *)
Theorem C25_flag_iff_called :
  forall progs sched,
  let c := dd_run progs sched in
  (c_sh c = true -> existsb (existsb is_ddispose) progs = true) /\
  (quiescent c = true -> c_sh c = existsb (existsb is_ddispose) progs).
Proof. exact disposable_conc_flag_iff_called. Qed.
Print Assumptions C25_flag_iff_called.

(* QUERY-LEVEL REPORTING: once any thread has executed the first action of a dispose() call (a fortiori
   once any dispose() has returned), every is_disposed query answered from then on -- by any thread,
   under any continuation s2 of the schedule -- returns True *)
Theorem C25_query_after_dispose :
  forall progs s1 s2 k t more tid b,
  nth_error (c_ths (dd_run progs s1)) k = Some t -> In DDispose (t_hist t) ->
  c_log (dd_run progs (s1 ++ s2)) = c_log (dd_run progs s1) ++ more ->
  In (tid, OBool b) more -> b = true.
Proof. exact disposable_conc_query_after_dispose. Qed.
Print Assumptions C25_query_after_dispose.

Theorem C25_boolean_query_after_dispose :
  forall progs s1 s2 k t more tid b,
  nth_error (c_ths (bd_run progs s1)) k = Some t -> In DDispose (t_hist t) ->
  c_log (bd_run progs (s1 ++ s2)) = c_log (bd_run progs s1) ++ more ->
  In (tid, OBool b) more -> b = true.
Proof. exact boolean_conc_query_after_dispose. Qed.
Print Assumptions C25_boolean_query_after_dispose.

(* ONLY ON THE SCHEDULER, at every moment of every schedule (not only at quiescence): if the wrapped item
   has received its dispose() call then the scheduler has invoked at least one queued action, and the
   thread that made the dispose() call is a thread on which the scheduler invoked a queued action *)
Theorem C25_scheduled_only_on_scheduler :
  forall w progs sched tid,
  let c := hc_run w progs sched in
  (1 <= zdisp w (plain (c_log c)) -> (1 <= runs (plain (c_log c)))%nat) /\
  (In (tid, ODisp w) (c_log c) -> In (tid, ORun) (c_log c)).
Proof. exact scheduled_conc_only_on_scheduler. Qed.
Print Assumptions C25_scheduled_only_on_scheduler.

(* non-vacuity: T1's dispose() has executed its locked block (not yet the action) after schedule [1];
   the continuation [0;2;1;0;2] makes T2's query and T0's later query both answer True; and a quiescent
   run whose programs contain no dispose() *)
Example C25_witness_query_after_dispose :
  let progs := [[DIsDisposed; DIsDisposed]; [DDispose]; [DIsDisposed]] in
  (exists t, nth_error (c_ths (dd_run progs [1]%nat)) 1 = Some t /\ In DDispose (t_hist t)) /\
  c_log (dd_run progs ([1] ++ [0; 2; 1; 0; 2])%nat) =
    c_log (dd_run progs [1]%nat) ++ [(0%nat, OBool true); (2%nat, OBool true); (1%nat, ORun); (0%nat, OBool true)] /\
  quiescent (dd_run progs ([1] ++ [0; 2; 1; 0; 2])%nat) = true /\
  existsb (existsb is_ddispose) progs = true.
Proof. vm_compute. split; [eexists; split; [reflexivity|left; reflexivity]|repeat split]. Qed.
Example C25_witness_not_called :
  let c := dd_run [[DIsDisposed]; []] [0; 1]%nat in
  quiescent c = true /\ existsb (existsb is_ddispose) [[DIsDisposed]; []] = false /\ c_log c = [(0%nat, OBool false)].
Proof. vm_compute. repeat split. Qed.
(* the worker (thread 1) that makes the dispose() call logged ORun itself; not yet quiescent *)
Example C25_witness_only_on_scheduler :
  let c := hc_run 3%nat [[SchDispose]; [SchRunOne]] [0; 1; 1; 1]%nat in
  c_log c = [(0%nat, OSched); (1%nat, ORun); (1%nat, ODisp 3%nat)] /\ zdisp 3%nat (plain (c_log c)) = 1.
Proof. vm_compute. repeat split. Qed.
