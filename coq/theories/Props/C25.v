(* C25 -- a disposable's action runs at most once.
   Disposable: the action is invoked at most once, and is_disposed is True as soon as any dispose()
   executed its test-and-set (a fortiori once any dispose() returned); BooleanDisposable only flips
   its flag; ScheduledDisposable disposes the wrapped item on its scheduler exactly once.
   Part 1: all call histories of one thread (models Core/Disposables.v).
   Part 2: ALL schedules of ANY number of threads running ANY programs (transition systems
   Core/DispConc.v: one locked block / one unlocked access / one call out = one step).
   Models are tied to /repo by harness/props/C25.py (K1 histories, K3 controlled interleavings). *)
From RxVerif Require Import Base.Prelude Core.Disposables Core.DisposablesFacts Core.DispConc Core.DispConcFacts.

(* ---- one thread: all call histories ------------------------------------------ *)
Local Open Scope nat_scope.

(* the action runs exactly once iff dispose() was called at all, whatever the history *)
Theorem C25_action_once :
  forall h,
  runs (log d_step d_init h) = (if existsb is_ddispose h then 1 else 0) /\
  final d_step d_init h = existsb is_ddispose h.
Proof. exact disposable_action_once. Qed.
Print Assumptions C25_action_once.

Theorem C25_action_at_most_once :
  forall h, runs (log d_step d_init h) <= 1.
Proof. exact disposable_action_at_most_once. Qed.
Print Assumptions C25_action_at_most_once.

(* is_disposed is reported by every query that follows a dispose() *)
Theorem C25_reports_is_disposed :
  forall h1 h2,
  last (outs d_step d_init (h1 ++ DDispose :: h2 ++ [DIsDisposed])) [] = [OBool true].
Proof. exact disposable_reports. Qed.
Print Assumptions C25_reports_is_disposed.

(* BooleanDisposable only flips its flag *)
Theorem C25_boolean_flag_only :
  forall h,
  final b_step d_init h = existsb is_ddispose h /\
  runs (log b_step d_init h) = 0 /\ (forall i, disposes i (log b_step d_init h) = 0).
Proof. exact boolean_flag_only. Qed.
Print Assumptions C25_boolean_flag_only.

(* the wrapped item is disposed exactly once iff the scheduler ran at least one of the queued
   actions, never otherwise, and nothing else is disposed; is_disposed reports exactly that *)
Theorem C25_scheduled_once :
  forall h i,
  let s0 := sch_init i in
  disposes i (log sch_step s0 h) = (if 0 <? eff_runs 0 h then 1 else 0) /\
  (forall j, j <> i -> disposes j (log sch_step s0 h) = 0) /\
  s_disposed (sch_inner (final sch_step s0 h)) = (0 <? eff_runs 0 h).
Proof. exact scheduled_once. Qed.
Print Assumptions C25_scheduled_once.

(* every dispose() call schedules one action (repeated calls schedule repeatedly) *)
Theorem C25_scheduled_schedules_each_call :
  forall h s,
  scheds (log sch_step s h) = length (filter is_schdispose h).
Proof. exact scheduled_schedules_each. Qed.
Print Assumptions C25_scheduled_schedules_each_call.

(* the scheduler invoked exactly [eff_runs] queued actions (observable: ORun) *)
Theorem C25_scheduled_runs_observable :
  forall h s, runs (log sch_step s h) = eff_runs (sch_queue s) h.
Proof. exact scheduled_runs. Qed.
Print Assumptions C25_scheduled_runs_observable.

(* non-vacuity *)
Example C25_witness_seq :
  outs d_step d_init [DIsDisposed; DDispose; DDispose; DIsDisposed] = [[OBool false]; [ORun]; []; [OBool true]].
Proof. vm_compute. reflexivity. Qed.
Example C25_witness_scheduled_seq :
  log sch_step (sch_init 3) [SchDispose; SchDispose; SchRunOne; SchRunOne; SchIsDisposed]
  = [OSched; OSched; ORun; ODisp 3; ORun; OBool true].
Proof. vm_compute. reflexivity. Qed.

(* ---- any number of threads: all schedules -------------------------------------- *)
Local Close Scope nat_scope.
Local Open Scope Z_scope.

(* the action is invoked at most once under every interleaving of any number of threads and calls:
   (#invocations) + (1 if not yet disposed) + (#threads between the test-and-set and the call) = 1 *)
Theorem C25_once_all_interleavings :
  forall progs sched,
  let c := dd_run progs sched in
  Z.of_nat (runs (plain (c_log c))) + dd_held (c_sh c) + dd_in_flight c = 1 /\
  (runs (plain (c_log c)) <= 1)%nat /\
  (quiescent c = true -> runs (plain (c_log c)) = if c_sh c then 1%nat else 0%nat).
Proof. exact disposable_conc_once. Qed.
Print Assumptions C25_once_all_interleavings.

Theorem C25_reports_all_interleavings :
  forall progs sched k t,
  let c := dd_run progs sched in
  nth_error (c_ths c) k = Some t -> In DDispose (t_hist t) -> c_sh c = true.
Proof. exact disposable_conc_reports. Qed.
Print Assumptions C25_reports_all_interleavings.

Theorem C25_boolean_reports_all_interleavings :
  forall progs sched k t,
  let c := bd_run progs sched in
  nth_error (c_ths c) k = Some t -> In DDispose (t_hist t) -> c_sh c = true.
Proof. exact boolean_conc_reports. Qed.
Print Assumptions C25_boolean_reports_all_interleavings.

Theorem C25_boolean_flag_only_all_interleavings :
  forall progs sched,
  forallb quiet (plain (c_log (bd_run progs sched))) = true.
Proof. exact boolean_conc_flag_only. Qed.
Print Assumptions C25_boolean_flag_only_all_interleavings.

Theorem C25_scheduled_conservation_all_interleavings :
  forall w progs sched i,
  let c := hc_run w progs sched in
  zdisp i (plain (c_log c)) + Z.of_nat (ocnt i (s_cur (sch_inner (c_sh c)))) + hc_in_flight i c
  = (if Nat.eqb i w then 1 else 0).
Proof. exact scheduled_conc_conservation. Qed.
Print Assumptions C25_scheduled_conservation_all_interleavings.

(* EXACTLY ONCE, ON THE SCHEDULER: under every interleaving the wrapped item receives at most one
   dispose() and nothing else is disposed; once all calls returned it received exactly one iff the
   scheduler invoked at least one of the queued actions *)
Theorem C25_scheduled_once_all_interleavings :
  forall w progs sched,
  let c := hc_run w progs sched in
  zdisp w (plain (c_log c)) <= 1 /\
  (forall j, j <> w -> zdisp j (plain (c_log c)) = 0) /\
  (quiescent c = true ->
   zdisp w (plain (c_log c)) = (if (1 <=? runs (plain (c_log c)))%nat then 1 else 0) /\
   s_disposed (sch_inner (c_sh c)) = (1 <=? runs (plain (c_log c)))%nat).
Proof. exact scheduled_conc_once. Qed.
Print Assumptions C25_scheduled_once_all_interleavings.

(* non-vacuity: two threads race on dispose(); T0 passes the test-and-set first, T1's call returns
   before T0 has invoked the action, is_disposed is already reported, the action runs once *)
Example C25_witness_race :
  let c := dd_run [[DDispose]; [DDispose; DIsDisposed]] [0; 1; 1; 0]%nat in
  c_log c = [(1%nat, OBool true); (0%nat, ORun)] /\ quiescent c = true /\ c_sh c = true.
Proof. vm_compute. repeat split. Qed.
Example C25_witness_reports_hyp :
  let c := dd_run [[DDispose]; [DDispose]] [1]%nat in
  exists t, nth_error (c_ths c) 1 = Some t /\ In DDispose (t_hist t) /\ quiescent c = false.
Proof. vm_compute. eexists. split; [reflexivity|]. split; [left; reflexivity|reflexivity]. Qed.
(* two dispose() calls, two workers: both queued actions are invoked, the item is disposed once *)
Example C25_witness_scheduled_race :
  let c := hc_run 3%nat [[SchDispose; SchDispose]; [SchRunOne]; [SchRunOne]] [0; 0; 1; 2; 1; 2; 1]%nat in
  plain (c_log c) = [OSched; OSched; ORun; ORun; ODisp 3%nat] /\ quiescent c = true.
Proof. vm_compute. repeat split. Qed.
