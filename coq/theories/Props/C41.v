(* C41 -- future, callback and blocking bridges keep their contracts.
   Outcome models (Ops/Bridges.v, written from observable/{fromfuture,toasync,
   start,startasync,fromcallback}.py, operators/_tofuture.py, run.py and
   Observable.__await__): a future is a one-shot cell; a model maps the
   sequence of actions at the bridge's boundary to the notifications (with the
   position of the action during which they arrive), the final state of the
   future and the positions of the library's cancel()/dispose calls.
   Theorems hold for ALL continuations [rest]/[junk] of the action sequence. *)
From RxVerif Require Import Base.Prelude Base.CaseLib Ops.Machine Ops.MachineFacts Ops.Bridges Ops.BridgesFacts Ops.BridgesRun Ops.BridgesFacts2.

(* ---- from_future ---------------------------------------------------------------- *)
Theorem C41_from_future_result : forall v rest,
  from_future FPending (ASetResult v :: rest) = ([(1%nat, Next v); (1%nat, Done)], [1%nat], FResult v).
Proof. exact from_future_result. Qed.
Theorem C41_from_future_exception : forall e rest,
  from_future FPending (ASetExn e :: rest) = ([(1%nat, Err e)], [1%nat], FExn e).
Proof. exact from_future_exception. Qed.
Theorem C41_from_future_cancellation : forall rest,
  from_future FPending (ACancel :: rest) = ([(1%nat, Err CANCELLED)], [1%nat], FCancelled).
Proof. exact from_future_cancelled. Qed.
Theorem C41_from_future_unsubscribed_first : forall rest,
  from_future FPending (ADispose :: rest) = ([], [1%nat], FCancelled).
Proof. exact from_future_dispose_first. Qed.
Theorem C41_from_future_already_done : forall init acts, settled init ->
  from_future init acts = (settled_notes 0 init, [0%nat], init).
Proof. exact from_future_already_done. Qed.
Theorem C41_from_future_at_most_one_outcome : forall acts,
  let '(ns, cs, fin) := from_future FPending acts in
  (ns = [] /\ cs = [] /\ fin = FPending)
  \/ (exists j, (ns = [] \/ ns = settled_notes j fin) /\ cs = [j] /\ settled fin).
Proof. exact from_future_at_most_one_outcome. Qed.
Print Assumptions C41_from_future_result.
Print Assumptions C41_from_future_exception.
Print Assumptions C41_from_future_cancellation.
Print Assumptions C41_from_future_unsubscribed_first.
Print Assumptions C41_from_future_already_done.
Print Assumptions C41_from_future_at_most_one_outcome.

(* ---- to_future / await / run ------------------------------------------------------ *)
Theorem C41_to_future_last_element : forall xs t junk, t <> TNever ->
  to_future (map TSrc (events xs t ++ junk)) = ([S (length xs)], expected_future xs t).
Proof. exact to_future_spec. Qed.
Print Assumptions C41_to_future_last_element.

Theorem C41_to_future_last_of_nonempty : forall xs x d, last_opt (xs ++ [x]) d = Some x.
Proof. exact last_opt_app. Qed.
Print Assumptions C41_to_future_last_of_nonempty.

Theorem C41_to_future_stays_pending : forall xs, to_future (map TSrc (events xs TNever)) = ([], FPending).
Proof. exact to_future_pending. Qed.
Print Assumptions C41_to_future_stays_pending.

Theorem C41_to_future_cancelled_by_owner : forall xs junk,
  to_future (map TSrc (map Next xs) ++ TCancelFuture :: map TSrc junk) = ([S (length xs)], FCancelled).
Proof. exact to_future_cancelled_first. Qed.
Print Assumptions C41_to_future_cancelled_by_owner.

Theorem C41_run_and_await : forall xs t junk, t <> TNever ->
  run_outcome (events xs t ++ junk)
  = match t with
    | TDone => match last_opt xs None with Some v => Returns v | None => Raises NO_ELEMENTS end
    | TErr e => Raises e
    | TNever => Blocks
    end.
Proof. exact run_spec. Qed.
Print Assumptions C41_run_and_await.

Example C41_examples :
  run_outcome (events [4; 5; 6] TDone) = Returns 6 /\ run_outcome (events [] TDone) = Raises NO_ELEMENTS
  /\ run_outcome (events [4] (TErr 11)) = Raises 11 /\ run_outcome (events [4] TNever) = Blocks.
Proof. vm_compute. auto. Qed.

(* a sequence without a terminal notification: the caller stays blocked *)
Theorem C41_run_blocks : forall xs, run_outcome (events xs TNever) = Blocks.
Proof. exact run_blocks. Qed.
Print Assumptions C41_run_blocks.

(* run() has a model of its own, written from run.py (Ops/BridgesRun.v: result, has_result,
   exception tested with `is not None`, done, and the stopped flag of the AutoDetachObserver that
   subscribe() puts around the three callbacks).  It agrees with the to_future description on ALL
   notification sequences (no grammar assumed) *)
Theorem C41_run_model_is_run_outcome : forall ins, run_model ins = run_outcome ins.
Proof. exact run_model_is_run_outcome. Qed.
Print Assumptions C41_run_model_is_run_outcome.

Theorem C41_run_model_spec : forall xs t junk, t <> TNever ->
  run_model (events xs t ++ junk)
  = match t with
    | TDone => match last_opt xs None with Some v => Returns v | None => Raises NO_ELEMENTS end
    | TErr e => Raises e
    | TNever => Blocks
    end.
Proof. exact run_model_spec. Qed.
Print Assumptions C41_run_model_spec.

Theorem C41_run_model_blocks : forall xs, run_model (events xs TNever) = Blocks.
Proof. exact run_model_blocks. Qed.
Print Assumptions C41_run_model_blocks.

(* a falsy exception (id 0) and a falsy last element (0) are an exception / a result like any other;
   elements after the terminal notification are dropped *)
Example C41_run_model_examples :
  run_model [Next 4; Err 0; Next 5] = Raises 0 /\ run_model [Next 4; Next 0; Done; Next 7; Err 3] = Returns 0
  /\ run_model [Done] = Raises NO_ELEMENTS /\ run_model [Next 1; Next 2] = Blocks.
Proof. vm_compute. auto. Qed.

(* ---- to_async / start ----------------------------------------------------------------- *)
Theorem C41_to_async_result : forall r,
  to_async r [ARun; ASubscribe] = result_notes 1 r /\ to_async r [ASubscribe; ARun] = result_notes 1 r.
Proof. intros r. split; [exact (to_async_run_then_subscribe r)|exact (to_async_subscribe_then_run r)]. Qed.
Theorem C41_to_async_single_result : forall r acts,
  to_async r acts = [] \/ exists k, to_async r acts = result_notes k r.
Proof. exact to_async_single_result. Qed.
Theorem C41_to_async_unsubscribed_before_run : forall r rest, to_async r (ASubscribe :: AUnsubscribe :: rest) = [].
Proof. exact to_async_unsubscribed_before_run. Qed.
Print Assumptions C41_to_async_result.
Print Assumptions C41_to_async_single_result.
Print Assumptions C41_to_async_unsubscribed_before_run.

(* liveness, general orders: the result IS delivered when the call has run before the first
   subscription (during subscribe()), or runs while a subscription is there and not yet disposed (at
   that moment); [a1], [a2], [rest] arbitrary within the stated side conditions *)
Theorem C41_to_async_delivers_late_subscriber : forall r a1 rest, In ARun a1 -> ~ In ASubscribe a1 ->
  to_async r (a1 ++ ASubscribe :: rest) = result_notes (length a1) r.
Proof. exact to_async_delivers_late_subscriber. Qed.
Print Assumptions C41_to_async_delivers_late_subscriber.

Theorem C41_to_async_delivers_live_subscriber : forall r a1 a2 rest,
  ~ In ARun a1 -> ~ In ASubscribe a1 -> ~ In ARun a2 -> ~ In AUnsubscribe a2 ->
  to_async r (a1 ++ ASubscribe :: a2 ++ ARun :: rest) = result_notes (length a1 + S (length a2)) r.
Proof. exact to_async_delivers_live_subscriber. Qed.
Print Assumptions C41_to_async_delivers_live_subscriber.

(* ... and in the remaining cases nothing is delivered: disposed before the call runs, the call
   never runs, nobody subscribes *)
Theorem C41_to_async_unsubscribed_before_run_general : forall r a1 a2 rest,
  ~ In ARun a1 -> ~ In ASubscribe a1 -> ~ In ARun a2 -> ~ In AUnsubscribe a2 ->
  to_async r (a1 ++ ASubscribe :: a2 ++ AUnsubscribe :: rest) = [].
Proof. exact to_async_unsubscribed_before_run_general. Qed.
Print Assumptions C41_to_async_unsubscribed_before_run_general.

Theorem C41_to_async_never_run : forall r acts, ~ In ARun acts -> to_async r acts = [].
Proof. exact to_async_never_run. Qed.
Print Assumptions C41_to_async_never_run.

Theorem C41_to_async_never_subscribed : forall r acts, ~ In ASubscribe acts -> to_async r acts = [].
Proof. exact to_async_never_subscribed. Qed.
Print Assumptions C41_to_async_never_subscribed.

Example C41_to_async_delivery_examples :
  to_async (Ok 7) ([AUnsubscribe; ARun; ARun] ++ ASubscribe :: [ASubscribe; AUnsubscribe])
    = [(3%nat, Next 7); (3%nat, Done)]
  /\ to_async (Raise 9) ([AUnsubscribe] ++ ASubscribe :: [ASubscribe] ++ ARun :: [ARun; AUnsubscribe])
    = [(3%nat, Err 9)].
Proof. vm_compute. auto. Qed.

(* ---- from_callback ------------------------------------------------------------------- *)
Theorem C41_from_callback_no_mapper : forall k args rest,
  from_callback None ((k, args) :: rest) = [(k, Next (arguments_value args)); (k, Done)].
Proof. exact from_callback_spec_no_mapper. Qed.
Theorem C41_from_callback_mapper : forall mp k args rest v, apply_mapper mp args = Ok v ->
  from_callback (Some mp) ((k, args) :: rest) = [(k, Next (VOne v)); (k, Done)].
Proof. exact from_callback_spec_mapper. Qed.
Theorem C41_from_callback_mapper_raises : forall mp k args rest e, apply_mapper mp args = Raise e ->
  from_callback (Some mp) ((k, args) :: rest) = [(k, Err e)].
Proof. exact from_callback_mapper_raises. Qed.
Print Assumptions C41_from_callback_no_mapper.
Print Assumptions C41_from_callback_mapper.
Print Assumptions C41_from_callback_mapper_raises.

Example C41_from_callback_examples :
  from_callback (Some MSum) [(0%nat, [5; 6]); (1%nat, [7])] = [(0%nat, Next (VOne 11)); (0%nat, Done)]
  /\ from_callback None [(2%nat, [])] = [(2%nat, Next VNone); (2%nat, Done)]
  /\ from_callback None [(0%nat, [5; 6])] = [(0%nat, Next (VList [5; 6])); (0%nat, Done)].
Proof. vm_compute. auto. Qed.

(* the handler is never invoked: nothing *)
Theorem C41_from_callback_never_invoked : forall m, from_callback m [] = [].
Proof. exact from_callback_never_invoked. Qed.
Print Assumptions C41_from_callback_never_invoked.

(* the same three statements with the mapper an ARBITRARY function on the argument list
   ([from_callback_fn], Ops/BridgesRun.v); the model evaluated by the correspondence is its instance
   at the four concrete mappers *)
Theorem C41_from_callback_fn_no_mapper : forall k args rest,
  from_callback_fn None ((k, args) :: rest) = [(k, Next (arguments_value args)); (k, Done)].
Proof. exact from_callback_fn_no_mapper. Qed.
Theorem C41_from_callback_fn_mapper : forall (mp : list Z -> res Z) k args rest v, mp args = Ok v ->
  from_callback_fn (Some mp) ((k, args) :: rest) = [(k, Next (VOne v)); (k, Done)].
Proof. exact from_callback_fn_mapper. Qed.
Theorem C41_from_callback_fn_mapper_raises : forall (mp : list Z -> res Z) k args rest e, mp args = Raise e ->
  from_callback_fn (Some mp) ((k, args) :: rest) = [(k, Err e)].
Proof. exact from_callback_fn_mapper_raises. Qed.
Theorem C41_from_callback_is_instance : forall m invs,
  from_callback m invs = from_callback_fn (option_map apply_mapper m) invs.
Proof. exact from_callback_is_instance. Qed.
Print Assumptions C41_from_callback_fn_no_mapper.
Print Assumptions C41_from_callback_fn_mapper.
Print Assumptions C41_from_callback_fn_mapper_raises.
Print Assumptions C41_from_callback_is_instance.

Example C41_from_callback_fn_example :
  from_callback_fn (Some (fun args => Ok (fold_right Z.mul 1 args))) [(0%nat, [5; 6]); (1%nat, [7])]
  = [(0%nat, Next (VOne 30)); (0%nat, Done)].
Proof. vm_compute. auto. Qed.
