(* C03 -- unsubscribing silences the subscriber and frees its sources.
   For EVERY machine and EVERY input sequence with a dispose at ANY position:
   the observable trace up to and including the dispose is all there is --
   whatever sources and timers do afterwards adds nothing (no notification, no
   subscription, no timer, no side effect; user callbacks are only ever invoked
   from the handlers, which no longer run) -- and at that instant every source
   subscription and timer is released. *)
From RxVerif Require Import Base.Prelude Ops.Machine Ops.MachineFacts Ops.Multi Ops.MultiFacts
  Ops.ReleaseFacts.

Theorem C03_silent_and_released_after_dispose :
  forall A B (m : machine A B) ins1 ins2 now s r k, rinv r ->
    fst (run_from m s r k (ins1 ++ (now, IDispose) :: ins2))
    = fst (run_from m s r k (ins1 ++ [(now, IDispose)]))
    /\ released (snd (run_from m s r k (ins1 ++ (now, IDispose) :: ins2))).
Proof. exact @run_from_after_dispose. Qed.
Print Assumptions C03_silent_and_released_after_dispose.

Theorem C03_stopped_runner_ignores_everything : forall A B (m : machine A B) ins s r k,
  r_stopped r = true -> run_from m s r k ins = ([], r).
Proof. exact @run_from_stopped. Qed.
Print Assumptions C03_stopped_runner_ignores_everything.

(* the trace of a disposed run leaves no subscription open *)
Theorem C03_trace_balanced_after_dispose : forall A B (m : machine A B) ins1 ins2 now s r k, rinv r ->
  r_live (snd (run_from m s r k (ins1 ++ (now, IDispose) :: ins2))) = [].
Proof.
  intros A B m ins1 ins2 now s r k H.
  destruct (run_from_after_dispose m ins1 ins2 now s r k H) as [_ R]. now rewrite R.
Qed.
Print Assumptions C03_trace_balanced_after_dispose.
