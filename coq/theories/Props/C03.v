(* C03 -- unsubscribing silences the subscriber and frees its sources.
   For EVERY machine and EVERY input sequence with a dispose at ANY position:
   the observable trace up to and including the dispose is all there is --
   whatever sources and timers do afterwards adds nothing (no notification, no
   subscription, no timer, no side effect; user callbacks are only ever invoked
   from the handlers, which no longer run) -- and at that instant every source
   subscription and timer is released. *)
From RxVerif Require Import Base.Prelude Ops.Machine Ops.MachineFacts Ops.Multi Ops.MultiFacts
  Ops.ReleaseFacts Ops.RunTailFacts Ops.Combinators.

Theorem C03_silent_and_released_after_dispose :
  forall A B (m : machine A B) ins1 ins2 now s r k, rinv r ->
    fst (run_from m s r k (ins1 ++ (now, IDispose) :: ins2))
    = fst (run_from m s r k (ins1 ++ [(now, IDispose)]))
    /\ released (snd (run_from m s r k (ins1 ++ (now, IDispose) :: ins2))).
Proof. exact @run_from_after_dispose. Qed.
Print Assumptions C03_silent_and_released_after_dispose.

Theorem C03_stopped_runner_ignores_everything : forall A B (m : machine A B) ins s r k,
  r_stopped r = true -> run_from m s r k ins = ([], r).
Proof. exact @run_from_stopped. Qed.
Print Assumptions C03_stopped_runner_ignores_everything.

(* the trace of a disposed run leaves no subscription open *)
Theorem C03_trace_balanced_after_dispose : forall A B (m : machine A B) ins1 ins2 now s r k, rinv r ->
  r_live (snd (run_from m s r k (ins1 ++ (now, IDispose) :: ins2))) = [].
Proof.
  intros A B m ins1 ins2 now s r k H.
  destruct (run_from_after_dispose m ins1 ins2 now s r k H) as [_ R]. now rewrite R.
Qed.
Print Assumptions C03_trace_balanced_after_dispose.

(* the same for whole runs, from subscription: the start state of every machine
   satisfies the invariant [rinv] *)
Theorem C03_run_disposed : forall A B (m : machine A B) ins1 ins2 now,
  fst (run m (ins1 ++ (now, IDispose) :: ins2)) = fst (run m (ins1 ++ [(now, IDispose)]))
  /\ released (snd (run m (ins1 ++ (now, IDispose) :: ins2))).
Proof. exact @run_after_dispose. Qed.
Print Assumptions C03_run_disposed.

(* witness: merge of two sources disposed while both are live -- both are
   unsubscribed in the dispose step and the later element adds nothing *)
Example C03_witness_dispose_mid_run :
  run (@x_merge Z 2) ([(0, ISrc 0%nat (Next 5))] ++ (1, IDispose) :: [(2, ISrc 1%nat (Next 4))])
  = ([(0%nat, OSub 0%nat); (0%nat, OSub 1%nat); (1%nat, OEmit (Next 5));
      (2%nat, OUnsub 0%nat); (2%nat, OUnsub 1%nat)],
     RState [] [] true).
Proof. vm_compute. reflexivity. Qed.
