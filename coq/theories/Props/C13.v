(* C13 -- multi-source combinators follow their pairing rules.
   amb: refinement to [amb_spec] for EVERY input sequence.  zip: the pairing
   invariant for EVERY sequence of deliveries, plus its emission and completion
   rules.  combine_latest / with_latest_from: closed forms over EVERY sequence
   of deliveries (the emitted tuples are exactly the snapshots of the latest
   elements, from the first moment every source has one), plus their step
   rules; fork_join: closed form over every sequence of deliveries and completions,
   plus its step rule. *)
From RxVerif Require Import Base.Prelude Ops.Machine Ops.Multi Ops.MultiFacts Ops.RunLemmas
  Ops.Combinators Ops.MergeFacts Ops.CombineFacts Ops.LatestFacts Ops.ZipRunFacts Ops.ZipSpecFacts
  Ops.ZipPairFacts.

Theorem C13_amb_refines_spec : forall A n (ins : list (Z * inp A)),
  temitted (fst (run (x_amb n) ins)) = amb_spec n None 1 ins.
Proof. exact @amb_refines_spec. Qed.
Print Assumptions C13_amb_refines_spec.

(* helper about apply_cmds (its hypotheses are not tied to a reachable amb state): unsubscribing
   every source but k from a duplicate-free live list leaves [k].  The statement about [run] is
   C13_amb_run_losers_released below. *)
Theorem C13_amb_losers_unsubscribed_at_once : forall A (k : nat) (others live : list nat) ts,
  NoDup live -> In k live -> ~ In k others -> (forall j, In j live -> j = k \/ In j others) ->
  fst (apply_cmds (B:=A) (RState live ts false) (map CUnsub others)) = RState [k] ts false.
Proof. exact @apply_unsub_others. Qed.
Print Assumptions C13_amb_losers_unsubscribed_at_once.

(* about the HANDLER iterated on element deliveries (zip_feed); C13_zip_run_is_feed below shows
   that [run] emits exactly zip_feed's tuples, and C13_zip_run_pairing is the run-level form over
   the full input alphabet *)
Theorem C13_zip_pairing : forall A (d : A) n (ins : list (nat * A)),
  Forall (fun p => (fst p < n)%nat) ins ->
  let '(st, outs) := zip_feed n (repeat [] n, repeat false n) ins [] in
  forall k, (k < n)%nat -> proj k ins = col d k outs ++ nth k (fst st) [].
Proof. exact @zip_pairing. Qed.
Print Assumptions C13_zip_pairing.

Theorem C13_zip_emits_iff_every_source_has_an_element : forall A n queues done now k (x : A),
  cemits (snd (fst (x_step (x_zip n) (queues, done) now (ISrc k (Next x))))) <> [] <->
  all_nonempty (nth_set k (nth k queues [] ++ [x]) queues) = true.
Proof. exact @zip_emits_iff_all_have. Qed.
Print Assumptions C13_zip_emits_iff_every_source_has_an_element.

Theorem C13_zip_completes_when_completed_source_has_nothing_buffered : forall A n queues done now k,
  snd (x_step (x_zip (A:=A) n) (queues, done) now (ISrc k Done))
  = if Nat.eqb (length (nth k queues [])) 0 then Complete else Cont.
Proof. exact @zip_completion_rule. Qed.
Print Assumptions C13_zip_completes_when_completed_source_has_nothing_buffered.

(* combine_latest: on an element, emits the tuple of latest values iff every
   source has emitted (now or before) *)
Theorem C13_combine_latest_rule : forall A n values hva done now k (x : A),
  let values1 := nth_set k (Some x) values in
  let all_have := hva || forallb (fun v => match v with Some _ => true | None => false end) values1 in
  cemits (snd (fst (x_step (x_combine_latest n) (values, hva, done) now (ISrc k (Next x)))))
  = if all_have then [flat_map (fun v => match v with Some y => [y] | None => [] end) values1] else [].
Proof. intros. cbn [x_combine_latest x_step]. subst values1 all_have. destruct (_ || _); reflexivity. Qed.
Print Assumptions C13_combine_latest_rule.

(* with_latest_from: only the primary source (0) triggers emissions, and only
   once every other source has a value; the others just store *)
Theorem C13_with_latest_from_rule : forall A n values now (x : A),
  cemits (snd (fst (x_step (x_with_latest_from n) values now (ISrc 0%nat (Next x)))))
  = if forallb (fun v => match v with Some _ => true | None => false end) values
    then [x :: flat_map (fun v => match v with Some y => [y] | None => [] end) values] else [].
Proof. intros. cbn [x_with_latest_from x_step]. destruct (forallb _ values); reflexivity. Qed.
Theorem C13_with_latest_from_others_silent : forall A n values now j (e : ev A),
  cemits (snd (fst (x_step (x_with_latest_from n) values now (ISrc (S j) e)))) = [].
Proof. intros. destruct e; reflexivity. Qed.
Print Assumptions C13_with_latest_from_rule.
Print Assumptions C13_with_latest_from_others_silent.

(* fork_join: a source completing empty completes at once; otherwise the tuple
   of last values is emitted when the last source completes *)
Theorem C13_fork_join_rule : forall A n values done now k,
  x_step (x_fork_join (A:=A) n) (values, done) now (ISrc k Done)
  = let done1 := nth_set k true done in
    match nth k values None with
    | None => ((values, done1), [], Complete)
    | Some _ => if forallb (fun d => d) done1
                then ((values, done1),
                      [CEmit (flat_map (fun v => match v with Some y => [y] | None => [] end) values)], Complete)
                else ((values, done1), [], Cont)
    end.
Proof. reflexivity. Qed.
Print Assumptions C13_fork_join_rule.

(* combine_latest over n >= 1 sources, ANY sequence of deliveries (source, element):
   the tuples emitted are exactly [cl_spec] -- one per delivery from the first
   moment every source has delivered, each the snapshot of the latest elements *)
Theorem C13_combine_latest_closed_form : forall A n (ins : list (nat * A)) done,
  (0 < n)%nat -> Forall (fun p => (fst p < n)%nat) ins ->
  snd (cl_feed n (repeat None n, false, done) ins []) = cl_spec n [] ins.
Proof. exact @combine_latest_closed_form. Qed.
Print Assumptions C13_combine_latest_closed_form.

(* ... and every such tuple has one component per source, component j being the
   last element source j delivered up to that point *)
Theorem C13_combine_latest_tuples_are_latest : forall A n (seen ins : list (nat * A)) tuple,
  In tuple (cl_spec n seen ins) ->
  exists pre post, ins = pre ++ post /\ pre <> [] /\ length tuple = n /\
    forall j d, (j < n)%nat -> latest j (seen ++ pre) = Some (nth j tuple d).
Proof. exact @combine_latest_tuples_are_latest. Qed.
Print Assumptions C13_combine_latest_tuples_are_latest.

(* with_latest_from (parent = source 0, children 1..n), ANY sequence of deliveries:
   exactly the parent's elements arriving once every child has delivered are
   emitted, each paired with the children's latest elements *)
Theorem C13_with_latest_from_closed_form : forall A n (ins : list (nat * A)),
  Forall (fun p => (fst p <= n)%nat) ins ->
  snd (wlf_feed n (repeat None n) ins []) = wlf_spec n [] ins.
Proof. exact @with_latest_from_closed_form. Qed.
Print Assumptions C13_with_latest_from_closed_form.

(* fork_join over n sources, ANY sequence of deliveries (source, Some x) and completions
   (source, None): nothing until every source has completed, then ONE tuple of the last elements;
   a source completing empty completes the output at once, without a tuple *)
Theorem C13_fork_join_closed_form : forall A n (ins : list (nat * option A)),
  Forall (fun p => (fst p < n)%nat) ins ->
  fj_feed n (repeat None n, repeat false n) ins [] = fj_spec n [] (repeat false n) ins.
Proof. exact @fork_join_closed_form. Qed.
Print Assumptions C13_fork_join_closed_form.
Theorem C13_fork_join_at_most_one_tuple : forall A n (ins : list (nat * option A)) seen done,
  (length (fst (fj_spec n seen done ins)) <= 1)%nat.
Proof. exact @fj_spec_at_most_one. Qed.
Print Assumptions C13_fork_join_at_most_one_tuple.

(* ---- the feeds are what the RUNNER emits ------------------------------------------------------
   [elem_inputs tins] = the input sequence made of the element deliveries tins (time, (source,
   element)) only.  For EVERY such sequence from existing sources: the notifications [run] emits are
   exactly the feed's tuples, in order, nothing else (no termination), and every source is still
   subscribed at the end. *)
Theorem C13_zip_run_is_feed : forall A n (tins : list (Z * (nat * A))),
  Forall (fun tp => (fst (snd tp) < n)%nat) tins ->
  emitted (fst (run (x_zip n) (elem_inputs tins)))
    = map Next (snd (zip_feed n (repeat [] n, repeat false n) (map snd tins) []))
  /\ snd (run (x_zip n) (elem_inputs tins)) = RState (seq 0 n) [] false.
Proof. exact @zip_run_is_feed. Qed.
Print Assumptions C13_zip_run_is_feed.

Theorem C13_combine_latest_run_is_feed : forall A n (tins : list (Z * (nat * A))),
  Forall (fun tp => (fst (snd tp) < n)%nat) tins ->
  emitted (fst (run (x_combine_latest n) (elem_inputs tins)))
    = map Next (snd (cl_feed n (repeat None n, false, repeat false n) (map snd tins) []))
  /\ snd (run (x_combine_latest n) (elem_inputs tins)) = RState (seq 0 n) [] false.
Proof. exact @cl_run_is_feed. Qed.
Print Assumptions C13_combine_latest_run_is_feed.

Theorem C13_with_latest_from_run_is_feed : forall A n (tins : list (Z * (nat * A))),
  Forall (fun tp => (fst (snd tp) <= n)%nat) tins ->
  emitted (fst (run (x_with_latest_from n) (elem_inputs tins)))
    = map Next (snd (wlf_feed n (repeat None n) (map snd tins) []))
  /\ snd (run (x_with_latest_from n) (elem_inputs tins)) = RState (seq 1 n ++ [0%nat]) [] false.
Proof. exact @wlf_run_is_feed. Qed.
Print Assumptions C13_with_latest_from_run_is_feed.

(* ... hence the closed forms are statements about [run] *)
Theorem C13_combine_latest_run_closed_form : forall A n (tins : list (Z * (nat * A))),
  (0 < n)%nat -> Forall (fun tp => (fst (snd tp) < n)%nat) tins ->
  emitted (fst (run (x_combine_latest n) (elem_inputs tins))) = map Next (cl_spec n [] (map snd tins)).
Proof. exact @cl_run_closed_form. Qed.
Print Assumptions C13_combine_latest_run_closed_form.

Theorem C13_with_latest_from_run_closed_form : forall A n (tins : list (Z * (nat * A))),
  Forall (fun tp => (fst (snd tp) <= n)%nat) tins ->
  emitted (fst (run (x_with_latest_from n) (elem_inputs tins))) = map Next (wlf_spec n [] (map snd tins)).
Proof. exact @wlf_run_closed_form. Qed.
Print Assumptions C13_with_latest_from_run_closed_form.

Example C13_witness_run_is_feed :
  let tins := [(1, (0%nat, 1)); (2, (0%nat, 2)); (3, (1%nat, 10)); (4, (1%nat, 20)); (5, (1%nat, 30))] in
  emitted (fst (run (x_zip 2) (elem_inputs tins))) = [Next [1; 10]; Next [2; 20]]
  /\ emitted (fst (run (x_combine_latest 2) (elem_inputs tins))) = [Next [2; 10]; Next [2; 20]; Next [2; 30]]
  /\ emitted (fst (run (x_with_latest_from 1) (elem_inputs tins))) = [].
Proof. vm_compute. repeat split; reflexivity. Qed.

(* ---- amb: release of the losers, about [run] ----------------------------------------------------
   [amb_quiet n] inputs: notifications of sources amb does not have, timer ticks.  As soon as one of
   the n sources (w, the first) has notified, on EVERY continuation the runner ends with exactly w
   subscribed or with everything released; post = [] : the losers are gone within that very step. *)
Theorem C13_amb_run_losers_released : forall A n (pre post : list (Z * inp A)) now w e,
  Forall (amb_quiet n) pre -> (w < n)%nat ->
  snd (run (x_amb n) (pre ++ (now, ISrc w e) :: post)) = RState [w] [] false
  \/ snd (run (x_amb n) (pre ++ (now, ISrc w e) :: post)) = RState [] [] true.
Proof. exact @amb_run_losers_released. Qed.
Print Assumptions C13_amb_run_losers_released.

(* whenever amb has forwarded anything at all, at most ONE source is still subscribed *)
Theorem C13_amb_run_at_most_winner_live : forall A n (ins : list (Z * inp A)),
  amb_spec n None 1 ins <> [] ->
  exists w, (w < n)%nat /\
    (snd (run (x_amb n) ins) = RState [w] [] false \/ snd (run (x_amb n) ins) = RState [] [] true).
Proof. exact @amb_run_at_most_winner_live. Qed.
Print Assumptions C13_amb_run_at_most_winner_live.

Example C13_witness_amb_losers :
  snd (run (x_amb 3) [(0, ITick 7%nat); (0, ISrc 5%nat (Next 1)); (0, ISrc 1%nat (Next 5))]) = RState [1%nat] [] false
  /\ snd (run (x_amb 3) [(0, ISrc 1%nat (Next 5)); (0, ISrc 0%nat (Next 9)); (0, ISrc 1%nat Done)]) = RState [] [] true.
Proof. vm_compute. split; reflexivity. Qed.

(* ---- zip over the FULL input alphabet ------------------------------------------------------------
   REFINEMENT, every number of sources, EVERY input sequence (elements, completions, errors, ticks,
   dispose; also from sources that already completed): what the subscriber receives, and when, is
   [zip_spec] -- per-source histories, completed flags and the number c of tuples emitted; tuple c =
   the c-th elements of the histories, emitted at the first moment every history is longer than c;
   completion at the first moment a completed source has nothing beyond the emitted tuples; the first
   error of a subscribed source ends it. *)
Theorem C13_zip_refines_spec : forall A n (ins : list (Z * inp A)),
  temitted (fst (run (x_zip n) ins)) = zip_spec n (repeat [] n) (repeat false n) 0 1 ins.
Proof. exact @zip_refines_spec. Qed.
Print Assumptions C13_zip_refines_spec.

(* run-level pairing: the i-th tuple has one component per source, component k being the i-th
   element source k delivered while subscribed ([zip_hists]) -- which exists *)
Theorem C13_zip_run_pairing : forall A n (ins : list (Z * inp A)) i tup,
  nth_error (tuples (temitted (fst (run (x_zip n) ins)))) i = Some tup ->
  length tup = n /\
  forall k d, (k < n)%nat ->
    (i < length (nth k (zip_hists n (repeat [] n) (repeat false n) ins) []))%nat
    /\ nth k tup d = nth i (nth k (zip_hists n (repeat [] n) (repeat false n) ins) []) d.
Proof. exact @zip_run_pairing. Qed.
Print Assumptions C13_zip_run_pairing.

Example C13_witness_zip_full :
  let ins := [(0, ISrc 0%nat (Next 1)); (0, ISrc 0%nat (Next 2)); (0, ISrc 0%nat Done);
              (0, ISrc 0%nat (Next 3)); (0, ISrc 1%nat (Next 10)); (0, ISrc 1%nat (Next 20));
              (0, ISrc 1%nat (Next 30))] in
  temitted (fst (run (x_zip 2) ins)) = [(5%nat, Next [1; 10]); (6%nat, Next [2; 20]); (6%nat, Done)]
  /\ zip_hists 2 (repeat [] 2) (repeat false 2) ins = [[1; 2]; [10; 20; 30]].
Proof. vm_compute. split; reflexivity. Qed.

Example C13_witness_fork_join :
  fj_feed 2 (repeat None 2, repeat false 2) [(0%nat, Some 1); (1%nat, Some 10); (0%nat, Some 2); (0%nat, None); (1%nat, Some 20); (1%nat, None)] []
  = ([[2; 20]], true).
Proof. vm_compute. reflexivity. Qed.

Example C13_witness_combine_latest :
  snd (cl_feed 2 (repeat None 2, false, repeat false 2) [(0%nat, 1); (0%nat, 2); (1%nat, 10); (0%nat, 3); (1%nat, 20)] [])
  = [[2; 10]; [3; 10]; [3; 20]].
Proof. vm_compute. reflexivity. Qed.
Example C13_witness_with_latest_from :
  snd (wlf_feed 1 (repeat None 1) [(0%nat, 1); (1%nat, 10); (0%nat, 2); (1%nat, 20); (0%nat, 3)] [])
  = [[2; 10]; [3; 20]].
Proof. vm_compute. reflexivity. Qed.

Example C13_witness_zip :
  let '(st, outs) := zip_feed 2 (repeat [] 2, repeat false 2) [(0%nat, 1); (0%nat, 2); (1%nat, 10); (1%nat, 20); (1%nat, 30)] [] in
  outs = [[1; 10]; [2; 20]] /\ fst st = [[]; [30]].
Proof. vm_compute. split; reflexivity. Qed.
Example C13_witness_amb :
  temitted (fst (run (x_amb 3) [(0, ISrc 1%nat (Next 5)); (0, ISrc 0%nat (Next 9)); (0, ISrc 1%nat Done)]))
  = [(1%nat, Next 5); (3%nat, Done)].
Proof. vm_compute. reflexivity. Qed.

(* ==== fork_join / combine_latest / with_latest_from over the FULL input alphabet ====================
   (Ops/LatestSpecFacts.v) *)
From RxVerif Require Import Ops.LatestSpecFacts.

(* ---- fork_join: the RUNNER = fj_feed, completions included -----------------------------------------
   [fj_inputs tins] = the input sequence made of the element deliveries (source, Some x) and completions
   (source, None) tins; [fj_wfb (repeat false n) ...] = every one of them comes from one of the n sources
   that has not completed before (the Rx grammar per source; it is NEEDED, see the counterexample below:
   the runner's AutoDetachObserver drops what a source sends after its completion, the bare handler
   iteration fj_feed does not).  Then [run] emits exactly fj_feed's tuple(s), followed by the completion
   iff fj_feed reports the termination -- so C13_fork_join_closed_form is a statement about [run]. *)
Theorem C13_fork_join_run_is_feed : forall A n (tins : list (Z * (nat * option A))),
  fj_wfb (repeat false n) (map snd tins) = true ->
  emitted (fst (run (x_fork_join n) (fj_inputs tins)))
  = map Next (fst (fj_feed n (repeat None n, repeat false n) (map snd tins) []))
    ++ (if snd (fj_feed n (repeat None n, repeat false n) (map snd tins) []) then [Done] else []).
Proof. exact @fj_run_is_feed. Qed.
Print Assumptions C13_fork_join_run_is_feed.

Theorem C13_fork_join_run_closed_form : forall A n (tins : list (Z * (nat * option A))),
  fj_wfb (repeat false n) (map snd tins) = true ->
  emitted (fst (run (x_fork_join n) (fj_inputs tins)))
  = map Next (fst (fj_spec n [] (repeat false n) (map snd tins)))
    ++ (if snd (fj_spec n [] (repeat false n) (map snd tins)) then [Done] else []).
Proof. exact @fj_run_closed_form. Qed.
Print Assumptions C13_fork_join_run_closed_form.

(* the hypothesis is satisfiable by a run with a tuple and a completion ... *)
Example C13_witness_fork_join_run_is_feed :
  let tins := [(1, (0%nat, Some 1)); (2, (1%nat, Some 10)); (3, (0%nat, Some 2)); (4, (0%nat, None));
               (5, (1%nat, Some 20)); (6, (1%nat, None))] in
  fj_wfb (repeat false 2) (map snd tins) = true
  /\ emitted (fst (run (x_fork_join 2) (fj_inputs tins))) = [Next [2; 20]; Done]
  /\ fj_feed 2 (repeat None 2, repeat false 2) (map snd tins) [] = ([[2; 20]], true).
Proof. vm_compute. repeat split; reflexivity. Qed.
(* ... and cannot be dropped: source 0 sends 2 after its completion; [run] ignores it, fj_feed does not *)
Example C13_fork_join_run_is_feed_needs_grammar :
  let tins := [(1, (0%nat, Some 1)); (2, (0%nat, None)); (3, (0%nat, Some 2)); (4, (1%nat, Some 10));
               (5, (1%nat, None))] in
  fj_wfb (repeat false 2) (map snd tins) = false
  /\ emitted (fst (run (x_fork_join 2) (fj_inputs tins))) = [Next [1; 10]; Done]
  /\ fj_feed 2 (repeat None 2, repeat false 2) (map snd tins) [] = ([[2; 10]], true).
Proof. vm_compute. repeat split; reflexivity. Qed.

(* ---- fork_join: REFINEMENT, every number of sources, EVERY input sequence over the full alphabet ----
   [fj_full_spec n seen done pos ins]: seen = the element deliveries accepted so far, done = completed
   flags.  Nothing is emitted until every source has completed; then ONE tuple of the last elements and
   the completion, at that moment.  A source completing WITHOUT having delivered anything completes the
   output at once.  The first error of a subscribed source ends the output.  Notifications of a source
   after its own completion, of sources the operator does not have, and ticks are ignored; dispose
   truncates. *)
Theorem C13_fork_join_refines_spec : forall A n (ins : list (Z * inp A)),
  temitted (fst (run (x_fork_join n) ins)) = fj_full_spec n [] (repeat false n) 1 ins.
Proof. exact @fork_join_refines_spec. Qed.
Print Assumptions C13_fork_join_refines_spec.

(* the tuple is complete: one component per source, component j = the LAST element source j delivered
   before its own completion ([fj_accepted] = those deliveries, in order of arrival) *)
Theorem C13_fork_join_run_tuple_is_last_values : forall A n (ins : list (Z * inp A)) p tup,
  In (p, Next tup) (temitted (fst (run (x_fork_join n) ins))) ->
  length tup = n /\
  forall j d, (j < n)%nat -> latest j (fj_accepted n (repeat false n) ins) = Some (nth j tup d).
Proof. exact @fork_join_run_tuple. Qed.
Print Assumptions C13_fork_join_run_tuple_is_last_values.

(* the whole output is: nothing / one termination / one tuple and the completion at the same input *)
Theorem C13_fork_join_run_shape : forall A n (ins : list (Z * inp A)),
  temitted (fst (run (x_fork_join n) ins)) = []
  \/ (exists p e, is_terminal e = true /\ temitted (fst (run (x_fork_join n) ins)) = [(p, e)])
  \/ (exists p tup, temitted (fst (run (x_fork_join n) ins)) = [(p, Next tup); (p, Done)]).
Proof. exact @fork_join_run_shape. Qed.
Print Assumptions C13_fork_join_run_shape.

Example C13_witness_fork_join_full :
  (* tuple + completion; what source 0 sends after its completion (3) is ignored *)
  temitted (fst (run (x_fork_join 2)
     [(0, ISrc 0%nat (Next 1)); (0, ISrc 1%nat (Next 10)); (0, ISrc 0%nat (Next 2)); (0, ISrc 0%nat Done);
      (0, ISrc 0%nat (Next 3)); (0, ISrc 1%nat (Next 20)); (0, ISrc 1%nat Done); (0, ISrc 1%nat (Next 30))]))
  = [(7%nat, Next [2; 20]); (7%nat, Done)]
  (* a source completing empty completes the output at once *)
  /\ temitted (fst (run (x_fork_join 2)
     [(0, ISrc 0%nat (Next 1)); (0, ISrc 1%nat Done); (0, ISrc 0%nat (Next 2)); (0, ISrc 0%nat Done)]))
  = [(2%nat, Done)]
  (* the first error ends the output *)
  /\ temitted (fst (run (x_fork_join 2)
     [(0, ISrc 0%nat (Next 1)); (0, ISrc 0%nat Done); (0, ISrc 1%nat (Err 7)); (0, ISrc 1%nat Done)]))
  = [(3%nat, Err 7)]
  (* dispose truncates *)
  /\ temitted (fst (run (x_fork_join 2)
     [(0, ISrc 0%nat (Next 1)); (0, ISrc 0%nat Done); (0, IDispose); (0, ISrc 1%nat (Next 5)); (0, ISrc 1%nat Done)]))
  = [].
Proof. vm_compute. repeat split; reflexivity. Qed.

(* ---- combine_latest: REFINEMENT, every number of sources, EVERY input sequence ---------------------
   [cl_full_spec]: an element of a subscribed source emits the tuple of latest elements iff every source
   has delivered by now (the tuples of cl_spec).  The output completes when the LAST source completes; a
   source completing without ever having delivered does NOT complete the output by itself -- the output
   then completes at the next element that finds every OTHER source completed ([others_done]; that
   element is swallowed), or when the last source completes, whichever comes first.  The first error of a
   subscribed source ends the output; notifications of completed / foreign sources and ticks are ignored;
   dispose truncates. *)
Theorem C13_combine_latest_refines_spec : forall A n (ins : list (Z * inp A)),
  temitted (fst (run (x_combine_latest n) ins)) = cl_full_spec n [] (repeat false n) 1 ins.
Proof. exact @combine_latest_refines_spec. Qed.
Print Assumptions C13_combine_latest_refines_spec.

Example C13_witness_combine_latest_full :
  (* tuples; completion exactly when the last source completes; a completed source is ignored (5) *)
  temitted (fst (run (x_combine_latest 2)
     [(0, ISrc 0%nat (Next 1)); (0, ISrc 1%nat (Next 10)); (0, ISrc 0%nat Done); (0, ISrc 0%nat (Next 5));
      (0, ISrc 1%nat (Next 20)); (0, ISrc 1%nat Done); (0, ISrc 1%nat (Next 30))]))
  = [(2%nat, Next [1; 10]); (5%nat, Next [1; 20]); (6%nat, Done)]
  (* source 0 completes empty: no completion then; the next element of the only other source is
     swallowed and completes the output *)
  /\ temitted (fst (run (x_combine_latest 2)
     [(0, ISrc 0%nat Done); (0, ISrc 0%nat Done); (0, ISrc 1%nat (Next 10)); (0, ISrc 1%nat (Next 20))]))
  = [(3%nat, Done)]
  /\ temitted (fst (run (x_combine_latest 3)
     [(0, ISrc 0%nat Done); (0, ISrc 1%nat (Next 10)); (0, ISrc 1%nat Done); (0, ISrc 2%nat (Next 20));
      (0, ISrc 2%nat (Next 30))]))
  = [(4%nat, Done)]
  (* the first error ends the output *)
  /\ temitted (fst (run (x_combine_latest 2)
     [(0, ISrc 0%nat (Next 1)); (0, ISrc 0%nat Done); (0, ISrc 1%nat (Next 10)); (0, ISrc 1%nat (Err 7));
      (0, ISrc 1%nat Done)]))
  = [(3%nat, Next [1; 10]); (4%nat, Err 7)]
  (* dispose truncates *)
  /\ temitted (fst (run (x_combine_latest 2)
     [(0, ISrc 0%nat (Next 1)); (0, ISrc 1%nat (Next 10)); (0, IDispose); (0, ISrc 1%nat (Next 20))]))
  = [(2%nat, Next [1; 10])].
Proof. vm_compute. repeat split; reflexivity. Qed.

(* ---- with_latest_from: REFINEMENT, every number of children, EVERY input sequence -------------------
   parent = source 0, children = sources 1..n ([done] has a flag per source 0..n).  [wlf_full_spec]: only
   the parent's elements produce tuples, and only once every child has delivered (the tuples of wlf_spec);
   the output completes exactly when the PARENT completes -- a child's completion only ends that child's
   deliveries (its latest element stays); the first error of ANY subscribed source, parent or child, ends
   the output; dispose truncates. *)
Theorem C13_with_latest_from_refines_spec : forall A n (ins : list (Z * inp A)),
  temitted (fst (run (x_with_latest_from n) ins)) = wlf_full_spec n [] (repeat false (S n)) 1 ins.
Proof. exact @with_latest_from_refines_spec. Qed.
Print Assumptions C13_with_latest_from_refines_spec.

Example C13_witness_with_latest_from_full :
  (* child 1 completes (4): its later element 20 is ignored, 10 stays; the parent's completion completes *)
  temitted (fst (run (x_with_latest_from 1)
     [(0, ISrc 0%nat (Next 1)); (0, ISrc 1%nat (Next 10)); (0, ISrc 0%nat (Next 2)); (0, ISrc 1%nat Done);
      (0, ISrc 1%nat (Next 20)); (0, ISrc 0%nat (Next 3)); (0, ISrc 0%nat Done); (0, ISrc 0%nat (Next 4))]))
  = [(3%nat, Next [2; 10]); (6%nat, Next [3; 10]); (7%nat, Done)]
  (* a child's error ends the output *)
  /\ temitted (fst (run (x_with_latest_from 1)
     [(0, ISrc 1%nat (Next 10)); (0, ISrc 0%nat (Next 2)); (0, ISrc 1%nat (Err 7)); (0, ISrc 0%nat (Next 3))]))
  = [(2%nat, Next [2; 10]); (3%nat, Err 7)]
  (* a child completing empty: no tuple ever, no completion before the parent's *)
  /\ temitted (fst (run (x_with_latest_from 2)
     [(0, ISrc 1%nat (Next 10)); (0, ISrc 0%nat (Next 2)); (0, ISrc 2%nat Done); (0, ISrc 0%nat (Next 3));
      (0, ISrc 0%nat Done)]))
  = [(5%nat, Done)].
Proof. vm_compute. repeat split; reflexivity. Qed.
