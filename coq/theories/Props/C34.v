(* C34 -- real-time schedulers never run an action early or after cancellation.

   Per scheduler kind, over ALL schedules (lists of thread steps and clock advances), any number of
   calling threads and any programs:
   - TimeoutScheduler: transition system Core/RealTime.v (one threading.Timer per action; Timer =
     its CPython source over an Event whose wait returns no earlier than its timeout unless set);
   - EventLoopScheduler, and NewThreadScheduler / ThreadPoolScheduler which delegate every call to a
     fresh EventLoopScheduler(exit_if_empty=True): transition system Core/EventLoop.v (C31);
   - ImmediateScheduler: a function.
   Due times are on the scheduler clock: absolute t -> t; relative d -> (clock reading of the call) +
   max(0, d).  Tie to /repo: harness/props/C34.py. *)
From RxVerif Require Import Base.Prelude Core.RealTime Core.EventLoop Core.EventLoopFacts Core.RealTimeFacts Core.RealTimeFacts2.
From RxVerif Require Import Core.EventLoopFacts2.
Local Open Scope Z_scope.

(* ---- TimeoutScheduler ---------------------------------------------------------------------- *)
Theorem C34_timeout_not_early : forall t0 progs sched tid t a due,
  In (tid, t, TStart a due) (t_log (trun (tinit t0 progs) sched)) -> due <= t.
Proof. exact timeout_not_early. Qed.
Print Assumptions C34_timeout_not_early.

(* an action that starts: every dispose() of its disposable returned at a clock reading >= its due
   time; i.e. disposed before its due time => never starts *)
Theorem C34_timeout_not_after_cancel : forall t0 progs sched tid t a due tid' t',
  In (tid, t, TStart a due) (t_log (trun (tinit t0 progs) sched)) ->
  In (tid', t', TCancelRet a) (t_log (trun (tinit t0 progs) sched)) -> due <= t'.
Proof. exact timeout_not_after_cancel. Qed.
Print Assumptions C34_timeout_not_after_cancel.

(* the due time (ghost) is tied to the request.  Step lemma, any state: schedule(a) / schedule_relative(d, a)
   is one step that returns due = clock + max(0, d) (d = 0 for schedule) and starts exactly one Timer thread
   for [a] with that due time and interval max(0, d) *)
Theorem C34_timeout_due_recorded : forall ntid s o r a d,
  (o = TNow a /\ d = 0) \/ o = TRel d a ->
  caller_step ntid s None (o :: r) =
    Some (s, Caller None r, [TSpawn ntid; TRet a (tclock s + Z.max 0 d)],
          Some (Timer a (tclock s + Z.max 0 d) (PNew (Z.max 0 d)))).
Proof. exact timeout_due_recorded. Qed.
Print Assumptions C34_timeout_due_recorded.

(* schedule_absolute(t, a): nothing observable up to the clock read; the second step (at state s2) returns
   due = t and starts the Timer with interval max(0, t - now): it cannot expire before t *)
Theorem C34_timeout_due_recorded_abs : forall ntid s t a r,
  caller_step ntid s None (TAbs t a :: r) = Some (s, Caller (Some (t, a)) r, [], None) /\
  forall s2, caller_step ntid s2 (Some (t, a)) r =
    Some (s2, Caller None r, [TSpawn ntid; TRet a t], Some (Timer a t (PNew (Z.max 0 (t - tclock s2))))) /\
    t <= tclock s2 + Z.max 0 (t - tclock s2).
Proof. exact timeout_due_recorded_abs. Qed.
Print Assumptions C34_timeout_due_recorded_abs.

(* run level: the due time an action is started with IS a due time that a schedule call for that action
   returned, and that call returned no later than the start *)
Theorem C34_timeout_start_due_was_returned : forall t0 progs sched tid t a due,
  In (tid, t, TStart a due) (t_log (trun (tinit t0 progs) sched)) ->
  exists tid' t', In (tid', t', TRet a due) (t_log (trun (tinit t0 progs) sched)) /\ t' <= t.
Proof. exact timeout_start_due_was_returned. Qed.
Print Assumptions C34_timeout_start_due_was_returned.

(* "... and that call returned at or before the due time" is NOT a theorem: schedule_absolute with a time
   in the past returns due = t with the clock already past t (the action then runs at once: late, never early) *)
Theorem C34_timeout_ret_before_due_refuted :
  t_log timeout_abs_past_witness =
    [(0%nat, 100, TSpawn 1); (0%nat, 100, TRet 7 50); (1%nat, 100, TStart 7 50)] /\
  forall tid' t', In (tid', t', TRet 7%nat 50) (t_log timeout_abs_past_witness) -> ~ t' <= 50.
Proof. exact timeout_ret_before_due_refuted. Qed.
Print Assumptions C34_timeout_ret_before_due_refuted.

(* ---- EventLoopScheduler (and NewThread / ThreadPool through it) -------------------------------- *)
Theorem C34_eventloop_not_early : forall eie body t0 progs sched tid t i,
  In (tid, t, EStart i) (c_log (run eie body (init t0 progs) sched)) -> it_due i <= t.
Proof. exact el_not_early. Qed.
Print Assumptions C34_eventloop_not_early.

Theorem C34_eventloop_not_after_cancel : forall eie body t0 progs sched tid t i tid' t',
  let c := run eie body (init t0 progs) sched in
  In (tid, t, EStart i) (c_log c) -> In (tid', t', ECancelRet (it_lbl i)) (c_log c) -> it_due i <= t'.
Proof. exact el_not_after_cancel_before_due. Qed.
Print Assumptions C34_eventloop_not_after_cancel.

(* the due time of an event-loop item is tied to the call: the call that made an accepted item is in the log
   (same uid, same action) and its first step -- the one that read the clock -- happened at or before the
   item's due time, unless the due time is the argument of a schedule_absolute for that action somewhere
   in the programs / action bodies (C31_accepted_due_linked, restated for this property) *)
Theorem C34_eventloop_due_linked : forall eie body progs t0 sched i,
  let c := run eie body (init t0 progs) sched in
  In (EAcc i) (L c) ->
  exists tid tc, In (tid, tc, ECall (it_uid i) (it_lbl i)) (c_log c) /\
    (tc <= it_due i \/ (exists p, In p progs /\ In (SchedAbs (it_due i) (it_lbl i)) p) \/
                       exists a, In (SchedAbs (it_due i) (it_lbl i)) (body a)).
Proof. exact el_accepted_due_linked. Qed.
Print Assumptions C34_eventloop_due_linked.

(* NewThreadScheduler.schedule_absolute(t) turns t into a delay at clock reading now1 and the inner
   scheduler turns the delay back into an absolute time at reading now2 >= now1: never before t *)
Theorem C34_newthread_absolute_not_early : forall t now1 now2,
  now1 <= now2 -> t <= newthread_abs_due t now1 now2.
Proof. exact newthread_abs_not_early. Qed.
Print Assumptions C34_newthread_absolute_not_early.

(* ---- ImmediateScheduler ------------------------------------------------------------------------ *)
Theorem C34_immediate_schedule : forall clock a, imm_schedule clock a = [IStart a clock; IEnd a; IRet a].
Proof. exact imm_schedule_spec. Qed.
Print Assumptions C34_immediate_schedule.

Theorem C34_immediate_relative : forall clock d a,
  (0 < d -> imm_relative clock d a = [IWouldBlock a]) /\
  (d <= 0 -> imm_relative clock d a = [IStart a clock; IEnd a; IRet a]).
Proof. exact imm_relative_spec. Qed.
Print Assumptions C34_immediate_relative.

Theorem C34_immediate_absolute : forall clock t later a, 0 <= later ->
  (clock < t -> imm_absolute clock t later a = [IWouldBlock a]) /\
  (t <= clock -> imm_absolute clock t later a = [IStart a (clock + later); IEnd a; IRet a] /\ t <= clock + later).
Proof. exact imm_absolute_spec. Qed.
Print Assumptions C34_immediate_absolute.

(* ---- non-vacuity ------------------------------------------------------------------------------ *)
(* a relative timer of 2000 fires at 2000 although the clock thread passes 1000 first; the timer of
   action 2 is cancelled at 0 < 1000 and never fires; action 3 (absolute 1000) fires at 1000 *)
Example C34_ex_timeout :
  let c := trun (tinit 0 [[TRel 2000 1%nat; TRel 1000 2%nat; TCancel 2%nat]; [TAbs 1000 3%nat]])
                (map TMStep [0; 0; 0; 1; 1; 2; 3; 4]%nat ++ [TMTick 1000%N] ++ map TMStep [2; 3; 4; 4; 4]%nat ++
                 [TMTick 1000%N] ++ map TMStep [2; 2; 2]%nat) in
  map (fun x => (snd (fst x), snd x)) (filter (fun x => match snd x with TStart _ _ => true | _ => false end) (t_log c))
    = [(1000, TStart 3 1000); (2000, TStart 1 2000)] /\
  map RealTime.tstatus (t_ths c) = [1; 1; 1; 1; 1]%nat.
Proof. vm_compute. split; reflexivity. Qed.

(* the window of threading.Timer (is_set() then call) exists in the model: a dispose AFTER the due
   time can be followed by the action -- outside the property, which speaks of disposal before the
   due time *)
Example C34_ex_timeout_late_cancel :
  let c := trun (tinit 0 [[TNow 1%nat; TCancel 1%nat]]) (map TMStep [0; 1; 1; 0; 1; 1]%nat) in
  map snd (t_log c) = [TSpawn 1; TRet 1 0; TCancelRet 1; TStart 1 0; TEnd 1; TExit].
Proof. vm_compute. reflexivity. Qed.

Example C34_ex_immediate :
  imm_absolute 5000 1000 700 1%nat = [IStart 1 5700; IEnd 1; IRet 1] /\
  imm_absolute 0 1000 0 1%nat = [IWouldBlock 1] /\ imm_relative 0 (-5) 1%nat = [IStart 1 0; IEnd 1; IRet 1].
Proof. vm_compute. repeat split; reflexivity. Qed.

(* the event-loop family: cancel at 0 of an item due at 1000, which therefore never starts *)
Example C34_ex_eventloop_cancel :
  let c := run true nobody (init 0 [[SchedRel 1000 1%nat; Cancel 1%nat]])
               (steps [0; 0; 0; 0; 1; 1; 1]%nat ++ [MTick 1000] ++ steps [1; 1; 1; 1; 1]%nat) in
  map it_lbl (checks (L c)) = [1%nat] /\ existsb (is_start_of 1) (L c) = false /\ quiescent c = true.
Proof. vm_compute. repeat split; reflexivity. Qed.

(* ---- NewThreadScheduler / ThreadPoolScheduler composed with the inner event loop (Core/EventLoopFacts3.v) ---- *)
From RxVerif Require Import Core.EventLoopFacts3.

(* the due time of an accepted event-loop item is EXACTLY what the call that made it computed: the call (same
   uid, same action) is in the log, its first step read the clock at tc >= t0, and due = tc for schedule,
   tc + max(0, d) for a schedule_relative(d) of that action occurring in a program / action body, or the
   argument of a schedule_absolute of that action *)
Theorem C34_eventloop_due_exact : forall eie body progs t0 sched i,
  let c := run eie body (init t0 progs) sched in
  In (EAcc i) (L c) ->
  exists tid tc, In (tid, tc, ECall (it_uid i) (it_lbl i)) (c_log c) /\ t0 <= tc /\
    ((src body progs (SchedNow (it_lbl i)) /\ it_due i = tc) \/
     (exists d, src body progs (SchedRel d (it_lbl i)) /\ it_due i = tc + Z.max 0 d) \/
     src body progs (SchedAbs (it_due i) (it_lbl i))).
Proof. exact el_accepted_due_exact. Qed.
Print Assumptions C34_eventloop_due_exact.

(* NewThread / ThreadPool schedule_absolute(t, a): the outer call reads the clock (now1) and hands the delay
   t - now1 to schedule_relative of a fresh EventLoopScheduler whose clock reads now2 >= now1 at the earliest.
   Whatever else happens on that loop (other threads, action bodies: anything except another scheduling call
   for the same action a), over all schedules: an item of action a that starts has due >= t, starts at a
   clock reading >= t, and every dispose() of a's disposable returned at a reading >= t (disposed before t
   => never starts) *)
Theorem C34_newthread_absolute_composed : forall eie body progs t now1 now2 a sched,
  now1 <= now2 ->
  (forall o, src body progs o -> only_rel a (t - now1) o) ->
  let c := run eie body (init now2 progs) sched in
  forall tid ts i, In (tid, ts, EStart i) (c_log c) -> it_lbl i = a ->
    t <= it_due i /\ t <= ts /\ forall tid' t', In (tid', t', ECancelRet a) (c_log c) -> t <= t'.
Proof. exact newthread_absolute_composed. Qed.
Print Assumptions C34_newthread_absolute_composed.

(* the audit's form: the inner loop receives exactly one outside call (uid 0); the action body is ARBITRARY
   (it may schedule a again with any delay, cancel, dispose the scheduler) *)
Theorem C34_newthread_absolute_one_call : forall eie body t now1 now2 a sched,
  now1 <= now2 ->
  let c := run eie body (init now2 [[SchedRel (t - now1) a]]) sched in
  forall tid ts i, In (tid, ts, EStart i) (c_log c) -> it_uid i = 0%nat ->
    it_lbl i = a /\ t <= ts /\ forall tid' t', In (tid', t', ECancelRet a) (c_log c) -> t <= t'.
Proof. exact newthread_absolute_one_call. Qed.
Print Assumptions C34_newthread_absolute_one_call.

(* non-vacuity.  t = 150, now1 = 90 (delay 60), inner clock now2 = 100: the item is due at 160 >= 150; it
   starts at 160 and a second thread's dispose() returns at 160 (after the is_cancelled() test); the
   hypothesis on the programs holds *)
Example C34_ex_newthread_composed :
  let progs := [[SchedRel (150 - 90) 1%nat]; [Cancel 1%nat]] in
  let c := run true nobody (init 100 progs)
               (steps [0; 0; 0; 2; 2; 2]%nat ++ [MTick 60] ++ steps [2; 2; 2; 2; 1; 2; 2]%nat) in
  (forall o, src nobody progs o -> only_rel 1%nat (150 - 90) o) /\
  In (2%nat, 160, EStart (Item 0 1 160 false)) (c_log c) /\ In (1%nat, 160, ECancelRet 1%nat) (c_log c) /\
  quiescent c = true.
Proof.
  split.
  - intros o [(p & [<-|[<-|[]]] & [<-|[]])|(b & [])]; cbn; auto.
  - vm_compute. repeat split; auto 12.
Qed.

(* one-call form with a body that schedules another action and disposes its own disposable: uid 0 starts
   at 170 >= 150 (the clock thread overslept), the nested item (uid 1) at 175 *)
Example C34_ex_newthread_one_call :
  let bw := fun b : nat => match b with 1%nat => [SchedRel 5 2%nat; Cancel 1%nat] | _ => [] end in
  let c := run true bw (init 100 [[SchedRel (150 - 90) 1%nat]])
               (steps [0; 0; 0; 1; 1; 1]%nat ++ [MTick 70] ++ steps [1; 1; 1; 1; 1; 1; 1; 1; 1; 1; 1; 1]%nat ++
                [MTick 5] ++ steps [1; 1; 1; 1; 1; 1; 1]%nat) in
  In (1%nat, 170, EStart (Item 0 1 160 false)) (c_log c) /\ In (1%nat, 170, ECancelRet 1%nat) (c_log c) /\
  In (1%nat, 175, EStart (Item 1 2 175 false)) (c_log c) /\ quiescent c = true.
Proof. vm_compute. repeat split; auto 20. Qed.
