(* C34 -- real-time schedulers never run an action early or after cancellation.

   Per scheduler kind, over ALL schedules (lists of thread steps and clock advances), any number of
   calling threads and any programs:
   - TimeoutScheduler: transition system Core/RealTime.v (one threading.Timer per action; Timer =
     its CPython source over an Event whose wait returns no earlier than its timeout unless set);
   - EventLoopScheduler, and NewThreadScheduler / ThreadPoolScheduler which delegate every call to a
     fresh EventLoopScheduler(exit_if_empty=True): transition system Core/EventLoop.v (C31);
   - ImmediateScheduler: a function.
   Due times are on the scheduler clock: absolute t -> t; relative d -> (clock reading of the call) +
   max(0, d).  Tie to /repo: harness/props/C34.py. *)
From RxVerif Require Import Base.Prelude Core.RealTime Core.EventLoop Core.EventLoopFacts Core.RealTimeFacts.
Local Open Scope Z_scope.

(* ---- TimeoutScheduler ---------------------------------------------------------------------- *)
Theorem C34_timeout_not_early : forall t0 progs sched tid t a due,
  In (tid, t, TStart a due) (t_log (trun (tinit t0 progs) sched)) -> due <= t.
Proof. exact timeout_not_early. Qed.
Print Assumptions C34_timeout_not_early.

(* an action that starts: every dispose() of its disposable returned at a clock reading >= its due
   time; i.e. disposed before its due time => never starts *)
Theorem C34_timeout_not_after_cancel : forall t0 progs sched tid t a due tid' t',
  In (tid, t, TStart a due) (t_log (trun (tinit t0 progs) sched)) ->
  In (tid', t', TCancelRet a) (t_log (trun (tinit t0 progs) sched)) -> due <= t'.
Proof. exact timeout_not_after_cancel. Qed.
Print Assumptions C34_timeout_not_after_cancel.

(* ---- EventLoopScheduler (and NewThread / ThreadPool through it) -------------------------------- *)
Theorem C34_eventloop_not_early : forall eie body t0 progs sched tid t i,
  In (tid, t, EStart i) (c_log (run eie body (init t0 progs) sched)) -> it_due i <= t.
Proof. exact el_not_early. Qed.
Print Assumptions C34_eventloop_not_early.

Theorem C34_eventloop_not_after_cancel : forall eie body t0 progs sched tid t i tid' t',
  let c := run eie body (init t0 progs) sched in
  In (tid, t, EStart i) (c_log c) -> In (tid', t', ECancelRet (it_lbl i)) (c_log c) -> it_due i <= t'.
Proof. exact el_not_after_cancel_before_due. Qed.
Print Assumptions C34_eventloop_not_after_cancel.

(* NewThreadScheduler.schedule_absolute(t) turns t into a delay at clock reading now1 and the inner
   scheduler turns the delay back into an absolute time at reading now2 >= now1: never before t *)
Theorem C34_newthread_absolute_not_early : forall t now1 now2,
  now1 <= now2 -> t <= newthread_abs_due t now1 now2.
Proof. exact newthread_abs_not_early. Qed.
Print Assumptions C34_newthread_absolute_not_early.

(* ---- ImmediateScheduler ------------------------------------------------------------------------ *)
Theorem C34_immediate_schedule : forall clock a, imm_schedule clock a = [IStart a clock; IEnd a; IRet a].
Proof. exact imm_schedule_spec. Qed.
Print Assumptions C34_immediate_schedule.

Theorem C34_immediate_relative : forall clock d a,
  (0 < d -> imm_relative clock d a = [IWouldBlock a]) /\
  (d <= 0 -> imm_relative clock d a = [IStart a clock; IEnd a; IRet a]).
Proof. exact imm_relative_spec. Qed.
Print Assumptions C34_immediate_relative.

Theorem C34_immediate_absolute : forall clock t later a, 0 <= later ->
  (clock < t -> imm_absolute clock t later a = [IWouldBlock a]) /\
  (t <= clock -> imm_absolute clock t later a = [IStart a (clock + later); IEnd a; IRet a] /\ t <= clock + later).
Proof. exact imm_absolute_spec. Qed.
Print Assumptions C34_immediate_absolute.

(* ---- non-vacuity ------------------------------------------------------------------------------ *)
(* a relative timer of 2000 fires at 2000 although the clock thread passes 1000 first; the timer of
   action 2 is cancelled at 0 < 1000 and never fires; action 3 (absolute 1000) fires at 1000 *)
Example C34_ex_timeout :
  let c := trun (tinit 0 [[TRel 2000 1%nat; TRel 1000 2%nat; TCancel 2%nat]; [TAbs 1000 3%nat]])
                (map TMStep [0; 0; 0; 1; 1; 2; 3; 4]%nat ++ [TMTick 1000%N] ++ map TMStep [2; 3; 4; 4; 4]%nat ++
                 [TMTick 1000%N] ++ map TMStep [2; 2; 2]%nat) in
  map (fun x => (snd (fst x), snd x)) (filter (fun x => match snd x with TStart _ _ => true | _ => false end) (t_log c))
    = [(1000, TStart 3 1000); (2000, TStart 1 2000)] /\
  map RealTime.tstatus (t_ths c) = [1; 1; 1; 1; 1]%nat.
Proof. vm_compute. split; reflexivity. Qed.

(* the window of threading.Timer (is_set() then call) exists in the model: a dispose AFTER the due
   time can be followed by the action -- outside the property, which speaks of disposal before the
   due time *)
Example C34_ex_timeout_late_cancel :
  let c := trun (tinit 0 [[TNow 1%nat; TCancel 1%nat]]) (map TMStep [0; 1; 1; 0; 1; 1]%nat) in
  map snd (t_log c) = [TSpawn 1; TRet 1 0; TCancelRet 1; TStart 1 0; TEnd 1; TExit].
Proof. vm_compute. reflexivity. Qed.

Example C34_ex_immediate :
  imm_absolute 5000 1000 700 1%nat = [IStart 1 5700; IEnd 1; IRet 1] /\
  imm_absolute 0 1000 0 1%nat = [IWouldBlock 1] /\ imm_relative 0 (-5) 1%nat = [IStart 1 0; IEnd 1; IRet 1].
Proof. vm_compute. repeat split; reflexivity. Qed.

(* the event-loop family: cancel at 0 of an item due at 1000, which therefore never starts *)
Example C34_ex_eventloop_cancel :
  let c := run true nobody (init 0 [[SchedRel 1000 1%nat; Cancel 1%nat]])
               (steps [0; 0; 0; 0; 1; 1; 1]%nat ++ [MTick 1000] ++ steps [1; 1; 1; 1; 1]%nat) in
  map it_lbl (checks (L c)) = [1%nat] /\ existsb (is_start_of 1) (L c) = false /\ quiescent c = true.
Proof. vm_compute. repeat split; reflexivity. Qed.
