(* C43 -- combinators serialize concurrently emitting sources.

   Models: Core/CombConc.v -- one transition system per operator, handlers cut exactly along the
   code's lock structure (lock acquisitions, unlocked accesses to shared closure variables, calls out,
   and a yield point INSIDE every call of the downstream observer).  One logical thread per source,
   each emitting serially; for the window operators any further thread is a worker of the timer
   scheduler.  [run_* true] is the current /repo tree.

   Every theorem: for ALL schedules (lists of thread ids), ALL per-source programs and ANY number of
   source threads
     serial   -- in the log of the calls the operator makes on its downstream observer, a call is
                 entered only when none is in progress (never two threads inside at once);
     grammar  -- what the subscriber's callbacks see is Next* (Err|Done)?
     excl     -- (state form) two threads inside the downstream observer are the same thread;
     and who is inside holds the operator's lock (amb: is the chosen side).
   The code BEFORE proposed_fixes/C43-*.diff is refuted by the schedules that were reproduced on the
   old source with the thread controller (harness/props/C43.py re-runs them on the current code).
   Tie to /repo: harness/props/C43.py (K3, medium granularity, same-schedule comparison). *)
From RxVerif Require Import Base.Prelude Core.Lts Core.LtsFacts Core.CombConc Core.CombConcFacts Core.CombConcFacts2 Core.CombConcSplit.
Local Open Scope nat_scope.

Definition C43_statement {S} (c : @config (gsh S) pos sev cobs) : Prop :=
  serial (untag (c_log c)) = true /\
  gram (users (untag (c_log c))) = true /\
  (forall i j ti tj, nth_error (c_ths c) i = Some ti -> nth_error (c_ths c) j = Some tj ->
                     tinside ti = true -> tinside tj = true -> i = j) /\
  (forall tid t, nth_error (c_ths c) tid = Some t -> at_pos holds t = true -> g_lock (c_sh c) = Some tid).

(* merge_all: merge(a, b, ..) = from_iterable(..).pipe(merge_all()), flat_map = map + merge_all.
   thread 0 is the outer source, thread k the k-th inner source *)
Theorem C43_merge_all : forall progs sched, C43_statement (run_ma true progs sched).
Proof. exact merge_all_serial. Qed.
Print Assumptions C43_merge_all.

Theorem C43_merge_max_concurrent : forall m progs sched, C43_statement (run_mm true m progs sched).
Proof. exact merge_max_serial. Qed.
Print Assumptions C43_merge_max_concurrent.

Theorem C43_zip : forall progs sched, C43_statement (run_zip true progs sched).
Proof. exact zip_serial. Qed.
Print Assumptions C43_zip.

Theorem C43_combine_latest : forall progs sched, C43_statement (run_cl true progs sched).
Proof. exact combine_latest_serial. Qed.
Print Assumptions C43_combine_latest.

Theorem C43_with_latest_from : forall progs sched, C43_statement (run_wl true progs sched).
Proof. exact with_latest_from_serial. Qed.
Print Assumptions C43_with_latest_from.

Theorem C43_window_with_time_or_count : forall count progs sched, C43_statement (run_wc count progs sched).
Proof. exact window_time_or_count_serial. Qed.
Print Assumptions C43_window_with_time_or_count.

Theorem C43_window_with_time : forall span shift progs sched, C43_statement (run_wt span shift progs sched).
Proof. exact window_time_serial. Qed.
Print Assumptions C43_window_with_time.

(* amb forwards outside the lock: whoever is inside the downstream observer is the chosen side *)
Theorem C43_amb :
  forall progs sched,
  let c := run_am progs sched in
  serial (untag (c_log c)) = true /\ gram (users (untag (c_log c))) = true /\
  (forall i j ti tj, nth_error (c_ths c) i = Some ti -> nth_error (c_ths c) j = Some tj ->
                     tinside ti = true -> tinside tj = true -> i = j) /\
  (forall tid t, nth_error (c_ths c) tid = Some t -> tinside t = true -> am_choice (g_st (c_sh c)) = Some tid).
Proof. exact amb_serial. Qed.
Print Assumptions C43_amb.

(* amb: EVERY downstream call of the whole run was made by one thread -- the side recorded in
   [choice] -- so any two calls in the log come from the same thread.  The output of an amb is thus
   a serial single-thread source, which is what an enclosing amb (amb(a, b, c) = a fold of binary
   ambs, each with its own lock) assumes of its own sources in C43_amb. *)
Theorem C43_amb_single_caller :
  forall progs sched tid d,
    In (tid, CEnter d) (c_log (run_am progs sched)) ->
    am_choice (g_st (c_sh (run_am progs sched))) = Some tid.
Proof. exact amb_single_caller. Qed.
Print Assumptions C43_amb_single_caller.

Theorem C43_amb_callers_agree :
  forall progs sched t1 d1 t2 d2,
    In (t1, CEnter d1) (c_log (run_am progs sched)) -> In (t2, CEnter d2) (c_log (run_am progs sched)) -> t1 = t2.
Proof. exact amb_callers_agree. Qed.
Print Assumptions C43_amb_callers_agree.

(* the hypothesis is satisfiable in a contended run (both sides reach the lock; the left one wins) *)
Example C43_witness_amb_single_caller :
  In (0, CEnter DDone) (c_log (run_am [[SNext; SNext; SDone]; [SNext; SErr]] [0;0;1;0;1;1;0;0;1;1;0;0;0;0;0;0;0;0;1;1])) /\
  am_choice (g_st (c_sh (run_am [[SNext; SNext; SDone]; [SNext; SErr]] [0;0;1;0;1;1;0;0;1;1;0;0;0;0;0;0;0;0;1;1]))) = Some 0.
Proof. vm_compute. split; [tauto|reflexivity]. Qed.

(* WHAT THE GRAMMAR CONJUNCT IS WORTH.  Conjunct 2 of C43_statement (what the subscriber's callbacks
   see is Next* (Err|Done)?) holds for EVERY step function whatsoever, with no hypothesis on the
   operator: it is a property of the subscriber's AutoDetachObserver as modelled -- ONE atomic
   test-and-set of is_stopped -- and therefore NOT evidence about the operators (it also holds of
   the old, refuted code).  That the real, unsynchronised wrapper behaves atomically is exactly what
   seriality (conjunct 1) is needed for; the model does not derive the one from the other. *)
Theorem C43_grammar_is_wrapper :
  forall (S : Type) (ostep : nat -> S -> pos -> option (S * option pos)) (st0 : S)
         (progs : list (list sev)) (sched : list nat),
    gram (users (untag (c_log (grun ostep st0 progs sched)))) = true.
Proof. exact grammar_is_wrapper. Qed.
Print Assumptions C43_grammar_is_wrapper.

(* ... e.g. on the old zip and its refuting schedule: not serial, yet "grammatical" *)
Example C43_witness_grammar_holds_of_refuted_code :
  serial (untag (c_log (run_zip false [[SNext; SDone]; [SNext; SNext]] [0;0;0;0;0;1;1;1;1;0;0;1;1;1;1]))) = false /\
  gram (users (untag (c_log (run_zip false [[SNext; SDone]; [SNext; SNext]] [0;0;0;0;0;1;1;1;1;0;0;1;1;1;1])))) = true.
Proof. vm_compute. split; reflexivity. Qed.

(* the generic theorem behind the seven lock-based ones: ANY operator whose step function (1) reaches
   a lock-holding position only from an acquisition or a lock-holding position and (2) makes every
   downstream call from a lock-holding position is serial and grammatical *)
Theorem C43_generic :
  forall (S : Type) (ostep : nat -> S -> pos -> option (S * option pos)),
  (forall tid st l st' q, ostep tid st l = Some (st', Some q) -> holds q = true -> holds l = true \/ is_acq l = true) ->
  (forall tid st l st' h d k, ostep tid st l = Some (st', Some (PI h d k)) -> h = true) ->
  forall st0 progs sched, C43_statement (grun ostep st0 progs sched).
Proof. intros S ostep H1 H2 st0 progs sched. exact (lock_serial ostep H1 H2 st0 progs sched). Qed.
Print Assumptions C43_generic.

(* ---- the old code is refuted (schedules recorded on the old source) ------------------- *)
Theorem C43_old_zip_refuted :
  serial (untag (c_log (run_zip false [[SNext; SDone]; [SNext; SNext]] [0;0;0;0;0;1;1;1;1;0;0;1;1;1;1]))) = false /\
  serial (untag (c_log (run_zip false [[SNext; SErr]; [SNext; SNext]] [0;0;0;0;1;1;1;1;1;1;1;0]))) = false.
Proof. split; [exact zip_refuted_completed|exact zip_refuted_error]. Qed.
Print Assumptions C43_old_zip_refuted.

Theorem C43_old_combine_latest_refuted :
  serial (untag (c_log (run_cl false [[SNext; SNext]; [SNext; SErr]] [0;0;0;1;1;1;1;0;0;1]))) = false.
Proof. exact combine_latest_refuted. Qed.
Print Assumptions C43_old_combine_latest_refuted.

Theorem C43_old_with_latest_from_refuted :
  serial (untag (c_log (run_wl false [[SNext; SNext]; [SNext; SErr]] [0;0;0;1;1;1;0;0;1]))) = false.
Proof. exact with_latest_from_refuted. Qed.
Print Assumptions C43_old_with_latest_from_refuted.

Theorem C43_old_merge_all_refuted :
  serial (untag (c_log (run_ma false [[SNext; SErr]; [SNext; SNext]] [0;0;1;0;0;1;1;1;0]))) = false /\
  serial (untag (c_log (run_ma false [[SNext; SDone]; [SNext; SDone]] [1;0;0;0;0;0;1;1;0;0;1]))) = false.
Proof. split; [exact merge_all_refuted_error|exact merge_all_refuted_completed]. Qed.
Print Assumptions C43_old_merge_all_refuted.

Theorem C43_old_merge_max_concurrent_refuted :
  serial (untag (c_log (run_mm false 1 [[SNext; SDone]; [SNext; SDone]] [1;0;0;0;0;0;0;0;1;1;0;0;1]))) = false /\
  serial (untag (c_log (run_mm false 1 [[SNext; SErr]; [SNext; SNext]] [0;0;0;0;1;0;0;1;1;1;0]))) = false.
Proof. split; [exact merge_max_refuted_completed|exact merge_max_refuted_error]. Qed.
Print Assumptions C43_old_merge_max_concurrent_refuted.

(* ---- non-vacuity: contended runs of the current models ------------------------------------ *)
(* the old zip witness schedule on the current model: T0's completed(i) now waits for the lock *)
Example C43_witness_zip :
  c_log (run_zip true [[SNext; SDone]; [SNext; SNext]] [0;0;0;0;1;1;1;1;0;0;1;1;1;1;1;1;0;0;1;1])
  = [(1, CEnter DNext); (1, CUser DNext); (1, CExit DNext); (0, CEnter DDone); (0, CUser DDone); (0, CExit DDone)].
Proof. vm_compute. reflexivity. Qed.

(* the old log of zip (recorded on the old source): two on_completed calls in progress at once *)
Example C43_witness_old_zip_log :
  c_log (run_zip false [[SNext; SDone]; [SNext; SNext]] [0;0;0;0;0;1;1;1;1;0;0;1;1;1;1])
  = [(1, CEnter DNext); (1, CUser DNext); (1, CExit DNext); (1, CEnter DDone); (0, CEnter DDone); (0, CUser DDone);
     (0, CExit DDone); (1, CExit DDone)].
Proof. vm_compute. reflexivity. Qed.

Example C43_witness_combine_latest :
  c_log (run_cl true [[SNext; SNext]; [SNext; SErr]] [0;0;0;1;1;1;1;0;0;1;0;1;1;0;0])
  = [(1, CEnter DNext); (1, CUser DNext); (1, CExit DNext); (0, CEnter DNext); (0, CUser DNext); (0, CExit DNext);
     (1, CEnter DErr); (1, CUser DErr); (1, CExit DErr)].
Proof. vm_compute. reflexivity. Qed.

(* the subscriber's AutoDetachObserver drops what the operator still calls after the error *)
Example C43_witness_with_latest_from :
  c_log (run_wl true [[SNext; SNext; SDone]; [SNext; SErr]] [1;1;1;0;0;0;1;1;0;1;1;0;0;0;0;0;0])
  = [(0, CEnter DNext); (0, CUser DNext); (0, CExit DNext); (1, CEnter DErr); (1, CUser DErr); (1, CExit DErr);
     (0, CEnter DNext); (0, CExit DNext); (0, CEnter DDone); (0, CExit DDone)].
Proof. vm_compute. reflexivity. Qed.

Example C43_witness_merge_max :
  c_log (run_mm true 1 [[SNext; SNext; SDone]; [SNext; SDone]; [SNext; SDone]]
                [0;0;0;0;0;0;0;1;1;1;1;1;1;1;0;2;2;2;2;2;0;0;2;2;0;0;0])
  = [(1, CEnter DNext); (1, CUser DNext); (1, CExit DNext); (2, CEnter DNext); (2, CUser DNext); (2, CExit DNext);
     (2, CEnter DDone); (2, CUser DDone); (2, CExit DDone)].
Proof. vm_compute. reflexivity. Qed.

Example C43_witness_amb :
  c_log (run_am [[SNext; SNext; SDone]; [SNext; SErr]] [0;0;1;0;1;1;0;0;1;1;0;0;0;0;0;0;0;0;1;1])
  = [(0, CEnter DNext); (0, CUser DNext); (0, CExit DNext); (0, CEnter DNext); (0, CUser DNext); (0, CExit DNext);
     (0, CEnter DDone); (0, CUser DDone); (0, CExit DDone)].
Proof. vm_compute. reflexivity. Qed.

(* a timer and the source race for the lock: count = 2, two timer actions *)
Example C43_witness_window_with_time_or_count :
  c_log (run_wc 2 [[SNext; SNext; SNext; SDone]; [STick; STick]] [0;0;1;1;0;0;0;1;0;1;1;1;0;0;0;0;0;0;0;1;1;1])
  = [(1, CEnter DNext); (1, CUser DNext); (1, CExit DNext); (1, CEnter DNext); (1, CUser DNext); (1, CExit DNext);
     (0, CEnter DDone); (0, CUser DDone); (0, CExit DDone)].
Proof. vm_compute. reflexivity. Qed.

(* ---- the grammar as a CONSEQUENCE of mutual exclusion (Core/CombConcSplit.v) ------------------
   The subscriber's AutoDetachObserver is unsynchronised: `if self.is_stopped: return` and the
   callback (+ `self.is_stopped = True`) are two steps.  [gact2] refines the generic wrapper of
   Core/CombConc.v accordingly (new yield point QW = "read False, callback not yet run"); the
   operators' step functions are the SAME ones as above.  This yield point is finer than K3's
   granularity: the split model is tied to /repo only through the atomic model, whose runs it
   contains (C43_split_covers_atomic_model). *)
Theorem C43_split_covers_atomic_model :
  forall (S : Type) (ostep : nat -> S -> pos -> option (S * option pos)) st0 progs sched,
  exists sched2, grun2 ostep st0 progs sched2 = liftc (grun ostep st0 progs sched).
Proof. exact @split_covers. Qed.
Print Assumptions C43_split_covers_atomic_model.

(* ANY step-invariant J that implies "two threads inside the downstream observer are the same
   thread" gives, for all programs and schedules, Next* (Err|Done)? at the subscriber's callbacks *)
Theorem C43_split_grammar_from_exclusion :
  forall (S : Type) (ostep : nat -> S -> pos -> option (S * option pos))
         (J : @config (gsh S) pos2 sev cobs -> Prop) st0 progs,
  J (init (GS None false st0) progs) ->
  (forall c tid, J c -> J (tstep start2 (gact2 ostep) c tid)) ->
  (forall c, J c -> excl2 c) ->
  forall sched, let c := grun2 ostep st0 progs sched in
  J c /\ gram (users (untag (c_log c))) = true.
Proof. exact @split_gen. Qed.
Print Assumptions C43_split_grammar_from_exclusion.

(* the lock discipline (same two side conditions as C43_generic) is such an invariant *)
Theorem C43_split_generic :
  forall (S : Type) (ostep : nat -> S -> pos -> option (S * option pos)),
  (forall tid st l st' q, ostep tid st l = Some (st', Some q) -> holds q = true -> holds l = true \/ is_acq l = true) ->
  (forall tid st l st' h d k, ostep tid st l = Some (st', Some (PI h d k)) -> h = true) ->
  forall st0 progs sched, split_statement (grun2 ostep st0 progs sched).
Proof. intros S ostep H1 H2 st0 progs sched. exact (split_lock ostep H1 H2 st0 progs sched). Qed.
Print Assumptions C43_split_generic.

(* ... hence the seven lock-based operators of the current tree *)
Theorem C43_split_operators : forall progs sched,
  split_statement (run2_zip true progs sched) /\
  split_statement (run2_cl true progs sched) /\
  split_statement (run2_wl true progs sched) /\
  split_statement (run2_ma true progs sched) /\
  (forall m, split_statement (run2_mm true m progs sched)) /\
  (forall count, split_statement (run2_wc count progs sched)) /\
  (forall span shift, split_statement (run2_wt span shift progs sched)).
Proof. exact split_operators. Qed.
Print Assumptions C43_split_operators.

(* ... and amb (exclusive because only the chosen side forwards) *)
Theorem C43_split_amb : forall progs sched,
  let c := run2_am progs sched in
  gram (users (untag (c_log c))) = true /\ excl2 c /\
  (forall tid t, nth_error (c_ths c) tid = Some t -> tinside2 t = true -> am_choice (g_st (c_sh c)) = Some tid).
Proof. exact split_amb. Qed.
Print Assumptions C43_split_amb.

(* the conjunct now DISCRIMINATES: the code before the fixes delivers Err then Next, or Done twice *)
Theorem C43_split_old_code_refuted :
  gram (users2 (run2_zip false [[SErr]; [SDone]] [0;0;1;1;1;1;0;1])) = false /\
  gram (users2 (run2_zip false [[SNext; SDone]; [SNext; SNext]] [0;0;0;0;0;1;1;1;1;1;0;0;1;1;1;1;0;1])) = false /\
  gram (users2 (run2_cl false [[SNext; SErr]; [SNext]] [0;0;1;1;1;0;0;0;1])) = false /\
  gram (users2 (run2_wl false [[SNext; SDone]; [SNext; SErr]] [1;1;0;0;0;1;1;1;0])) = false /\
  gram (users2 (run2_ma false [[SNext; SErr]; [SNext]] [0;0;0;1;1;1;0;0;0;1])) = false /\
  gram (users2 (run2_mm false 1 [[SNext; SErr]; [SNext]] [0;0;0;0;0;1;1;1;0;0;0;1])) = false.
Proof. exact split_old_code_refuted. Qed.
Print Assumptions C43_split_old_code_refuted.

Example C43_witness_split_old_combine_latest :
  c_log (run2_cl false [[SNext; SErr]; [SNext]] [0;0;1;1;1;0;0;0;1])
  = [(1, CEnter DNext); (0, CEnter DErr); (0, CUser DErr); (0, CExit DErr); (1, CUser DNext); (1, CExit DNext)].
Proof. vm_compute. reflexivity. Qed.

(* the same schedule on the current code: thread 1 sits between its read and its callback while
   thread 0 (the error) waits for the lock *)
Example C43_witness_split_contended :
  map t_cur (c_ths (run2_cl true [[SNext; SErr]; [SNext]] [0;0;1;1;1;0;0;0])) = [Some (Q (PA 2 0)); Some (QW true DNext 1)] /\
  c_log (run2_cl true [[SNext; SErr]; [SNext]] [0;0;1;1;1;0;0;0;1;0;0;0;0])
  = [(1, CEnter DNext); (1, CUser DNext); (1, CExit DNext); (0, CEnter DErr); (0, CUser DErr); (0, CExit DErr)].
Proof. vm_compute. split; reflexivity. Qed.
