(* C26 -- container disposables dispose each held item exactly once.
   CompositeDisposable, SerialDisposable, SingleAssignmentDisposable, MultipleAssignmentDisposable.
   The central statement is a CONSERVATION law per item i, valid after every history / at every
   moment of every schedule:
       #dispose() calls i received + #occurrences of i the container holds (+ in flight, + rejected)
       = #times i was handed to the container.
   Hence an item handed over once is disposed exactly once as soon as the container does not hold
   it any more (removed, cleared, replaced, container disposed, or handed over after disposal) and
   not at all while a container holds it.  MultipleAssignmentDisposable does not promise to dispose
   a replaced item: its dispose() calls are characterised completely instead.
   Part 1: all call histories of one thread (Core/Disposables.v).  Part 2: ALL schedules of ANY
   number of threads (Core/DispConc.v).  Part 3: the pre-fix SingleAssignmentDisposable is refuted
   (4 witnesses, reproduced on the old source), fix: proposed_fixes/C26-singleassignment-locked-decision.diff.
   Models are tied to /repo by harness/props/C26.py. *)
From RxVerif Require Import Base.Prelude Core.Disposables Core.DisposablesFacts Core.DispConc Core.DispConcFacts
  Core.DispConcFacts2.

(* ---- one thread: all call histories ------------------------------------------ *)
Local Open Scope nat_scope.

(* CONSERVATION, all histories: for every item, (#dispose() calls it received)
   + (#occurrences still held) = (#times it was handed to the container). *)
Theorem C26_composite_conservation :
  forall l h i,
  disposes i (log c_step (c_init l) h) + cnt i (c_items (final c_step (c_init l) h))
  = cnt i l + c_hadds i h.
Proof. exact composite_conservation. Qed.
Print Assumptions C26_composite_conservation.

(* once the container is disposed, EVERY item handed over (before or after) got exactly as many
   dispose() calls as it was handed over: exactly one for an item added once *)
Theorem C26_composite_disposed_all_once :
  forall l h i,
  c_disposed (final c_step (c_init l) h) = true ->
  disposes i (log c_step (c_init l) h) = cnt i l + c_hadds i h.
Proof. exact composite_disposed_all_once. Qed.
Print Assumptions C26_composite_disposed_all_once.

(* an item handed over exactly once: no dispose() while held, exactly one once it is not held any more
   (removed, cleared, or the container was disposed) *)
Theorem C26_composite_item_exactly_once_never_while_held :
  forall l h i,
  cnt i l + c_hadds i h = 1 ->
  (mem i (c_items (final c_step (c_init l) h)) = true -> disposes i (log c_step (c_init l) h) = 0) /\
  (mem i (c_items (final c_step (c_init l) h)) = false -> disposes i (log c_step (c_init l) h) = 1).
Proof. exact composite_item_once. Qed.
Print Assumptions C26_composite_item_exactly_once_never_while_held.

(* an item added to a disposed container is disposed at once, by that very call *)
Theorem C26_composite_add_after_dispose :
  forall l h1 h2 i,
  let s := final c_step (c_init l) (h1 ++ CDispose :: h2) in
  c_step s (CAdd i) = (s, [ODisp i]).
Proof. exact composite_add_after_dispose. Qed.
Print Assumptions C26_composite_add_after_dispose.

(* remove of a held item disposes it (once) and returns True; remove of anything else is silent *)
Theorem C26_composite_remove_disposes :
  forall l h i,
  let s := final c_step (c_init l) h in
  snd (c_step s (CRemove i)) = if mem i (c_items s) then [ODisp i; OBool true] else [OBool false].
Proof. exact composite_remove_held. Qed.
Print Assumptions C26_composite_remove_disposes.

Theorem C26_serial_conservation :
  forall h i,
  disposes i (log ser_step s_init h) + ocnt i (s_cur (final ser_step s_init h)) = s_hsets i h.
Proof. exact serial_conservation. Qed.
Print Assumptions C26_serial_conservation.

(* once disposed, every item ever assigned received exactly as many dispose() calls as assignments *)
Theorem C26_serial_disposed_all_once :
  forall h i,
  s_disposed (final ser_step s_init h) = true ->
  disposes i (log ser_step s_init h) = s_hsets i h.
Proof. exact serial_disposed_all_once. Qed.
Print Assumptions C26_serial_disposed_all_once.

(* an item assigned exactly once: not disposed while it is the current one, disposed exactly once
   as soon as it is not (replaced, or the container was disposed) *)
Theorem C26_serial_item_exactly_once_never_while_held :
  forall h i,
  s_hsets i h = 1 ->
  (s_cur (final ser_step s_init h) = Some i -> disposes i (log ser_step s_init h) = 0) /\
  (s_cur (final ser_step s_init h) <> Some i -> disposes i (log ser_step s_init h) = 1).
Proof. exact serial_item_once. Qed.
Print Assumptions C26_serial_item_exactly_once_never_while_held.

Theorem C26_serial_set_after_dispose :
  forall h1 h2 i,
  let s := final ser_step s_init (h1 ++ SDispose :: h2) in ser_step s (SSet i) = (s, [ODisp i]).
Proof. exact serial_set_after_dispose. Qed.
Print Assumptions C26_serial_set_after_dispose.

(* replacing disposes the previous item, by that very call *)
Theorem C26_serial_replace_disposes_old :
  forall s i j,
  s_disposed s = false -> s_cur s = Some j -> snd (ser_step s (SSet i)) = [ODisp j].
Proof. exact serial_replace_disposes_old. Qed.
Print Assumptions C26_serial_replace_disposes_old.

(* conservation: every assignment is either rejected (raised), or its item is the current one, or the
   item received exactly one dispose() *)
Theorem C26_single_conservation :
  forall h i,
  disposes i (log sad_step s_init h) + ocnt i (s_cur (final sad_step s_init h))
  + s_rejected i h (outs sad_step s_init h) = s_hsets i h.
Proof. exact sad_conservation. Qed.
Print Assumptions C26_single_conservation.

Theorem C26_single_disposed_all_once :
  forall h i,
  s_disposed (final sad_step s_init h) = true ->
  disposes i (log sad_step s_init h) + s_rejected i h (outs sad_step s_init h) = s_hsets i h.
Proof. exact sad_disposed_all_once. Qed.
Print Assumptions C26_single_disposed_all_once.

(* A second assignment to a SingleAssignmentDisposable that is not disposed is rejected, whatever
   else (other than dispose) happened in between; it changes nothing. *)
Theorem C26_single_second_assignment_rejected :
  forall h1 h2 i j,
  existsb is_sdispose (h1 ++ SSet i :: h2) = false ->
  let s := final sad_step s_init (h1 ++ SSet i :: h2) in
  sad_step s (SSet j) = (s, [ORaise]).
Proof. exact sad_second_assignment_rejected. Qed.
Print Assumptions C26_single_second_assignment_rejected.

Theorem C26_single_first_assignment_accepted :
  forall h i,
  existsb is_sset h = false ->
  raises (snd (sad_step (final sad_step s_init h) (SSet i))) = 0.
Proof. exact sad_first_assignment_accepted. Qed.
Print Assumptions C26_single_first_assignment_accepted.

(* assignment after dispose(): disposed at once (never kept, never rejected) *)
Theorem C26_single_set_after_dispose :
  forall h1 h2 i,
  let s := final sad_step s_init (h1 ++ SDispose :: h2) in sad_step s (SSet i) = (s, [ODisp i]).
Proof. exact sad_set_after_dispose. Qed.
Print Assumptions C26_single_set_after_dispose.

(* complete characterisation of the dispose() calls a MultipleAssignmentDisposable makes:
   none before the first dispose(); at the first dispose() the current (= last assigned) item;
   afterwards every newly assigned item, at once *)
Theorem C26_multiple_nothing_while_live :
  forall h,
  existsb is_sdispose h = false -> disp_ids (log mad_step s_init h) = [].
Proof. exact mad_characterisation_live. Qed.
Print Assumptions C26_multiple_nothing_while_live.

Theorem C26_multiple_characterisation :
  forall h1 h2,
  existsb is_sdispose h1 = false ->
  disp_ids (log mad_step s_init (h1 ++ SDispose :: h2)) = opt_items (last_set h1) ++ sets_of h2.
Proof. exact mad_characterisation. Qed.
Print Assumptions C26_multiple_characterisation.

(* non-vacuity *)
Example C26_witness_composite :
  outs c_step (c_init [0; 1]) [CAdd 2; CRemove 0; CRemove 3; CDispose; CAdd 4; CClear]
  = [[]; [ODisp 0; OBool true]; [OBool false]; [ODisp 1; ODisp 2]; [ODisp 4]; []].
Proof. vm_compute. reflexivity. Qed.
Example C26_witness_item_once_hyp : cnt 2 [0; 1] + c_hadds 2 [CAdd 2; CRemove 0; CDispose] = 1.
Proof. vm_compute. reflexivity. Qed.
Example C26_witness_single :
  outs sad_step s_init [SSet 1; SSet 2; SGet; SDispose; SSet 3] = [[]; [ORaise]; [OItem (Some 1)]; [ODisp 1]; [ODisp 3]].
Proof. vm_compute. reflexivity. Qed.
Example C26_witness_multiple :
  disp_ids (log mad_step s_init [SSet 1; SSet 2; SDispose; SSet 3]) = [2; 3].
Proof. vm_compute. reflexivity. Qed.

(* ---- any number of threads: all schedules -------------------------------------- *)
Local Close Scope nat_scope.
Local Open Scope Z_scope.

(* CONSERVATION under every schedule, at every moment: dispose() calls received + occurrences held by
   the container + occurrences in flight = occurrences ever handed over *)
Theorem C26_composite_conservation_all_interleavings :
  forall l0 progs sched i,
  let c := cc_run l0 progs sched in
  zdisp i (plain (c_log c)) + zcnt i (c_items (c_sh c)) + cc_in_flight i c = cc_total i l0 progs.
Proof. exact composite_conc_conservation. Qed.
Print Assumptions C26_composite_conservation_all_interleavings.

(* never more dispose() calls than occurrences handed over; none while the only occurrence is held *)
Theorem C26_composite_never_while_held_all_interleavings :
  forall l0 progs sched i,
  let c := cc_run l0 progs sched in
  zdisp i (plain (c_log c)) <= cc_total i l0 progs /\
  (cc_total i l0 progs = 1 -> mem i (c_items (c_sh c)) = true -> zdisp i (plain (c_log c)) = 0).
Proof. exact composite_conc_not_while_held. Qed.
Print Assumptions C26_composite_never_while_held_all_interleavings.

(* when all calls have returned: exactly once per occurrence no longer held; everything if disposed *)
Theorem C26_composite_exactly_once_all_interleavings :
  forall l0 progs sched i,
  let c := cc_run l0 progs sched in
  quiescent c = true ->
  zdisp i (plain (c_log c)) + zcnt i (c_items (c_sh c)) = cc_total i l0 progs /\
  (c_disposed (c_sh c) = true -> zdisp i (plain (c_log c)) = cc_total i l0 progs).
Proof. exact composite_conc_quiescent. Qed.
Print Assumptions C26_composite_exactly_once_all_interleavings.

(* an item added to a disposed container is disposed by the adding call itself *)
Theorem C26_composite_add_after_dispose_step :
  forall s j,
  c_disposed s = true ->
  cc_act s (cc_start (CAdd j)) = (s, Some (CL_calls [j] []), []) /\
  cc_act s (CL_calls [j] []) = (s, None, [ODisp j]).
Proof. exact composite_conc_add_after_dispose. Qed.
Print Assumptions C26_composite_add_after_dispose_step.

(* CONSERVATION (Serial, MultipleAssignment, SingleAssignment), every schedule, every moment:
   dispose() calls + rejected assignments + current + let go by replacement (Multiple only) + in flight
   = assignments made *)
Theorem C26_slot_conservation_all_interleavings :
  forall k progs sched i,
  let c := sc_run k progs sched in
  zdisp i (plain (c_log c)) + Z.of_nat (rejs i (plain (c_log c)))
  + Z.of_nat (ocnt i (s_cur (x_s (c_sh c)))) + zcnt i (x_dropped (c_sh c)) + sc_in_flight i c
  = sc_total i progs.
Proof. exact slot_conc_conservation. Qed.
Print Assumptions C26_slot_conservation_all_interleavings.

(* Serial / SingleAssignment: every assignment is, at every moment, exactly one of: rejected, current,
   in flight, or disposed exactly once; in particular never disposed while it is the current one *)
Theorem C26_serial_single_exactly_once_all_interleavings :
  forall k progs sched i,
  k <> KMultiple ->
  let c := sc_run k progs sched in
  zdisp i (plain (c_log c)) + Z.of_nat (rejs i (plain (c_log c)))
  + Z.of_nat (ocnt i (s_cur (x_s (c_sh c)))) + sc_in_flight i c = sc_total i progs /\
  (sc_total i progs = 1 -> s_cur (x_s (c_sh c)) = Some i -> zdisp i (plain (c_log c)) = 0) /\
  (quiescent c = true -> s_disposed (x_s (c_sh c)) = true ->
   zdisp i (plain (c_log c)) + Z.of_nat (rejs i (plain (c_log c))) = sc_total i progs).
Proof. exact slot_conc_exact. Qed.
Print Assumptions C26_serial_single_exactly_once_all_interleavings.

(* a SingleAssignmentDisposable rejects an assignment exactly when something is assigned at the moment
   its locked block runs; the decision and the raise are inside the lock *)
Theorem C26_single_rejects_inside_lock :
  forall x j,
  sc_act KSingle x (sc_start (SSet j)) =
  match s_cur (x_s x) with
  | Some _ => (x, None, [ORej j])
  | None => if s_disposed (x_s x)
            then (x, Some (SL_calls [j] []), [])
            else (XState (SState (Some j) (s_disposed (x_s x))) (x_dropped x), None, [])
  end.
Proof. exact single_conc_rejects. Qed.
Print Assumptions C26_single_rejects_inside_lock.

Theorem C26_single_multiple_nothing_while_live_all_interleavings :
  forall k progs sched,
  k <> KSerial -> sc_live_silent (sc_run k progs sched).
Proof. exact slot_conc_live_silent. Qed.
Print Assumptions C26_single_multiple_nothing_while_live_all_interleavings.

(* ---- the code as it was before the fix: refuted, with witnesses ----------------- *)
(* dispose(); then assign a falsy disposable: it is never disposed *)
Theorem C26_prefix_single_falsy_value_refuted :
  log (sad0_step truthy_ex) s_init [SDispose; SSet 0%nat] = [].
Proof. exact sad0_falsy_value_refuted. Qed.
Print Assumptions C26_prefix_single_falsy_value_refuted.

(* assign a falsy disposable, assign again: accepted (no exception), the first one is dropped undisposed *)
Theorem C26_prefix_single_falsy_current_refuted :
  outs (sad0_step truthy_ex) s_init [SSet 0%nat; SSet 1%nat; SGet] = [[]; []; [OItem (Some 1%nat)]].
Proof. exact sad0_falsy_current_refuted. Qed.
Print Assumptions C26_prefix_single_falsy_current_refuted.

(* T0 assigns item 1 (reads current, runs its locked block), T1 disposes completely, T0 re-reads
   is_disposed outside the lock: item 1 receives TWO dispose() calls *)
Theorem C26_prefix_single_double_dispose_race_refuted :
  c_log (s0_run [[SSet 1%nat]; [SDispose]] [0; 0; 1; 1; 0; 0]%nat) = [(1%nat, ODisp 1%nat); (0%nat, ODisp 1%nat)].
Proof. exact sad0_double_dispose_race_refuted. Qed.
Print Assumptions C26_prefix_single_double_dispose_race_refuted.

(* two threads both pass the unlocked `if self.current`: the second assignment is not rejected and
   silently replaces the first, which is never disposed *)
Theorem C26_prefix_single_double_assign_race_refuted :
  let c := s0_run [[SSet 1%nat]; [SSet 2%nat]] [0; 1; 0; 1; 0; 1]%nat in
  c_log c = [] /\ s_cur (c_sh c) = Some 2%nat /\ quiescent c = true.
Proof. exact sad0_double_assign_race_refuted. Qed.
Print Assumptions C26_prefix_single_double_assign_race_refuted.

(* the same histories / schedules on the model of the CURRENT code *)
Theorem C26_single_falsy_value_fixed :
  log sad_step s_init [SDispose; SSet 0%nat] = [ODisp 0%nat].
Proof. exact sad_falsy_value_fixed. Qed.
Print Assumptions C26_single_falsy_value_fixed.

Theorem C26_single_falsy_current_fixed :
  outs sad_step s_init [SSet 0%nat; SSet 1%nat; SGet] = [[]; [ORaise]; [OItem (Some 0%nat)]].
Proof. exact sad_falsy_current_fixed. Qed.
Print Assumptions C26_single_falsy_current_fixed.

(* non-vacuity: remove(0) racing with dispose(): T1's dispose swaps the list between T0's
   unlocked pre-check and T0's locked membership test; item 0 is disposed once (by T1), remove returns False *)
Example C26_witness_composite_race :
  let c := cc_run [0; 1]%nat [[CRemove 0%nat]; [CDispose]] [0; 1; 1; 0; 1; 1]%nat in
  c_log c = [(0, OBool false); (1, ODisp 0); (1, ODisp 1)]%nat /\ quiescent c = true /\
  c_disposed (c_sh c) = true /\ cc_total 0%nat [0; 1]%nat [[CRemove 0%nat]; [CDispose]] = 1.
Proof. vm_compute. repeat split. Qed.
(* the schedules that broke the old SingleAssignmentDisposable, on the current model *)
Example C26_witness_single_race_fixed :
  c_log (sc_run KSingle [[SSet 1%nat]; [SDispose]] [0; 1; 1]%nat) = [(1%nat, ODisp 1%nat)] /\
  c_log (sc_run KSingle [[SSet 1%nat]; [SSet 2%nat]] [0; 1]%nat) = [(1%nat, ORej 2%nat)].
Proof. vm_compute. split; reflexivity. Qed.
Example C26_witness_kind_hyp : KSingle <> KMultiple /\ KSingle <> KSerial.
Proof. split; discriminate. Qed.

(* ---- never while held, at the instant of the call; exactly one assignment accepted ---- *)
(* NOT HELD AT THE DISPOSE: whenever a scheduled step (of any thread, after any schedule) makes an item
   that was handed over exactly once receive a dispose() call, the container holds that item neither
   just before nor just after that step *)
Theorem C26_composite_not_held_at_dispose :
  forall l0 progs sched tid i,
  let c := cc_run l0 progs sched in
  let c' := tstep cc_start cc_act c tid in
  cc_total i l0 progs = 1 ->
  zdisp i (plain (c_log c')) = zdisp i (plain (c_log c)) + 1 ->
  mem i (c_items (c_sh c)) = false /\ mem i (c_items (c_sh c')) = false.
Proof. exact composite_conc_not_held_at_dispose. Qed.
Print Assumptions C26_composite_not_held_at_dispose.

(* EXACTLY ONE ACCEPTED: a SingleAssignmentDisposable that is never disposed, any number of threads
   racing to assign, every schedule:
   - at every moment nothing has been rejected while the slot is still empty;
   - once all calls returned, if anything was assigned at all the slot holds an item;
   - once all calls returned, an item assigned exactly once was rejected exactly once, unless it is the
     one the slot holds, which was not rejected *)
Theorem C26_single_exactly_one_accepted :
  forall progs sched,
  (forall p, In p progs -> ~ In SDispose p) ->
  let c := sc_run KSingle progs sched in
  (s_cur (x_s (c_sh c)) = None -> forall j, rejs j (plain (c_log c)) = 0%nat) /\
  (quiescent c = true -> (exists i, 0 < sc_total i progs) -> s_cur (x_s (c_sh c)) <> None) /\
  (quiescent c = true -> forall i, sc_total i progs = 1 ->
     Z.of_nat (rejs i (plain (c_log c))) = 1 - Z.of_nat (ocnt i (s_cur (x_s (c_sh c))))).
Proof. exact single_conc_exactly_one_accepted. Qed.
Print Assumptions C26_single_exactly_one_accepted.

(* non-vacuity: the step of thread 1 that disposes item 0 (handed over once): dispose() emptied the
   container in the step before *)
Example C26_witness_not_held_at_dispose :
  let c := cc_run [0; 1]%nat [[CRemove 0%nat]; [CDispose]] [0; 1; 1]%nat in
  let c' := tstep cc_start cc_act c 1%nat in
  cc_total 0%nat [0; 1]%nat [[CRemove 0%nat]; [CDispose]] = 1 /\
  zdisp 0%nat (plain (c_log c')) = zdisp 0%nat (plain (c_log c)) + 1 /\ c_items (c_sh c) = [].
Proof. vm_compute. repeat split. Qed.
(* three threads race to assign; thread 1 wins, the two others are rejected *)
Example C26_witness_single_three_assigners :
  let progs := [[SSet 1%nat]; [SSet 2%nat]; [SSet 3%nat; SGet]] in
  let c := sc_run KSingle progs [1; 0; 2; 2]%nat in
  (forall p, In p progs -> ~ In SDispose p) /\ quiescent c = true /\
  sc_total 1%nat progs = 1 /\ sc_total 2%nat progs = 1 /\
  c_log c = [(0, ORej 1); (2, ORej 3); (2, OItem (Some 2))]%nat.
Proof.
  split; [|vm_compute; repeat split].
  intros p [<-|[<-|[<-|[]]]]; intros X; repeat (destruct X as [X|X]; try discriminate X); exact X.
Qed.
(* the hypotheses of the serial/single exactly-once theorem: an item assigned once, disposed quiescent state *)
Example C26_witness_serial_total_hyp :
  let progs := [[SSet 1%nat; SSet 2%nat]; [SDispose]] in
  let c := sc_run KSerial progs [0; 0; 0; 1; 1]%nat in
  sc_total 1%nat progs = 1 /\ quiescent c = true /\ s_disposed (x_s (c_sh c)) = true /\
  plain (c_log c) = [ODisp 1%nat; ODisp 2%nat].
Proof. vm_compute. repeat split. Qed.

(* ---- Part 4: ONE thread of the transition systems IS the sequential container (Core/DispConcFacts3.v) -----
   For every history h of one thread there is a schedule length n such that after n steps, and after any
   number m of further steps, the thread has returned from all calls (quiescent), the log of the transition
   system is the log of the sequential model (held items + disposed flag) and the shared state is its final
   state.  So Part 1 (conservation, exactly once, nothing while held, add/assign after dispose) speaks about
   the same objects as Part 2, and a quiescent state is reachable for every program. *)
From RxVerif Require Import Core.DispConcFacts3.

Theorem C26_composite_one_thread_refines : forall l0 h, exists n, forall m,
  let c := cc_run l0 [h] (repeat 0%nat (n + m)%nat) in
  plain (c_log c) = log c_step (c_init l0) h /\
  c_sh c = final c_step (c_init l0) h /\
  quiescent c = true.
Proof. exact cc_one_thread_refines. Qed.
Print Assumptions C26_composite_one_thread_refines.

(* the three one-slot classes at once: [slot_seq k] is ser_step / mad_step / sad_step; [slot_f k] is the
   identity except that the SingleAssignment system names the rejected item (ORej i) where the sequential
   log has the bare exception (ORaise) *)
Theorem C26_slot_one_thread_refines : forall k h, exists n, forall m,
  let c := sc_run k [h] (repeat 0%nat (n + m)%nat) in
  map (slot_f k) (plain (c_log c)) = log (slot_seq k) s_init h /\
  x_s (c_sh c) = final (slot_seq k) s_init h /\
  quiescent c = true.
Proof. exact sc_one_thread_refines. Qed.
Print Assumptions C26_slot_one_thread_refines.

Theorem C26_serial_one_thread_refines : forall h, exists n, forall m,
  let c := sc_run KSerial [h] (repeat 0%nat (n + m)%nat) in
  plain (c_log c) = log ser_step s_init h /\ x_s (c_sh c) = final ser_step s_init h /\ quiescent c = true.
Proof. exact serial_one_thread_refines. Qed.
Print Assumptions C26_serial_one_thread_refines.

Theorem C26_single_one_thread_refines : forall h, exists n, forall m,
  let c := sc_run KSingle [h] (repeat 0%nat (n + m)%nat) in
  map unrej (plain (c_log c)) = log sad_step s_init h /\ x_s (c_sh c) = final sad_step s_init h /\
  quiescent c = true.
Proof. exact single_one_thread_refines. Qed.
Print Assumptions C26_single_one_thread_refines.

(* what it buys, stated on the transition systems: one thread, run to completion -- every item received one
   dispose() per hand-over except for the occurrences still held (removed / replaced / cleared items are
   disposed by that call, the rest at dispose()); after a dispose() nothing is held *)
Theorem C26_composite_one_thread_exactly_once : forall l0 h i, exists n, forall m,
  let c := cc_run l0 [h] (repeat 0%nat (n + m)%nat) in
  quiescent c = true /\
  (disposes i (plain (c_log c)) + cnt i (c_items (c_sh c)) = cnt i l0 + c_hadds i h)%nat /\
  (In CDispose h -> c_items (c_sh c) = [] /\ disposes i (plain (c_log c)) = (cnt i l0 + c_hadds i h)%nat).
Proof. exact composite_one_thread_exactly_once. Qed.
Print Assumptions C26_composite_one_thread_exactly_once.

Theorem C26_serial_one_thread_exactly_once : forall h i, exists n, forall m,
  let c := sc_run KSerial [h] (repeat 0%nat (n + m)%nat) in
  quiescent c = true /\
  (disposes i (plain (c_log c)) + ocnt i (s_cur (x_s (c_sh c))) = s_hsets i h)%nat /\
  (In SDispose h -> s_cur (x_s (c_sh c)) = None /\ disposes i (plain (c_log c)) = s_hsets i h).
Proof. exact serial_one_thread_exactly_once. Qed.
Print Assumptions C26_serial_one_thread_exactly_once.

Theorem C26_single_one_thread_exactly_once : forall h i, exists n, forall m,
  let c := sc_run KSingle [h] (repeat 0%nat (n + m)%nat) in
  quiescent c = true /\
  (disposes i (plain (c_log c)) + ocnt i (s_cur (x_s (c_sh c))) + s_rejected i h (outs sad_step s_init h)
    = s_hsets i h)%nat /\
  (In SDispose h -> s_cur (x_s (c_sh c)) = None).
Proof. exact single_one_thread_exactly_once. Qed.
Print Assumptions C26_single_one_thread_exactly_once.

(* non-vacuity: a composite history with remove, add after dispose and clear; a single-assignment history
   with a rejected second assignment (ORej 2 in the system log, ORaise in the sequential log) *)
Example C26_witness_one_thread_composite :
  let h := [CAdd 3; CRemove 1; CDispose; CAdd 4; CClear]%nat in
  let c := cc_run [1; 2]%nat [h] (repeat 0%nat 12) in
  quiescent c = true /\ plain (c_log c) = log c_step (c_init [1; 2]%nat) h /\
  plain (c_log c) = [ODisp 1; OBool true; ODisp 2; ODisp 3; ODisp 4]%nat /\
  c_sh c = CState [] true.
Proof. vm_compute. repeat split. Qed.
Example C26_witness_one_thread_single :
  let h := [SSet 1; SSet 2; SDispose; SGet]%nat in
  let c := sc_run KSingle [h] (repeat 0%nat 6) in
  quiescent c = true /\ plain (c_log c) = [ORej 2; ODisp 1; OItem None]%nat /\
  log sad_step s_init h = [ORaise; ODisp 1%nat; OItem None].
Proof. vm_compute. repeat split. Qed.
