(* C02 -- termination releases every source subscription.
   The runner (Ops/Multi.v) models the subscription plumbing the library gives
   every operator: per-source auto-detaching wrappers and the disposal of the
   operator's disposable at the downstream terminal.  For EVERY machine (every
   operator of the C05/C06/C10-C13 catalogues and any other one written against
   this interface) and EVERY input sequence -- arbitrary interleavings of
   sources and timers, non-conforming sources included:
   once a terminal notification has been emitted, no source subscription and no
   timer is left (runner state), and in the observable trace itself -- the
   thing compared with the implementation -- every subscribe event is matched
   by an unsubscribe event.
   Modelling assumption (checked by the K2 correspondence, operator by
   operator, on unsubscribe instants): the disposable an operator returns
   holds every subscription and timer it opened.  Groups/windows handed to the
   subscriber (ref-counted) are treated in C18/C19. *)
From RxVerif Require Import Base.Prelude Ops.Machine Ops.MachineFacts Ops.Multi Ops.MultiFacts
  Ops.ReleaseFacts Ops.Lift.

Theorem C02_released_after_terminal : forall A B (m : machine A B) ins,
  ended (emitted (fst (run m ins))) = true ->
  r_live (snd (run m ins)) = [] /\ r_timers (snd (run m ins)) = [].
Proof.
  intros A B m ins H. destruct (run_good m ins) as [_ G]. rewrite (G H). split; reflexivity.
Qed.
Print Assumptions C02_released_after_terminal.

Theorem C02_trace_balanced : forall A B (m : machine A B) ins,
  ended (emitted (fst (run m ins))) = true ->
  open_after [] (map snd (fst (run m ins))) = [].
Proof. exact @terminated_run_is_balanced. Qed.
Print Assumptions C02_trace_balanced.

Theorem C02_trace_accounts_for_live_set : forall A B (m : machine A B) ins,
  open_after [] (map snd (fst (run m ins))) = r_live (snd (run m ins)).
Proof. exact @run_track. Qed.
Print Assumptions C02_trace_accounts_for_live_set.

(* single-source operators are instances: the runner emits what exec emits *)
Theorem C02_single_source_operators_are_machines : forall A B (m : mealy A B) ins,
  temitted (fst (run (lift m) (feed0 ins))) = exec m ins.
Proof. exact @lift_exec. Qed.
Print Assumptions C02_single_source_operators_are_machines.

Theorem C02_grammar_multi : forall A B (m : machine A B) ins,
  wellformed (emitted (fst (run m ins))) = true.
Proof. intros A B m ins. exact (proj1 (run_good m ins)). Qed.
Print Assumptions C02_grammar_multi.
