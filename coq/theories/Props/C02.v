(* C02 -- termination releases every source subscription.
   The runner (Ops/Multi.v) models the subscription plumbing the library gives
   every operator: per-source auto-detaching wrappers and the disposal of the
   operator's disposable at the downstream terminal.  For EVERY machine (every
   operator of the C05/C06/C10-C13 catalogues and any other one written against
   this interface) and EVERY input sequence -- arbitrary interleavings of
   sources and timers, non-conforming sources included:
   once a terminal notification has been emitted, no source subscription and no
   timer is left (runner state), and in the observable trace itself -- the
   thing compared with the implementation -- every subscribe event is matched
   by an unsubscribe event.
   Modelling assumption (checked by the K2 correspondence, operator by
   operator, on unsubscribe instants): the disposable an operator returns
   holds every subscription and timer it opened.  Groups/windows handed to the
   subscriber (ref-counted) are treated in C18/C19. *)
From RxVerif Require Import Base.Prelude Ops.Machine Ops.MachineFacts Ops.Multi Ops.MultiFacts
  Ops.ReleaseFacts Ops.Lift Ops.RunTailFacts Ops.Combinators.

Theorem C02_released_after_terminal : forall A B (m : machine A B) ins,
  ended (emitted (fst (run m ins))) = true ->
  r_live (snd (run m ins)) = [] /\ r_timers (snd (run m ins)) = [].
Proof.
  intros A B m ins H. destruct (run_good m ins) as [_ G]. rewrite (G H). split; reflexivity.
Qed.
Print Assumptions C02_released_after_terminal.

Theorem C02_trace_balanced : forall A B (m : machine A B) ins,
  ended (emitted (fst (run m ins))) = true ->
  open_after [] (map snd (fst (run m ins))) = [].
Proof. exact @terminated_run_is_balanced. Qed.
Print Assumptions C02_trace_balanced.

Theorem C02_trace_accounts_for_live_set : forall A B (m : machine A B) ins,
  open_after [] (map snd (fst (run m ins))) = r_live (snd (run m ins)).
Proof. exact @run_track. Qed.
Print Assumptions C02_trace_accounts_for_live_set.

(* single-source operators are instances: the runner emits what exec emits *)
Theorem C02_single_source_operators_are_machines : forall A B (m : mealy A B) ins,
  temitted (fst (run (lift m) (feed0 ins))) = exec m ins.
Proof. exact @lift_exec. Qed.
Print Assumptions C02_single_source_operators_are_machines.

Theorem C02_grammar_multi : forall A B (m : machine A B) ins,
  wellformed (emitted (fst (run m ins))) = true.
Proof. intros A B m ins. exact (proj1 (run_good m ins)). Qed.
Print Assumptions C02_grammar_multi.

(* "at that instant", read off the observable trace: wherever a terminal
   notification stands in the trace of a run, everything behind it is an
   unsubscribe or a timer cancellation carrying the terminal's own step tag --
   no notification, subscription, timer or side effect follows it.  (Entries of
   the same step that PRECEDE the terminal -- elements and commands of the
   handler that decided to terminate -- are not restricted.) *)
Theorem C02_nothing_after_the_terminal_step :
  forall A B (m : machine A B) ins pre k t post,
    fst (run m ins) = pre ++ (k, OEmit t) :: post -> is_terminal t = true ->
    Forall (fun x => fst x = k /\ exists j, snd x = OUnsub j \/ snd x = OCancel j) post.
Proof. exact @run_closed. Qed.
Print Assumptions C02_nothing_after_the_terminal_step.

(* no entry of the trace belongs to a later step than the terminal notification *)
Theorem C02_no_step_after_the_terminal_step :
  forall A B (m : machine A B) ins k t k' o,
    In (k, OEmit t) (fst (run m ins)) -> is_terminal t = true ->
    In (k', o) (fst (run m ins)) -> (k' <= k)%nat.
Proof. exact @run_nothing_later. Qed.
Print Assumptions C02_no_step_after_the_terminal_step.

(* witnesses: a run that ends (the hypothesis [ended ...] of the theorems above),
   with the terminal followed by the two unsubscribes of its own step, and a
   later source element that adds nothing *)
Example C02_witness_terminal_then_releases :
  fst (run (@x_take_until Z) [(0, ISrc 0%nat (Next 5)); (1, ISrc 1%nat (Next 9)); (2, ISrc 0%nat (Next 4))])
  = [(0%nat, OSub 0%nat); (0%nat, OSub 1%nat); (1%nat, OEmit (Next 5))]
    ++ (2%nat, OEmit Done) :: [(2%nat, OUnsub 0%nat); (2%nat, OUnsub 1%nat)].
Proof. vm_compute. reflexivity. Qed.
Example C02_witness_ended :
  ended (emitted (fst (run (@x_take_until Z)
    [(0, ISrc 0%nat (Next 5)); (1, ISrc 1%nat (Next 9)); (2, ISrc 0%nat (Next 4))]))) = true.
Proof. vm_compute. reflexivity. Qed.
