(* C44 -- an operator function can be applied to many sources independently.

   Same model and same generated table as C04 (Ops/Closure.v, Gen/AllocTable.v regenerated from
   /repo/reactivex on every run by harness/translate/alloc_tr.py); the level that matters here is
   the FACTORY: state allocated when the operator value is built is shared by all applications. *)
From Coq Require Import List String ZArith Bool.
From RxVerif Require Import Ops.Closure Ops.ClosureFacts Gen.AllocTable Ops.ClosureTable.
Import ListNotations.
Open Scope string_scope.

(* For EVERY levelled program in which no code writes a factory-level cell, and EVERY history (any
   number of applications to arbitrary sources, any number of subscriptions per application, handler
   runs interleaved arbitrarily): one operator value shared by all applications produces exactly the
   trace that a fresh operator value per application produces. *)
Theorem C44_generic :
  forall (Src In Out F A S : Type) (p : lprog Src In Out F A S),
    frame_F _ _ _ _ _ _ p ->
    forall h, trace_shared _ _ _ _ _ _ p h = trace_fresh _ _ _ _ _ _ p h.
Proof. exact C44_generic_thm. Qed.
Print Assumptions C44_generic.

(* THE TABLE CHECK on the generated table: no operator allocates, when it is BUILT (factory or module
   level), an object that is written later.  Moving an allocation up into the factory makes this
   theorem fail to compile. *)
Theorem C44_table_check : forallb entry_ok_C44 alloc_table = true.
Proof. vm_compute. reflexivity. Qed.
Print Assumptions C44_table_check.

Theorem C44_table_sound :
  forall rows,
    forallb entry_ok_C44 rows = true -> forallb (fun e => negb (a_creation e)) rows = true ->
    forall (Src In Out S : Type) (p : lprog Src In Out store store S) am,
      described_by Src In Out S p (fcells rows) am ->
      forall h, trace_shared _ _ _ _ _ _ p h = trace_fresh _ _ _ _ _ _ p h.
Proof. exact C44_rows_sound_thm. Qed.
Print Assumptions C44_table_sound.

(* ... instantiated at EVERY non-creation public function o of the generated table: the rows of o
   pass the check and are not creation rows (consistency of the two generated tables, evaluated by
   the kernel), so every levelled program whose factory store is described by the rows OF o -- code
   at level L leaves every factory cell whose deepest write level is shallower than L untouched --
   gives, shared by all applications, the trace of a fresh operator value per application, in EVERY
   history.  What links a real operator to such a program stays the translator + differential run. *)
Theorem C44_every_operator_levels :
  forall o, In o alloc_ops -> o_creation o = false ->
  cells_ok LFactory (fcells (rows_of (o_name o) alloc_table)) = true
  /\ forall (Src In Out S : Type) (p : lprog Src In Out store store S) am,
       described_by Src In Out S p (fcells (rows_of (o_name o) alloc_table)) am ->
       forall h, trace_shared _ _ _ _ _ _ p h = trace_fresh _ _ _ _ _ _ p h.
Proof. exact every_operator. Qed.
Print Assumptions C44_every_operator_levels.

(* pinned fact about the table as generated today: NO non-exempt site is allocated at factory or
   module level for any non-creation function, so the described factory store is empty -- the
   hypothesis then reads "the program never writes a factory cell", and the exempt sites (locks,
   schedulers, the benign `duration` below) are outside the theorem *)
Theorem C44_every_operator :
  forall o, In o alloc_ops -> o_creation o = false ->
  fcells (rows_of (o_name o) alloc_table) = []
  /\ forall (Src In Out S : Type) (p : lprog Src In Out store store S) am,
       described_by Src In Out S p (fcells (rows_of (o_name o) alloc_table)) am ->
       forall h, trace_shared _ _ _ _ _ _ p h = trace_fresh _ _ _ _ _ _ p h.
Proof. exact every_operator_empty. Qed.
Print Assumptions C44_every_operator.

(* the allowlisted benign factory-level site, pinned (idempotent normalisation of an argument) *)
Theorem C44_benign_sites :
  map (fun e => (a_op e, a_name e))
      (filter (fun e => a_benign e && negb (a_creation e) && shared_above LApply e) alloc_table) =
  [("ops.skip_last_with_time", "duration")].
Proof. vm_compute. reflexivity. Qed.
Print Assumptions C44_benign_sites.

(* conversely: a factory-level cell written by subscribe (ref_count_'s `count`, as it was before the
   repair; likewise the subject that replay_/publish_value_ created when the operator was built)
   makes one shared operator value differ from fresh ones: the second source is never connected *)
Theorem C44_factory_cell_refuted :
  let h := [EApply tt; EApply tt; ESub 0; ESub 1; ERun 0 tt; ERun 1 tt] in
  trace_shared _ _ _ _ _ _ prog_factory_count h = [(0, tt, true); (1, tt, false)]
  /\ trace_fresh _ _ _ _ _ _ prog_factory_count h = [(0, tt, true); (1, tt, true)].
Proof. exact factory_cell_refuted. Qed.
Print Assumptions C44_factory_cell_refuted.

(* the check is sensitive: the rows the unrepaired code produced are rejected, the repaired accepted *)
Example C44_check_rejects_factory_state :
  entry_ok_C44 (mk_site "ops.ref_count" "reactivex/operators/connectable/_refcount.py" 17 "count"
                        KCell LFactory LHandler false true false false) = false
  /\ entry_ok_C44 (mk_site "ops.replay" "reactivex/operators/_replay.py" 60 "rs"
                           KSubject LFactory LHandler false true false false) = false
  /\ entry_ok_C44 (mk_site "ops.ref_count" "reactivex/operators/connectable/_refcount.py" 17 "count"
                           KCell LApply LHandler false true false false) = true.
Proof. vm_compute. repeat split. Qed.

(* non-vacuity: operators with application-level state exist in the table (and pass), and the
   hypothesis of the generic theorem is satisfiable by a program with real state *)
Example C44_table_populated :
  existsb (fun e => String.eqb (a_op e) "ops.ref_count" && String.eqb (a_name e) "count"
                    && level_leb LApply (a_alloc e) && level_ltb (a_alloc e) (a_mut e)) alloc_table = true
  /\ existsb (fun e => String.eqb (a_op e) "ops.publish" && String.eqb (a_name e) "subject"
                       && level_leb LApply (a_alloc e)) alloc_table = true
  /\ (100 <=? List.length (filter (fun o => negb (o_creation o)) alloc_ops))%nat = true.
Proof. vm_compute. repeat split. Qed.

Example C44_hypothesis_satisfiable : frame_F _ _ _ _ _ _ prog_app_iter.
Proof. repeat split. Qed.

(* the hypothesis of C44_every_operator is satisfiable, at a real row set, by a program with real
   state (an application-level counter cell advanced by the handlers and read by the output); its
   shared trace is not trivial *)
Example C44_every_operator_hypothesis_satisfiable :
  described_by unit unit Z unit prog_store_counter (fcells (rows_of "ops.ref_count" alloc_table)) [LHandler].
Proof. exact store_counter_described_ref_count. Qed.

Example C44_every_operator_witness_trace :
  existsb (fun o => String.eqb (o_name o) "ops.ref_count" && negb (o_creation o)) alloc_ops = true
  /\ trace_shared _ _ _ _ _ _ prog_store_counter [EApply tt; EApply tt; ESub 0; ESub 1; ERun 0 tt; ERun 0 tt; ERun 1 tt]
     = [(0, tt, 0%Z); (0, tt, 1%Z); (1, tt, 0%Z)].
Proof. vm_compute. split; reflexivity. Qed.

(* ... and frame_F by a program whose factory state is real and READ by the output *)
Example C44_hypothesis_satisfiable_with_factory_state :
  frame_F _ _ _ _ _ _ prog_factory_const
  /\ trace_shared _ _ _ _ _ _ prog_factory_const [EApply tt; ESub 0; ERun 0 tt; ERun 0 tt] = [(0, tt, 5%Z); (0, tt, 6%Z)].
Proof. split; [exact factory_const_frame | vm_compute; reflexivity]. Qed.

(* ---- connections, and benign normalisation of a factory cell (Ops/ClosureAct.v) ------------- *)
From RxVerif Require Import Ops.ClosureAct.

(* The property text interleaves subscriptions AND CONNECTIONS.  Ops/ClosureAct.v extends the model
   (Ops/Closure.v unchanged) by an action on an application -- connect() on a connectable, no
   subscription involved: [aprog] = a levelled program + the action's code act_f / act_a (it may
   write factory- and application-level cells), histories get the event [AAct k x].  For EVERY
   such program in which no code below the factory, the action included, writes a factory-level
   cell, and EVERY history of applications, subscriptions, handler runs and connections: shared
   operator value = fresh operator values. *)
Theorem C44_generic_with_connections :
  forall (Src In Act Out F A S : Type) (q : aprog Src In Act Out F A S),
    frame_F _ _ _ _ _ _ (ap_base _ _ _ _ _ _ _ q) ->
    (forall f a x, act_f _ _ _ _ _ _ _ q f a x = f) ->
    forall h, trace_shared_act _ _ _ _ _ _ _ q h = trace_fresh_act _ _ _ _ _ _ _ q h.
Proof. exact act_generic_thm. Qed.
Print Assumptions C44_generic_with_connections.

(* the extension is conservative: on histories without connections both semantics are those of
   Ops/Closure.v *)
Theorem C44_connections_conservative :
  forall (Src In Act Out F A S : Type) (q : aprog Src In Act Out F A S) h,
    trace_shared_act _ _ _ _ _ _ _ q (map AEv h) = trace_shared _ _ _ _ _ _ (ap_base _ _ _ _ _ _ _ q) h
    /\ trace_fresh_act _ _ _ _ _ _ _ q (map AEv h) = trace_fresh _ _ _ _ _ _ (ap_base _ _ _ _ _ _ _ q) h.
Proof. exact act_conservative. Qed.
Print Assumptions C44_connections_conservative.

(* conversely: a factory-level `connection` cell written by connect() (every other piece of code
   respects the frame) distinguishes shared from fresh -- connecting the first application makes
   the second, never connected, deliver *)
Theorem C44_factory_connection_refuted :
  let h := [AEv (EApply tt); AEv (EApply tt); AEv (ESub 0); AEv (ESub 1); AAct 0 tt;
            AEv (ERun 0 1%Z); AEv (ERun 1 2%Z)] in
  frame_F _ _ _ _ _ _ (ap_base _ _ _ _ _ _ _ prog_connect_factory)
  /\ trace_shared_act _ _ _ _ _ _ _ prog_connect_factory h = [(0, 1%Z, Some 1%Z); (1, 2%Z, Some 2%Z)]
  /\ trace_fresh_act _ _ _ _ _ _ _ prog_connect_factory h = [(0, 1%Z, Some 1%Z); (1, 2%Z, None)].
Proof. exact connect_factory_refuted. Qed.
Print Assumptions C44_factory_connection_refuted.

(* non-vacuity: the connection flag one level down (application level, written by connect, gating
   the deliveries; a factory-level argument is read by the output) satisfies the hypotheses, and
   its shared run with two applications connected at different instants is not trivial *)
Example C44_connections_hypothesis_satisfiable :
  frame_F _ _ _ _ _ _ (ap_base _ _ _ _ _ _ _ prog_connect_app)
  /\ (forall f a x, act_f _ _ _ _ _ _ _ prog_connect_app f a x = f)
  /\ trace_shared_act _ _ _ _ _ _ _ prog_connect_app
       [AEv (EApply tt); AEv (EApply tt); AEv (ESub 0); AEv (ESub 1); AEv (ERun 0 1%Z);
        AAct 0 tt; AEv (ERun 0 2%Z); AEv (ERun 1 3%Z); AAct 1 tt; AEv (ERun 1 4%Z)]
     = [(0, 1%Z, None); (0, 2%Z, Some 7%Z); (1, 3%Z, None); (1, 4%Z, Some 9%Z)].
Proof. exact connect_app_witness. Qed.

(* BENIGN WRITTEN FACTORY CELLS.  A factory cell may be written if the writes cannot be observed:
   for EVERY program and EVERY [norm : F -> F] such that every write to F leaves [norm f] unchanged
   ([frame_F_upto]) and all other code reads F only through norm ([reads_F_through]: g f = g (norm f)
   for app_a, sub_a, sub_s, run_a, run_s, run_o), shared = fresh in EVERY history.  (norm = identity
   is C44_generic.) *)
Theorem C44_generic_up_to_normalisation :
  forall (Src In Out F A S : Type) (p : lprog Src In Out F A S) (norm : F -> F),
    frame_F_upto _ _ _ _ _ _ p norm -> reads_F_through _ _ _ _ _ _ p norm ->
    forall h, trace_shared _ _ _ _ _ _ p h = trace_fresh _ _ _ _ _ _ p h.
Proof. exact benign_generic. Qed.
Print Assumptions C44_generic_up_to_normalisation.

(* the shape of the one allowlisted site (C44_benign_sites; skip_last_with_time_: subscribe does
   `duration = to_timedelta(duration)`): subscribe REPLACES the factory state by its idempotent
   normalisation, apply and the handlers leave it alone, everything reads it through norm *)
Theorem C44_benign_normalisation :
  forall (Src In Out F A S : Type) (p : lprog Src In Out F A S) (norm : F -> F),
    (forall f, norm (norm f) = norm f) ->
    (forall f src, app_f _ _ _ _ _ _ p f src = f) ->
    (forall f a, sub_f _ _ _ _ _ _ p f a = norm f) ->
    (forall f a s i, run_f _ _ _ _ _ _ p f a s i = f) ->
    reads_F_through _ _ _ _ _ _ p norm ->
    forall h, trace_shared _ _ _ _ _ _ p h = trace_fresh _ _ _ _ _ _ p h.
Proof. exact benign_normalisation. Qed.
Print Assumptions C44_benign_normalisation.

(* non-vacuity: F = Z REALLY written by subscribe (frame_F fails, C44_generic does not apply) and
   read, normalised, by the output *)
Example C44_benign_hypotheses_satisfiable :
  (forall f, Z.abs (Z.abs f) = Z.abs f)
  /\ (forall f src, app_f _ _ _ _ _ _ prog_norm_duration f src = f)
  /\ (forall f a, sub_f _ _ _ _ _ _ prog_norm_duration f a = Z.abs f)
  /\ (forall f a s i, run_f _ _ _ _ _ _ prog_norm_duration f a s i = f)
  /\ reads_F_through _ _ _ _ _ _ prog_norm_duration Z.abs.
Proof. exact norm_duration_hyps. Qed.

Example C44_benign_witness :
  ~ frame_F _ _ _ _ _ _ prog_norm_duration
  /\ trace_shared _ _ _ _ _ _ prog_norm_duration [EApply tt; EApply tt; ESub 0; ERun 0 1%Z; ESub 1; ERun 1 2%Z]
     = [(0, 1%Z, 4%Z); (1, 2%Z, 5%Z)].
Proof. exact norm_duration_witness. Qed.

(* the reading hypothesis cannot be dropped: the same cell captured RAW by subscribe -- the first
   subscription anywhere changes what a subscription of ANOTHER application captures *)
Theorem C44_normalised_cell_read_raw_refuted :
  let h := [EApply tt; EApply tt; ESub 0; ESub 1; ERun 1 0%Z] in
  frame_F_upto _ _ _ _ _ _ prog_raw_duration Z.abs
  /\ trace_shared _ _ _ _ _ _ prog_raw_duration h = [(1, 0%Z, 3%Z)]
  /\ trace_fresh _ _ _ _ _ _ prog_raw_duration h = [(1, 0%Z, (-3)%Z)].
Proof. exact raw_duration_refuted. Qed.
Print Assumptions C44_normalised_cell_read_raw_refuted.
