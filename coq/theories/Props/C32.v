(* C32 -- observe_on / ScheduledObserver delivers every notification once, in order, serially.

   Model: Core/SchedObs.v, the transition system of ScheduledObserver (+ ObserveOnObserver) as the
   code is: unlocked queue.append | the locked test-and-set of ensure_active | scheduler.schedule(run) |
   the scheduler starting a pending run | run's locked pop-or-release | entering / leaving the
   downstream observer OUTSIDE the lock | the locked fault block | the re-schedule.
   The target scheduler is abstract: any thread running [OWork] is one of its workers and starts a
   pending `run` at an arbitrary moment (one worker = event loop, several = thread pool).

   Every theorem holds for ALL schedules (lists of thread ids), ALL per-thread programs (any number
   of producer and worker threads) and EVERY set of raising deliveries [raises].
   Tie to /repo: harness/props/C32.py (K3: the real classes under the controlled interleaving of a
   producer thread with scheduler worker threads, compared step-for-step with this system). *)
From RxVerif Require Import Base.Prelude Core.Lts Core.LtsFacts Core.SchedObs Core.SchedObsFacts Core.SchedObsFacts2.
Local Open Scope nat_scope.

(* the is_acquired handshake: at most one `run` is pending on the scheduler, being scheduled or
   active, and there is one exactly when is_acquired and not has_faulted *)
Theorem C32_one_runner :
  forall raises progs sched,
  let c := so_run raises progs sched in
  runs_alive c = (if so_acq (c_sh c) && negb (so_flt (c_sh c)) then 1 else 0).
Proof. exact so_one_runner. Qed.
Print Assumptions C32_one_runner.

(* exactly once, in order (1): at every moment the sequence of deliveries begun is a PREFIX of the
   sequence received; while not faulted the remainder is exactly the notification popped and not yet
   delivered followed by the queue (nothing is lost, duplicated or reordered) *)
Theorem C32_delivered_prefix_of_received :
  forall raises progs sched,
  let c := so_run raises progs sched in
  exists rest, so_recv (c_sh c) = entered (untag (c_log c)) ++ rest /\
               (so_flt (c_sh c) = false -> rest = flat_map tinfl (c_ths c) ++ so_q (c_sh c)).
Proof. exact so_delivered_prefix. Qed.
Print Assumptions C32_delivered_prefix_of_received.

(* never two deliveries at once: in the log a delivery is entered only when none is open, and the one
   that returns / raises is the open one *)
Theorem C32_serial :
  forall raises progs sched, serial (untag (c_log (so_run raises progs sched))) = true.
Proof. exact so_serial. Qed.
Print Assumptions C32_serial.

(* the same on states: two threads inside the downstream observer are the same thread *)
Theorem C32_serial_state :
  forall raises progs sched i j ti tj a b,
  let c := so_run raises progs sched in
  nth_error (c_ths c) i = Some ti -> nth_error (c_ths c) j = Some tj ->
  t_cur ti = Some (LR_exit a) -> t_cur tj = Some (LR_exit b) -> i = j.
Proof. exact so_serial_state. Qed.
Print Assumptions C32_serial_state.

(* no lost wake-up: whenever the queue is non-empty and the observer has not faulted, a `run` is
   pending / being scheduled / active, or some producer is about to execute ensure_active
   (it stands between its append and the locked block, or ensure_active comes next in its program).
   Hypothesis: every plain enqueue is followed by an ensure_active in the same thread (ObserveOnObserver
   does it in the same call, ReplaySubject right after the enqueues) *)
Theorem C32_no_lost_wakeup :
  forall raises progs sched,
  forallb covered progs = true ->
  let c := so_run raises progs sched in
  so_q (c_sh c) <> [] -> so_flt (c_sh c) = false ->
  runs_alive c = 1 \/ exists tid t, nth_error (c_ths c) tid = Some t /\ will_ensure t = true.
Proof. exact so_no_lost_wakeup. Qed.
Print Assumptions C32_no_lost_wakeup.

(* exactly once, in order (2): when the scheduler is idle (nothing pending, no action running) and
   every producer call has returned, a non-faulted observer has delivered EVERYTHING it received, in
   the order received, every delivery has returned, the queue is empty and ownership is released *)
Theorem C32_quiescent_all_delivered :
  forall raises progs sched,
  forallb covered progs = true ->
  let c := so_run raises progs sched in
  quiescent c = true -> so_flt (c_sh c) = false ->
  entered (untag (c_log c)) = so_recv (c_sh c) /\
  left (untag (c_log c)) = so_recv (c_sh c) /\
  so_q (c_sh c) = [] /\ so_acq (c_sh c) = false.
Proof. exact so_quiescent_all_delivered. Qed.
Print Assumptions C32_quiescent_all_delivered.

(* after a delivery raised nothing further is delivered *)
Theorem C32_fault_stops :
  forall raises progs sched l1 t i l2,
  c_log (so_run raises progs sched) = l1 ++ (t, ORaise i) :: l2 -> entered (untag l2) = [].
Proof. exact so_fault_stops_explicit. Qed.
Print Assumptions C32_fault_stops.

(* observe_on end to end: ONE producer thread sending [ids] (what passes the Observer base class's
   is_stopped gate), any number of scheduler workers: the delivered sequence is always a prefix of
   [ids]; at quiescence without a fault it IS [ids] and every delivery has returned *)
Theorem C32_observe_on :
  forall raises ids nworkers sched,
  let c := so_run raises (producer ids :: repeat [OWork] nworkers) sched in
  (exists rest, ids = entered (untag (c_log c)) ++ rest) /\
  (quiescent c = true -> so_flt (c_sh c) = false ->
     entered (untag (c_log c)) = ids /\ left (untag (c_log c)) = ids).
Proof. exact so_observe_on. Qed.
Print Assumptions C32_observe_on.

(* "on the target scheduler": every delivery is made by a thread that is a worker of the target
   scheduler (the worker loop is in its program) and that has started a pending `run` before *)
Theorem C32_on_worker :
  forall raises progs sched tid i,
  In (tid, OEnter i) (c_log (so_run raises progs sched)) ->
  In (tid, OPop) (c_log (so_run raises progs sched)) /\
  exists p, nth_error progs tid = Some p /\ In OWork p.
Proof. exact so_on_worker. Qed.
Print Assumptions C32_on_worker.

(* ... hence a thread whose program has no worker loop (a producer) never delivers *)
Theorem C32_producer_never_delivers :
  forall raises progs sched tid p i,
  nth_error progs tid = Some p -> ~ In OWork p ->
  ~ In (tid, OEnter i) (c_log (so_run raises progs sched)).
Proof. exact so_producer_never_delivers. Qed.
Print Assumptions C32_producer_never_delivers.

(* ReplaySubject's call pattern end to end: ONE thread enqueues [ids] and then calls ensure_active,
   any number of scheduler workers: the delivered sequence is always a prefix of [ids]; at quiescence
   without a fault it IS [ids] and every delivery has returned *)
Theorem C32_replay_style :
  forall raises ids nworkers sched,
  let c := so_run raises ((map OEnq ids ++ [OEnsure]) :: repeat [OWork] nworkers) sched in
  (exists rest, ids = entered (untag (c_log c)) ++ rest) /\
  (quiescent c = true -> so_flt (c_sh c) = false ->
     entered (untag (c_log c)) = ids /\ left (untag (c_log c)) = ids).
Proof. exact so_replay_style. Qed.
Print Assumptions C32_replay_style.

(* which states are dead (ANY state, reachable or not): no thread can step iff every thread is finished
   or is a worker waiting for work (inside its loop or about to enter it), and nothing is pending on the
   scheduler unless there is no such worker *)
Theorem C32_dead_iff :
  forall raises (c : config),
  (forall tid, tstep so_start (so_act raises) c tid = c) <->
  (forall tid t, nth_error (c_ths c) tid = Some t -> finished t = true \/ waiting t) /\
  (so_pend (c_sh c) = 0 \/ forall tid t, nth_error (c_ths c) tid = Some t -> ~ waiting t).
Proof. exact so_dead_iff. Qed.
Print Assumptions C32_dead_iff.

(* progress: a non-quiescent state with a worker waiting inside its loop, in which no thread stands in
   front of a worker loop it has not entered yet, has an enabled step *)
Theorem C32_progress :
  forall raises (c : config),
  quiescent c = false ->
  (exists w t, nth_error (c_ths c) w = Some t /\ t_cur t = Some LW_pop) ->
  (forall tid t r, nth_error (c_ths c) tid = Some t -> t_cur t = None -> t_todo t <> OWork :: r) ->
  exists tid, tstep so_start (so_act raises) c tid <> c.
Proof. exact so_progress. Qed.
Print Assumptions C32_progress.

(* the side condition is needed: [quiescent] does not count a worker that has not entered its loop as
   idle, so this REACHABLE state (everything delivered, worker 1 waiting, worker 2 never scheduled) is
   not quiescent and yet no thread can step.  An artefact of the definition, not of the code *)
Theorem C32_progress_without_side_condition_refuted :
  let c := so_run (fun _ => false) [producer [1]; [OWork]; [OWork]] [0;0;0;1;1;1;1;1;1;1] in
  quiescent c = false /\
  nth_error (c_ths c) 1 = Some (Thread (Some LW_pop) []) /\
  c_ths c = [Thread None []; Thread (Some LW_pop) []; Thread None [OWork]] /\ so_pend (c_sh c) = 0 /\
  entered (untag (c_log c)) = [1] /\
  forall tid, tstep so_start (so_act (fun _ => false)) c tid = c.
Proof. exact so_progress_without_side_condition_refuted. Qed.
Print Assumptions C32_progress_without_side_condition_refuted.

(* ---- non-vacuity ----------------------------------------------------------------- *)
Definition C32_sched1 : list nat := [0;0;0;1;0;1;0;1;0;1;0;1;1;1;1;1;1;1;1;1;1;1;1;1].

(* a producer racing one worker: quiescent, not faulted, everything delivered in order *)
Example C32_witness_interleaved :
  let c := so_run (fun _ => false) [producer [1;2;3]; [OWork]] C32_sched1 in
  c_log c = [(0, OSched); (1, OPop); (1, OEnter 1); (1, OExit 1); (1, OSched); (1, OPop); (1, OEnter 2);
             (1, OExit 2); (1, OSched); (1, OPop); (1, OEnter 3); (1, OExit 3); (1, OSched); (1, OPop)] /\
  quiescent c = true /\ c_sh c = SO [] false false 0 [1;2;3].
Proof. vm_compute. repeat split; reflexivity. Qed.

(* the delivery of 2 raises: 3 is received but never delivered, the observer stays faulted *)
Example C32_witness_fault :
  let c := so_run (mem_nat [2]) [producer [1;2;3]; [OWork]] C32_sched1 in
  c_log c = [(0, OSched); (1, OPop); (1, OEnter 1); (1, OExit 1); (1, OSched); (1, OPop); (1, OEnter 2);
             (1, ORaise 2)] /\
  quiescent c = true /\ c_sh c = SO [] true true 0 [1;2;3].
Proof. vm_compute. repeat split; reflexivity. Qed.

(* ReplaySubject's use: enqueue, enqueue, ensure_active *)
Example C32_witness_replay_style :
  let c := so_run (fun _ => false) [[OEnq 1; OEnq 2; OEnsure]; [OWork]] [0;0;0;0;1;1;1;1;1;1;1;1;1;1;1;1;1] in
  entered (untag (c_log c)) = [1;2] /\ quiescent c = true /\ covered [OEnq 1; OEnq 2; OEnsure] = true.
Proof. vm_compute. repeat split; reflexivity. Qed.

(* the statements are not vacuous: two seeded changes of the handshake falsify them.
   (a) ensure_active without the is_acquired test, two workers: two deliveries at once *)
Example C32_mutant_no_acquire_test_overlaps :
  let c := run so_start (so_act_noacq (fun _ => false)) (init so_init [producer [1;2]; [OWork]; [OWork]])
               [0;0;0;0;0;0;1;2;1;2;1;2] in
  c_log c = [(0, OSched); (0, OSched); (1, OPop); (2, OPop); (1, OEnter 1); (2, OEnter 2)] /\
  serial (untag (c_log c)) = false.
Proof. vm_compute. split; reflexivity. Qed.

(* (b) run() testing emptiness and releasing is_acquired in two separate locked blocks: a notification
   appended in between is left in the queue with nobody to deliver it (lost wake-up) *)
Example C32_mutant_split_release_loses_wakeup :
  let c := run so_start_split (so_act_split (fun _ => false)) (init so_init [producer [1;2]; [OWork]])
               [0;0;0;1;1;1;1;1;1;1;0;0;1;1;1;0] in
  c_sh c = SO [2] false false 0 [1;2] /\
  c_ths c = [Thread None []; Thread (Some (inl LW_pop)) []] /\
  entered (untag (c_log c)) = [1].
Proof. vm_compute. repeat split; reflexivity. Qed.

(* the hypotheses of C32_progress hold in a reachable state: worker waiting in its loop, producer mid-call *)
Example C32_witness_progress_hyps :
  let c := so_run (fun _ => false) [producer [1;2]; [OWork]] [0;0;0;1;1;1;1;1;1;1;0] in
  quiescent c = false /\ nth_error (c_ths c) 1 = Some (Thread (Some LW_pop) []) /\
  c_ths c = [Thread (Some LE_lock) []; Thread (Some LW_pop) []].
Proof. vm_compute. repeat split; reflexivity. Qed.
