(* C20 -- a Subject broadcasts to exactly the observers subscribed at the time.
   Model: Subjects/Subject.v (engine shared with BehaviorSubject/AsyncSubject,
   the AutoDetachObserver wrapper of Observable.subscribe included), tied to
   reactivex/subject/subject.py by the K1 correspondence of harness/props/C20.py.
   Abstract specification ([spec], [oview], [greet]): Subjects/Family.v. *)
From RxVerif Require Import Base.Prelude Ops.Machine Subjects.Subject Subjects.Family
  Subjects.SubjectFacts Subjects.FamilyFacts Subjects.SubjectTreeFacts.

(* Refinement.  For EVERY history of top-level calls (subscribe, unsubscribe,
   on_next, on_error, on_completed, dispose in any order, ids reused, calls after
   termination or disposal) the Subject's complete log -- who received what, in
   which order, which call raised -- is the log of the abstract broadcast
   specification: every call, in call order, answered to the current
   subscribers in subscription order.  The run terminates (all large fuels). *)
Theorem C20_refines_broadcast_spec :
  forall (A : Type) (v0 : A) (h : list (@op A)),
  exists fuel0, forall fuel, (fuel0 <= fuel)%nat ->
    run_history subject_cls v0 fuel (h, []) = (spec KSubject v0 h, true).
Proof. exact (fun A v0 h => refines_spec v0 KSubject v0 h). Qed.
Print Assumptions C20_refines_broadcast_spec.

(* The same seen by one observer: it receives nothing before its subscribe call;
   on a live subject it then receives exactly the notifications of the calls
   made while it is subscribed, in call order, until it unsubscribes, a terminal
   notification was delivered, or the subject is disposed; nothing afterwards. *)
Theorem C20_observer_receives_calls_while_subscribed :
  forall (A : Type) (v0 : A) (h : list (@op A)),
  exists fuel0, forall fuel, (fuel0 <= fuel)%nat ->
    snd (run_history subject_cls v0 fuel (h, [])) = true /\
    forall o, view o (fst (run_history subject_cls v0 fuel (h, []))) = oview KSubject o Before (g_init v0) h.
Proof. exact (fun A v0 h => class_observer_view v0 KSubject v0 h). Qed.
Print Assumptions C20_observer_receives_calls_while_subscribed.

(* an observer subscribing after termination or disposal receives only the greeting ... *)
Theorem C20_late_subscriber :
  forall (A : Type) (o : nat) (g : @gstate A) (h : list (@op A)),
    live g = false -> oview KSubject o Before g (OSub o :: h) = greet KSubject g.
Proof. exact (fun A => late_subscriber KSubject). Qed.
Print Assumptions C20_late_subscriber.

(* ... which is the terminal notification ... *)
Theorem C20_late_subscriber_terminal :
  forall (A : Type) (g : @gstate A) (t : ev A), g_status g = Ended t -> greet KSubject g = [t].
Proof. exact (@greet_ended_subject). Qed.
Print Assumptions C20_late_subscriber_terminal.

(* ... or DisposedException after dispose() *)
Theorem C20_late_subscriber_disposed :
  forall (A : Type) (g : @gstate A), g_status g = Disposed -> greet KSubject g = [Err disposed_exn].
Proof. exact (fun A => greet_disposed KSubject). Qed.
Print Assumptions C20_late_subscriber_disposed.

(* ---- arbitrary call trees: observers that unsubscribe (themselves or others),
        subscribe, emit or dispose from inside their callbacks ---- *)

(* each observer's received sequence obeys the grammar  on_next* (on_error | on_completed)? *)
Theorem C20_views_wellformed :
  forall (A : Type) (react : nat -> nat -> list (@op A)) (v0 : A) (top : list (@op A)) (fuel o : nat),
    wellformed (view o (log_of (run subject_cls react fuel (init_cfg v0 top)))) = true.
Proof. exact (fun A react => views_wellformed subject_cls react). Qed.
Print Assumptions C20_views_wellformed.

(* unsubscribing takes effect at once -- also from inside a callback, also in
   the middle of the delivery loop of the very same notification: whatever runs
   afterwards, the observer receives nothing more *)
Theorem C20_unsubscribed_gets_nothing_more :
  forall (A : Type) (react : nat -> nat -> list (@op A)) s m k l o os n,
    m o = Some os -> handle os = true ->
    view o (log_of (run subject_cls react n (Cfg s m (IOp (OUnsub o) :: k) l))) = view o (rev l).
Proof. exact (fun A react => unsubscribed_gets_nothing_more subject_cls react). Qed.
Print Assumptions C20_unsubscribed_gets_nothing_more.

(* after a terminal notification an observer receives nothing more *)
Theorem C20_nothing_after_terminal :
  forall (A : Type) (react : nat -> nat -> list (@op A)) c o,
    wf_inv c -> has_term (view o (log_of c)) = true ->
    forall n, view o (log_of (run subject_cls react n c)) = view o (log_of c).
Proof. exact (fun A react => after_terminal_nothing subject_cls react). Qed.
Print Assumptions C20_nothing_after_terminal.

(* after dispose(): emitting raises DisposedException and reaches nobody *)
Theorem C20_disposed_emit_raises :
  forall (A : Type) (react : nat -> nat -> list (@op A)) (s : @sstate A) m k l p,
    is_disposed s = true -> is_emission p = true ->
    step subject_cls react (Cfg s m (IOp p :: k) l) = Cfg s m k (ERaised disposed_exn :: EOp p :: l).
Proof. exact (fun A react s => disposed_emit_raises (value s) KSubject react s). Qed.
Print Assumptions C20_disposed_emit_raises.

(* subscribing is answered with DisposedException (handed to the subscriber's
   on_error by Observable.subscribe) and nothing is registered *)
Theorem C20_disposed_subscribe_fails :
  forall (A : Type) (react : nat -> nat -> list (@op A)) (s : @sstate A) m k l o,
    is_disposed s = true -> m o = None ->
    step subject_cls react (Cfg s m (IOp (OSub o) :: k) l) =
    Cfg s (upd m o (called true fresh_ostate)) (map IOp (react o 0%nat) ++ ISubRet o None :: k)
        (EGot o (Err disposed_exn) :: EOp (OSub o) :: l).
Proof. exact (fun A react s => disposed_subscribe_fails (value s) KSubject react s). Qed.
Print Assumptions C20_disposed_subscribe_fails.

(* dispose() disposes, empties the observer list, and disposal is for ever *)
Theorem C20_dispose_disposes :
  forall (A : Type) (react : nat -> nat -> list (@op A)) (s : @sstate A) m k l,
    let c' := step subject_cls react (Cfg s m (IOp ODispose :: k) l) in
    is_disposed (c_st c') = true /\ observers (c_st c') = [].
Proof. exact (fun A react s => dispose_disposes (value s) KSubject react s). Qed.
Print Assumptions C20_dispose_disposes.

Theorem C20_disposed_forever :
  forall (A : Type) (react : nat -> nat -> list (@op A)) n (c : @cfg A),
    is_disposed (c_st c) = true -> is_disposed (c_st (run subject_cls react n c)) = true.
Proof. exact (fun A react n c => disposed_forever (value (c_st c)) KSubject react n c). Qed.
Print Assumptions C20_disposed_forever.


(* a subscribed observer stays registered: on every call tree, an observer whose
   wrapper is not stopped (it subscribed, has not unsubscribed, has received no
   terminal) is in the observer list of a live subject -- i.e. in the snapshot
   `self.observers.copy()` of the next emission *)
Theorem C20_subscribed_observer_is_in_the_snapshot :
  forall (A : Type) (react : nat -> nat -> list (@op A)) (v0 : A) (top : list (@op A)) (fuel o : nat) os,
    let c := run subject_cls react fuel (init_cfg v0 top) in
    c_obs c o = Some os -> a_stopped os = false -> subject_live (c_st c) -> In o (observers (c_st c)).
Proof. exact (fun A react v0 => live_observer_registered v0 KSubject react v0). Qed.
Print Assumptions C20_subscribed_observer_is_in_the_snapshot.

(* an emission hands the notification to exactly the registered observers, in
   subscription order, and a wrapper that is not stopped passes it on *)
Theorem C20_emission_goes_to_the_snapshot :
  forall (A : Type) (s : @sstate A) (v : A),
    snd (c_next subject_cls s v) = map (fun o => IDeliver o (Next v)) (observers s).
Proof. exact (@subject_next_snapshot). Qed.
Print Assumptions C20_emission_goes_to_the_snapshot.

Theorem C20_live_wrapper_delivers :
  forall (A : Type) (react : nat -> nat -> list (@op A)) (s : @sstate A) m k l o n os,
    m o = Some os -> a_stopped os = false ->
    exists c', step subject_cls react (Cfg s m (IDeliver o n :: k) l) = c' /\ c_rlog c' = EGot o n :: l.
Proof. exact (fun A react s => deliver_reaches_live (value s) KSubject react s). Qed.
Print Assumptions C20_live_wrapper_delivers.

(* ---- WHO RECEIVES WHICH VALUES, on every call tree (Subjects/SubjectTreeFacts.v) ----
   [entitled o log] = the values v of the on_next(v) calls of the log made AFTER o's subscribe call
   and BEFORE any on_error / on_completed / dispose call -- made by the driver or from inside any
   callback: the emissions made while o was subscribed to the live subject.  [vals] keeps the
   values of the on_next notifications of a view; [pendn o k] are the values the machine is about
   to hand to o's wrapper.
   At every moment of every run, for every observer:  received ++ about to be delivered ++ dropped
   is a PERMUTATION of the entitlement, and nothing was dropped unless o's wrapper is stopped (o
   unsubscribed or got a terminal notification).  Order is deliberately not claimed: on call
   trees deliveries are depth first (an emission made inside a callback reaches the later
   observers of the snapshot before the emission it interrupted: C20_witness_tree_order). *)
Theorem C20_tree_values_are_the_emissions_while_subscribed :
  forall (A : Type) (react : nat -> nat -> list (@op A)) (v0 : A) (top : list (@op A)) (fuel o : nat),
    let c := run subject_cls react fuel (init_cfg v0 top) in
    exists dropped,
      Permutation.Permutation (vals (view o (log_of c)) ++ pendn o (c_k c) ++ dropped) (entitled o (log_of c)) /\
      (forall os, c_obs c o = Some os -> a_stopped os = false -> dropped = []).
Proof. exact (@subject_tree_values). Qed.
Print Assumptions C20_tree_values_are_the_emissions_while_subscribed.

(* when the run has finished, an observer whose wrapper is still live (subscribed, never
   unsubscribed, no terminal notification) has received EXACTLY, as a multiset, the values emitted
   while it was subscribed: every such emission reached it, each once *)
Theorem C20_tree_live_observer_received_every_emission :
  forall (A : Type) (react : nat -> nat -> list (@op A)) (v0 : A) (top : list (@op A)) (fuel o : nat) os,
    let c := run subject_cls react fuel (init_cfg v0 top) in
    c_k c = [] -> c_obs c o = Some os -> a_stopped os = false ->
    Permutation.Permutation (vals (view o (log_of c))) (entitled o (log_of c)).
Proof. exact (@subject_tree_finished). Qed.
Print Assumptions C20_tree_live_observer_received_every_emission.

(* the snapshot rule, soundness: a value delivered to o was the argument of an on_next call made
   AFTER o's subscribe call and before any terminating call -- never to an observer that
   subscribed later, not even from inside a callback of that very emission *)
Theorem C20_tree_delivery_was_subscribed_before_the_call :
  forall (A : Type) (react : nat -> nat -> list (@op A)) (v0 : A) (top : list (@op A)) (fuel o : nat) (v : A),
    let c := run subject_cls react fuel (init_cfg v0 top) in
    In (Next v) (view o (log_of c)) ->
    exists p1 p2 p3, log_of c = p1 ++ EOp (OSub o) :: p2 ++ EOp (ONext v) :: p3 /\
                     existsb end_ev (p1 ++ EOp (OSub o) :: p2) = false.
Proof. exact (@subject_tree_delivery_was_subscribed_before_the_call). Qed.
Print Assumptions C20_tree_delivery_was_subscribed_before_the_call.

(* ---- non-vacuity / witnesses (values are pool ids: 0 = None, 1 = 0, 2 = False) ---- *)

(* late subscriber after an error gets only the error; a third one after dispose gets DisposedException *)
Example C20_witness_flat :
  run_history subject_cls 0 100
    ([OSub 0%nat; ONext 0; OSub 1%nat; ONext 1; OUnsub 0%nat; ONext 2; OErr 11; OSub 2%nat; ONext 1;
      ODispose; ONext 1; OSub 3%nat], [])
  = ([EOp (OSub 0%nat); EOp (ONext 0); EGot 0%nat (Next 0); EOp (OSub 1%nat); EOp (ONext 1);
      EGot 0%nat (Next 1); EGot 1%nat (Next 1); EOp (OUnsub 0%nat); EOp (ONext 2); EGot 1%nat (Next 2);
      EOp (OErr 11); EGot 1%nat (Err 11); EOp (OSub 2%nat); EGot 2%nat (Err 11); EOp (ONext 1);
      EOp ODispose; EOp (ONext 1); ERaised (-11); EOp (OSub 3%nat); EGot 3%nat (Err (-11))], true).
Proof. vm_compute. reflexivity. Qed.

(* re-entrancy: observer 0 unsubscribes observer 1 from inside its first on_next
   (1 is later in the snapshot and must not get the value), observer 2
   subscribes observer 3 from inside the same delivery (3 must not get it) *)
Example C20_witness_reentrant :
  run_history subject_cls 0 100
    ([OSub 0%nat; OSub 1%nat; OSub 2%nat; ONext 5; ONext 6],
     [(0%nat, [[OUnsub 1%nat]]); (2%nat, [[OSub 3%nat]])])
  = ([EOp (OSub 0%nat); EOp (OSub 1%nat); EOp (OSub 2%nat); EOp (ONext 5);
      EGot 0%nat (Next 5); EOp (OUnsub 1%nat); EGot 2%nat (Next 5); EOp (OSub 3%nat);
      EOp (ONext 6); EGot 0%nat (Next 6); EGot 2%nat (Next 6); EGot 3%nat (Next 6)], true).
Proof. vm_compute. reflexivity. Qed.

(* the hypotheses of the tree theorems are satisfiable: a reachable configuration
   in which observer 0 holds a handle and is about to unsubscribe from inside a callback *)
Example C20_witness_unsub_hyp :
  let c := run subject_cls (react_tbl [(0%nat, [[OUnsub 0%nat]])]) 4
             (init_cfg 0 [OSub 0%nat; ONext 5; ONext 6]) in
  exists os k, c_k c = IOp (OUnsub 0%nat) :: k /\ c_obs c 0%nat = Some os /\ handle os = true.
Proof. vm_compute. do 2 eexists. split; [reflexivity|split; reflexivity]. Qed.

(* trees: observer 0 emits 6 from inside its callback for 5: observer 1 receives 6 BEFORE 5
   (depth first), a permutation of its entitlement [5; 6]; the run is finished and 1's wrapper live *)
Example C20_witness_tree_order :
  let c := run subject_cls (react_tbl [(0%nat, [[ONext 6]])]) 100 (init_cfg 0 [OSub 0%nat; OSub 1%nat; ONext 5]) in
  c_k c = [] /\ (exists os, c_obs c 1%nat = Some os /\ a_stopped os = false) /\
  vals (view 1%nat (log_of c)) = [6; 5] /\ entitled 1%nat (log_of c) = [5; 6].
Proof. vm_compute. split; [reflexivity|]. split; [eexists; split; reflexivity|split; reflexivity]. Qed.

(* trees: a value is DROPPED only for a stopped wrapper -- observer 0 unsubscribes observer 1 from
   inside its callback for 5; 1 was entitled to 5 (subscribed when the call was made) and does not
   get it *)
Example C20_witness_tree_dropped :
  let c := run subject_cls (react_tbl [(0%nat, [[OUnsub 1%nat]])]) 100 (init_cfg 0 [OSub 0%nat; OSub 1%nat; ONext 5]) in
  c_k c = [] /\ (exists os, c_obs c 1%nat = Some os /\ a_stopped os = true) /\
  vals (view 1%nat (log_of c)) = [] /\ entitled 1%nat (log_of c) = [5].
Proof. vm_compute. split; [reflexivity|]. split; [eexists; split; reflexivity|split; reflexivity]. Qed.
