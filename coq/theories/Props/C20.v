(* C20 -- a Subject broadcasts to exactly the observers subscribed at the time.
   Model: Subjects/Subject.v (engine shared with BehaviorSubject/AsyncSubject,
   the AutoDetachObserver wrapper of Observable.subscribe included), tied to
   reactivex/subject/subject.py by the K1 correspondence of harness/props/C20.py.
   Abstract specification ([spec], [oview], [greet]): Subjects/Family.v. *)
From RxVerif Require Import Base.Prelude Ops.Machine Subjects.Subject Subjects.Family
  Subjects.SubjectFacts Subjects.FamilyFacts Subjects.SubjectTreeFacts.

(* Refinement.  For EVERY history of top-level calls (subscribe, unsubscribe,
   on_next, on_error, on_completed, dispose in any order, ids reused, calls after
   termination or disposal) the Subject's complete log -- who received what, in
   which order, which call raised -- is the log of the abstract broadcast
   specification: every call, in call order, answered to the current
   subscribers in subscription order.  The run terminates (all large fuels). *)
Theorem C20_refines_broadcast_spec :
  forall (A : Type) (v0 : A) (h : list (@op A)),
  exists fuel0, forall fuel, (fuel0 <= fuel)%nat ->
    run_history subject_cls v0 fuel (h, []) = (spec KSubject v0 h, true).
Proof. exact (fun A v0 h => refines_spec v0 KSubject v0 h). Qed.
Print Assumptions C20_refines_broadcast_spec.

(* The same seen by one observer: it receives nothing before its subscribe call;
   on a live subject it then receives exactly the notifications of the calls
   made while it is subscribed, in call order, until it unsubscribes, a terminal
   notification was delivered, or the subject is disposed; nothing afterwards. *)
Theorem C20_observer_receives_calls_while_subscribed :
  forall (A : Type) (v0 : A) (h : list (@op A)),
  exists fuel0, forall fuel, (fuel0 <= fuel)%nat ->
    snd (run_history subject_cls v0 fuel (h, [])) = true /\
    forall o, view o (fst (run_history subject_cls v0 fuel (h, []))) = oview KSubject o Before (g_init v0) h.
Proof. exact (fun A v0 h => class_observer_view v0 KSubject v0 h). Qed.
Print Assumptions C20_observer_receives_calls_while_subscribed.

(* an observer subscribing after termination or disposal receives only the greeting ... *)
Theorem C20_late_subscriber :
  forall (A : Type) (o : nat) (g : @gstate A) (h : list (@op A)),
    live g = false -> oview KSubject o Before g (OSub o :: h) = greet KSubject g.
Proof. exact (fun A => late_subscriber KSubject). Qed.
Print Assumptions C20_late_subscriber.

(* ... which is the terminal notification ... *)
Theorem C20_late_subscriber_terminal :
  forall (A : Type) (g : @gstate A) (t : ev A), g_status g = Ended t -> greet KSubject g = [t].
Proof. exact (@greet_ended_subject). Qed.
Print Assumptions C20_late_subscriber_terminal.

(* ... or DisposedException after dispose() *)
Theorem C20_late_subscriber_disposed :
  forall (A : Type) (g : @gstate A), g_status g = Disposed -> greet KSubject g = [Err disposed_exn].
Proof. exact (fun A => greet_disposed KSubject). Qed.
Print Assumptions C20_late_subscriber_disposed.

(* ---- arbitrary call trees: observers that unsubscribe (themselves or others),
        subscribe, emit or dispose from inside their callbacks ---- *)

(* each observer's received sequence obeys the grammar  on_next* (on_error | on_completed)? *)
Theorem C20_views_wellformed :
  forall (A : Type) (react : nat -> nat -> list (@op A)) (v0 : A) (top : list (@op A)) (fuel o : nat),
    wellformed (view o (log_of (run subject_cls react fuel (init_cfg v0 top)))) = true.
Proof. exact (fun A react => views_wellformed subject_cls react). Qed.
Print Assumptions C20_views_wellformed.

(* unsubscribing takes effect at once -- also from inside a callback, also in
   the middle of the delivery loop of the very same notification: whatever runs
   afterwards, the observer receives nothing more *)
Theorem C20_unsubscribed_gets_nothing_more :
  forall (A : Type) (react : nat -> nat -> list (@op A)) s m k l o os n,
    m o = Some os -> handle os = true ->
    view o (log_of (run subject_cls react n (Cfg s m (IOp (OUnsub o) :: k) l))) = view o (rev l).
Proof. exact (fun A react => unsubscribed_gets_nothing_more subject_cls react). Qed.
Print Assumptions C20_unsubscribed_gets_nothing_more.

(* after a terminal notification an observer receives nothing more *)
Theorem C20_nothing_after_terminal :
  forall (A : Type) (react : nat -> nat -> list (@op A)) c o,
    wf_inv c -> has_term (view o (log_of c)) = true ->
    forall n, view o (log_of (run subject_cls react n c)) = view o (log_of c).
Proof. exact (fun A react => after_terminal_nothing subject_cls react). Qed.
Print Assumptions C20_nothing_after_terminal.

(* after dispose(): emitting raises DisposedException and reaches nobody *)
Theorem C20_disposed_emit_raises :
  forall (A : Type) (react : nat -> nat -> list (@op A)) (s : @sstate A) m k l p,
    is_disposed s = true -> is_emission p = true ->
    step subject_cls react (Cfg s m (IOp p :: k) l) = Cfg s m k (ERaised disposed_exn :: EOp p :: l).
Proof. exact (fun A react s => disposed_emit_raises (value s) KSubject react s). Qed.
Print Assumptions C20_disposed_emit_raises.

(* subscribing is answered with DisposedException (handed to the subscriber's
   on_error by Observable.subscribe) and nothing is registered *)
Theorem C20_disposed_subscribe_fails :
  forall (A : Type) (react : nat -> nat -> list (@op A)) (s : @sstate A) m k l o,
    is_disposed s = true -> m o = None ->
    step subject_cls react (Cfg s m (IOp (OSub o) :: k) l) =
    Cfg s (upd m o (called true fresh_ostate)) (map IOp (react o 0%nat) ++ ISubRet o None :: k)
        (EGot o (Err disposed_exn) :: EOp (OSub o) :: l).
Proof. exact (fun A react s => disposed_subscribe_fails (value s) KSubject react s). Qed.
Print Assumptions C20_disposed_subscribe_fails.

(* dispose() disposes, empties the observer list, and disposal is for ever *)
Theorem C20_dispose_disposes :
  forall (A : Type) (react : nat -> nat -> list (@op A)) (s : @sstate A) m k l,
    let c' := step subject_cls react (Cfg s m (IOp ODispose :: k) l) in
    is_disposed (c_st c') = true /\ observers (c_st c') = [].
Proof. exact (fun A react s => dispose_disposes (value s) KSubject react s). Qed.
Print Assumptions C20_dispose_disposes.

Theorem C20_disposed_forever :
  forall (A : Type) (react : nat -> nat -> list (@op A)) n (c : @cfg A),
    is_disposed (c_st c) = true -> is_disposed (c_st (run subject_cls react n c)) = true.
Proof. exact (fun A react n c => disposed_forever (value (c_st c)) KSubject react n c). Qed.
Print Assumptions C20_disposed_forever.


(* a subscribed observer stays registered: on every call tree, an observer whose
   wrapper is not stopped (it subscribed, has not unsubscribed, has received no
   terminal) is in the observer list of a live subject -- i.e. in the snapshot
   `self.observers.copy()` of the next emission *)
Theorem C20_subscribed_observer_is_in_the_snapshot :
  forall (A : Type) (react : nat -> nat -> list (@op A)) (v0 : A) (top : list (@op A)) (fuel o : nat) os,
    let c := run subject_cls react fuel (init_cfg v0 top) in
    c_obs c o = Some os -> a_stopped os = false -> subject_live (c_st c) -> In o (observers (c_st c)).
Proof. exact (fun A react v0 => live_observer_registered v0 KSubject react v0). Qed.
Print Assumptions C20_subscribed_observer_is_in_the_snapshot.

(* an emission hands the notification to exactly the registered observers, in
   subscription order, and a wrapper that is not stopped passes it on *)
Theorem C20_emission_goes_to_the_snapshot :
  forall (A : Type) (s : @sstate A) (v : A),
    snd (c_next subject_cls s v) = map (fun o => IDeliver o (Next v)) (observers s).
Proof. exact (@subject_next_snapshot). Qed.
Print Assumptions C20_emission_goes_to_the_snapshot.

Theorem C20_live_wrapper_delivers :
  forall (A : Type) (react : nat -> nat -> list (@op A)) (s : @sstate A) m k l o n os,
    m o = Some os -> a_stopped os = false ->
    exists c', step subject_cls react (Cfg s m (IDeliver o n :: k) l) = c' /\ c_rlog c' = EGot o n :: l.
Proof. exact (fun A react s => deliver_reaches_live (value s) KSubject react s). Qed.
Print Assumptions C20_live_wrapper_delivers.

(* ---- WHO RECEIVES WHICH VALUES, on every call tree (Subjects/SubjectTreeFacts.v) ----
   [entitled o log] = the values v of the on_next(v) calls of the log made AFTER o's subscribe call
   and BEFORE any on_error / on_completed / dispose call -- made by the driver or from inside any
   callback: the emissions made while o was subscribed to the live subject.  [vals] keeps the
   values of the on_next notifications of a view; [pendn o k] are the values the machine is about
   to hand to o's wrapper.
   At every moment of every run, for every observer:  received ++ about to be delivered ++ dropped
   is a PERMUTATION of the entitlement, and nothing was dropped unless o's wrapper is stopped (o
   unsubscribed or got a terminal notification).  Order is deliberately not claimed: on call
   trees deliveries are depth first (an emission made inside a callback reaches the later
   observers of the snapshot before the emission it interrupted: C20_witness_tree_order). *)
Theorem C20_tree_values_are_the_emissions_while_subscribed :
  forall (A : Type) (react : nat -> nat -> list (@op A)) (v0 : A) (top : list (@op A)) (fuel o : nat),
    let c := run subject_cls react fuel (init_cfg v0 top) in
    exists dropped,
      Permutation.Permutation (vals (view o (log_of c)) ++ pendn o (c_k c) ++ dropped) (entitled o (log_of c)) /\
      (forall os, c_obs c o = Some os -> a_stopped os = false -> dropped = []).
Proof. exact (@subject_tree_values). Qed.
Print Assumptions C20_tree_values_are_the_emissions_while_subscribed.

(* when the run has finished, an observer whose wrapper is still live (subscribed, never
   unsubscribed, no terminal notification) has received EXACTLY, as a multiset, the values emitted
   while it was subscribed: every such emission reached it, each once *)
Theorem C20_tree_live_observer_received_every_emission :
  forall (A : Type) (react : nat -> nat -> list (@op A)) (v0 : A) (top : list (@op A)) (fuel o : nat) os,
    let c := run subject_cls react fuel (init_cfg v0 top) in
    c_k c = [] -> c_obs c o = Some os -> a_stopped os = false ->
    Permutation.Permutation (vals (view o (log_of c))) (entitled o (log_of c)).
Proof. exact (@subject_tree_finished). Qed.
Print Assumptions C20_tree_live_observer_received_every_emission.

(* the snapshot rule, soundness: a value delivered to o was the argument of an on_next call made
   AFTER o's subscribe call and before any terminating call -- never to an observer that
   subscribed later, not even from inside a callback of that very emission *)
Theorem C20_tree_delivery_was_subscribed_before_the_call :
  forall (A : Type) (react : nat -> nat -> list (@op A)) (v0 : A) (top : list (@op A)) (fuel o : nat) (v : A),
    let c := run subject_cls react fuel (init_cfg v0 top) in
    In (Next v) (view o (log_of c)) ->
    exists p1 p2 p3, log_of c = p1 ++ EOp (OSub o) :: p2 ++ EOp (ONext v) :: p3 /\
                     existsb end_ev (p1 ++ EOp (OSub o) :: p2) = false.
Proof. exact (@subject_tree_delivery_was_subscribed_before_the_call). Qed.
Print Assumptions C20_tree_delivery_was_subscribed_before_the_call.

(* ---- non-vacuity / witnesses (values are pool ids: 0 = None, 1 = 0, 2 = False) ---- *)

(* late subscriber after an error gets only the error; a third one after dispose gets DisposedException *)
Example C20_witness_flat :
  run_history subject_cls 0 100
    ([OSub 0%nat; ONext 0; OSub 1%nat; ONext 1; OUnsub 0%nat; ONext 2; OErr 11; OSub 2%nat; ONext 1;
      ODispose; ONext 1; OSub 3%nat], [])
  = ([EOp (OSub 0%nat); EOp (ONext 0); EGot 0%nat (Next 0); EOp (OSub 1%nat); EOp (ONext 1);
      EGot 0%nat (Next 1); EGot 1%nat (Next 1); EOp (OUnsub 0%nat); EOp (ONext 2); EGot 1%nat (Next 2);
      EOp (OErr 11); EGot 1%nat (Err 11); EOp (OSub 2%nat); EGot 2%nat (Err 11); EOp (ONext 1);
      EOp ODispose; EOp (ONext 1); ERaised (-11); EOp (OSub 3%nat); EGot 3%nat (Err (-11))], true).
Proof. vm_compute. reflexivity. Qed.

(* re-entrancy: observer 0 unsubscribes observer 1 from inside its first on_next
   (1 is later in the snapshot and must not get the value), observer 2
   subscribes observer 3 from inside the same delivery (3 must not get it) *)
Example C20_witness_reentrant :
  run_history subject_cls 0 100
    ([OSub 0%nat; OSub 1%nat; OSub 2%nat; ONext 5; ONext 6],
     [(0%nat, [[OUnsub 1%nat]]); (2%nat, [[OSub 3%nat]])])
  = ([EOp (OSub 0%nat); EOp (OSub 1%nat); EOp (OSub 2%nat); EOp (ONext 5);
      EGot 0%nat (Next 5); EOp (OUnsub 1%nat); EGot 2%nat (Next 5); EOp (OSub 3%nat);
      EOp (ONext 6); EGot 0%nat (Next 6); EGot 2%nat (Next 6); EGot 3%nat (Next 6)], true).
Proof. vm_compute. reflexivity. Qed.

(* the hypotheses of the tree theorems are satisfiable: a reachable configuration
   in which observer 0 holds a handle and is about to unsubscribe from inside a callback *)
Example C20_witness_unsub_hyp :
  let c := run subject_cls (react_tbl [(0%nat, [[OUnsub 0%nat]])]) 4
             (init_cfg 0 [OSub 0%nat; ONext 5; ONext 6]) in
  exists os k, c_k c = IOp (OUnsub 0%nat) :: k /\ c_obs c 0%nat = Some os /\ handle os = true.
Proof. vm_compute. do 2 eexists. split; [reflexivity|split; reflexivity]. Qed.

(* trees: observer 0 emits 6 from inside its callback for 5: observer 1 receives 6 BEFORE 5
   (depth first), a permutation of its entitlement [5; 6]; the run is finished and 1's wrapper live *)
Example C20_witness_tree_order :
  let c := run subject_cls (react_tbl [(0%nat, [[ONext 6]])]) 100 (init_cfg 0 [OSub 0%nat; OSub 1%nat; ONext 5]) in
  c_k c = [] /\ (exists os, c_obs c 1%nat = Some os /\ a_stopped os = false) /\
  vals (view 1%nat (log_of c)) = [6; 5] /\ entitled 1%nat (log_of c) = [5; 6].
Proof. vm_compute. split; [reflexivity|]. split; [eexists; split; reflexivity|split; reflexivity]. Qed.

(* trees: a value is DROPPED only for a stopped wrapper -- observer 0 unsubscribes observer 1 from
   inside its callback for 5; 1 was entitled to 5 (subscribed when the call was made) and does not
   get it *)
Example C20_witness_tree_dropped :
  let c := run subject_cls (react_tbl [(0%nat, [[OUnsub 1%nat]])]) 100 (init_cfg 0 [OSub 0%nat; OSub 1%nat; ONext 5]) in
  c_k c = [] /\ (exists os, c_obs c 1%nat = Some os /\ a_stopped os = true) /\
  vals (view 1%nat (log_of c)) = [] /\ entitled 1%nat (log_of c) = [5].
Proof. vm_compute. split; [reflexivity|]. split; [eexists; split; reflexivity|split; reflexivity]. Qed.

(* ---- WHO RECEIVES WHICH NOTIFICATIONS, terminal ones included, on every call tree
        (Subjects/BroadcastTreeFacts.v; the same development serves C21) ----
   [tree_entitled K v0 o log] reads the chronological log of calls (made by the driver or from inside
   any callback) with the functions of the abstract specification Subjects/Family.v: o's FIRST
   subscribe call is answered with [greet K g], g = the status after the calls logged before it
   (Subject: nothing while live, the terminal notification once ended, DisposedException once
   disposed); every later call p with [bcast K g p] (on_next v: [Next v] while live; the first
   on_error / on_completed of a live subject: that terminal; anything else: nothing).
   Unsubscription is NOT part of the entitlement.  [pend o k] = the notifications the machine is
   about to hand to o's wrapper.  At every moment of every run
        received ++ about to be delivered ++ dropped   is a PERMUTATION of the entitlement,
   nothing was dropped while o's wrapper is live, and -- new -- NO TERMINAL notification was dropped
   unless an unsubscribe call for o occurs in the log. *)
From RxVerif Require Import Subjects.BroadcastTreeFacts.

Theorem C20_tree_notifications_are_the_entitlement :
  forall (A : Type) (react : nat -> nat -> list (@op A)) (v0 : A) (top : list (@op A)) (fuel o : nat),
    let c := run subject_cls react fuel (init_cfg v0 top) in
    exists dropped,
      Permutation.Permutation (view o (log_of c) ++ pend o (c_k c) ++ dropped) (tree_entitled KSubject v0 o (log_of c)) /\
      (forall os, c_obs c o = Some os -> a_stopped os = false -> dropped = []) /\
      (existsb (unsub_ev o) (log_of c) = false -> has_term dropped = false).
Proof. exact (fun A react v0 => tree_notifications v0 KSubject subject_not_async react v0). Qed.
Print Assumptions C20_tree_notifications_are_the_entitlement.

(* the values of that entitlement are exactly [entitled] of the three theorems above, and whatever
   the log it contains AT MOST ONE terminal notification *)
Theorem C20_tree_entitlement_values :
  forall (A : Type) (v0 : A) (o : nat) (log : list (@event A)),
    vals (tree_entitled KSubject v0 o log) = entitled o log.
Proof. exact (@vals_entitled_subject). Qed.
Print Assumptions C20_tree_entitlement_values.

Theorem C20_tree_entitled_to_at_most_one_terminal :
  forall (A : Type) (v0 : A) (o : nat) (log : list (@event A)),
    (nterm (tree_entitled KSubject v0 o log) <= 1)%nat.
Proof. exact (fun A v0 => tree_entitled_term_once KSubject subject_not_async v0). Qed.
Print Assumptions C20_tree_entitled_to_at_most_one_terminal.

(* TERMINAL NOTIFICATIONS.  o subscribed (p1 ++ OSub o), then -- before any terminating call -- p =
   on_error(e) / on_completed() is called, by the driver or from inside any callback; no
   unsubscribe call for o is made in the whole run.  When the run has finished o has received that
   terminal notification EXACTLY ONCE and NOTHING AFTER it (its view is values then the terminal). *)
Theorem C20_tree_terminal_reaches_every_subscribed_observer :
  forall (A : Type) (react : nat -> nat -> list (@op A)) (v0 : A) (top : list (@op A)) (fuel o : nat)
         (p1 p2 p3 : list (@event A)) (p : @op A) (t : ev A),
    let c := run subject_cls react fuel (init_cfg v0 top) in
    c_k c = [] ->
    log_of c = p1 ++ EOp (OSub o) :: p2 ++ EOp p :: p3 ->
    existsb end_ev (p1 ++ EOp (OSub o) :: p2) = false -> is_term_call p t ->
    existsb (unsub_ev o) (log_of c) = false ->
    exists vs, view o (log_of c) = map Next vs ++ [t].
Proof. exact (fun A react v0 => tree_terminal_call_reaches v0 KSubject subject_not_async react v0). Qed.
Print Assumptions C20_tree_terminal_reaches_every_subscribed_observer.

(* the same at every moment of an unfinished run: already received, or about to be handed to o's wrapper *)
Theorem C20_tree_terminal_is_never_lost :
  forall (A : Type) (react : nat -> nat -> list (@op A)) (v0 : A) (top : list (@op A)) (fuel o : nat)
         (p1 p2 p3 : list (@event A)) (p : @op A) (t : ev A),
    let c := run subject_cls react fuel (init_cfg v0 top) in
    log_of c = p1 ++ EOp (OSub o) :: p2 ++ EOp p :: p3 ->
    existsb end_ev (p1 ++ EOp (OSub o) :: p2) = false -> is_term_call p t ->
    existsb (unsub_ev o) (log_of c) = false ->
    In t (view o (log_of c)) \/ In t (pend o (c_k c)).
Proof. exact (fun A react v0 => tree_terminal_call_not_lost v0 KSubject subject_not_async react v0). Qed.
Print Assumptions C20_tree_terminal_is_never_lost.

(* LATE SUBSCRIBERS on trees.  o's first subscribe call is made -- possibly from inside a callback,
   possibly from inside the delivery of the terminal notification itself -- when the calls logged
   before it have ended or disposed the subject ([gev] folds the specification's [g_step] over the
   logged calls).  Then the specification's greeting is ONE terminal notification n (the terminal,
   or DisposedException: C20_late_subscriber_terminal / _disposed), the very next entry of the log
   is its delivery to o, and [n] is ALL o ever receives. *)
Theorem C20_tree_late_subscriber_gets_only_the_terminal_at_once :
  forall (A : Type) (react : nat -> nat -> list (@op A)) (v0 : A) (top : list (@op A)) (fuel o : nat)
         (p1 rest : list (@event A)),
    let c := run subject_cls react fuel (init_cfg v0 top) in
    log_of c = p1 ++ EOp (OSub o) :: rest -> existsb (sub_ev o) p1 = false ->
    live (gev (g_init v0) p1) = false ->
    exists n, greet KSubject (gev (g_init v0) p1) = [n] /\ is_terminal n = true /\
      ((rest = [] /\ c_k c <> [] /\ view o (log_of c) = []) \/
       ((exists rest', rest = EGot o n :: rest') /\ view o (log_of c) = [n])).
Proof. exact (fun A react v0 => tree_late_subscriber v0 KSubject subject_not_async react v0). Qed.
Print Assumptions C20_tree_late_subscriber_gets_only_the_terminal_at_once.

(* [gev] is the specification's status function on the calls of the log, and "not live" means that
   an on_error / on_completed / dispose call was logged *)
Theorem C20_tree_status_of_a_log :
  forall (A : Type) (log : list (@event A)) (g : @gstate A),
    gev g log = g_run g (calls_of log) /\ live (gev g log) = live g && negb (existsb end_ev log).
Proof. exact (fun A log g => conj (gev_g_run log g) (gev_live log g)). Qed.
Print Assumptions C20_tree_status_of_a_log.

(* REFUTED proposal: "an observer subscribed (and not unsubscribed) WHEN on_completed / on_error is
   called receives that terminal".  Observer 0 unsubscribes observer 1 from inside its own
   on_completed callback: 1 was subscribed and not unsubscribed when the call was made, the run is
   finished, 1 is entitled to Done and has received nothing (the real Subject does the same:
   AutoDetachObserver.is_stopped).  Hence the "no unsubscribe call for o" hypothesis above. *)
Example C20_tree_terminal_to_everyone_subscribed_at_the_call_refuted :
  let c := run subject_cls (react_tbl [(0%nat, [[OUnsub 1%nat]])]) 100 (init_cfg 0 [OSub 0%nat; OSub 1%nat; ODone]) in
  c_k c = [] /\
  log_of c = [EOp (OSub 0%nat)] ++ EOp (OSub 1%nat) :: [] ++ EOp ODone :: [EGot 0%nat Done; EOp (OUnsub 1%nat)] /\
  existsb (@unsub_ev Z 1%nat) ([EOp (OSub 0%nat)] ++ EOp (OSub 1%nat) :: []) = false /\
  tree_entitled KSubject 0 1%nat (log_of c) = [Done] /\ view 1%nat (log_of c) = [].
Proof. vm_compute. repeat split. Qed.

(* the hypotheses of C20_tree_terminal_reaches_every_subscribed_observer are satisfiable, with the
   terminating call made from INSIDE a callback: observer 0 calls on_error(7) inside its on_next(5);
   observer 1 receives the error, exactly once -- and not the value 5 it was also entitled to, whose
   delivery came after the terminal one (dropped: the wrapper was stopped by the terminal) *)
Example C20_witness_tree_terminal_from_a_callback :
  let c := run subject_cls (react_tbl [(0%nat, [[OErr 7]])]) 100 (init_cfg 0 [OSub 0%nat; OSub 1%nat; ONext 5]) in
  c_k c = [] /\
  log_of c = [EOp (OSub 0%nat)] ++ EOp (OSub 1%nat) :: [EOp (ONext 5); EGot 0%nat (Next 5)] ++ EOp (OErr 7) ::
             [EGot 0%nat (Err 7); EGot 1%nat (Err 7)] /\
  existsb end_ev ([EOp (OSub 0%nat)] ++ EOp (OSub 1%nat) :: [EOp (ONext 5); EGot 0%nat (Next 5)]) = false /\
  @is_term_call Z (OErr 7) (Err 7) /\ existsb (unsub_ev 1%nat) (log_of c) = false /\
  view 1%nat (log_of c) = [Err 7] /\ tree_entitled KSubject 0 1%nat (log_of c) = [Next 5; Err 7].
Proof. vm_compute. repeat split. Qed.

(* late subscription from inside the delivery of the terminal notification: observer 0 subscribes
   observer 1 inside its on_completed callback; 1 gets Done at once and nothing else *)
Example C20_witness_tree_late_subscriber :
  let c := run subject_cls (react_tbl [(0%nat, [[OSub 1%nat]])]) 100 (init_cfg 0 [OSub 0%nat; ODone]) in
  log_of c = [EOp (OSub 0%nat); EOp ODone; EGot 0%nat Done] ++ EOp (OSub 1%nat) :: [EGot 1%nat Done] /\
  existsb (@sub_ev Z 1%nat) [EOp (OSub 0%nat); EOp ODone; EGot 0%nat Done] = false /\
  live (gev (g_init 0) [EOp (OSub 0%nat); EOp ODone; EGot 0%nat Done]) = false /\
  greet KSubject (gev (g_init 0) [EOp (OSub 0%nat); EOp ODone; EGot 0%nat Done]) = [Done] /\
  view 1%nat (log_of c) = [Done].
Proof. vm_compute. repeat split. Qed.

(* ---- ORDER on call trees whose callbacks do not emit ----
   On arbitrary trees an observer may receive values in another order than the calls were made
   (C20_witness_tree_order: deliveries are depth first).  If the observers' callbacks only subscribe,
   unsubscribe and dispose (themselves or others, also in the middle of a delivery loop) -- the
   re-entrancy the property quantifies over -- then CALL ORDER holds on every tree and every fuel:
   what o received followed by what is about to be handed to it is an ordered SUBSEQUENCE of its
   entitlement (the missing ones were dropped: o's wrapper was stopped), and for a live wrapper it
   IS the entitlement: every notification of every call made while subscribed, in call order. *)
Theorem C20_tree_call_order_when_callbacks_do_not_emit :
  forall (A : Type) (react : nat -> nat -> list (@op A)) (v0 : A),
    (forall o j p, In p (react o j) -> is_emission p = false) ->
    forall (top : list (@op A)) (fuel o : nat),
    let c := run subject_cls react fuel (init_cfg v0 top) in
    subseq (view o (log_of c) ++ pend o (c_k c)) (tree_entitled KSubject v0 o (log_of c)) /\
    (forall os, c_obs c o = Some os -> a_stopped os = false ->
       view o (log_of c) ++ pend o (c_k c) = tree_entitled KSubject v0 o (log_of c)).
Proof. exact (fun A react v0 => tree_ordered v0 KSubject subject_not_async react v0). Qed.
Print Assumptions C20_tree_call_order_when_callbacks_do_not_emit.

Theorem C20_tree_live_observer_received_its_entitlement_in_call_order :
  forall (A : Type) (react : nat -> nat -> list (@op A)) (v0 : A),
    (forall o j p, In p (react o j) -> is_emission p = false) ->
    forall (top : list (@op A)) (fuel o : nat) os,
    let c := run subject_cls react fuel (init_cfg v0 top) in
    c_k c = [] -> c_obs c o = Some os -> a_stopped os = false ->
    view o (log_of c) = tree_entitled KSubject v0 o (log_of c).
Proof. exact (fun A react v0 => tree_ordered_finished v0 KSubject subject_not_async react v0). Qed.
Print Assumptions C20_tree_live_observer_received_its_entitlement_in_call_order.

(* the hypothesis holds for every finite reaction table that passes the check [quiet_tbl] ... *)
Theorem C20_quiet_tables_do_not_emit :
  forall (A : Type) (t : list (nat * list (list (@op A)))),
    quiet_tbl t = true -> forall o j p, In p (react_tbl t o j) -> is_emission p = false.
Proof. exact (@quiet_tbl_sound). Qed.
Print Assumptions C20_quiet_tables_do_not_emit.

(* ... e.g. the table of C20_witness_reentrant (0 unsubscribes 1, 2 subscribes 3, both inside the
   delivery of 5): 2 (live) received exactly its entitlement in call order, 3 -- subscribed inside
   the delivery of 5 -- only 6, and 1 nothing of the [5; 6] it was entitled to *)
Example C20_witness_tree_call_order :
  let t := [(0%nat, [[OUnsub 1%nat]]); (2%nat, [[OSub 3%nat]])] in
  let c := run subject_cls (react_tbl t) 100 (init_cfg 0 [OSub 0%nat; OSub 1%nat; OSub 2%nat; ONext 5; ONext 6]) in
  quiet_tbl t = true /\ c_k c = [] /\
  (exists os, c_obs c 2%nat = Some os /\ a_stopped os = false) /\
  view 2%nat (log_of c) = [Next 5; Next 6] /\ tree_entitled KSubject 0 2%nat (log_of c) = [Next 5; Next 6] /\
  view 3%nat (log_of c) = [Next 6] /\ tree_entitled KSubject 0 3%nat (log_of c) = [Next 6] /\
  view 1%nat (log_of c) = [] /\ tree_entitled KSubject 0 1%nat (log_of c) = [Next 5; Next 6].
Proof. vm_compute. split; [reflexivity|]. split; [reflexivity|]. split; [eexists; split; reflexivity|repeat split]. Qed.
