(* C14 -- early termination cancels synchronous infinite sources.

   Model: Core/SyncSources.v -- Observable.subscribe as the first task of the
   calling thread's trampoline (a FIFO queue: Props/C30.v), the producers
   from_iterable (KIter: its whole loop is ONE task), range / generate (KStep:
   one element per task, rescheduled), repeat / repeat_value (KRep l: concat
   action + inner list loop), the nets of the listed pipeline shapes written from
   the operators' code, the early-terminating consumers; tied to the code by the
   correspondence of harness/props/C14.py on every catalogue entry.

   [run_default gen K N C fuel] subscribes net N followed by consumer C over the
   never-ending source of kind K with the DEFAULT scheduler; one unit of fuel per
   task dispatch or producer-loop iteration.  [Returned w out true]: subscribe()
   has returned (the trampoline queue is empty -- [run] answers only then -- so no
   producer action is pending), w elements were pulled from the source, the
   observer completed.  [run_inline] is the same pipeline subscribed with a
   scheduler that runs the action inside schedule() (ImmediateScheduler, or a
   fresh CurrentThreadScheduler() whose trampoline is not the one subscribe()
   runs in).

   Positive theorems: for every element stream [gen], every parameter n and
   every fuel above a bound that depends on the parameters only, the run returns
   after pulling exactly the stated number of elements.  Linear pipelines
   (C14_lin_iter, C14_lin_step, C14_lin_rep) hold for EVERY consumer and every element-wise prefix; the
   hypothesis [stops_at C gen s i k] says that the consumer completes at the
   k-th element (discharged for take / first / element_at / take_while / map).

   REFUTED clauses (findings, recorded in known_findings.json): with the default
   scheduler, from_iterable starves every completion that needs a second
   trampoline task (the C14_..._iter_refuted theorems: OutOfFuel for ALL fuel); with a scheduler
   that runs the action inside schedule() every shape over every source kind
   never returns (the C14_..._inline_refuted theorems). *)
From RxVerif Require Import Base.Prelude Core.SyncSources Core.SyncSourcesFacts Core.SyncShapes.

Theorem C14_lin_iter : forall gen C k fuel, stops_at C gen (c_init C) 0 k -> (k + 1 <= fuel)%nat ->
  exists out, run_default gen KIter n_lin C fuel = Returned k out true.
Proof. exact lin_iter. Qed.
Print Assumptions C14_lin_iter.

Theorem C14_lin_step : forall gen C k fuel, stops_at C gen (c_init C) 0 k -> (k + 1 <= fuel)%nat ->
  exists out, run_default gen KStep n_lin C fuel = Returned k out true.
Proof. exact lin_step. Qed.
Print Assumptions C14_lin_step.

Theorem C14_merge_sn_iter : forall gen n fuel, (n + 6 <= fuel)%nat ->
  exists out, run_default gen KIter (n_merge [0; 1]) (c_take (S n)) fuel = Returned (S n) out true.
Proof. exact merge_sn_iter. Qed.
Print Assumptions C14_merge_sn_iter.

Theorem C14_merge_ns_iter : forall gen n fuel, (n + 6 <= fuel)%nat ->
  exists out, run_default gen KIter (n_merge [1; 0]) (c_take (S n)) fuel = Returned (S n) out true.
Proof. exact merge_ns_iter. Qed.
Print Assumptions C14_merge_ns_iter.

Theorem C14_merge_sn_step : forall gen n fuel, (n + 6 <= fuel)%nat ->
  exists out, run_default gen KStep (n_merge [0; 1]) (c_take (S n)) fuel = Returned (S n) out true.
Proof. exact merge_sn_step. Qed.
Print Assumptions C14_merge_sn_step.

Theorem C14_merge_ns_step : forall gen n fuel, (n + 6 <= fuel)%nat ->
  exists out, run_default gen KStep (n_merge [1; 0]) (c_take (S n)) fuel = Returned (S n) out true.
Proof. exact merge_ns_step. Qed.
Print Assumptions C14_merge_ns_step.

Theorem C14_flat_outer_iter : forall gen n fuel, (n + 6 <= fuel)%nat ->
  exists out, run_default gen KIter n_flat_outer (c_take (S n)) fuel = Returned (S n) out true.
Proof. exact flat_outer_iter. Qed.
Print Assumptions C14_flat_outer_iter.

Theorem C14_flat_outer_step : forall gen n fuel, (n + 6 <= fuel)%nat ->
  exists out, run_default gen KStep n_flat_outer (c_take (S n)) fuel = Returned (S n) out true.
Proof. exact flat_outer_step. Qed.
Print Assumptions C14_flat_outer_step.

Theorem C14_switch_outer_iter : forall gen n fuel, (n + 6 <= fuel)%nat ->
  exists out, run_default gen KIter n_switch_outer (c_take (S n)) fuel = Returned (S n) out true.
Proof. exact switch_outer_iter. Qed.
Print Assumptions C14_switch_outer_iter.

Theorem C14_switch_outer_step : forall gen n fuel, (n + 6 <= fuel)%nat ->
  exists out, run_default gen KStep n_switch_outer (c_take (S n)) fuel = Returned (S n) out true.
Proof. exact switch_outer_step. Qed.
Print Assumptions C14_switch_outer_step.

Theorem C14_concat_after_iter : forall gen n fuel, (n + 6 <= fuel)%nat ->
  exists out, run_default gen KIter (n_concat false) (c_take (S n)) fuel = Returned (S n) out true.
Proof. exact concat_after_iter. Qed.
Print Assumptions C14_concat_after_iter.

Theorem C14_concat_after_step : forall gen n fuel, (n + 6 <= fuel)%nat ->
  exists out, run_default gen KStep (n_concat false) (c_take (S n)) fuel = Returned (S n) out true.
Proof. exact concat_after_step. Qed.
Print Assumptions C14_concat_after_step.

Theorem C14_concat_before_iter : forall gen n fuel, (n + 10 <= fuel)%nat ->
  exists out, run_default gen KIter (n_concat true) (c_take (S (S (S n)))) fuel = Returned (S n) out true.
Proof. exact concat_before_iter. Qed.
Print Assumptions C14_concat_before_iter.

Theorem C14_concat_before_step : forall gen n fuel, (n + 10 <= fuel)%nat ->
  exists out, run_default gen KStep (n_concat true) (c_take (S (S (S n)))) fuel = Returned (S n) out true.
Proof. exact concat_before_step. Qed.
Print Assumptions C14_concat_before_step.

Theorem C14_amb_sn_iter : forall gen n fuel, (n + 6 <= fuel)%nat ->
  exists out, run_default gen KIter (n_amb true) (c_take (S n)) fuel = Returned (S n) out true.
Proof. exact amb_sn_iter. Qed.
Print Assumptions C14_amb_sn_iter.

Theorem C14_amb_ns_iter : forall gen n fuel, (n + 6 <= fuel)%nat ->
  exists out, run_default gen KIter (n_amb false) (c_take (S n)) fuel = Returned (S n) out true.
Proof. exact amb_ns_iter. Qed.
Print Assumptions C14_amb_ns_iter.

Theorem C14_amb_sn_step : forall gen n fuel, (n + 6 <= fuel)%nat ->
  exists out, run_default gen KStep (n_amb true) (c_take (S n)) fuel = Returned (S n) out true.
Proof. exact amb_sn_step. Qed.
Print Assumptions C14_amb_sn_step.

Theorem C14_amb_ns_step : forall gen n fuel, (n + 6 <= fuel)%nat ->
  exists out, run_default gen KStep (n_amb false) (c_take (S n)) fuel = Returned (S n) out true.
Proof. exact amb_ns_step. Qed.
Print Assumptions C14_amb_ns_step.

Theorem C14_wlf_main_iter : forall gen n fuel, (n + 6 <= fuel)%nat ->
  exists out, run_default gen KIter (n_wlf true) (c_take (S n)) fuel = Returned (S n) out true.
Proof. exact wlf_main_iter. Qed.
Print Assumptions C14_wlf_main_iter.

Theorem C14_wlf_main_step : forall gen n fuel, (n + 6 <= fuel)%nat ->
  exists out, run_default gen KStep (n_wlf true) (c_take (S n)) fuel = Returned (S n) out true.
Proof. exact wlf_main_step. Qed.
Print Assumptions C14_wlf_main_step.

Theorem C14_combine_of_s_iter : forall gen n fuel, (n + 6 <= fuel)%nat ->
  exists out, run_default gen KIter (n_combine false) (c_take (S n)) fuel = Returned (S n) out true.
Proof. exact combine_of_s_iter. Qed.
Print Assumptions C14_combine_of_s_iter.

Theorem C14_combine_of_s_step : forall gen n fuel, (n + 6 <= fuel)%nat ->
  exists out, run_default gen KStep (n_combine false) (c_take (S n)) fuel = Returned (S n) out true.
Proof. exact combine_of_s_step. Qed.
Print Assumptions C14_combine_of_s_step.

Theorem C14_combine_s_of_step : forall gen n fuel, (n + 8 <= fuel)%nat ->
  exists out, run_default gen KStep (n_combine true) (c_take (S n)) fuel = Returned (S n) out true.
Proof. exact combine_s_of_step. Qed.
Print Assumptions C14_combine_s_of_step.

Theorem C14_take_until_step : forall gen fuel, (6 <= fuel)%nat ->
  exists out, run_default gen KStep n_take_until c_all fuel = Returned 1 out true.
Proof. exact take_until_step. Qed.
Print Assumptions C14_take_until_step.

Theorem C14_wlf_other_step : forall gen n fuel, (8 <= fuel)%nat ->
  exists out, run_default gen KStep (n_wlf false) (c_take (S n)) fuel = Returned 1 out true.
Proof. exact wlf_other_step. Qed.
Print Assumptions C14_wlf_other_step.

Theorem C14_flat_map_of_step : forall gen n fuel, (3 * S n + 2 <= fuel)%nat ->
  exists out, run_default gen KStep n_flat_map_of (c_take (S n)) fuel = Returned (S n) out true.
Proof. exact flat_map_of_step. Qed.
Print Assumptions C14_flat_map_of_step.

Theorem C14_switch_map_of_step : forall gen n fuel, (3 * S n + 2 <= fuel)%nat ->
  exists out, run_default gen KStep n_switch_map_of (c_take (S n)) fuel = Returned (S n) out true.
Proof. exact switch_map_of_step. Qed.
Print Assumptions C14_switch_map_of_step.

Theorem C14_flat_map_of_iter_refuted : forall gen n fuel,
  run_default gen KIter n_flat_map_of (c_take n) fuel = OutOfFuel.
Proof. exact flat_map_of_iter_refuted. Qed.
Print Assumptions C14_flat_map_of_iter_refuted.

Theorem C14_switch_map_of_iter_refuted : forall gen n fuel,
  run_default gen KIter n_switch_map_of (c_take n) fuel = OutOfFuel.
Proof. exact switch_map_of_iter_refuted. Qed.
Print Assumptions C14_switch_map_of_iter_refuted.

Theorem C14_wlf_other_iter_refuted : forall gen n fuel,
  run_default gen KIter (n_wlf false) (c_take n) fuel = OutOfFuel.
Proof. exact wlf_other_iter_refuted. Qed.
Print Assumptions C14_wlf_other_iter_refuted.

Theorem C14_combine_s_of_iter_refuted : forall gen n fuel,
  run_default gen KIter (n_combine true) (c_take n) fuel = OutOfFuel.
Proof. exact combine_s_of_iter_refuted. Qed.
Print Assumptions C14_combine_s_of_iter_refuted.

Theorem C14_take_until_iter_refuted : forall gen fuel,
  run_default gen KIter n_take_until c_all fuel = OutOfFuel.
Proof. exact take_until_iter_refuted. Qed.
Print Assumptions C14_take_until_iter_refuted.

Theorem C14_lin_inline_refuted : forall gen K C fuel, run_inline gen K n_lin C fuel = OutOfFuel.
Proof. exact lin_inline_refuted. Qed.
Print Assumptions C14_lin_inline_refuted.

Theorem C14_merge_inline_refuted : forall gen K C fuel b,
  run_inline gen K (n_merge (if b : bool then [0; 1] else [1; 0])) C fuel = OutOfFuel.
Proof. exact merge_inline_refuted. Qed.
Print Assumptions C14_merge_inline_refuted.

Theorem C14_flat_map_of_inline_refuted : forall gen K C fuel, run_inline gen K n_flat_map_of C fuel = OutOfFuel.
Proof. exact flat_map_of_inline_refuted. Qed.
Print Assumptions C14_flat_map_of_inline_refuted.

Theorem C14_switch_map_of_inline_refuted : forall gen K C fuel, run_inline gen K n_switch_map_of C fuel = OutOfFuel.
Proof. exact switch_map_of_inline_refuted. Qed.
Print Assumptions C14_switch_map_of_inline_refuted.

Theorem C14_flat_outer_inline_refuted : forall gen K C fuel, run_inline gen K n_flat_outer C fuel = OutOfFuel.
Proof. exact flat_outer_inline_refuted. Qed.
Print Assumptions C14_flat_outer_inline_refuted.

Theorem C14_switch_outer_inline_refuted : forall gen K C fuel, run_inline gen K n_switch_outer C fuel = OutOfFuel.
Proof. exact switch_outer_inline_refuted. Qed.
Print Assumptions C14_switch_outer_inline_refuted.

Theorem C14_amb_inline_refuted : forall gen K C fuel b, run_inline gen K (n_amb b) C fuel = OutOfFuel.
Proof. exact amb_inline_refuted. Qed.
Print Assumptions C14_amb_inline_refuted.

Theorem C14_wlf_inline_refuted : forall gen K C fuel b, run_inline gen K (n_wlf b) C fuel = OutOfFuel.
Proof. exact wlf_inline_refuted. Qed.
Print Assumptions C14_wlf_inline_refuted.

Theorem C14_combine_inline_refuted : forall gen K C fuel b, run_inline gen K (n_combine b) C fuel = OutOfFuel.
Proof. exact combine_inline_refuted. Qed.
Print Assumptions C14_combine_inline_refuted.

Theorem C14_take_until_inline_refuted : forall gen K C fuel, run_inline gen K n_take_until C fuel = OutOfFuel.
Proof. exact take_until_inline_refuted. Qed.
Print Assumptions C14_take_until_inline_refuted.

Theorem C14_concat_after_inline_refuted : forall gen K C fuel, run_inline gen K (n_concat false) C fuel = OutOfFuel.
Proof. exact concat_after_inline_refuted. Qed.
Print Assumptions C14_concat_after_inline_refuted.

Theorem C14_lin_rep : forall gen C v l k fuel,
  (forall s a b, c_step C s a = c_step C s b) ->
  stops_at C gen (c_init C) 0 k -> (3 * k + 5 <= fuel)%nat ->
  exists out, run_default gen (KRep (v :: l)) n_lin C fuel = Returned k out true.
Proof. exact lin_rep. Qed.
Print Assumptions C14_lin_rep.

Theorem C14_take_iter : forall gen n fuel, (n + 2 <= fuel)%nat ->
  exists out, run_default gen KIter n_lin (c_take (S n)) fuel = Returned (S n) out true.
Proof. exact take_iter. Qed.
Print Assumptions C14_take_iter.

Theorem C14_take_step : forall gen n fuel, (n + 2 <= fuel)%nat ->
  exists out, run_default gen KStep n_lin (c_take (S n)) fuel = Returned (S n) out true.
Proof. exact take_step. Qed.
Print Assumptions C14_take_step.

Theorem C14_take_rep : forall gen v l n fuel, (3 * n + 8 <= fuel)%nat ->
  exists out, run_default gen (KRep (v :: l)) n_lin (c_take (S n)) fuel = Returned (S n) out true.
Proof. exact take_rep. Qed.
Print Assumptions C14_take_rep.

Theorem C14_first_iter : forall gen fuel, (2 <= fuel)%nat ->
  exists out, run_default gen KIter n_lin c_first fuel = Returned 1 out true.
Proof. exact first_iter. Qed.
Print Assumptions C14_first_iter.

Theorem C14_first_step : forall gen fuel, (2 <= fuel)%nat ->
  exists out, run_default gen KStep n_lin c_first fuel = Returned 1 out true.
Proof. exact first_step. Qed.
Print Assumptions C14_first_step.

Theorem C14_first_rep : forall gen v l fuel, (8 <= fuel)%nat ->
  exists out, run_default gen (KRep (v :: l)) n_lin c_first fuel = Returned 1 out true.
Proof. exact first_rep. Qed.
Print Assumptions C14_first_rep.

Theorem C14_element_at_iter : forall gen n fuel, (n + 2 <= fuel)%nat ->
  exists out, run_default gen KIter n_lin (c_element_at n) fuel = Returned (S n) out true.
Proof. exact element_at_iter. Qed.
Print Assumptions C14_element_at_iter.

Theorem C14_element_at_step : forall gen n fuel, (n + 2 <= fuel)%nat ->
  exists out, run_default gen KStep n_lin (c_element_at n) fuel = Returned (S n) out true.
Proof. exact element_at_step. Qed.
Print Assumptions C14_element_at_step.

Theorem C14_element_at_rep : forall gen v l n fuel, (3 * n + 8 <= fuel)%nat ->
  exists out, run_default gen (KRep (v :: l)) n_lin (c_element_at n) fuel = Returned (S n) out true.
Proof. exact element_at_rep. Qed.
Print Assumptions C14_element_at_rep.

Theorem C14_take_while_iter : forall gen pr incl k fuel,
  (forall j, (j < k)%nat -> pr (gen j) = true) -> pr (gen k) = false -> (k + 2 <= fuel)%nat ->
  exists out, run_default gen KIter n_lin (c_take_while pr incl) fuel = Returned (S k) out true.
Proof. exact take_while_iter. Qed.
Print Assumptions C14_take_while_iter.

Theorem C14_take_while_step : forall gen pr incl k fuel,
  (forall j, (j < k)%nat -> pr (gen j) = true) -> pr (gen k) = false -> (k + 2 <= fuel)%nat ->
  exists out, run_default gen KStep n_lin (c_take_while pr incl) fuel = Returned (S k) out true.
Proof. exact take_while_step. Qed.
Print Assumptions C14_take_while_step.

Theorem C14_map_take_iter : forall gen f n fuel, (n + 2 <= fuel)%nat ->
  exists out, run_default gen KIter n_lin (c_map f (c_take (S n))) fuel = Returned (S n) out true.
Proof. exact map_take_iter. Qed.
Print Assumptions C14_map_take_iter.

Theorem C14_map_take_step : forall gen f n fuel, (n + 2 <= fuel)%nat ->
  exists out, run_default gen KStep n_lin (c_map f (c_take (S n))) fuel = Returned (S n) out true.
Proof. exact map_take_step. Qed.
Print Assumptions C14_map_take_step.

(* the hypotheses of the linear theorems are satisfiable: the listed consumers complete *)
Theorem C14_take_completes : forall gen n r i, stops_at (c_take n) gen (S r) i (S r).
Proof. exact take_stops. Qed.
Print Assumptions C14_take_completes.

Theorem C14_first_completes : forall gen i, stops_at c_first gen tt i 1.
Proof. exact first_stops. Qed.
Print Assumptions C14_first_completes.

Theorem C14_element_at_completes : forall gen n r i, stops_at (c_element_at n) gen r i (S r).
Proof. exact element_at_stops. Qed.
Print Assumptions C14_element_at_completes.

Theorem C14_take_while_completes : forall gen pr incl k i,
  (forall j, (j < k)%nat -> pr (gen (i + j)%nat) = true) -> pr (gen (i + k)%nat) = false ->
  stops_at (c_take_while pr incl) gen tt i (S k).
Proof. exact take_while_stops. Qed.
Print Assumptions C14_take_while_completes.

Theorem C14_map_stage : forall gen f C s i k,
  stops_at (c_map f C) gen s i k <-> stops_at C (fun j => f (gen j)) s i k.
Proof. exact stops_map. Qed.
Print Assumptions C14_map_stage.

Theorem C14_filter_stage : forall gen pr C s i k,
  (forall j, pr (gen j) = true) -> stops_at C gen s i k -> stops_at (c_filter pr C) gen s i k.
Proof. exact stops_filter_all. Qed.
Print Assumptions C14_filter_stage.

(* ---- witnesses (vm_compute): the numbers the implementation shows ---- *)
Definition nat_gen (i : nat) : Z := Z.of_nat i.

Example C14_witness_take_from_iterable :
  run_default nat_gen KIter n_lin (c_take 3) 10 = Returned 3 3 true.
Proof. vm_compute. reflexivity. Qed.

Example C14_witness_flat_map_range :
  run_default nat_gen KStep n_flat_map_of (c_take 3) 20 = Returned 3 3 true.
Proof. vm_compute. reflexivity. Qed.

Example C14_witness_switch_map_repeat :
  run_default nat_gen (KRep [1; 2]) n_switch_map_of (c_take 3) 60 = Returned 6 3 true.
Proof. vm_compute. reflexivity. Qed.

Example C14_witness_take_while :
  run_default nat_gen KIter n_lin (c_take_while (fun v => v <? 3) false) 10 = Returned 4 3 true.
Proof. vm_compute. reflexivity. Qed.

(* the refuted shapes on concrete fuel *)
Example C14_witness_refuted :
  run_default nat_gen KIter n_take_until c_all 500 = OutOfFuel /\
  run_default nat_gen KIter n_flat_map_of (c_take 3) 500 = OutOfFuel /\
  run_inline nat_gen KStep n_lin (c_take 1) 500 = OutOfFuel /\
  run_inline nat_gen (KRep [7]) n_lin c_first 500 = OutOfFuel.
Proof. vm_compute. repeat split; reflexivity. Qed.

(* ==== theorem-quality audit, second pass: repeat sources with ANY consumer, filter stages with
   ANY predicate, multi-source shapes over repeat (proofs: Ops/SyncRepFacts.v) ==== *)
From RxVerif Require Import Ops.SyncRepFacts.

(* C14_lin_rep without its value-blind hypothesis: the consumer is run on the cyclic stream of the
   repeated list ([cyc v l] of Ops/SyncRepFacts.v, written out here) *)
Theorem C14_lin_rep_any_consumer : forall gen C v l k fuel,
  stops_at C (fun i => nth (i mod length (v :: l)) (v :: l) v) (c_init C) 0 k -> (3 * k + 5 <= fuel)%nat ->
  exists out, run_default gen (KRep (v :: l)) n_lin C fuel = Returned k out true.
Proof. exact lin_rep_any. Qed.
Print Assumptions C14_lin_rep_any_consumer.

Theorem C14_take_while_rep : forall gen pr incl v l k fuel,
  (k < length (v :: l))%nat ->
  (forall j, (j < k)%nat -> pr (nth j (v :: l) v) = true) -> pr (nth k (v :: l) v) = false ->
  (3 * k + 8 <= fuel)%nat ->
  exists out, run_default gen (KRep (v :: l)) n_lin (c_take_while pr incl) fuel = Returned (S k) out true.
Proof. exact take_while_rep. Qed.
Print Assumptions C14_take_while_rep.

Theorem C14_map_take_rep : forall gen f v l n fuel, (3 * n + 8 <= fuel)%nat ->
  exists out, run_default gen (KRep (v :: l)) n_lin (c_map f (c_take (S n))) fuel = Returned (S n) out true.
Proof. exact map_take_rep. Qed.
Print Assumptions C14_map_take_rep.

Theorem C14_map_take_while_rep : forall gen f pr incl v l k fuel,
  (k < length (v :: l))%nat ->
  (forall j, (j < k)%nat -> pr (f (nth j (v :: l) v)) = true) -> pr (f (nth k (v :: l) v)) = false ->
  (3 * k + 8 <= fuel)%nat ->
  exists out, run_default gen (KRep (v :: l)) n_lin (c_map f (c_take_while pr incl)) fuel = Returned (S k) out true.
Proof. exact map_take_while_rep. Qed.
Print Assumptions C14_map_take_while_rep.

(* C14_filter_stage for ANY predicate, as an equivalence: the filtered pipeline completes after
   pulling exactly S n elements iff the last of them passes the predicate and the consumer completes
   exactly at the last element of the filtered stream [filtered pr gen i (S n)] of those elements *)
Theorem C14_filter_stage_any : forall gen pr C n s i,
  stops_at (c_filter pr C) gen s i (S n) <->
  pr (gen (i + n)%nat) = true /\
  stops_at C (fun j => nth j (filter pr (map gen (seq i (S n)))) 0) s 0
           (length (filter pr (map gen (seq i (S n))))).
Proof. exact stops_filter_iff. Qed.
Print Assumptions C14_filter_stage_any.

(* multi-source shapes over repeat, ANY consumer that completes on the cyclic stream *)
Theorem C14_merge_rep : forall gen (b : bool) C v l k fuel,
  stops_at C (cyc v l) (c_init C) 0 k -> (3 * k + 8 <= fuel)%nat ->
  exists out, run_default gen (KRep (v :: l)) (n_merge (if b then [0; 1] else [1; 0])) C fuel = Returned k out true.
Proof. exact merge_rep_any. Qed.
Print Assumptions C14_merge_rep.

Theorem C14_flat_outer_rep : forall gen C v l k fuel,
  stops_at C (cyc v l) (c_init C) 0 k -> (3 * k + 8 <= fuel)%nat ->
  exists out, run_default gen (KRep (v :: l)) n_flat_outer C fuel = Returned k out true.
Proof. exact flat_outer_rep_any. Qed.
Print Assumptions C14_flat_outer_rep.

Theorem C14_switch_outer_rep : forall gen C v l k fuel,
  stops_at C (cyc v l) (c_init C) 0 k -> (3 * k + 8 <= fuel)%nat ->
  exists out, run_default gen (KRep (v :: l)) n_switch_outer C fuel = Returned k out true.
Proof. exact switch_outer_rep_any. Qed.
Print Assumptions C14_switch_outer_rep.

Theorem C14_concat_after_rep : forall gen C v l k fuel,
  stops_at C (cyc v l) (c_init C) 0 k -> (3 * k + 8 <= fuel)%nat ->
  exists out, run_default gen (KRep (v :: l)) (n_concat false) C fuel = Returned k out true.
Proof. exact concat_after_rep_any. Qed.
Print Assumptions C14_concat_after_rep.

Theorem C14_amb_rep : forall gen (b : bool) C v l k fuel,
  stops_at C (cyc v l) (c_init C) 0 k -> (3 * k + 8 <= fuel)%nat ->
  exists out, run_default gen (KRep (v :: l)) (n_amb b) C fuel = Returned k out true.
Proof. exact amb_rep_any. Qed.
Print Assumptions C14_amb_rep.

Theorem C14_wlf_main_rep : forall gen C v l k fuel,
  stops_at C (cyc v l) (c_init C) 0 k -> (3 * k + 8 <= fuel)%nat ->
  exists out, run_default gen (KRep (v :: l)) (n_wlf true) C fuel = Returned k out true.
Proof. exact wlf_main_rep_any. Qed.
Print Assumptions C14_wlf_main_rep.

Theorem C14_combine_of_s_rep : forall gen C v l k fuel,
  stops_at C (cyc v l) (c_init C) 0 k -> (3 * k + 8 <= fuel)%nat ->
  exists out, run_default gen (KRep (v :: l)) (n_combine false) C fuel = Returned k out true.
Proof. exact combine_of_s_rep_any. Qed.
Print Assumptions C14_combine_of_s_rep.

Theorem C14_combine_s_of_rep : forall gen C v l k fuel,
  stops_at C (cyc v l) (c_init C) 0 k -> (3 * k + 8 <= fuel)%nat ->
  exists out, run_default gen (KRep (v :: l)) (n_combine true) C fuel = Returned k out true.
Proof. exact combine_s_of_rep_any. Qed.
Print Assumptions C14_combine_s_of_rep.

Theorem C14_take_until_rep : forall gen C v l fuel, (4 <= fuel)%nat ->
  run_default gen (KRep (v :: l)) n_take_until C fuel = Returned 0 0 true.
Proof. exact take_until_rep. Qed.
Print Assumptions C14_take_until_rep.

Theorem C14_wlf_other_rep : forall gen C v l fuel, (5 <= fuel)%nat ->
  run_default gen (KRep (v :: l)) (n_wlf false) C fuel = Returned 0 0 true.
Proof. exact wlf_other_rep. Qed.
Print Assumptions C14_wlf_other_rep.

(* ---- the new hypotheses are satisfiable; the numbers the implementation shows ---- *)
(* take_while whose predicate is false at the third element of the repeated list *)
Example C14_witness_take_while_repeat :
  stops_at (c_take_while (fun v => v <? 3) false) (cyc 1 [2; 3; 4]) tt 0 3 /\
  run_default nat_gen (KRep [1; 2; 3; 4]) n_lin (c_take_while (fun v => v <? 3) false) 20 = Returned 3 2 true.
Proof. vm_compute. split; reflexivity. Qed.

(* repeat_value(7).map(+1).take(3) *)
Example C14_witness_map_take_repeat_value :
  stops_at (c_map (fun v => v + 1) (c_take 3)) (cyc 7 []) 3%nat 0 3 /\
  run_default nat_gen (KRep [7]) n_lin (c_map (fun v => v + 1) (c_take 3)) 20 = Returned 3 3 true.
Proof. vm_compute. split; reflexivity. Qed.

(* a value-dependent consumer that needs a second round of the list: repeat(of(1,2)).filter(==2).take(2) *)
Example C14_witness_filter_take_repeat :
  stops_at (c_filter (fun v => v =? 2) (c_take 2)) (cyc 1 [2]) 2%nat 0 4 /\
  run_default nat_gen (KRep [1; 2]) n_lin (c_filter (fun v => v =? 2) (c_take 2)) 30 = Returned 4 2 true.
Proof. vm_compute. split; reflexivity. Qed.

(* right-hand side of C14_filter_stage_any with a predicate that fails on some elements:
   filter(even).take(2) over 0,1,2,... pulls 3 elements *)
Example C14_witness_filter_stage_any :
  filter (fun v => v mod 2 =? 0) (map nat_gen (seq 0 3)) = [0; 2] /\
  (fun v => v mod 2 =? 0) (nat_gen (0 + 2)) = true /\
  stops_at (c_take 2) (fun j => nth j (filter (fun v => v mod 2 =? 0) (map nat_gen (seq 0 3))) 0) 2%nat 0
           (length (filter (fun v => v mod 2 =? 0) (map nat_gen (seq 0 3)))) /\
  run_default nat_gen KIter n_lin (c_filter (fun v => v mod 2 =? 0) (c_take 2)) 10 = Returned 3 2 true.
Proof. vm_compute. repeat split; reflexivity. Qed.

(* multi-source shapes over repeat(of(1,2)) with a value-dependent consumer *)
Example C14_witness_multi_repeat :
  stops_at (c_take_while (fun v => v <? 2) true) (cyc 1 [2]) tt 0 2 /\
  run_default nat_gen (KRep [1; 2]) (n_merge [0; 1]) (c_take_while (fun v => v <? 2) true) 30 = Returned 2 2 true /\
  run_default nat_gen (KRep [1; 2]) (n_combine true) (c_take_while (fun v => v <? 2) true) 30 = Returned 2 2 true /\
  run_default nat_gen (KRep [1; 2]) (n_concat false) (c_take_while (fun v => v <? 2) true) 30 = Returned 2 2 true /\
  run_default nat_gen (KRep [1; 2]) n_take_until c_all 30 = Returned 0 0 true.
Proof. vm_compute. repeat split; reflexivity. Qed.

(* ==== repeat / repeat_value in front of flat_map(of) and switch_map(of), behind concat(of(1,2), .),
   for ANY consumer (proofs: Ops/SyncRepNested.v).  The inner list loop of repeat is ONE
   trampoline action: a whole round of the list is pulled -- every element subscribing its inner
   of(x), whose action is only queued -- before the inner actions run. ==== *)
From RxVerif Require Import Ops.SyncRepNested.

(* source.flat_map(lambda x: of(x)): the consumer sees the cyclic stream; if it completes at its
   (n * r + j + 1)-th element (n = |v :: l|, j < n), the run returns and EXACTLY n * (r + 1)
   elements have been pulled: r + 1 whole rounds *)
Theorem C14_flat_map_of_rep_rounds : forall gen C v l r j fuel, (j < length (v :: l))%nat ->
  stops_at C (fun i => nth (i mod length (v :: l)) (v :: l) v) (c_init C) 0 (length (v :: l) * r + S j) ->
  ((3 * length (v :: l) + 2) * r + 2 * length (v :: l) + 2 * j + 5 <= fuel)%nat ->
  exists out, run_default gen (KRep (v :: l)) n_flat_map_of C fuel = Returned (length (v :: l) * S r) out true.
Proof. exact flat_map_of_rep_rounds. Qed.
Print Assumptions C14_flat_map_of_rep_rounds.

(* the same in terms of k alone: n * ceil(k / n) pulls *)
Theorem C14_flat_map_of_rep : forall gen C v l k fuel,
  stops_at C (fun i => nth (i mod length (v :: l)) (v :: l) v) (c_init C) 0 k ->
  (5 * k + 2 * length (v :: l) + 5 <= fuel)%nat ->
  exists out, run_default gen (KRep (v :: l)) n_flat_map_of C fuel
              = Returned (length (v :: l) * ((k + length l) / length (v :: l))) out true.
Proof. exact flat_map_of_rep_any. Qed.
Print Assumptions C14_flat_map_of_rep.

(* source.switch_map(lambda x: of(x)): every inner but the last of a round is disposed before its
   queued action runs, so the consumer sees the LAST element of the list once per round; if it
   completes at the k-th element of that constant stream the run returns after exactly n * k pulls *)
Theorem C14_switch_map_of_rep : forall gen C v l k fuel,
  stops_at C (fun _ => last (v :: l) v) (c_init C) 0 k -> ((2 * length (v :: l) + 3) * k + 2 <= fuel)%nat ->
  exists out, run_default gen (KRep (v :: l)) n_switch_map_of C fuel = Returned (length (v :: l) * k) out true.
Proof. exact switch_map_of_rep_last. Qed.
Print Assumptions C14_switch_map_of_rep.

(* ... and if it never completes on that constant stream the run never returns, whatever the fuel *)
Theorem C14_switch_map_of_rep_diverges : forall gen C v l fuel,
  never_stops C (fun _ => last (v :: l) v) (c_init C) 0 ->
  run_default gen (KRep (v :: l)) n_switch_map_of C fuel = OutOfFuel.
Proof. exact switch_map_of_rep_diverges. Qed.
Print Assumptions C14_switch_map_of_rep_diverges.

(* hence the proposal "a consumer that completes on the CYCLIC stream makes switch_map(of) over
   repeat return" is false: take_while(1 < v) completes at the first element of 1, 2, 1, 2, ...
   but sees 2, 2, 2, ... behind switch_map(of) *)
Theorem C14_switch_map_of_rep_cyclic_refuted :
  stops_at (c_take_while (fun v => 1 <? v) false) (fun i => nth (i mod length [1; 2]) [1; 2] 1) tt 0 1
  /\ run_default (fun i => Z.of_nat i) (KRep [1; 2]) n_switch_map_of (c_take_while (fun v => 1 <? v) false) 500 = OutOfFuel
  /\ forall gen fuel, run_default gen (KRep [1; 2]) n_switch_map_of (c_take_while (fun v => 1 <? v) false) fuel = OutOfFuel.
Proof. exact switch_map_of_rep_cyclic_refuted. Qed.
Print Assumptions C14_switch_map_of_rep_cyclic_refuted.

(* concat(of(1, 2), source): the consumer sees 1, 2, then the cyclic stream; completing at its k-th
   element the run returns after exactly k - 2 pulls (none if k <= 2) *)
Theorem C14_concat_before_rep : forall gen C v l k fuel,
  stops_at C (fun i => match i with
                       | O => 1 | S O => 2
                       | S (S j) => nth (j mod length (v :: l)) (v :: l) v
                       end) (c_init C) 0 k ->
  (3 * k + 12 <= fuel)%nat ->
  exists out, run_default gen (KRep (v :: l)) (n_concat true) C fuel = Returned (k - 2) out true.
Proof. exact concat_before_rep_any. Qed.
Print Assumptions C14_concat_before_rep.

(* ---- the hypotheses are satisfiable; the numbers (the implementation shows the same) ---- *)
Example C14_witness_flat_map_repeat :
  stops_at (c_take 4) (cyc 1 [2; 3]) 4%nat 0 (3 * 1 + 1) /\
  run_default nat_gen (KRep [1; 2; 3]) n_flat_map_of (c_take 4) 21 = Returned 6 4 true /\
  run_default nat_gen (KRep [1; 2; 3]) n_flat_map_of (c_take 1) 30 = Returned 3 1 true /\
  run_default nat_gen (KRep [7]) n_flat_map_of (c_take 3) 30 = Returned 3 3 true.
Proof. vm_compute. repeat split; reflexivity. Qed.

Example C14_witness_switch_map_repeat_last :
  stops_at (c_take 2) (fun _ => last [1; 2; 3] 1) 2%nat 0 2 /\
  run_default nat_gen (KRep [1; 2; 3]) n_switch_map_of (c_take 2) 30 = Returned 6 2 true /\
  stops_at (c_take_while (fun v => v <? 3) false) (fun _ => last [1; 2; 3] 1) tt 0 1 /\
  run_default nat_gen (KRep [1; 2; 3]) n_switch_map_of (c_take_while (fun v => v <? 3) false) 30 = Returned 3 0 true.
Proof. vm_compute. repeat split; reflexivity. Qed.

Example C14_witness_concat_before_repeat :
  stops_at (c_take 7) (concat_stream 1 [2; 3]) 7%nat 0 7 /\
  run_default nat_gen (KRep [1; 2; 3]) (n_concat true) (c_take 7) 40 = Returned 5 7 true /\
  run_default nat_gen (KRep [1; 2; 3]) (n_concat true) (c_take 2) 40 = Returned 0 2 true /\
  run_default nat_gen (KRep [1; 2; 3]) (n_concat true) (c_take 3) 40 = Returned 1 3 true.
Proof. vm_compute. repeat split; reflexivity. Qed.
