(* C12 -- switching forwards only the latest inner sequence.
   Refinement: for EVERY mapper (also raising) and EVERY input sequence, what
   the subscriber of switch_map / switch_latest / flat_map_latest receives, and
   when, is [switch_spec]: only the latest inner is listened to, a new inner
   replaces it, completion needs the outer and the latest inner to have
   completed, the first error of the outer or of the latest inner ends it. *)
From RxVerif Require Import Base.Prelude Ops.Machine Ops.Multi Ops.MultiFacts Ops.RunLemmas
  Ops.Combinators Ops.MergeFacts Ops.SwitchSpecFacts Ops.SwitchInvFacts Ops.SwitchLiveFacts.

Theorem C12_switch_refines_spec : forall A (mapper : A -> nat -> res unit) (ins : list (Z * inp A)),
  temitted (fst (run (x_switch_map mapper) ins)) = switch_spec mapper true 0 false 1 ins.
Proof. exact @switch_refines_spec. Qed.
Print Assumptions C12_switch_refines_spec.

(* a fact about the DEFINITION switch_live (the list [outer?] ++ [latest?]) only; the statement
   about the runner state reached by [run] is C12_run_at_most_outer_and_latest below *)
Theorem C12_at_most_one_inner_subscribed : forall ol latest has,
  (length (switch_live ol latest has) <= 2)%nat
  /\ (forall k, In k (switch_live ol latest has) -> k = 0%nat \/ k = latest).
Proof.
  intros ol latest has. unfold switch_live. destruct ol, has; cbn; split; try lia;
    intros k Hk; intuition.
Qed.
Print Assumptions C12_at_most_one_inner_subscribed.

(* consequences of the specification (hence, by the refinement, of the operator on EVERY input
   sequence).  [sw_after] is the specification's state after a prefix of the inputs: (outer live,
   id of the latest inner = number of inners received so far, latest inner still running). *)

(* an element is forwarded ONLY while its inner sequence is the most recently received one *)
Theorem C12_forwards_only_latest : forall A (mapper : A -> nat -> res unit) (ins : list (Z * inp A))
  ol latest has pos p x,
  In (p, Next x) (switch_spec mapper ol latest has pos ins) ->
  (pos <= p)%nat /\
  exists ol' latest' now,
    sw_after mapper ol latest has (firstn (p - pos) ins) = Some (ol', latest', true)
    /\ nth_error ins (p - pos) = Some (now, ISrc latest' (Next x))
    /\ (1 <= latest')%nat.
Proof. exact @switch_forwards_only_latest. Qed.
Print Assumptions C12_forwards_only_latest.

(* completion only once the outer has completed and the latest inner has completed *)
Theorem C12_completes_only_when_both_done : forall A (mapper : A -> nat -> res unit) (ins : list (Z * inp A))
  ol latest has pos p,
  In (p, Done) (switch_spec mapper ol latest has pos ins) ->
  (pos <= p)%nat /\
  exists ol' latest' has' now,
    sw_after mapper ol latest has (firstn (p - pos) ins) = Some (ol', latest', has')
    /\ ((ol' = false /\ has' = true /\ nth_error ins (p - pos) = Some (now, ISrc latest' Done) /\ (1 <= latest')%nat)
        \/ (ol' = true /\ has' = false /\ nth_error ins (p - pos) = Some (now, ISrc 0%nat Done))).
Proof. exact @switch_completes_only_when_both_done. Qed.
Print Assumptions C12_completes_only_when_both_done.

(* the previous inner is unsubscribed as soon as a new inner arrives: (1) after EVERY input sequence
   the operator/runner state is stopped or has exactly the outer (while it runs) and the latest inner
   (while it runs) subscribed; (2) in such a state a new inner replaces the running one within the
   same step -- previous inner unsubscribed, new one subscribed, nothing else *)
Theorem C12_reachable_shape : forall A (mapper : A -> nat -> res unit) (ins : list (Z * inp A)),
  sw_inv (fst (after (x_switch_map mapper) (fst (start_state (x_switch_map mapper)))
                     (snd (start_state (x_switch_map mapper))) ins))
         (snd (run (x_switch_map mapper) ins)).
Proof. exact @switch_reachable_shape. Qed.
Print Assumptions C12_reachable_shape.
Theorem C12_new_inner_replaces_previous : forall A (mapper : A -> nat -> res unit) l0 now (x : A),
  mapper x (S l0) = Ok tt ->
  rstep (x_switch_map mapper) (S l0, true, negb true) (RState (switch_live true (S l0) true) [] false)
        now (ISrc 0%nat (Next x))
  = ((S (S l0), true, negb true), RState (switch_live true (S (S l0)) true) [] false,
     [OUnsub (S l0); OSub (S (S l0))]).
Proof. exact @switch_new_inner_replaces_previous. Qed.
Print Assumptions C12_new_inner_replaces_previous.

(* RUN-LEVEL: after EVERY input sequence, for every mapper, the subscriptions the runner holds are
   at most two, pairwise distinct, and each is the outer (0) or the LATEST inner received so far
   ([sw_latest_after] = the operator's counter of inners after these inputs) -- never an older inner *)
Theorem C12_run_at_most_outer_and_latest : forall A (mapper : A -> nat -> res unit) (ins : list (Z * inp A)),
  (length (r_live (snd (run (x_switch_map mapper) ins))) <= 2)%nat
  /\ NoDup (r_live (snd (run (x_switch_map mapper) ins)))
  /\ forall k, In k (r_live (snd (run (x_switch_map mapper) ins))) ->
       k = 0%nat \/ (k = sw_latest_after mapper ins /\ k <> 0%nat).
Proof. exact @switch_run_at_most_outer_and_latest. Qed.
Print Assumptions C12_run_at_most_outer_and_latest.
Example C12_witness_live :
  let ins := [(0, ISrc 0%nat (Next 1)); (0, ISrc 1%nat (Next 10)); (0, ISrc 0%nat (Next 2));
              (0, ISrc 1%nat (Next 11)); (0, ISrc 2%nat (Next 20))] in
  r_live (snd (run (x_switch_map (fun _ _ => Ok tt)) ins)) = [0%nat; 2%nat]
  /\ sw_latest_after (fun (_ : Z) _ => Ok tt) ins = 2%nat.
Proof. vm_compute. split; reflexivity. Qed.

Example C12_witness :
  temitted (fst (run (x_switch_map (fun _ _ => Ok tt))
     [(0, ISrc 0%nat (Next 1)); (0, ISrc 1%nat (Next 10)); (0, ISrc 0%nat (Next 2));
      (0, ISrc 1%nat (Next 11)); (0, ISrc 2%nat (Next 20)); (0, ISrc 0%nat Done); (0, ISrc 2%nat Done)]))
  = [(2%nat, Next 10); (5%nat, Next 20); (7%nat, Done)].
Proof. vm_compute. reflexivity. Qed.
