(* C38 -- marble diagrams mean what the documented syntax says.
   Model: Ops/Marbles.v (reactivex/observable/marbles.py: parse, and the scheduling
   done by from_marbles / hot), tied to the code by the correspondence of
   harness/props/C38.py.  All theorems hold for every value function [valof]
   (number parsing + lookup), every string / every well-formed diagram.
   Times: the parser's timestamp of frame k is  k * timespan + time_shift. *)
From Coq Require Import List Ascii String Bool Arith.
From RxVerif Require Import Ops.Marbles Ops.MarblesFacts.
Import ListNotations.
Open Scope char_scope.
Open Scope list_scope.

(* A well-formed diagram d (ticks, single/multi-character values, | , #, groups),
   written as ANY string s that equals its rendering once spaces are removed,
   parses to exactly its meaning [denote d]: every item contributes its
   notification(s) at frame = number of characters rendered before it (the index
   of its first character, spaces not counted); the members of a group all get
   the index of the opening parenthesis; values go through valof.  With
   raise_stopped the string is rejected iff an element follows a terminal one. *)
Theorem C38_parse_is_diagram_meaning :
  forall (V : Type) (valof : str -> V) (rs : bool) (d : list item) (s : str),
    wf d = true -> remove_spaces s = render d ->
    parse_model V valof rs s =
    if negb rs || stop_ok (elements d) then inr (denote V valof d) else inl ErrStopped.
Proof. exact parse_render. Qed.
Print Assumptions C38_parse_is_diagram_meaning.

(* what [denote] is: each item paired with the items before it; the frame is the
   length of the text before it *)
Theorem C38_meaning_is_index_of_first_character :
  forall (V : Type) (valof : str -> V) (d : list item),
    denote V valof d
    = flat_map (fun pi => msgs_of_item V valof (List.length (render (fst pi))) (snd pi)) (splits d)
    /\ forall pre it, In (pre, it) (splits d) <-> exists post, d = pre ++ it :: post.
Proof. exact denote_is_index. Qed.
Print Assumptions C38_meaning_is_index_of_first_character.

Theorem C38_spaces_are_ignored :
  forall (V : Type) (valof : str -> V) rs s s',
    remove_spaces s = remove_spaces s' -> parse_model V valof rs s = parse_model V valof rs s'.
Proof. exact parse_ignores_spaces. Qed.
Print Assumptions C38_spaces_are_ignored.

(* ALL strings: with raise_stopped nothing is produced after a terminal notification *)
Theorem C38_nothing_after_terminal :
  forall (V : Type) (valof : str -> V) (s : str) ms,
    parse_model V valof true s = inr ms ->
    forall pre m post, ms = pre ++ m :: post -> is_terminal V m = true -> post = [].
Proof. exact parse_nothing_after_terminal. Qed.
Print Assumptions C38_nothing_after_terminal.

(* ALL strings: timestamps never decrease along the message list *)
Theorem C38_frames_never_decrease :
  forall (V : Type) (valof : str -> V) rs (s : str) ms,
    parse_model V valof rs s = inr ms -> sorted_from V 0 ms.
Proof. exact parse_frames_sorted. Qed.
Print Assumptions C38_frames_never_decrease.

(* from_marbles / cold: a virtual-time scheduler (actions by due time, then
   insertion order) delivers exactly the parsed messages, in order *)
Theorem C38_cold_delivers_parsed :
  forall (V : Type) (valof : str -> V) (s : str) ms,
    parse_model V valof true s = inr ms -> cold_delivery V ms = ms.
Proof. exact cold_delivery_parsed. Qed.
Print Assumptions C38_cold_delivers_parsed.

(* hot: an observer subscribing at frame time sub (after the messages were
   scheduled) receives exactly the parsed messages due strictly later *)
Theorem C38_hot_delivers_parsed :
  forall (V : Type) (valof : str -> V) (s : str) ms sub,
    parse_model V valof true s = inr ms ->
    hot_delivery V sub ms = filter (fun m => Nat.ltb sub (fst m)) ms.
Proof. exact hot_delivery_parsed. Qed.
Print Assumptions C38_hot_delivers_parsed.

(* ---- non-vacuity / documented examples -------------------------------------------- *)

(* the docstring's example: "--(12,3,4)--" emits 12, 3, 4 at 2 and then advances by 8 *)
Example C38_doc_group :
  parse_model str idv true (l "--(12,3,4)--|")
  = inr [(2, NNext (l "12")); (2, NNext (l "3")); (2, NNext (l "4")); (12, NCompleted)].
Proof. vm_compute. reflexivity. Qed.

Example C38_doc_group_as_diagram :
  wf [ITicks 2; IGroup [l "12"; l "3"; l "4"]; ITicks 2; IEnd] = true
  /\ render [ITicks 2; IGroup [l "12"; l "3"; l "4"]; ITicks 2; IEnd] = l "--(12,3,4)--|"
  /\ denote str idv [ITicks 2; IGroup [l "12"; l "3"; l "4"]; ITicks 2; IEnd]
     = [(2, NNext (l "12")); (2, NNext (l "3")); (2, NNext (l "4")); (12, NCompleted)].
Proof. repeat split; vm_compute; reflexivity. Qed.

Example C38_spaces_and_multichar :
  parse_model str idv true (l "- ab - - c|") = inr [(1, NNext (l "ab")); (5, NNext (l "c")); (6, NCompleted)].
Proof. vm_compute. reflexivity. Qed.

Example C38_rejects_after_terminal :
  parse_model str idv true (l "-a|-b") = inl ErrStopped
  /\ parse_model str idv false (l "-a|-b") = inr [(1, NNext (l "a")); (2, NCompleted); (4, NNext (l "b"))]
  /\ parse_model str idv true (l "-a,b") = inl ErrComma.
Proof. repeat split; vm_compute; reflexivity. Qed.

(* outside the documented syntax (unbalanced parenthesis) the code silently drops the
   parenthesis WITHOUT advancing time: b is at index 2 but gets frame 1 *)
Example C38_unbalanced_parenthesis_quirk :
  parse_model str idv true (l "a(b") = inr [(0, NNext (l "a")); (1, NNext (l "b"))].
Proof. vm_compute. reflexivity. Qed.

(* ==== strengthening after the theorem audit ========================================= *)
From Coq Require Import ZArith PrimFloat.
From RxVerif Require Import Ops.MarblesCover Ops.MarbleNumbers Ops.MarbleNumbersFacts.

(* ---- the lexer never runs out of fuel ------------------------------------------------ *)
(* [lex s] runs [lex_aux] with fuel = length s; any larger fuel gives the same
   tokens, so no theorem above holds because a long string was silently truncated *)
Theorem C38_lexer_fuel_adequate :
  forall (s : str) (k : nat), lex_aux (List.length s + k) s = lex s.
Proof. exact lex_fuel. Qed.
Print Assumptions C38_lexer_fuel_adequate.

(* hence [lex] satisfies, without fuel, the equation of re.findall on
   (\(.*?\))|(-+)|(,)|(#|\||[^-,()#\|]+) : alternatives in order at every position,
   an unmatched parenthesis is skipped *)
Theorem C38_lexer_equation :
  lex [] = [] /\
  forall c r, lex (c :: r) =
    if ch_eqb c "(" then
      match find_close r with
      | Some (content, rest) => TGroup content :: lex rest
      | None => lex r
      end
    else if ch_eqb c "-" then
      let (t, rest) := span is_dash r in TTicks (S (List.length t)) :: lex rest
    else if ch_eqb c "," then TComma :: lex r
    else if ch_eqb c "#" then TElem [c] :: lex r
    else if ch_eqb c "|" then TElem [c] :: lex r
    else if ch_eqb c ")" then lex r
    else let (t, rest) := span elem_char r in TElem (c :: t) :: lex rest.
Proof. exact (conj lex_nil lex_cons). Qed.
Print Assumptions C38_lexer_equation.

(* ---- coverage: which strings are diagrams -------------------------------------------- *)
(* [clean_str]: read directly off the string -- no "," and no ")" outside a group,
   every "(" closed by a ")" before the end of the line.  Every such string (spaces
   removed) is the rendering of a well-formed diagram ... *)
Theorem C38_clean_strings_are_diagrams :
  forall s : str, clean_str (remove_spaces s) = true ->
    exists d, wf d = true /\ render d = remove_spaces s.
Proof. exact cover_string. Qed.
Print Assumptions C38_clean_strings_are_diagrams.

(* ... the same with "clean" read off the token list: no comma token, and the tokens
   written back give the string, i.e. the lexer skipped no parenthesis.  (The audit's
   [clean (lex (remove_spaces s))]; the skipped characters cannot be seen in the token
   list alone, so [clean] also takes the string.) *)
Theorem C38_clean_tokens_are_diagrams :
  forall s : str, clean (remove_spaces s) (lex (remove_spaces s)) = true ->
    exists d, wf d = true /\ render d = remove_spaces s.
Proof. exact cover_tokens. Qed.
Print Assumptions C38_clean_tokens_are_diagrams.

Theorem C38_clean_string_iff_clean_tokens :
  forall t : str, clean_str t = true <-> clean t (lex t) = true.
Proof. exact clean_iff_tokens. Qed.
Print Assumptions C38_clean_string_iff_clean_tokens.

(* exactly: the renderings of well-formed diagrams are the clean strings without spaces *)
Theorem C38_diagrams_are_exactly_the_clean_strings :
  forall t : str, (exists d, wf d = true /\ render d = t) <-> (clean_str t = true /\ nospace t = true).
Proof. exact wf_renderings_are_the_clean_strings. Qed.
Print Assumptions C38_diagrams_are_exactly_the_clean_strings.

(* so C38_parse_is_diagram_meaning applies to every clean string *)
Theorem C38_clean_string_parses_to_a_diagram_meaning :
  forall (V : Type) (valof : str -> V) (rs : bool) (s : str),
    clean_str (remove_spaces s) = true ->
    exists d, wf d = true /\ remove_spaces s = render d /\
      parse_model V valof rs s =
      if negb rs || stop_ok (elements d) then inr (denote V valof d) else inl ErrStopped.
Proof. exact parse_clean. Qed.
Print Assumptions C38_clean_string_parses_to_a_diagram_meaning.

(* a comma outside a group is always a ValueError, and the comma error without raise_stopped *)
Theorem C38_stray_comma_rejected :
  forall (V : Type) (valof : str -> V) (rs : bool) (s : str),
    no_comma (lex (remove_spaces s)) = false ->
    (exists e, parse_model V valof rs s = inl e) /\ parse_model V valof false s = inl ErrComma.
Proof. exact parse_comma_rejected. Qed.
Print Assumptions C38_stray_comma_rejected.

Example C38_clean_examples :
  clean_str (l "--(12,3,4)--|") = true /\ clean_str (l "a(b") = false /\ clean_str (l "a)b") = false
  /\ clean_str (l "-a,b") = false /\ clean_str (l "((a)") = true
  /\ no_comma (lex (l "-a,b")) = false
  /\ clean (l "a(b") (lex (l "a(b")) = false.
Proof. repeat split; vm_compute; reflexivity. Qed.

(* ---- values: int() ------------------------------------------------------------------- *)
(* The integer reading first: these statements mention Z only and are closed under the
   global context.  Every statement about try_number / valof / time_of mentions the
   PrimFloat-typed value model, for which Print Assumptions lists Coq's primitive
   float / int63 constants instead of "Closed under the global context"; those theorems
   are restated in the last section of this file ("number parsing, lookup and
   timestamps"). *)

(* int(str(z)) = z for EVERY integer; render_Z is the standard library's decimal
   printing (optional "-", digits, no leading zero) *)
Theorem C38_int_elements_read_back :
  forall z : Z, parse_int (render_Z z) = Some z.
Proof. exact parse_int_render_Z. Qed.
Print Assumptions C38_int_elements_read_back.

(* every non-empty string of decimal digits, leading zeros allowed, also behind a sign *)
Theorem C38_digit_strings_read_as_int :
  forall d : Decimal.uint, d <> Decimal.Nil ->
    parse_int (uchars d) = Some (Z.of_uint d)
    /\ parse_int ("+" :: uchars d) = Some (Z.of_uint d)
    /\ parse_int ("-" :: uchars d) = Some (- Z.of_uint d)%Z.
Proof. exact parse_int_uint. Qed.
Print Assumptions C38_digit_strings_read_as_int.

(* int() accepts nothing with a character outside 0-9 _ + - (numeric_char also has . e E) *)
Theorem C38_int_needs_numeric_characters :
  forall (s : str) (z : Z), parse_int s = Some z -> forallb numeric_char s = true.
Proof. exact parse_int_numeric. Qed.
Print Assumptions C38_int_needs_numeric_characters.

Example C38_int_examples :
  render_Z (-1203) = l "-1203" /\ render_Z 0 = l "0"
  /\ uchars (Decimal.D0 (Decimal.D0 (Decimal.D4 (Decimal.D2 Decimal.Nil)))) = l "0042"
  /\ parse_int (l "0042") = Some 42%Z /\ parse_int (l "1_000") = Some 1000%Z
  /\ parse_int (l "1__0") = None /\ parse_int (l "x1") = None
  /\ forallb numeric_char (l "1x") = false.
Proof. repeat split; vm_compute; reflexivity. Qed.

(* ==== number parsing, lookup and timestamps ============================================
   (statements mention PrimFloat: Print Assumptions lists the kernel's primitive
   float/int63 operations, no axiom)
   The value model [pyval] has a float constructor and [pytime] a float timestamp, both
   of Coq's primitive type PrimFloat.float; every statement about try_number / valof /
   time_of / cold_case / hot_case therefore mentions that type, and Print Assumptions
   prints the kernel primitives it is built from (PrimFloat.float, PrimFloat.mul,
   PrimFloat.of_uint63, PrimInt63.int, ...) instead of "Closed under the global
   context".  They are primitives of the kernel, declared by Coq's own library with
   [Primitive], not axioms of this development; none of the proofs below reasons about
   floating-point arithmetic (no FloatAxioms lemma is used). *)

(* the decimal rendering of EVERY integer is read as that int *)
Theorem C38_try_number_render_Z : forall z : Z, try_number (render_Z z) = PInt z.
Proof. exact try_number_render_Z. Qed.
Print Assumptions C38_try_number_render_Z.

(* lookup_.get(v, v) with v = try_number(element): the entry of the first key equal to v
   (Python == between str / int / float keys), else v itself *)
Theorem C38_valof_spec : forall (lk : list (pyval * pyval)) (s : str),
  valof lk s = match find (fun kv => py_eq (try_number s) (fst kv)) lk with
               | Some kv => snd kv
               | None => try_number s
               end.
Proof. exact valof_spec. Qed.
Print Assumptions C38_valof_spec.

Theorem C38_valof_first_key : forall (lk1 : list (pyval * pyval)) (k v : pyval) (lk2 : list (pyval * pyval)) (s : str),
  (forall kv, In kv lk1 -> py_eq (try_number s) (fst kv) = false) ->
  py_eq (try_number s) k = true -> valof (lk1 ++ (k, v) :: lk2) s = v.
Proof. exact valof_first_key. Qed.
Print Assumptions C38_valof_first_key.

Theorem C38_valof_no_key : forall (lk : list (pyval * pyval)) (s : str),
  (forall kv, In kv lk -> py_eq (try_number s) (fst kv) = false) -> valof lk s = try_number s.
Proof. exact valof_no_key. Qed.
Print Assumptions C38_valof_no_key.

(* printable ASCII (codes 33..126: the model's domain, no whitespace), not [sign]
   inf / infinity / nan, first character after an optional sign neither a digit nor "." :
   the element stays a string *)
Theorem C38_try_number_string_printable : forall s : str, forallb printable s = true ->
  special_float (map lower (body s)) = false -> non_numeric_head (body s) -> try_number s = PStr s.
Proof. exact try_number_string_printable. Qed.
Print Assumptions C38_try_number_string_printable.

(* ... or containing a character outside 0-9 _ . e E + - *)
Theorem C38_try_number_foreign_char_printable : forall s : str, forallb printable s = true ->
  forallb numeric_char s = false -> special_float (map lower (body s)) = false -> try_number s = PStr s.
Proof. exact try_number_foreign_char_printable. Qed.
Print Assumptions C38_try_number_foreign_char_printable.

(* exactly: an element stays a string iff neither int() nor float() reads it *)
Theorem C38_try_number_is_string_iff : forall s : str,
  try_number s = PStr s <-> (parse_int s = None /\ parse_float s = None).
Proof. exact try_number_is_string_iff. Qed.
Print Assumptions C38_try_number_is_string_iff.

(* timestamp of frame k = k * timespan + time_shift in Python's arithmetic: int*int+int is
   an exact integer; with a float operand the int is converted (zf = float(int)) and the
   operations are the binary64 ones *)
Theorem C38_time_of_spec : forall (ts sh : pytime) (k : nat),
  time_of ts sh k =
  match ts, sh with
  | TI t, TI b => TI (Z.of_nat k * t + b)
  | TI t, TF b => TF (zf (Z.of_nat k * t) + b)%float
  | TF t, TI b => TF (zf (Z.of_nat k) * t + zf b)%float
  | TF t, TF b => TF (zf (Z.of_nat k) * t + b)%float
  end.
Proof. exact time_of_spec. Qed.
Print Assumptions C38_time_of_spec.

Theorem C38_time_of_int : forall (t b : Z) (k : nat), time_of (TI t) (TI b) k = TI (Z.of_nat k * t + b).
Proof. exact time_of_int. Qed.
Print Assumptions C38_time_of_int.

(* integer timespan >= 0: later frames are not earlier (a statement about Z only) *)
Theorem C38_time_of_int_mono : forall (t b : Z) (k1 k2 : nat), (0 <= t)%Z -> k1 <= k2 ->
  (Z.of_nat k1 * t + b <= Z.of_nat k2 * t + b)%Z.
Proof. exact time_of_int_mono. Qed.
Print Assumptions C38_time_of_int_mono.

(* integer timespan <> 0: distinct frames get distinct timestamps *)
Theorem C38_time_of_int_inj : forall (t b : Z) (k1 k2 : nat), t <> 0%Z ->
  time_of (TI t) (TI b) k1 = time_of (TI t) (TI b) k2 -> k1 = k2.
Proof. exact time_of_int_inj. Qed.
Print Assumptions C38_time_of_int_inj.

(* cold (from_marbles): every parsed message (frame k, n) is delivered, in order, at
   time_of k;  stamp ts sh (k, n) = (time_of ts sh k, n) *)
Theorem C38_cold_case_times : forall (c : pcase) (ms : list (nat * notif pyval)),
  parse_model pyval (valof (c_lookup c)) true (s2l (c_str c)) = inr ms ->
  cold_case c = inr (map (stamp (c_ts c) (c_shift c)) ms).
Proof. exact cold_case_times. Qed.
Print Assumptions C38_cold_case_times.

(* on a well-formed diagram: each item's notifications at
   (index of its first character) * timespan + shift *)
Theorem C38_cold_case_diagram : forall (c : pcase) (d : list item),
  wf d = true -> remove_spaces (s2l (c_str c)) = render d -> stop_ok (elements d) = true ->
  cold_case c = inr (map (stamp (c_ts c) (c_shift c)) (denote pyval (valof (c_lookup c)) d)).
Proof. exact cold_case_diagram. Qed.
Print Assumptions C38_cold_case_diagram.

(* cold = timed parse when raise_stopped is set (from_marbles always sets it) *)
Theorem C38_cold_case_is_parse_case : forall c : pcase, c_rs c = true -> cold_case c = parse_case c.
Proof. exact cold_case_is_parse_case. Qed.
Print Assumptions C38_cold_case_is_parse_case.

(* hot, observer subscribed at the creation instant: the parsed messages of frame > 0 *)
Theorem C38_hot_case_times : forall (c : pcase) (ms : list (nat * notif pyval)),
  parse_model pyval (valof (c_lookup c)) true (s2l (c_str c)) = inr ms ->
  hot_case c = inr (map (stamp (c_ts c) (c_shift c)) (filter (fun m => Nat.ltb 0 (fst m)) ms)).
Proof. exact hot_case_times. Qed.
Print Assumptions C38_hot_case_times.

(* integer timespan >= 0 and integer shift: the delivered times are integers, start at the
   shift or later and never decrease *)
Theorem C38_cold_case_times_sorted : forall (c : pcase) (t b : Z) (ms : list (nat * notif pyval)),
  c_ts c = TI t -> c_shift c = TI b -> (0 <= t)%Z ->
  parse_model pyval (valof (c_lookup c)) true (s2l (c_str c)) = inr ms ->
  exists out, cold_case c = inr out /\ times_sorted b out.
Proof. exact cold_case_times_sorted. Qed.
Print Assumptions C38_cold_case_times_sorted.

(* the hypotheses are satisfiable: elements that stay strings / are read as numbers, a
   lookup hit and miss, and a timed cold run of a well-formed diagram *)
Example C38_value_examples :
  (forallb printable (l "x1") = true /\ special_float (map lower (body (l "x1"))) = false
   /\ non_numeric_head (body (l "x1")) /\ try_number (l "x1") = PStr (l "x1"))
  /\ (forallb printable (l "1x") = true /\ forallb numeric_char (l "1x") = false
      /\ special_float (map lower (body (l "1x"))) = false /\ try_number (l "1x") = PStr (l "1x"))
  /\ try_number (l "0042") = PInt 42
  /\ valof [(PStr (l "a"), PObj 7); (PInt 3, PObj 8)] (l "3") = PObj 8
  /\ valof [(PStr (l "a"), PObj 7); (PInt 3, PObj 8)] (l "b") = PStr (l "b").
Proof. repeat split; vm_compute; reflexivity. Qed.

Example C38_time_examples :
  cold_case (mkpcase true (TI 3) (TI 2) [] "-a(b,4)-|")
  = inr [(TI 5, NNext (PStr (l "a"))); (TI 8, NNext (PStr (l "b"))); (TI 8, NNext (PInt 4)); (TI 26, NCompleted)]
  /\ wf [ITicks 1; IElem (l "a"); IGroup [l "b"; l "4"]; ITicks 1; IEnd] = true
  /\ render [ITicks 1; IElem (l "a"); IGroup [l "b"; l "4"]; ITicks 1; IEnd] = l "-a(b,4)-|"
  /\ stop_ok (elements [ITicks 1; IElem (l "a"); IGroup [l "b"; l "4"]; ITicks 1; IEnd]) = true.
Proof. repeat split; vm_compute; reflexivity. Qed.
