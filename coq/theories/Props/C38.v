(* C38 -- marble diagrams mean what the documented syntax says.
   Model: Ops/Marbles.v (reactivex/observable/marbles.py: parse, and the scheduling
   done by from_marbles / hot), tied to the code by the correspondence of
   harness/props/C38.py.  All theorems hold for every value function [valof]
   (number parsing + lookup), every string / every well-formed diagram.
   Times: the parser's timestamp of frame k is  k * timespan + time_shift. *)
From Coq Require Import List Ascii String Bool Arith.
From RxVerif Require Import Ops.Marbles Ops.MarblesFacts.
Import ListNotations.
Open Scope char_scope.
Open Scope list_scope.

(* A well-formed diagram d (ticks, single/multi-character values, | , #, groups),
   written as ANY string s that equals its rendering once spaces are removed,
   parses to exactly its meaning [denote d]: every item contributes its
   notification(s) at frame = number of characters rendered before it (the index
   of its first character, spaces not counted); the members of a group all get
   the index of the opening parenthesis; values go through valof.  With
   raise_stopped the string is rejected iff an element follows a terminal one. *)
Theorem C38_parse_is_diagram_meaning :
  forall (V : Type) (valof : str -> V) (rs : bool) (d : list item) (s : str),
    wf d = true -> remove_spaces s = render d ->
    parse_model V valof rs s =
    if negb rs || stop_ok (elements d) then inr (denote V valof d) else inl ErrStopped.
Proof. exact parse_render. Qed.
Print Assumptions C38_parse_is_diagram_meaning.

(* what [denote] is: each item paired with the items before it; the frame is the
   length of the text before it *)
Theorem C38_meaning_is_index_of_first_character :
  forall (V : Type) (valof : str -> V) (d : list item),
    denote V valof d
    = flat_map (fun pi => msgs_of_item V valof (List.length (render (fst pi))) (snd pi)) (splits d)
    /\ forall pre it, In (pre, it) (splits d) <-> exists post, d = pre ++ it :: post.
Proof. exact denote_is_index. Qed.
Print Assumptions C38_meaning_is_index_of_first_character.

Theorem C38_spaces_are_ignored :
  forall (V : Type) (valof : str -> V) rs s s',
    remove_spaces s = remove_spaces s' -> parse_model V valof rs s = parse_model V valof rs s'.
Proof. exact parse_ignores_spaces. Qed.
Print Assumptions C38_spaces_are_ignored.

(* ALL strings: with raise_stopped nothing is produced after a terminal notification *)
Theorem C38_nothing_after_terminal :
  forall (V : Type) (valof : str -> V) (s : str) ms,
    parse_model V valof true s = inr ms ->
    forall pre m post, ms = pre ++ m :: post -> is_terminal V m = true -> post = [].
Proof. exact parse_nothing_after_terminal. Qed.
Print Assumptions C38_nothing_after_terminal.

(* ALL strings: timestamps never decrease along the message list *)
Theorem C38_frames_never_decrease :
  forall (V : Type) (valof : str -> V) rs (s : str) ms,
    parse_model V valof rs s = inr ms -> sorted_from V 0 ms.
Proof. exact parse_frames_sorted. Qed.
Print Assumptions C38_frames_never_decrease.

(* from_marbles / cold: a virtual-time scheduler (actions by due time, then
   insertion order) delivers exactly the parsed messages, in order *)
Theorem C38_cold_delivers_parsed :
  forall (V : Type) (valof : str -> V) (s : str) ms,
    parse_model V valof true s = inr ms -> cold_delivery V ms = ms.
Proof. exact cold_delivery_parsed. Qed.
Print Assumptions C38_cold_delivers_parsed.

(* hot: an observer subscribing at frame time sub (after the messages were
   scheduled) receives exactly the parsed messages due strictly later *)
Theorem C38_hot_delivers_parsed :
  forall (V : Type) (valof : str -> V) (s : str) ms sub,
    parse_model V valof true s = inr ms ->
    hot_delivery V sub ms = filter (fun m => Nat.ltb sub (fst m)) ms.
Proof. exact hot_delivery_parsed. Qed.
Print Assumptions C38_hot_delivers_parsed.

(* ---- non-vacuity / documented examples -------------------------------------------- *)

(* the docstring's example: "--(12,3,4)--" emits 12, 3, 4 at 2 and then advances by 8 *)
Example C38_doc_group :
  parse_model str idv true (l "--(12,3,4)--|")
  = inr [(2, NNext (l "12")); (2, NNext (l "3")); (2, NNext (l "4")); (12, NCompleted)].
Proof. vm_compute. reflexivity. Qed.

Example C38_doc_group_as_diagram :
  wf [ITicks 2; IGroup [l "12"; l "3"; l "4"]; ITicks 2; IEnd] = true
  /\ render [ITicks 2; IGroup [l "12"; l "3"; l "4"]; ITicks 2; IEnd] = l "--(12,3,4)--|"
  /\ denote str idv [ITicks 2; IGroup [l "12"; l "3"; l "4"]; ITicks 2; IEnd]
     = [(2, NNext (l "12")); (2, NNext (l "3")); (2, NNext (l "4")); (12, NCompleted)].
Proof. repeat split; vm_compute; reflexivity. Qed.

Example C38_spaces_and_multichar :
  parse_model str idv true (l "- ab - - c|") = inr [(1, NNext (l "ab")); (5, NNext (l "c")); (6, NCompleted)].
Proof. vm_compute. reflexivity. Qed.

Example C38_rejects_after_terminal :
  parse_model str idv true (l "-a|-b") = inl ErrStopped
  /\ parse_model str idv false (l "-a|-b") = inr [(1, NNext (l "a")); (2, NCompleted); (4, NNext (l "b"))]
  /\ parse_model str idv true (l "-a,b") = inl ErrComma.
Proof. repeat split; vm_compute; reflexivity. Qed.

(* outside the documented syntax (unbalanced parenthesis) the code silently drops the
   parenthesis WITHOUT advancing time: b is at index 2 but gets frame 1 *)
Example C38_unbalanced_parenthesis_quirk :
  parse_model str idv true (l "a(b") = inr [(0, NNext (l "a")); (1, NNext (l "b"))].
Proof. vm_compute. reflexivity. Qed.
