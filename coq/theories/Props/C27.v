(* C27 -- RefCountDisposable releases its resource only after all dependents.
   The underlying item is disposed at most once; exactly when (and only after) dispose() was called
   on the primary AND every dependent handed out was disposed; disposing a dependent twice releases
   it once; dependents requested after the release are inert.
   Part 1: all call histories of one thread, stated on the history and the observable log only
   (dependents are numbered in the order they were handed out; [rwf] = a history only disposes
   dependents that exist).  Part 2: ALL schedules of ANY number of threads: the invariant
   count = #undisposed dependents + #dispose()s of dependents in progress, is_disposed = primary
   and count = 0, and (#dispose() of the underlying) + (#threads about to call it) = is_disposed.
   Models tied to /repo by harness/props/C27.py. *)
From RxVerif Require Import Base.Prelude Core.Disposables Core.DisposablesFacts Core.DispConc Core.DispConcFacts
  Core.RefCountOnce Core.RefCountOnceFacts Core.DispConcFacts2 Core.RefCountFacts2.

(* ---- one thread: all call histories ------------------------------------------ *)
Local Open Scope nat_scope.

(* the number of dispose() calls on the underlying item is 1 if the object is released, else 0 *)
Theorem C27_underlying_disposed_iff_released :
  forall h,
  u_disposes (log r_step r_init h) = b2n (r_disposed (final r_step r_init h)).
Proof. exact rc_underlying_is_released_flag. Qed.
Print Assumptions C27_underlying_disposed_iff_released.

Theorem C27_at_most_once :
  forall h, u_disposes (log r_step r_init h) <= 1.
Proof. exact rc_at_most_once. Qed.
Print Assumptions C27_at_most_once.

Theorem C27_only_the_underlying :
  forall h j, j <> underlying -> disposes j (log r_step r_init h) = 0.
Proof. exact rc_only_underlying. Qed.
Print Assumptions C27_only_the_underlying.

(* ONLY AFTER: if the underlying item was disposed then dispose() was called on the primary and every
   dependent handed out was disposed -- except those requested after the release (which are inert) *)
Theorem C27_released_only_after_primary_and_all_dependents :
  forall h,
  u_disposes (log r_step r_init h) = 1 ->
  existsb is_rdispose h = true /\
  forall k, k < gets h ->
    dispd k h = true \/
    exists h1 h2, h = h1 ++ RGet :: h2 /\ gets h1 = k /\ u_disposes (log r_step r_init h1) = 1.
Proof. exact rc_released_only_after. Qed.
Print Assumptions C27_released_only_after_primary_and_all_dependents.

(* EXACTLY WHEN: if dispose() was called on the primary and every dependent handed out was disposed,
   the underlying item has been disposed (once) *)
Theorem C27_released_when_primary_and_all_dependents :
  forall h,
  rwf 0 h = true -> existsb is_rdispose h = true ->
  (forall k, k < gets h -> dispd k h = true) ->
  u_disposes (log r_step r_init h) = 1.
Proof. exact rc_released_when_all_done. Qed.
Print Assumptions C27_released_when_primary_and_all_dependents.

(* DOUBLE DISPOSE: disposing a dependent that was already disposed changes nothing and emits nothing *)
Theorem C27_dependent_disposed_twice_releases_once :
  forall h k,
  rwf 0 h = true -> dispd k h = true ->
  r_step (final r_step r_init h) (RDispDep k) = (final r_step r_init h, []).
Proof. exact rc_second_dispose_noop. Qed.
Print Assumptions C27_dependent_disposed_twice_releases_once.

Theorem C27_second_dispose_of_dependent_erasable :
  forall h k h',
  rwf 0 h = true -> dispd k h = true ->
  log r_step r_init (h ++ RDispDep k :: h') = log r_step r_init (h ++ h') /\
  final r_step r_init (h ++ RDispDep k :: h') = final r_step r_init (h ++ h').
Proof. exact rc_second_dispose_erasable. Qed.
Print Assumptions C27_second_dispose_of_dependent_erasable.

(* after the release nothing is disposed any more, whatever is called (in particular dependents
   requested afterwards are inert) *)
Theorem C27_inert_after_release :
  forall h1 h2 j,
  u_disposes (log r_step r_init h1) = 1 -> disposes j (log r_step (final r_step r_init h1) h2) = 0.
Proof. exact rc_after_release_silent. Qed.
Print Assumptions C27_inert_after_release.

Theorem C27_dependent_after_release_is_inert :
  forall h1,
  u_disposes (log r_step r_init h1) = 1 ->
  let s := final r_step r_init h1 in
  r_step s RGet = (RState (r_count s) (r_primary s) (r_disposed s) (r_deps s ++ [DInert false]), []).
Proof. exact rc_get_after_release_inert. Qed.
Print Assumptions C27_dependent_after_release_is_inert.

(* non-vacuity *)
Example C27_witness_seq :
  let h := [RGet; RGet; RDispose; RDispDep 0; RDispDep 0; RIsDisposed; RDispDep 1; RGet; RDispDep 2; RIsDisposed] in
  outs r_step r_init h = [[]; []; []; []; []; [OBool false]; [ODisp underlying]; []; []; [OBool true]] /\
  rwf 0 h = true /\ existsb is_rdispose h = true /\ gets h = 3.
Proof. vm_compute. repeat split. Qed.
Example C27_witness_all_done_hyp :
  let h := [RGet; RDispose; RDispDep 0] in
  rwf 0 h = true /\ existsb is_rdispose h = true /\ (forall k, k < gets h -> dispd k h = true).
Proof. cbn. repeat split. intros k Hk. assert (k = 0) as -> by (unfold gets in Hk; cbn in Hk; lia). reflexivity. Qed.

(* ---- any number of threads: all schedules -------------------------------------- *)
Local Close Scope nat_scope.
Local Open Scope Z_scope.

Theorem C27_invariant_all_interleavings :
  forall progs sched, rc_inv (rc_run progs sched).
Proof. exact rc_run_inv. Qed.
Print Assumptions C27_invariant_all_interleavings.

(* C27 under every interleaving, at every moment:
   - the underlying item receives at most one dispose();
   - if it received one, dispose() was executed on the primary (is_primary_disposed), the count is zero:
     no handed-out dependent is still undisposed and no dependent's dispose() is still in progress
     between taking the handle and the decrement -- each handle contributes at most one decrement
     however many threads dispose it, because its parent link is taken under its own lock;
   - when all calls have returned, it received exactly one iff the primary was disposed and every
     handed-out dependent was disposed. *)
Theorem C27_all_interleavings :
  forall progs sched,
  let c := rc_run progs sched in
  und_acc (plain (c_log c)) <= 1 /\
  (1 <= und_acc (plain (c_log c)) ->
   r_primary (c_sh c) = true /\ live (r_deps (c_sh c)) = 0%nat /\ rc_tokens c = 0) /\
  (quiescent c = true ->
   und_acc (plain (c_log c)) = b2z (r_primary (c_sh c) && (live (r_deps (c_sh c)) =? 0)%nat)).
Proof. exact refcount_conc. Qed.
Print Assumptions C27_all_interleavings.

Theorem C27_needs_primary_all_interleavings :
  forall progs sched,
  (forall p, In p progs -> ~ In RDispose p) ->
  und_acc (plain (c_log (rc_run progs sched))) = 0.
Proof. exact refcount_conc_needs_primary. Qed.
Print Assumptions C27_needs_primary_all_interleavings.

(* non-vacuity: two threads dispose the SAME dependent while a third disposes the primary; the
   underlying item is disposed once, by the thread whose decrement brought the count to zero *)
Example C27_witness_race :
  let c := rc_run [[RGet]; [RDispDep 0%nat]; [RDispose]; [RDispDep 0%nat]] [0; 1; 3; 2; 2; 1; 1; 1]%nat in
  c_log c = [(1%nat, ODisp underlying)] /\ quiescent c = true /\ r_count (c_sh c) = 0 /\
  und_acc (plain (c_log c)) = 1.
Proof. vm_compute. repeat split. Qed.
Example C27_witness_no_primary_hyp : forall p, In p [[RGet; RDispDep 0%nat]] -> ~ In RDispose p.
Proof. intros p [<-|[]]. intros [X|[X|[]]]; discriminate X. Qed.

(* ---- one release() per dependent, all schedules ---------------------------------- *)
Local Close Scope Z_scope.
Local Open Scope nat_scope.

(* DOUBLE DISPOSE under concurrency: however many threads dispose the k-th handle handed out, and
   however their actions interleave with each other and with everything else, parent.release() is
   entered for it at most once ([rc_release_calls] counts the scheduled steps that take the handle's
   parent link; InnerDisposable.dispose reads and clears the link in ONE locked block) *)
Theorem C27_release_at_most_once_per_dependent :
  forall progs sched k, rc_release_calls progs sched k <= 1.
Proof. exact rc_release_at_most_once. Qed.
Print Assumptions C27_release_at_most_once_per_dependent.

(* ... exactly once iff some dispose() of that handle executed its locked block and the handle is an
   InnerDisposable (not the inert Disposable() handed out after the release) *)
Theorem C27_release_exactly_when_parent_taken :
  forall progs sched k,
  rc_release_calls progs sched k = bnat (parentless (c_sh (rc_run progs sched)) k).
Proof. exact rc_release_exactly. Qed.
Print Assumptions C27_release_exactly_when_parent_taken.

(* ... and after it was entered, no continuation of the schedule enters it again *)
Theorem C27_release_never_again :
  forall progs s1 s2 k,
  rc_release_calls progs s1 k = 1 -> release_calls (rc_run progs s1) s2 k = 0.
Proof. exact rc_release_never_again. Qed.
Print Assumptions C27_release_never_again.

(* non-vacuity: three threads dispose the SAME dependent (thread 2 runs its locked block between the
   locked block of thread 1 and thread 1's release()), a second dependent is never disposed: one
   release() for handle 0, none for handle 1, the underlying item is not disposed although the
   primary is *)
Example C27_witness_same_dependent_three_threads :
  let progs := [[RGet; RGet]; [RDispDep 0]; [RDispDep 0]; [RDispDep 0; RDispose]] in
  let sched := [0; 0; 1; 2; 3; 1; 1; 3; 3] in
  rc_release_profile progs sched 2 = [1; 0] /\ quiescent (rc_run progs sched) = true /\
  c_log (rc_run progs sched) = [] /\ r_primary (c_sh (rc_run progs sched)) = true /\
  r_count (c_sh (rc_run progs sched)) = 1%Z.
Proof. vm_compute. repeat split. Qed.
Example C27_witness_release_never_again_hyp :
  rc_release_calls [[RGet]; [RDispDep 0]; [RDispDep 0]] [0; 1] 0 = 1.
Proof. vm_compute. reflexivity. Qed.

(* ---- inert after the release / only the underlying / only after, on calls -------------- *)
(* INERT AFTER THE RELEASE, every interleaving: (1) nothing but the underlying item is ever disposed;
   (2) once the object is released (after any schedule s1), for a handle j handed out afterwards
   parent.release() is never entered, under any continuation s2 and however many threads dispose it *)
Theorem C27_inert_all_interleavings :
  forall progs s1 s2 j,
  (forall i, i <> underlying -> zdisp i (plain (c_log (rc_run progs s1))) = 0%Z) /\
  (r_disposed (c_sh (rc_run progs s1)) = true ->
   length (r_deps (c_sh (rc_run progs s1))) <= j ->
   rc_release_calls progs (s1 ++ s2) j = 0).
Proof. exact refcount_conc_inert. Qed.
Print Assumptions C27_inert_all_interleavings.

(* ... such a handle is a fresh Disposable(), never an InnerDisposable, and the object stays released *)
Theorem C27_handles_after_release_inert :
  forall progs s1 s2 j d,
  r_disposed (c_sh (rc_run progs s1)) = true ->
  length (r_deps (c_sh (rc_run progs s1))) <= j ->
  nth_error (r_deps (c_sh (rc_run progs (s1 ++ s2)))) j = Some d ->
  (exists b, d = DInert b) /\ r_disposed (c_sh (rc_run progs (s1 ++ s2))) = true.
Proof. exact refcount_conc_handles_after_release. Qed.
Print Assumptions C27_handles_after_release_inert.

(* ONLY AFTER, ON CALLS, every interleaving, every moment: if the underlying item has been disposed then
   (1) some thread has started a dispose() call on the primary, (2) for every InnerDisposable handed out
   whose parent link is cleared some thread has started a dispose() call on that very handle, and
   (3) no InnerDisposable handed out still has its parent link *)
Theorem C27_only_after_calls_all_interleavings :
  forall progs sched,
  let c := rc_run progs sched in
  (1 <= und_acc (plain (c_log c)))%Z ->
  (exists k t, nth_error (c_ths c) k = Some t /\ In RDispose (t_hist t)) /\
  (forall j, nth_error (r_deps (c_sh c)) j = Some (DInner false) ->
     exists k t, nth_error (c_ths c) k = Some t /\ In (RDispDep j) (t_hist t)) /\
  (forall j d, nth_error (r_deps (c_sh c)) j = Some d -> d <> DInner true).
Proof. exact refcount_conc_only_after_calls. Qed.
Print Assumptions C27_only_after_calls_all_interleavings.

(* ... in terms of the program texts *)
Theorem C27_only_after_calls_in_programs :
  forall progs sched,
  let c := rc_run progs sched in
  (1 <= und_acc (plain (c_log c)))%Z ->
  (exists p, In p progs /\ In RDispose p) /\
  (forall j, nth_error (r_deps (c_sh c)) j = Some (DInner false) -> exists p, In p progs /\ In (RDispDep j) p).
Proof. exact refcount_conc_only_after_calls_progs. Qed.
Print Assumptions C27_only_after_calls_in_programs.

(* RELEASE POINT, one thread: the call [o] that makes the underlying item disposed comes when dispose()
   has been called on the primary and on EVERY dependent handed out so far (o included) -- no exception
   for later handles, since none was requested after a release *)
Theorem C27_release_point :
  forall h1 o,
  u_disposes (log r_step r_init h1) = 0 ->
  u_disposes (log r_step r_init (h1 ++ [o])) = 1 ->
  existsb is_rdispose (h1 ++ [o]) = true /\
  forall k, k < gets (h1 ++ [o]) -> dispd k (h1 ++ [o]) = true.
Proof. exact rc_release_point. Qed.
Print Assumptions C27_release_point.

(* non-vacuity: released after [0;1;1;2;2;2] (one handle handed out); thread 0 then requests a second
   handle (inert) and thread 3 disposes it: no release() for it, nothing more is disposed *)
Example C27_witness_inert_after_release :
  let progs := [[RGet; RGet]; [RDispose]; [RDispDep 0]; [RDispDep 1]] in
  let s1 := [0; 1; 1; 2; 2; 2; 2] in let s2 := [0; 3] in
  r_disposed (c_sh (rc_run progs s1)) = true /\ length (r_deps (c_sh (rc_run progs s1))) = 1 /\
  r_deps (c_sh (rc_run progs (s1 ++ s2))) = [DInner false; DInert true] /\
  c_log (rc_run progs (s1 ++ s2)) = [(2, ODisp underlying)] /\ quiescent (rc_run progs (s1 ++ s2)) = true /\
  (1 <= und_acc (plain (c_log (rc_run progs s1))))%Z.
Proof. vm_compute. repeat split; discriminate. Qed.
Example C27_witness_release_point :
  let h1 := [RGet; RDispose; RGet; RDispDep 1] in
  u_disposes (log r_step r_init h1) = 0 /\ u_disposes (log r_step r_init (h1 ++ [RDispDep 0])) = 1.
Proof. vm_compute. split; reflexivity. Qed.
