(* C07 -- slicing an observable behaves like slicing a list.
   [slice_plan] is REGENERATED from /repo/reactivex/operators/_slice.py on every
   run (Gen/SliceGen.v); these theorems are re-checked against it. *)
From RxVerif Require Import Base.Prelude Ops.Machine Ops.MachineFacts Ops.Elementwise
  Ops.Slice Ops.SliceFacts Gen.SliceGen Ops.SliceProof Ops.SliceStream.

(* For every list (shorter than sys.maxsize), all start/stop in Z or None and
   every step >= 1 or None: slice_ builds a pipeline (no exception), every
   take/skip count in it is admissible, and the pipeline computes exactly
   list(source)[start:stop:step]. *)
Theorem C07_slice_is_list_slice :
  forall (A : Type) (l : list A) (start stop step : option Z),
    zlen l <= maxsize -> step_ok step ->
    exists plan, slice_plan start stop step = Some plan
              /\ forallb pop_ok plan = true
              /\ run_plan plan l = py_slice l start stop step.
Proof. exact @slice_plan_correct. Qed.
Print Assumptions C07_slice_is_list_slice.

(* the firstn/skipn reading of Python slicing agrees with the index-based one *)
Theorem C07_spec_readings_agree :
  forall (A : Type) (l : list A) (start stop step : option Z),
    step_ok step -> py_slice l start stop step = py_slice_idx l start stop step.
Proof. exact @py_slice_idx_agrees. Qed.
Print Assumptions C07_spec_readings_agree.

(* non-vacuity: the formerly failing input  range(10)[-3:9]  *)
Example C07_witness :
  exists plan, slice_plan (Some (-3)) (Some 9) None = Some plan
            /\ run_plan plan [0;1;2;3;4;5;6;7;8;9] = [7;8].
Proof. eexists; split; vm_compute; reflexivity. Qed.

(* the integer-index form: Observable.__getitem__ turns source[i] into slice_(i, i + 1, 1) (that mapping is
   tied by the harness run of source[i]); the plan built for it computes list(source)[i:i+1] *)
Theorem C07_getitem_int :
  forall (A : Type) (l : list A) (i : Z),
    zlen l <= maxsize ->
    exists plan, slice_plan (Some i) (Some (i + 1)) (Some 1) = Some plan
              /\ forallb pop_ok plan = true
              /\ run_plan plan l = py_slice l (Some i) (Some (i + 1)) (Some 1).
Proof. exact @getitem_int_correct. Qed.
Print Assumptions C07_getitem_int.

(* ... which is the i-th element (if any) for i >= 0 -- and nothing for i = -1 (list[-1:0] is empty) *)
Theorem C07_getitem_int_nonneg :
  forall (A : Type) (l : list A) (i : Z), 0 <= i ->
    py_slice l (Some i) (Some (i + 1)) (Some 1) = firstn 1 (skipn (Z.to_nat i) l).
Proof. exact @getitem_int_nonneg. Qed.
Print Assumptions C07_getitem_int_nonneg.
Theorem C07_getitem_minus_one_is_empty :
  forall (A : Type) (l : list A), py_slice l (Some (-1)) (Some 0) (Some 1) = [].
Proof. exact @getitem_int_minus_one. Qed.
Print Assumptions C07_getitem_minus_one_is_empty.

Example C07_witness_getitem :
  exists plan, slice_plan (Some (-3)) (Some (-2)) (Some 1) = Some plan
            /\ run_plan plan [0;1;2;3;4;5;6;7;8;9] = [7].
Proof. eexists; split; vm_compute; reflexivity. Qed.

(* ---- stream level (Ops/SliceStream.v) ---------------------------------------------------------------------
   [slice_mealy plan] is the regenerated plan read as the pipeline of Mealy machines the code builds: each
   plan step is the machine of that operator in Ops/Elementwise.v (op_take, op_skip, op_take_last,
   op_skip_last, op_filter_indexed, op_map_indexed, op_filter, op_map), composed left to right.
   Completing source: exactly the list slice, AND THEN COMPLETION. *)
Theorem C07_slice_stream :
  forall (A : Type) (l : list A) (start stop step : option Z),
    zlen l <= maxsize -> step_ok step ->
    exists plan, slice_plan start stop step = Some plan
      /\ untag (exec (slice_mealy plan) (events l TDone)) = events (py_slice l start stop step) TDone.
Proof. exact @slice_stream_done. Qed.
Print Assumptions C07_slice_stream.

(* Failing source: the error passes through -- after the elements of the slice, or after NOTHING when the plan
   has a take_last stage (negative start: the elements are held back until a completion that never comes) --
   unless the leading take(stop) had already completed the pipeline, and then the output is the one of the
   completing source. *)
Theorem C07_slice_stream_error :
  forall (A : Type) (l : list A) (start stop step : option Z) e,
    zlen l <= maxsize -> step_ok step ->
    exists plan, slice_plan start stop step = Some plan
      /\ let out := untag (exec (slice_mealy plan) (events l (TErr e))) in
         out = events (py_slice l start stop step) (TErr e)
         \/ (out = [Err e] /\ exists n, In (PTakeLast n) plan)
         \/ (out = events (py_slice l start stop step) TDone
             /\ exists n r, plan = PTake n :: r /\ n <= zlen l).
Proof. exact @slice_stream_error. Qed.
Print Assumptions C07_slice_stream_error.

(* every plan step as a machine, on a stream with ANY termination, is its list function (take: completes at its
   n-th element; take_last: loses everything on a failing source) -- the link between run_pop and the machines *)
Theorem C07_plan_step_is_its_machine : forall (A : Type) (p : pop) (l : list (Z * A)) t,
  pop_sok p = true ->
  untag (exec (pop_mealy p) (events l t)) = events (fst (run_pop_ev p (l, t))) (snd (run_pop_ev p (l, t))).
Proof. exact @pop_stream. Qed.
Print Assumptions C07_plan_step_is_its_machine.
Theorem C07_plan_is_its_pipeline : forall (A : Type) (plan : list pop) (l : list (Z * A)) t,
  forallb pop_sok plan = true ->
  untag (exec (plan_mealy plan) (events l t))
  = events (fst (run_plan_ev plan (l, t))) (snd (run_plan_ev plan (l, t))).
Proof. exact @plan_stream. Qed.
Print Assumptions C07_plan_is_its_pipeline.
Theorem C07_plan_on_completing_source : forall (A : Type) (plan : list pop) (l : list (Z * A)),
  run_plan_ev plan (l, TDone) = (run_tagged plan l, TDone).
Proof. exact @run_plan_ev_done. Qed.
Print Assumptions C07_plan_on_completing_source.

(* non-vacuity: the three outcomes on a failing source -- range(5)[1:9] + error, [-2:] + error, [1:3] + error *)
Example C07_witness_stream_error :
  (exists plan, slice_plan (Some 1) (Some 9) None = Some plan
     /\ untag (exec (slice_mealy plan) (events [0;1;2;3;4] (TErr 7))) = [Next 1; Next 2; Next 3; Next 4; Err 7])
  /\ (exists plan, slice_plan (Some (-2)) None None = Some plan
     /\ untag (exec (slice_mealy plan) (events [0;1;2;3;4] (TErr 7))) = [Err 7]
     /\ untag (exec (slice_mealy plan) (events [0;1;2;3;4] TDone)) = [Next 3; Next 4; Done])
  /\ (exists plan, slice_plan (Some 1) (Some 3) None = Some plan
     /\ untag (exec (slice_mealy plan) (events [0;1;2;3;4] (TErr 7))) = [Next 1; Next 2; Done]).
Proof. repeat split; eexists; repeat split; vm_compute; reflexivity. Qed.
