(* C07 -- slicing an observable behaves like slicing a list.
   [slice_plan] is REGENERATED from /repo/reactivex/operators/_slice.py on every
   run (Gen/SliceGen.v); these theorems are re-checked against it. *)
From RxVerif Require Import Base.Prelude Ops.Slice Ops.SliceFacts Gen.SliceGen Ops.SliceProof.

(* For every list (shorter than sys.maxsize), all start/stop in Z or None and
   every step >= 1 or None: slice_ builds a pipeline (no exception), every
   take/skip count in it is admissible, and the pipeline computes exactly
   list(source)[start:stop:step]. *)
Theorem C07_slice_is_list_slice :
  forall (A : Type) (l : list A) (start stop step : option Z),
    zlen l <= maxsize -> step_ok step ->
    exists plan, slice_plan start stop step = Some plan
              /\ forallb pop_ok plan = true
              /\ run_plan plan l = py_slice l start stop step.
Proof. exact @slice_plan_correct. Qed.
Print Assumptions C07_slice_is_list_slice.

(* the firstn/skipn reading of Python slicing agrees with the index-based one *)
Theorem C07_spec_readings_agree :
  forall (A : Type) (l : list A) (start stop step : option Z),
    step_ok step -> py_slice l start stop step = py_slice_idx l start stop step.
Proof. exact @py_slice_idx_agrees. Qed.
Print Assumptions C07_spec_readings_agree.

(* non-vacuity: the formerly failing input  range(10)[-3:9]  *)
Example C07_witness :
  exists plan, slice_plan (Some (-3)) (Some 9) None = Some plan
            /\ run_plan plan [0;1;2;3;4;5;6;7;8;9] = [7;8].
Proof. eexists; split; vm_compute; reflexivity. Qed.

(* the integer-index form: Observable.__getitem__ turns source[i] into slice_(i, i + 1, 1) (that mapping is
   tied by the harness run of source[i]); the plan built for it computes list(source)[i:i+1] *)
Theorem C07_getitem_int :
  forall (A : Type) (l : list A) (i : Z),
    zlen l <= maxsize ->
    exists plan, slice_plan (Some i) (Some (i + 1)) (Some 1) = Some plan
              /\ forallb pop_ok plan = true
              /\ run_plan plan l = py_slice l (Some i) (Some (i + 1)) (Some 1).
Proof. exact @getitem_int_correct. Qed.
Print Assumptions C07_getitem_int.

(* ... which is the i-th element (if any) for i >= 0 -- and nothing for i = -1 (list[-1:0] is empty) *)
Theorem C07_getitem_int_nonneg :
  forall (A : Type) (l : list A) (i : Z), 0 <= i ->
    py_slice l (Some i) (Some (i + 1)) (Some 1) = firstn 1 (skipn (Z.to_nat i) l).
Proof. exact @getitem_int_nonneg. Qed.
Print Assumptions C07_getitem_int_nonneg.
Theorem C07_getitem_minus_one_is_empty :
  forall (A : Type) (l : list A), py_slice l (Some (-1)) (Some 0) (Some 1) = [].
Proof. exact @getitem_int_minus_one. Qed.
Print Assumptions C07_getitem_minus_one_is_empty.

Example C07_witness_getitem :
  exists plan, slice_plan (Some (-3)) (Some (-2)) (Some 1) = Some plan
            /\ run_plan plan [0;1;2;3;4;5;6;7;8;9] = [7].
Proof. eexists; split; vm_compute; reflexivity. Qed.
