(* C07 -- slicing an observable behaves like slicing a list.
   [slice_plan] is REGENERATED from /repo/reactivex/operators/_slice.py on every
   run (Gen/SliceGen.v); these theorems are re-checked against it. *)
From RxVerif Require Import Base.Prelude Ops.Slice Ops.SliceFacts Gen.SliceGen Ops.SliceProof.

(* For every list (shorter than sys.maxsize), all start/stop in Z or None and
   every step >= 1 or None: slice_ builds a pipeline (no exception), every
   take/skip count in it is admissible, and the pipeline computes exactly
   list(source)[start:stop:step]. *)
Theorem C07_slice_is_list_slice :
  forall (A : Type) (l : list A) (start stop step : option Z),
    zlen l <= maxsize -> step_ok step ->
    exists plan, slice_plan start stop step = Some plan
              /\ forallb pop_ok plan = true
              /\ run_plan plan l = py_slice l start stop step.
Proof. exact @slice_plan_correct. Qed.
Print Assumptions C07_slice_is_list_slice.

(* the firstn/skipn reading of Python slicing agrees with the index-based one *)
Theorem C07_spec_readings_agree :
  forall (A : Type) (l : list A) (start stop step : option Z),
    step_ok step -> py_slice l start stop step = py_slice_idx l start stop step.
Proof. exact @py_slice_idx_agrees. Qed.
Print Assumptions C07_spec_readings_agree.

(* non-vacuity: the formerly failing input  range(10)[-3:9]  *)
Example C07_witness :
  exists plan, slice_plan (Some (-3)) (Some 9) None = Some plan
            /\ run_plan plan [0;1;2;3;4;5;6;7;8;9] = [7;8].
Proof. eexists; split; vm_compute; reflexivity. Qed.
