(* C16 -- rate-limiting operators follow their timing rules.

   Machines: Ops/Timed.v (written from reactivex/operators/_debounce.py
   (debounce_ and throttle_with_mapper_), _throttlefirst.py, _sample.py), tied
   to the implementation by the K2 correspondence on delivered input sequences
   (harness/props/C16.py).  Closed world, notation and conventions: see
   Props/C15.v (Ops/TimedSim.v: timers fire exactly at their due time; at equal
   instants the source's notification goes first). *)
From RxVerif Require Import Base.Prelude Ops.Machine Ops.Multi Ops.MultiFacts Ops.Timed Ops.TimedSim
  Ops.TimedFacts Ops.TimedWindowFacts Ops.TimedSubFacts Ops.TimedMapperFacts Ops.TimedSampleFacts.

(* debounce(d) on a conforming timeline, due time dd = max(0, d): an element is
   emitted at t + dd iff the NEXT notification arrives strictly later than t + dd
   (a notification exactly at t + dd comes first: a newer element replaces it, an
   error drops it); the last element is flushed by the completion if that comes
   first.  No hypothesis on the instants. *)
Theorem C16_debounce_spec : forall A d t0 (tl : list (Z * A)) tm,
  timed_emits t0 (simulate (x_debounce d) t0 (ext_of (tevents tl tm))) = deb_out (clamp d) tl tm.
Proof. exact @debounce_spec. Qed.
Print Assumptions C16_debounce_spec.

(* the same for ANY notification sequence of the source: the walk with the pending element *)
Theorem C16_debounce_walk : forall A d t0 (es : list (Z * ev A)),
  timed_emits t0 (simulate (x_debounce d) t0 (ext_of es)) = deb_spec (clamp d) None es.
Proof. exact @debounce_sim_spec. Qed.
Print Assumptions C16_debounce_walk.

(* throttle_first(w): exactly the greedy subsequence -- an element passes iff it
   is the first or at least w after the last one that PASSED; terminals pass *)
Theorem C16_throttle_first_spec : forall A t0 w (es : list (Z * ev A)),
  timed_emits t0 (simulate (x_throttle_first w) t0 (ext_of es)) = tf_spec w None es.
Proof. exact @throttle_first_spec. Qed.
Print Assumptions C16_throttle_first_spec.

Theorem C16_throttle_first_gaps : forall A w (es : list (Z * ev A)) last,
  gaps_ok w last (tf_spec w last es).
Proof. exact @tf_spec_gaps. Qed.
Print Assumptions C16_throttle_first_gaps.

(* sample(sampler observable): for EVERY interleaving of the two ports (0 =
   source, 1 = sampler; non-conforming ones included) each sampler tick (its
   on_next and its on_completed) emits the latest element not sampled yet, and
   completes the sequence once the source has completed *)
Theorem C16_sample_observable_spec : forall A t0 (ins : list (Z * nat * ev A)),
  timed_emits t0 (simulate x_sample_observable t0 (ext2_of ins)) = smp_spec true true false None ins.
Proof. exact @sample_observable_spec. Qed.
Print Assumptions C16_sample_observable_spec.

(* the property's sentence for sample(sampler), as a statement about the machine's output: if
   the element x is emitted at time t, then in the timeline the operator listens to ([heard]:
   every port up to and including its first terminal notification -- the timeline itself when it
   is conforming) the source delivered x at some tx, a sampler tick (its on_next or its
   on_completed) occurs at t, and BETWEEN the two the source delivered no other element (x is
   the latest) and the sampler did not notify (x had not been sampled yet) *)
Theorem C16_sample_emits_latest_unsampled : forall A t0 (ins : list (Z * nat * ev A)) t x,
  In (t, Next x) (timed_emits t0 (simulate x_sample_observable t0 (ext2_of ins))) ->
  exists pre tx mid e rest,
    heard true true ins = pre ++ (tx, 0%nat, Next x) :: mid ++ (t, 1%nat, e) :: rest /\
    is_tick e /\ no_src_next mid /\ no_sampler mid.
Proof. exact @sample_machine_emits_latest_unsampled. Qed.
Print Assumptions C16_sample_emits_latest_unsampled.

(* on a timeline that is its own [heard] the decomposition is of the timeline itself; this is
   the case whenever only ports 0 and 1 occur and no port notifies after its own terminal
   notification *)
Theorem C16_sample_emits_latest_unsampled_conforming : forall A t0 (ins : list (Z * nat * ev A)) t x,
  heard true true ins = ins ->
  In (t, Next x) (timed_emits t0 (simulate x_sample_observable t0 (ext2_of ins))) ->
  exists pre tx mid e rest,
    ins = pre ++ (tx, 0%nat, Next x) :: mid ++ (t, 1%nat, e) :: rest /\
    is_tick e /\ no_src_next mid /\ no_sampler mid.
Proof. exact @sample_emits_latest_unsampled_own. Qed.
Print Assumptions C16_sample_emits_latest_unsampled_conforming.

Theorem C16_conforming_timeline_is_heard : forall A (ins : list (Z * nat * ev A)),
  port_conforming ins -> heard true true ins = ins.
Proof. exact @heard_conforming. Qed.
Print Assumptions C16_conforming_timeline_is_heard.

(* sample(period): the sampler fires at t0 + p, t0 + 2p, ... (p = max(0, period));
   a notification of the source up to and AT a firing instant is seen by that
   firing.  The periodic timer never stops by itself: the statement holds for
   every horizon [fuel] (number of inputs delivered). *)
Theorem C16_sample_time_spec : forall A p t0 fuel (es : list (Z * ev A)),
  sim_emits (snd (simulate_fuel (x_sample_time p) fuel t0 (ext_of es)))
  = smpt_spec fuel (clamp p) (t0 + clamp p) true false None es.
Proof. exact @sample_time_spec. Qed.
Print Assumptions C16_sample_time_spec.

(* throttle_with_mapper, step level (the instants at which the throttle
   observables notify are inputs).  This is the step lemma; the run-level statements
   are C16_throttle_with_mapper_walk / C16_throttle_with_mapper_emitted_cause at the
   end of this file. *)
Theorem C16_throttle_with_mapper_step_partial : forall A (mapper : A -> nat -> res unit) (s : thm_st) now,
  let m := x_throttle_with_mapper mapper in
  (forall k e cid, k <> 0%nat -> lookup k (tm_subs s) = Some cid -> not_err e ->
     emitted_cmds (snd (fst (x_step m s now (ISrc k e))))
     = (if tm_has s && Nat.eqb (tm_id s) cid then opt_list (tm_value s) else [])
     /\ tm_has (fst (fst (x_step m s now (ISrc k e)))) = false
     /\ snd (x_step m s now (ISrc k e)) = Cont)
  /\ (forall x u, mapper x (tm_cnt s) = Ok u ->
        x_step m s now (ISrc 0%nat (Next x))
        = (ThmSt true (Some x) (S (tm_id s)) ((S (tm_cnt s), S (tm_id s)) :: tm_subs s) (S (tm_cnt s)),
           unsub_prev (tm_cnt s) ++ [CSub (S (tm_cnt s))], Cont))
  /\ (emitted_cmds (snd (fst (x_step m s now (ISrc 0%nat Done)))) = (if tm_has s then opt_list (tm_value s) else [])
      /\ snd (x_step m s now (ISrc 0%nat Done)) = Complete)
  /\ (forall k c, snd (x_step m s now (ISrc k (Err c))) = Fail c
                  /\ emitted_cmds (snd (fst (x_step m s now (ISrc k (Err c))))) = [])
  /\ (forall x c, mapper x (tm_cnt s) = Raise c -> snd (x_step m s now (ISrc 0%nat (Next x))) = Fail c).
Proof. exact @throttle_with_mapper_step_partial. Qed.
Print Assumptions C16_throttle_with_mapper_step_partial.

(* ---- non-vacuity / worked instances ----------------------------------------- *)
(* gap exactly the due time: the newer element wins; completion flushes the pending one *)
Example C16_ex_debounce :
  timed_emits 0 (simulate (x_debounce 10) 0 (ext_of (tevents [(0, 1); (10, 2); (25, 0); (30, 3)] (TTDone 32))))
  = [(20, Next 2); (32, Next 3); (32, Done)].
Proof. vm_compute. reflexivity. Qed.

Example C16_ex_debounce_error_drops :
  timed_emits 0 (simulate (x_debounce 10) 0 (ext_of (tevents [(0, 1)] (TTErr 10 7)))) = [(10, Err 7)].
Proof. vm_compute. reflexivity. Qed.

Example C16_ex_throttle_first :
  timed_emits 0 (simulate (x_throttle_first 10) 0 (ext_of (tevents [(0, 1); (5, 2); (10, 0); (19, 3); (20, 4)] (TTDone 20))))
  = [(0, Next 1); (10, Next 0); (20, Next 4); (20, Done)].
Proof. vm_compute. reflexivity. Qed.

Example C16_ex_sample_time :
  sim_emits (snd (simulate_fuel (x_sample_time 10) 12 0 (ext_of (tevents [(3, 1); (10, 2); (25, 0)] (TTDone 31)))))
  = [(10, Next 2); (30, Next 0); (40, Done)].
Proof. vm_compute. reflexivity. Qed.

Example C16_ex_sample_observable :
  timed_emits 0 (simulate x_sample_observable 0
                   (ext2_of [(1, 0%nat, Next 5); (2, 0%nat, Next 0); (3, 1%nat, Next 9); (4, 1%nat, Next 9);
                             (5, 0%nat, Next 7); (6, 0%nat, Done); (7, 1%nat, Done)]))
  = [(3, Next 0); (7, Next 7); (7, Done)].
Proof. vm_compute. reflexivity. Qed.

(* the hypotheses of C16_sample_emits_latest_unsampled(_conforming) hold on the timeline of
   C16_ex_sample_observable: an element (7 at time 7) is emitted, and the timeline is its own [heard] *)
Example C16_ex_sample_hyp :
  let ins := [(1, 0%nat, Next 5); (2, 0%nat, Next 0); (3, 1%nat, Next 9); (4, 1%nat, Next 9);
              (5, 0%nat, Next 7); (6, 0%nat, Done); (7, 1%nat, Done)] in
  In (7, Next 7) (timed_emits 0 (simulate x_sample_observable 0 (ext2_of ins))) /\ heard true true ins = ins.
Proof. vm_compute. split; [tauto|reflexivity]. Qed.

(* ==== throttle_with_mapper at run level (Ops/ThrottleMapperRun.v) ==================== *)
From RxVerif Require Import Ops.SimPortSteps Ops.ThrottleMapperRun.

(* throttle_with_mapper over ALL interleavings of the source (port 0) and of the throttle
   observables the mapper makes (port j+1 for the j-th accepted element; non-conforming
   timelines included), from any start instant: the closed world equals the walk [thm_spec]
   (cnt = elements accepted so far, pend = the latest element while its throttle observable has
   not fired): a new element replaces the pending one; the first on_next / on_completed of the
   throttle observable of the LATEST element emits it; older throttle observables are not
   heard; completion flushes the pending element; an error of the source, of the current
   throttle observable, or raised by the mapper ends the run and drops it. *)
Theorem C16_throttle_with_mapper_walk : forall A (mapper : A -> nat -> res unit) t0 (ins : list (Z * nat * ev A)),
  timed_emits t0 (simulate (x_throttle_with_mapper mapper) t0 (ext2_of ins)) = thm_spec mapper 0 None ins.
Proof. exact @throttle_with_mapper_walk. Qed.
Print Assumptions C16_throttle_with_mapper_walk.

(* the property's sentence: if x is emitted at t, the source delivered x at some tx as its
   (count0 pre)-th notification; since then neither the source nor the throttle observable of x
   (port S (count0 pre)) notified, until -- at t -- that throttle observable fired (on_next or
   on_completed) or the source completed *)
Theorem C16_throttle_with_mapper_emitted_cause :
  forall A (mapper : A -> nat -> res unit) t0 (ins : list (Z * nat * ev A)) t x,
  In (t, Next x) (timed_emits t0 (simulate (x_throttle_with_mapper mapper) t0 (ext2_of ins))) ->
  exists pre tx mid k e rest,
    ins = pre ++ (tx, 0%nat, Next x) :: mid ++ (t, k, e) :: rest
    /\ port_silent 0%nat mid /\ port_silent (S (count0 pre)) mid
    /\ ((k = S (count0 pre) /\ fires e) \/ (k = 0%nat /\ e = Done)).
Proof. exact @throttle_with_mapper_emitted_cause. Qed.
Print Assumptions C16_throttle_with_mapper_emitted_cause.

(* 5 is replaced by 6 before its throttle observable (port 1) fires, and that late firing is not
   heard; 6 is delivered when ITS throttle observable (port 2) fires; 7 is still pending when
   the source completes and is flushed.  Machine and walk agree, and the hypothesis of
   C16_throttle_with_mapper_emitted_cause holds (6 is emitted at 4). *)
Example C16_ex_throttle_with_mapper :
  let mapper := fun (_ : Z) (_ : nat) => Ok tt in
  let ins := [(1, 0%nat, Next 5); (2, 0%nat, Next 6); (3, 1%nat, Next 0); (4, 2%nat, Next 0);
              (5, 0%nat, Next 7); (6, 0%nat, Done)] in
  thm_spec mapper 0 None ins = [(4, Next 6); (6, Next 7); (6, Done)]
  /\ timed_emits 0 (simulate (x_throttle_with_mapper mapper) 0 (ext2_of ins)) = [(4, Next 6); (6, Next 7); (6, Done)]
  /\ In (4, Next 6) (timed_emits 0 (simulate (x_throttle_with_mapper mapper) 0 (ext2_of ins))).
Proof. vm_compute. repeat split; tauto. Qed.
