(* C10 -- sequential composition runs one source at a time, in order.
   Machines: Ops/Combinators.v (x_concat, x_catch, x_retry, x_repeat, x_oern,
   x_while_do, x_do_while, x_catch_handler; x_concat_lazy, x_catch_lazy, x_oern_f for
   lazy iterables / for_in / factory arguments), run by the runner of Ops/Multi.v. *)
From RxVerif Require Import Base.Prelude Ops.Machine Ops.Multi Ops.MultiFacts Ops.RunLemmas
  Ops.Combinators Ops.SequentialFacts Ops.CatchFacts Ops.RepeatFacts Ops.LazySeqFacts
  Ops.SequentialMore.

(* for EVERY input sequence (arbitrary interleaving of all sources, conforming
   or not), at every moment at most one source is subscribed *)
Theorem C10_concat_one_source_at_a_time : forall A n (ins : list (Z * inp A)),
  (length (r_live (snd (run (x_concat n) ins))) <= 1)%nat.
Proof. exact @concat_one_at_a_time. Qed.
Print Assumptions C10_concat_one_source_at_a_time.

(* the output is the concatenation of the consumed sources' elements; an error
   is passed on and ends the sequence; after the last source: completion *)
Theorem C10_concat_closed_form : forall A (srcs : list (list A * term)),
  emitted (fst (run (x_concat (length srcs)) (seq_env_from 0 srcs))) = concat_spec srcs.
Proof. exact @concat_closed_form. Qed.
Print Assumptions C10_concat_closed_form.

(* counts, for EVERY input sequence *)
Theorem C10_retry_subscribes_at_most_n : forall A c (ins : list (Z * inp A)),
  (count_subs (map snd (fst (run (x_retry (A:=A) (Some c)) ins))) <= c)%nat.
Proof. exact @retry_subscribes_at_most. Qed.
Print Assumptions C10_retry_subscribes_at_most_n.

Theorem C10_repeat_subscribes_at_most_n : forall A c (ins : list (Z * inp A)),
  (count_subs (map snd (fst (run (x_repeat (A:=A) (Some c)) ins))) <= c)%nat.
Proof. exact @repeat_subscribes_at_most. Qed.
Print Assumptions C10_repeat_subscribes_at_most_n.

(* a new subscription is made only in the handler of the termination the
   operator continues on *)
Theorem C10_concat_next_only_on_completion : forall A n cur now (i : inp A),
  (0 < count_csub (snd (fst (x_step (x_concat n) cur now i))))%nat -> exists k, i = ISrc k Done.
Proof. exact @concat_subscribes_on_completion. Qed.
Theorem C10_catch_next_only_on_error : forall A n st now (i : inp A),
  (0 < count_csub (snd (fst (x_step (x_catch n) st now i))))%nat -> exists k e, i = ISrc k (Err e).
Proof. exact @catch_subscribes_on_error. Qed.
Theorem C10_retry_next_only_on_error : forall A c used now (i : inp A),
  (0 < count_csub (snd (fst (x_step (x_retry c) used now i))))%nat -> exists k e, i = ISrc k (Err e).
Proof. exact @retry_subscribes_on_error. Qed.
Theorem C10_repeat_next_only_on_completion : forall A c used now (i : inp A),
  (0 < count_csub (snd (fst (x_step (x_repeat c) used now i))))%nat -> exists k, i = ISrc k Done.
Proof. exact @repeat_subscribes_on_completion. Qed.
Theorem C10_oern_next_only_on_termination : forall A n cur now (i : inp A),
  (0 < count_csub (snd (fst (x_step (x_oern n) cur now i))))%nat ->
  exists k e, i = ISrc k e /\ is_terminal e = true.
Proof. exact @oern_subscribes_on_termination. Qed.
Print Assumptions C10_concat_next_only_on_completion.
Print Assumptions C10_catch_next_only_on_error.
Print Assumptions C10_retry_next_only_on_error.
Print Assumptions C10_repeat_next_only_on_completion.
Print Assumptions C10_oern_next_only_on_termination.

(* catch over any number of sources, in the sequential environment: the elements
   of the consumed sources up to the first one that completes (completion passed
   on) or never terminates; a failing source hands over to the next one, and only
   the LAST source's error is passed on *)
Theorem C10_catch_closed_form : forall A (srcs : list (list A * term)),
  emitted (fst (run (x_catch (length srcs)) (seq_env_from 0 srcs))) = catch_spec srcs.
Proof. exact @catch_closed_form. Qed.
Print Assumptions C10_catch_closed_form.

(* on_error_resume_next: every source is consumed to its end whichever way it
   terminates; completion after the last one, never an error *)
Theorem C10_oern_closed_form : forall A (srcs : list (list A * term)),
  emitted (fst (run (x_oern (length srcs)) (seq_env_from 0 srcs))) = oern_spec srcs.
Proof. exact @oern_closed_form. Qed.
Print Assumptions C10_oern_closed_form.

(* repeat(count) / retry(count) over the successive runs of their source (sequential environment):
   the elements of every run; repeat goes on after a completed run while the count allows and
   then completes, an error ends it; retry goes on after a failed run while the count allows and
   then passes the error on, a completed run completes it *)
Theorem C10_repeat_closed_form : forall A count (runs : list (list A * term)),
  emitted (fst (run (x_repeat count) (runs_env runs)))
  = match count with Some O => [Done] | _ => repeat_spec count 1 runs end.
Proof. exact @repeat_closed_form. Qed.
Print Assumptions C10_repeat_closed_form.
Theorem C10_retry_closed_form : forall A count (runs : list (list A * term)),
  emitted (fst (run (x_retry count) (runs_env runs)))
  = match count with Some O => [Done] | _ => retry_spec count 1 runs end.
Proof. exact @retry_closed_form. Qed.
Print Assumptions C10_retry_closed_form.
(* repeat(n) over completing runs: exactly the first n runs, then completion *)
Theorem C10_repeat_n_completing : forall A (n : nat) (runs : list (list A)), (n <= length runs)%nat -> (0 < n)%nat ->
  repeat_spec (Some n) 1 (map (fun xs => (xs, TDone)) runs)
  = map Next (concat (firstn n runs)) ++ [Done].
Proof. exact @repeat_n_completing. Qed.
Print Assumptions C10_repeat_n_completing.

Example C10_witness_retry :
  emitted (fst (run (x_retry (Some 2%nat)) (runs_env [([1], TErr 7); ([2], TErr 8); ([3], TDone)])))
  = [Next 1; Next 2; Err 8].
Proof. vm_compute. reflexivity. Qed.

Example C10_witness_catch :
  emitted (fst (run (x_catch 3) (seq_env_from 0 [([1; 2], TErr 7); ([3], TDone); ([4], TDone)])))
  = [Next 1; Next 2; Next 3; Done].
Proof. vm_compute. reflexivity. Qed.
Example C10_witness_oern :
  emitted (fst (run (x_oern 2) (seq_env_from 0 [([1], TErr 7); ([2], TErr 8)]))) = [Next 1; Next 2; Done].
Proof. vm_compute. reflexivity. Qed.

Example C10_witness_concat :
  emitted (fst (run (x_concat 2) (seq_env_from 0 [([1; 2], TDone); ([3], TDone)])))
  = [Next 1; Next 2; Next 3; Done].
Proof. vm_compute. reflexivity. Qed.
Example C10_witness_repeat_exactly_n :
  count_subs (map snd (fst (run (x_repeat (Some 3%nat))
     [(0, ISrc 0%nat (Next 5)); (0, ISrc 0%nat Done); (0, ISrc 0%nat Done); (0, ISrc 0%nat Done);
      (0, ISrc 0%nat (Next 6))]))) = 3%nat.
Proof. vm_compute. reflexivity. Qed.

(* ---- lazy iterables (concat_with_iterable / catch_with_iterable of a generator,
   for_in) and factory arguments of on_error_resume_next -------------------- *)
(* for_in / concat over a lazy iterable: for EVERY input sequence and EVERY mapper
   (raising or not) at most one source is subscribed at any moment *)
Theorem C10_for_in_one_source_at_a_time : forall A n produce tail (ins : list (Z * inp A)),
  (length (r_live (snd (run (x_concat_lazy n produce tail) ins))) <= 1)%nat.
Proof. exact @lazy_one_at_a_time. Qed.
Print Assumptions C10_for_in_one_source_at_a_time.

(* the lazy iterable is advanced (effect) and the next source subscribed ONLY in
   the handler of a completion (concat, for_in) resp. of an error (catch) *)
Theorem C10_for_in_mapper_called_only_on_completion : forall A n produce tail cur now (i : inp A),
  touches (snd (fst (x_step (x_concat_lazy n produce tail) cur now i))) = true -> exists k, i = ISrc k Done.
Proof. exact @concat_lazy_advances_on_completion. Qed.
Print Assumptions C10_for_in_mapper_called_only_on_completion.
Theorem C10_catch_iterable_advanced_only_on_error : forall A n produce tail cur now (i : inp A),
  touches (snd (fst (x_step (x_catch_lazy n produce tail) cur now i))) = true -> exists k e, i = ISrc k (Err e).
Proof. exact @catch_lazy_advances_on_error. Qed.
Print Assumptions C10_catch_iterable_advanced_only_on_error.

(* with a production that never raises, erasing the iterable's side effects from
   the trace gives exactly the trace of concat / catch over the list of the same
   sources, for EVERY input sequence: the theorems above about x_concat / x_catch
   (closed forms included) hold for the lazy variants *)
Theorem C10_concat_lazy_iterable_same_behaviour : forall A n tail (ins : list (Z * inp A)),
  erase (fst (run (x_concat_lazy n (fun _ => Ok tt) tail) ins)) = fst (run (x_concat n) ins)
  /\ snd (run (x_concat_lazy n (fun _ => Ok tt) tail) ins) = snd (run (x_concat n) ins).
Proof. exact @concat_lazy_erases. Qed.
Print Assumptions C10_concat_lazy_iterable_same_behaviour.
Theorem C10_catch_lazy_iterable_same_behaviour : forall A n tail (ins : list (Z * inp A)),
  erase (fst (run (x_catch_lazy n (fun _ => Ok tt) tail) ins)) = fst (run (x_catch n) ins)
  /\ snd (run (x_catch_lazy n (fun _ => Ok tt) tail) ins) = snd (run (x_catch n) ins).
Proof. exact @catch_lazy_erases. Qed.
Print Assumptions C10_catch_lazy_iterable_same_behaviour.

(* on_error_resume_next with factories: same boundary behaviour as with plain
   sources, and a factory is called only when the previous source terminates,
   with that source's error (code e) or None (code 0) *)
Theorem C10_oern_factories_same_behaviour : forall A n fact (ins : list (Z * inp A)),
  erase (fst (run (x_oern_f n fact) ins)) = fst (run (x_oern n) ins)
  /\ snd (run (x_oern_f n fact) ins) = snd (run (x_oern n) ins).
Proof. exact @oern_factories_erase. Qed.
Print Assumptions C10_oern_factories_same_behaviour.
Theorem C10_oern_factory_argument : forall A n fact cur now (i : inp A) z,
  In (CEffect z) (snd (fst (x_step (x_oern_f n fact) cur now i))) ->
  exists k t, i = ISrc k t /\ is_terminal t = true /\ fact (S cur) = true /\
              z = 1000 * Z.of_nat (S cur) + match t with Err e => e | _ => 0 end.
Proof. exact @oern_factory_argument. Qed.
Print Assumptions C10_oern_factory_argument.

Example C10_witness_for_in_lazy :
  fst (run (x_concat_lazy (A:=Z) 2 (fun _ => Ok tt) false) [(0, ISrc 0%nat (Next 1)); (0, ISrc 0%nat Done); (0, ISrc 1%nat Done)])
  = [(0%nat, OEffect 0); (0%nat, OSub 0%nat); (1%nat, OEmit (Next 1)); (2%nat, OEffect 1); (2%nat, OSub 1%nat);
     (2%nat, OUnsub 0%nat); (3%nat, OUnsub 1%nat); (3%nat, OEmit Done)].
Proof. vm_compute. reflexivity. Qed.
Example C10_witness_for_in_mapper_raises :
  emitted (fst (run (x_concat_lazy (A:=Z) 2 (fun j => match j with O => Ok tt | _ => Raise 63 end) false)
                  [(0, ISrc 0%nat (Next 1)); (0, ISrc 0%nat Done)])) = [Next 1; Err 63].
Proof. vm_compute. reflexivity. Qed.
Example C10_witness_oern_factory :
  fst (run (x_oern_f (A:=Z) 2 (fun _ => true)) [(0, ISrc 0%nat (Err 12))])
  = [(0%nat, OEffect 0); (0%nat, OSub 0%nat); (1%nat, OEffect 1012); (1%nat, OSub 1%nat); (1%nat, OUnsub 0%nat)].
Proof. vm_compute. reflexivity. Qed.

(* ---- one source at a time for EVERY sequential operator ---------------------- *)
(* for EVERY input sequence (arbitrary interleaving of all sources, conforming or
   not; every prefix is an input sequence too, so: after every input) at most one
   source subscription is live under catch, on_error_resume_next, retry, repeat,
   while_do, do_while and catch(handler).  Inside the handler of the termination
   that makes the operator move on, the next subscription is opened BEFORE the
   terminated one is detached (retry/repeat: source 0 twice), as in the
   implementation; the statement is about the state between two inputs. *)
Theorem C10_all_one_source_at_a_time : forall A,
  (forall n (ins : list (Z * inp A)), (length (r_live (snd (run (x_catch n) ins))) <= 1)%nat) /\
  (forall n (ins : list (Z * inp A)), (length (r_live (snd (run (x_oern n) ins))) <= 1)%nat) /\
  (forall c (ins : list (Z * inp A)), (length (r_live (snd (run (x_retry c) ins))) <= 1)%nat) /\
  (forall c (ins : list (Z * inp A)), (length (r_live (snd (run (x_repeat c) ins))) <= 1)%nat) /\
  (forall cond (ins : list (Z * inp A)), (length (r_live (snd (run (x_while_do cond) ins))) <= 1)%nat) /\
  (forall cond (ins : list (Z * inp A)), (length (r_live (snd (run (x_do_while cond) ins))) <= 1)%nat) /\
  (forall h (ins : list (Z * inp A)), (length (r_live (snd (run (x_catch_handler h) ins))) <= 1)%nat).
Proof. exact @all_one_source_at_a_time. Qed.
Print Assumptions C10_all_one_source_at_a_time.

(* the generic form: ANY machine whose handlers answer with nothing, one element, or
   -- only for a source's terminal notification -- one subscription *)
Theorem C10_sequential_one_source_at_a_time : forall A B (m : machine A B), sequential m ->
  forall ins : list (Z * inp A), (length (r_live (snd (run m ins))) <= 1)%nat.
Proof. exact @sequential_one_at_a_time. Qed.
Print Assumptions C10_sequential_one_source_at_a_time.

(* ---- repeat(n) subscribes EXACTLY n times ------------------------------------ *)
(* over runs of the source that all complete: one subscription at subscribe() and one
   more at each completion while the count allows *)
Theorem C10_repeat_subscription_count : forall A (n : nat) (runs : list (list A)),
  count_subs (map snd (fst (run (x_repeat (Some n)) (runs_env (map (fun xs => (xs, TDone)) runs)))))
  = Nat.min n (S (length runs)).
Proof. exact @repeat_subscription_count. Qed.
Print Assumptions C10_repeat_subscription_count.
Theorem C10_repeat_subscribes_exactly_n : forall A (n : nat) (runs : list (list A)),
  (0 < n)%nat -> (n <= length runs)%nat ->
  count_subs (map snd (fst (run (x_repeat (Some n)) (runs_env (map (fun xs => (xs, TDone)) runs))))) = n.
Proof. exact @repeat_subscribes_exactly_n. Qed.
Print Assumptions C10_repeat_subscribes_exactly_n.
Example C10_witness_repeat_exactly_n_hyps :
  (0 < 2)%nat /\ (2 <= length [[1]; [2; 3]; [4]])%nat /\
  fst (run (x_repeat (Some 2%nat)) (runs_env (map (fun xs => (xs, TDone)) [[1]; [2; 3]; [4]])))
  = [(0%nat, OSub 0%nat); (1%nat, OEmit (Next 1)); (2%nat, OSub 0%nat); (2%nat, OUnsub 0%nat);
     (3%nat, OEmit (Next 2)); (4%nat, OEmit (Next 3)); (5%nat, OUnsub 0%nat); (5%nat, OEmit Done)].
Proof. vm_compute. repeat split; repeat constructor. Qed.

(* ---- while_do / do_while: closed forms (sequential environment) --------------- *)
(* over the successive runs of the source: every run's elements; after a completed run
   the condition is evaluated (the j-th evaluation): true = the next run, false =
   completion, raising = that error; an error of the source is passed on.  while_do
   evaluates the condition before the first subscription, do_while after the first run. *)
Theorem C10_while_do_closed_form : forall A cond (runs : list (list A * term)),
  emitted (fst (run (x_while_do cond) (runs_env runs)))
  = match cond 0%nat with
    | Ok true => while_spec cond 1%nat runs
    | Ok false => [Done]
    | Raise e => [Err e]
    end.
Proof. exact @while_do_closed_form. Qed.
Print Assumptions C10_while_do_closed_form.
Theorem C10_do_while_closed_form : forall A cond (runs : list (list A * term)),
  emitted (fst (run (x_do_while cond) (runs_env runs))) = while_spec cond 0%nat runs.
Proof. exact @do_while_closed_form. Qed.
Print Assumptions C10_do_while_closed_form.

(* condition true n times, then false, all runs completing: while_do emits exactly the
   first n runs and completes, do_while exactly the first n+1 runs *)
Theorem C10_while_do_n_completing : forall A cond (n : nat) (runs : list (list A)),
  (forall k, (k < n)%nat -> cond k = Ok true) -> cond n = Ok false -> (n <= length runs)%nat ->
  emitted (fst (run (x_while_do cond) (runs_env (map (fun xs => (xs, TDone)) runs))))
  = map Next (concat (firstn n runs)) ++ [Done].
Proof. exact @while_do_n_completing. Qed.
Print Assumptions C10_while_do_n_completing.
Theorem C10_do_while_n_completing : forall A cond (n : nat) (runs : list (list A)),
  (forall k, (k < n)%nat -> cond k = Ok true) -> cond n = Ok false -> (n < length runs)%nat ->
  emitted (fst (run (x_do_while cond) (runs_env (map (fun xs => (xs, TDone)) runs))))
  = map Next (concat (firstn (S n) runs)) ++ [Done].
Proof. exact @do_while_n_completing. Qed.
Print Assumptions C10_do_while_n_completing.

Example C10_witness_while_do :
  let cond := fun j => if Nat.ltb j 2 then Ok true else Ok false in
  (forall k, (k < 2)%nat -> cond k = Ok true) /\ cond 2%nat = Ok false /\
  emitted (fst (run (x_while_do cond) (runs_env [([1], TDone); ([2; 3], TDone); ([4], TDone)])))
  = [Next 1; Next 2; Next 3; Done].
Proof.
  cbn zeta. split; [|split; vm_compute; reflexivity].
  intros [|[|k]] Hk; [reflexivity|reflexivity|lia].
Qed.
Example C10_witness_do_while_condition_raises :
  emitted (fst (run (x_do_while (fun j => match j with O => Ok true | _ => Raise 9 end))
                  (runs_env [([1], TDone); ([2], TDone); ([3], TDone)])))
  = [Next 1; Next 2; Err 9].
Proof. vm_compute. reflexivity. Qed.

(* ==== WHEN the next source is subscribed (run level), catch(handler) closed form ==== *)
From RxVerif Require Import Ops.MergeOrderFacts Ops.SequentialRun.

(* catch(handler) in the sequential environment (source 0 = the caught source, source 1 = the
   observable the handler returns, further sources are ignored): the elements of source 0;
   its completion is passed on; on its error e the handler is called with e -- if it raises
   e' that error is passed on, otherwise the handler's source is mirrored to its end
   (elements, then its completion or its error); a source that never terminates leaves the
   output open *)
Theorem C10_catch_handler_closed_form : forall A (h : Z -> res unit) (srcs : list (list A * term)),
  emitted (fst (run (x_catch_handler h) (seq_env_from 0 srcs))) = catch_handler_spec h srcs.
Proof. exact @catch_handler_closed_form. Qed.
Print Assumptions C10_catch_handler_closed_form.

Example C10_witness_catch_handler :
  emitted (fst (run (x_catch_handler (fun e => if Z.eqb e 7 then Ok tt else Raise (e + 1)))
                  (seq_env_from 0 [([1; 2], TErr 7); ([3], TErr 9); ([4], TDone)])))
  = [Next 1; Next 2; Next 3; Err 9]
  /\ emitted (fst (run (x_catch_handler (fun e => if Z.eqb e 7 then Ok tt else Raise (e + 1)))
                  (seq_env_from 0 [([1], TErr 5); ([3], TDone)])))
  = [Next 1; Err 6].
Proof. vm_compute. split; reflexivity. Qed.

(* GENERIC, for ANY sequential machine (concat, catch, on_error_resume_next, retry, repeat,
   while_do, do_while, catch(handler): the instances are [*_sequential]) and EVERY input
   sequence: a subscription observed at trace position q+1 (i.e. after subscribe()) is
   opened in the step of input q, which is a TERMINAL notification of the one source that is
   subscribed at that moment (the runner is not stopped and its live list is exactly [k]) --
   so never before the current source terminated, and never triggered by a notification of
   a source that is not subscribed *)
Theorem C10_sequential_subscribes_at_live_termination :
  forall A B (m : machine A B), sequential m -> forall (ins : list (Z * inp A)) q j,
  In (S q, OSub j) (fst (run m ins)) ->
  exists now k e, nth_error ins q = Some (now, ISrc k e) /\ is_terminal e = true /\
    r_stopped (snd (run m (firstn q ins))) = false /\ r_live (snd (run m (firstn q ins))) = [k].
Proof. exact @sequential_subscribes_at_live_termination. Qed.
Print Assumptions C10_sequential_subscribes_at_live_termination.

(* EXACT instants for concat / catch / on_error_resume_next, EVERY input sequence: source j is
   subscribed at trace position q+1 IFF j = k+1 < n, input q is the completion (catch: the
   error; on_error_resume_next: any termination) of source k, and k is the subscribed source
   just before input q.  Left to right: not before and by nothing else; right to left: always
   in that very step. *)
Theorem C10_concat_subscribes_next_iff : forall A n (ins : list (Z * inp A)) q j,
  In (S q, OSub j) (fst (run (x_concat n) ins)) <->
  exists now k, j = S k /\ (S k < n)%nat /\ nth_error ins q = Some (now, ISrc k Done)
                /\ r_live (snd (run (x_concat n) (firstn q ins))) = [k].
Proof. exact @concat_subscribes_next_iff. Qed.
Print Assumptions C10_concat_subscribes_next_iff.
Theorem C10_catch_subscribes_next_iff : forall A n (ins : list (Z * inp A)) q j,
  In (S q, OSub j) (fst (run (x_catch n) ins)) <->
  exists now k e, j = S k /\ (S k < n)%nat /\ nth_error ins q = Some (now, ISrc k (Err e))
                  /\ r_live (snd (run (x_catch n) (firstn q ins))) = [k].
Proof. exact @catch_subscribes_next_iff. Qed.
Print Assumptions C10_catch_subscribes_next_iff.
Theorem C10_oern_subscribes_next_iff : forall A n (ins : list (Z * inp A)) q j,
  In (S q, OSub j) (fst (run (x_oern n) ins)) <->
  exists now k e, j = S k /\ (S k < n)%nat /\ nth_error ins q = Some (now, ISrc k e) /\ is_terminal e = true
                  /\ r_live (snd (run (x_oern n) (firstn q ins))) = [k].
Proof. exact @oern_subscribes_next_iff. Qed.
Print Assumptions C10_oern_subscribes_next_iff.

(* ... and over EVERY run the subscriptions are to sources 0, 1, .., m-1 (m <= n) in this
   order: no source is skipped, none is subscribed twice *)
Theorem C10_concat_subscribes_in_order : forall A n (ins : list (Z * inp A)),
  exists mm, (mm <= n)%nat /\ sub_ids (map snd (fst (run (x_concat n) ins))) = seq 0 mm.
Proof. exact @concat_subscribes_in_order. Qed.
Print Assumptions C10_concat_subscribes_in_order.
Theorem C10_catch_subscribes_in_order : forall A n (ins : list (Z * inp A)),
  exists mm, (mm <= n)%nat /\ sub_ids (map snd (fst (run (x_catch n) ins))) = seq 0 mm.
Proof. exact @catch_subscribes_in_order. Qed.
Print Assumptions C10_catch_subscribes_in_order.
Theorem C10_oern_subscribes_in_order : forall A n (ins : list (Z * inp A)),
  exists mm, (mm <= n)%nat /\ sub_ids (map snd (fst (run (x_oern n) ins))) = seq 0 mm.
Proof. exact @oern_subscribes_in_order. Qed.
Print Assumptions C10_oern_subscribes_in_order.

(* the right-hand sides are satisfiable on a non-conforming interleaving: source 1 speaks
   before it is subscribed (dropped), source 0 completes at input 2, so OSub 1 sits at trace
   position 3; source 0 is the live one just before *)
Example C10_witness_subscribes_next :
  let ins := [(0, ISrc 1%nat (Next 9)); (0, ISrc 0%nat (Next 1)); (0, ISrc 0%nat Done);
              (0, ISrc 1%nat (Next 2)); (0, ISrc 1%nat Done)] in
  nth_error ins 2 = Some (0, ISrc 0%nat Done)
  /\ r_live (snd (run (x_concat 2) (firstn 2 ins))) = [0%nat]
  /\ fst (run (x_concat 2) ins)
     = [(0%nat, OSub 0%nat); (2%nat, OEmit (Next 1)); (3%nat, OSub 1%nat); (3%nat, OUnsub 0%nat);
        (4%nat, OEmit (Next 2)); (5%nat, OUnsub 1%nat); (5%nat, OEmit Done)]
  /\ sub_ids (map snd (fst (run (x_concat 2) ins))) = seq 0 2.
Proof. vm_compute. repeat split; reflexivity. Qed.
(* the generic theorem on retry: the resubscription to source 0 at position 2 = the error at input 1 *)
Example C10_witness_sequential_instance :
  sequential (x_retry (A:=Z) (Some 2%nat))
  /\ fst (run (x_retry (Some 2%nat)) [(0, ISrc 0%nat (Next 1)); (0, ISrc 0%nat (Err 7))])
     = [(0%nat, OSub 0%nat); (1%nat, OEmit (Next 1)); (2%nat, OSub 0%nat); (2%nat, OUnsub 0%nat)].
Proof. split; [apply retry_sequential|vm_compute; reflexivity]. Qed.
