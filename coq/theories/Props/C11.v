(* C11 -- merging keeps each inner order and completes when all complete.
   Refinement: for EVERY number of sources and EVERY input sequence (any
   interleaving, non-conforming sources, ticks, dispose), what merge's
   subscriber receives -- and at which input position -- is [merge_spec], a
   ten-line fold over the interleaving: every element of a still-running source
   passes at its own instant (so each source's order and timing is kept), the
   first error ends everything, completion comes with the last running
   source's completion, notifications of terminated sources are ignored. *)
From RxVerif Require Import Base.Prelude Ops.Machine Ops.Multi Ops.MultiFacts Ops.RunLemmas
  Ops.Combinators Ops.MergeFacts Ops.FlatMapFacts Ops.MergeConcFacts.

Theorem C11_merge_refines_spec : forall A n (ins : list (Z * inp A)),
  temitted (fst (run (x_merge n) ins))
  = match n with O => [(0%nat, Done)] | _ => merge_spec (seq 0 n) 1 ins end.
Proof. exact @merge_refines_spec. Qed.
Print Assumptions C11_merge_refines_spec.

(* every emitted element is an input element, emitted at that input's position *)
Theorem C11_merge_emits_only_source_elements_in_place :
  forall A running pos (ins : list (Z * inp A)) p x,
    In (p, Next x) (merge_spec running pos ins) ->
    exists k now, nth_error ins (p - pos) = Some (now, ISrc k (Next x)) /\ (pos <= p)%nat.
Proof. exact @merge_spec_sound. Qed.
Print Assumptions C11_merge_emits_only_source_elements_in_place.

(* completion only after every running source completed *)
Theorem C11_merge_completes_after_all : forall A (ins : list (Z * inp A)) running pos p,
  In (p, Done) (merge_spec running pos ins) ->
  forall k, In k running ->
  exists q now, (q <= p - pos)%nat /\ nth_error ins q = Some (now, ISrc k Done).
Proof. exact @merge_spec_complete. Qed.
Print Assumptions C11_merge_completes_after_all.

(* flat_map / flat_map_indexed / merge_all (inner sequences created by the outer
   source's elements): refinement for EVERY mapper -- also raising -- and EVERY
   input sequence *)
Theorem C11_flat_map_refines_spec : forall A (mapper : A -> nat -> res unit) (ins : list (Z * inp A)),
  temitted (fst (run (x_flat_map mapper) ins)) = flat_map_spec mapper true 0 [] 1 ins.
Proof. exact @flat_map_refines_spec. Qed.
Print Assumptions C11_flat_map_refines_spec.

(* merge(max_concurrent = mc) after map(project) -- concat_map is mc = 1 --, for EVERY
   mapper (also raising), EVERY mc and EVERY input sequence: what the subscriber
   receives is [mc_spec]: at most mc inners run, the others wait in a FIFO queue
   whose head starts exactly when a running inner completes; elements of running
   inners pass at their own instant; first error ends everything; completion when
   the outer has completed and nothing runs *)
Theorem C11_merge_concurrent_refines_spec : forall A mc (mapper : A -> nat -> res unit) (ins : list (Z * inp A)),
  temitted (fst (run (x_merge_concurrent mc mapper) ins)) = mc_spec mapper mc true 0 [] [] 1 ins.
Proof. exact @merge_concurrent_refines_spec. Qed.
Print Assumptions C11_merge_concurrent_refines_spec.

(* after EVERY input sequence (hence at any time) at most mc inner sequences are subscribed *)
Theorem C11_merge_concurrent_at_most_n_subscribed : forall A mc (mapper : A -> nat -> res unit) (ins : list (Z * inp A)),
  (ninner (r_live (snd (run (x_merge_concurrent mc mapper) ins))) <= mc)%nat.
Proof. exact @merge_concurrent_bounded. Qed.
Print Assumptions C11_merge_concurrent_at_most_n_subscribed.

(* no element is invented, reordered or delayed: every emitted element is an element of an inner sequence,
   emitted at that input's own position (flat_map / merge_all and merge(max_concurrent) / concat_map) *)
Theorem C11_flat_map_emits_only_inner_elements_in_place :
  forall A (mapper : A -> nat -> res unit) (ins : list (Z * inp A)) ol cnt running pos p x,
  In (p, Next x) (flat_map_spec mapper ol cnt running pos ins) ->
  exists j now, nth_error ins (p - pos) = Some (now, ISrc (S j) (Next x)) /\ (pos <= p)%nat.
Proof. exact @flat_map_spec_sound. Qed.
Print Assumptions C11_flat_map_emits_only_inner_elements_in_place.
Theorem C11_merge_concurrent_emits_only_inner_elements_in_place :
  forall A (mapper : A -> nat -> res unit) mc (ins : list (Z * inp A)) ol cnt running queue pos p x,
  In (p, Next x) (mc_spec mapper mc ol cnt running queue pos ins) ->
  exists j now, nth_error ins (p - pos) = Some (now, ISrc (S j) (Next x)) /\ (pos <= p)%nat.
Proof. exact @mc_spec_sound. Qed.
Print Assumptions C11_merge_concurrent_emits_only_inner_elements_in_place.

(* concat_map: the second inner is subscribed only when the first completed, so its earlier elements are lost
   (hot inner) and the output is the ordered concatenation *)
Example C11_witness_concat_map :
  temitted (fst (run (x_merge_concurrent 1 (fun _ _ => Ok tt))
     [(0, ISrc 0%nat (Next 1)); (0, ISrc 0%nat (Next 2)); (0, ISrc 2%nat (Next 20)); (0, ISrc 1%nat (Next 10));
      (0, ISrc 1%nat Done); (0, ISrc 2%nat (Next 21)); (0, ISrc 0%nat Done); (0, ISrc 2%nat Done)]))
  = [(4%nat, Next 10); (6%nat, Next 21); (8%nat, Done)].
Proof. vm_compute. reflexivity. Qed.

Example C11_witness_flat_map :
  temitted (fst (run (x_flat_map (fun _ _ => Ok tt))
     [(0, ISrc 0%nat (Next 1)); (0, ISrc 1%nat (Next 10)); (0, ISrc 0%nat (Next 2)); (0, ISrc 2%nat (Next 20));
      (0, ISrc 1%nat (Next 11)); (0, ISrc 0%nat Done); (0, ISrc 1%nat Done); (0, ISrc 2%nat Done)]))
  = [(2%nat, Next 10); (4%nat, Next 20); (5%nat, Next 11); (8%nat, Done)].
Proof. vm_compute. reflexivity. Qed.

Example C11_witness :
  temitted (fst (run (x_merge 2)
     [(0, ISrc 1%nat (Next 7)); (0, ISrc 0%nat (Next 3)); (0, ISrc 1%nat Done); (0, ISrc 1%nat (Next 9));
      (0, ISrc 0%nat (Next 4)); (0, ISrc 0%nat Done)]))
  = [(1%nat, Next 7); (2%nat, Next 3); (5%nat, Next 4); (6%nat, Done)].
Proof. vm_compute. reflexivity. Qed.
