(* C11 -- merging keeps each inner order and completes when all complete.
   Refinement: for EVERY number of sources and EVERY input sequence (any
   interleaving, non-conforming sources, ticks, dispose), what merge's
   subscriber receives -- and at which input position -- is [merge_spec], a
   ten-line fold over the interleaving: every element of a still-running source
   passes at its own instant (so each source's order and timing is kept), the
   first error ends everything, completion comes with the last running
   source's completion, notifications of terminated sources are ignored. *)
From RxVerif Require Import Base.Prelude Ops.Machine Ops.Multi Ops.MultiFacts Ops.RunLemmas
  Ops.Combinators Ops.MergeFacts Ops.FlatMapFacts Ops.MergeConcFacts Ops.MergeSpecFacts Ops.MergeOrderFacts.
From Coq Require Import Sorting.Sorted.

Theorem C11_merge_refines_spec : forall A n (ins : list (Z * inp A)),
  temitted (fst (run (x_merge n) ins))
  = match n with O => [(0%nat, Done)] | _ => merge_spec (seq 0 n) 1 ins end.
Proof. exact @merge_refines_spec. Qed.
Print Assumptions C11_merge_refines_spec.

(* every emitted element is an input element, emitted at that input's position *)
Theorem C11_merge_emits_only_source_elements_in_place :
  forall A running pos (ins : list (Z * inp A)) p x,
    In (p, Next x) (merge_spec running pos ins) ->
    exists k now, nth_error ins (p - pos) = Some (now, ISrc k (Next x)) /\ (pos <= p)%nat.
Proof. exact @merge_spec_sound. Qed.
Print Assumptions C11_merge_emits_only_source_elements_in_place.

(* completion only after every running source completed *)
Theorem C11_merge_completes_after_all : forall A (ins : list (Z * inp A)) running pos p,
  In (p, Done) (merge_spec running pos ins) ->
  forall k, In k running ->
  exists q now, (q <= p - pos)%nat /\ nth_error ins q = Some (now, ISrc k Done).
Proof. exact @merge_spec_complete. Qed.
Print Assumptions C11_merge_completes_after_all.

(* flat_map / flat_map_indexed / merge_all (inner sequences created by the outer
   source's elements): refinement for EVERY mapper -- also raising -- and EVERY
   input sequence *)
Theorem C11_flat_map_refines_spec : forall A (mapper : A -> nat -> res unit) (ins : list (Z * inp A)),
  temitted (fst (run (x_flat_map mapper) ins)) = flat_map_spec mapper true 0 [] 1 ins.
Proof. exact @flat_map_refines_spec. Qed.
Print Assumptions C11_flat_map_refines_spec.

(* merge(max_concurrent = mc) after map(project) -- concat_map is mc = 1 --, for EVERY
   mapper (also raising), EVERY mc and EVERY input sequence: what the subscriber
   receives is [mc_spec]: at most mc inners run, the others wait in a FIFO queue
   whose head starts exactly when a running inner completes; elements of running
   inners pass at their own instant; first error ends everything; completion when
   the outer has completed and nothing runs *)
Theorem C11_merge_concurrent_refines_spec : forall A mc (mapper : A -> nat -> res unit) (ins : list (Z * inp A)),
  temitted (fst (run (x_merge_concurrent mc mapper) ins)) = mc_spec mapper mc true 0 [] [] 1 ins.
Proof. exact @merge_concurrent_refines_spec. Qed.
Print Assumptions C11_merge_concurrent_refines_spec.

(* after EVERY input sequence (hence at any time) at most mc inner sequences are subscribed *)
Theorem C11_merge_concurrent_at_most_n_subscribed : forall A mc (mapper : A -> nat -> res unit) (ins : list (Z * inp A)),
  (ninner (r_live (snd (run (x_merge_concurrent mc mapper) ins))) <= mc)%nat.
Proof. exact @merge_concurrent_bounded. Qed.
Print Assumptions C11_merge_concurrent_at_most_n_subscribed.

(* no element is invented, reordered or delayed: every emitted element is an element of an inner sequence,
   emitted at that input's own position (flat_map / merge_all and merge(max_concurrent) / concat_map) *)
Theorem C11_flat_map_emits_only_inner_elements_in_place :
  forall A (mapper : A -> nat -> res unit) (ins : list (Z * inp A)) ol cnt running pos p x,
  In (p, Next x) (flat_map_spec mapper ol cnt running pos ins) ->
  exists j now, nth_error ins (p - pos) = Some (now, ISrc (S j) (Next x)) /\ (pos <= p)%nat.
Proof. exact @flat_map_spec_sound. Qed.
Print Assumptions C11_flat_map_emits_only_inner_elements_in_place.
Theorem C11_merge_concurrent_emits_only_inner_elements_in_place :
  forall A (mapper : A -> nat -> res unit) mc (ins : list (Z * inp A)) ol cnt running queue pos p x,
  In (p, Next x) (mc_spec mapper mc ol cnt running queue pos ins) ->
  exists j now, nth_error ins (p - pos) = Some (now, ISrc (S j) (Next x)) /\ (pos <= p)%nat.
Proof. exact @mc_spec_sound. Qed.
Print Assumptions C11_merge_concurrent_emits_only_inner_elements_in_place.

(* concat_map: the second inner is subscribed only when the first completed, so its earlier elements are lost
   (hot inner) and the output is the ordered concatenation *)
Example C11_witness_concat_map :
  temitted (fst (run (x_merge_concurrent 1 (fun _ _ => Ok tt))
     [(0, ISrc 0%nat (Next 1)); (0, ISrc 0%nat (Next 2)); (0, ISrc 2%nat (Next 20)); (0, ISrc 1%nat (Next 10));
      (0, ISrc 1%nat Done); (0, ISrc 2%nat (Next 21)); (0, ISrc 0%nat Done); (0, ISrc 2%nat Done)]))
  = [(4%nat, Next 10); (6%nat, Next 21); (8%nat, Done)].
Proof. vm_compute. reflexivity. Qed.

Example C11_witness_flat_map :
  temitted (fst (run (x_flat_map (fun _ _ => Ok tt))
     [(0, ISrc 0%nat (Next 1)); (0, ISrc 1%nat (Next 10)); (0, ISrc 0%nat (Next 2)); (0, ISrc 2%nat (Next 20));
      (0, ISrc 1%nat (Next 11)); (0, ISrc 0%nat Done); (0, ISrc 1%nat Done); (0, ISrc 2%nat Done)]))
  = [(2%nat, Next 10); (4%nat, Next 20); (5%nat, Next 11); (8%nat, Done)].
Proof. vm_compute. reflexivity. Qed.

Example C11_witness :
  temitted (fst (run (x_merge 2)
     [(0, ISrc 1%nat (Next 7)); (0, ISrc 0%nat (Next 3)); (0, ISrc 1%nat Done); (0, ISrc 1%nat (Next 9));
      (0, ISrc 0%nat (Next 4)); (0, ISrc 0%nat Done)]))
  = [(1%nat, Next 7); (2%nat, Next 3); (5%nat, Next 4); (6%nat, Done)].
Proof. vm_compute. reflexivity. Qed.

(* ---- the state of the three specifications ---------------------------------------------------------
   merge_after / fm_after / mc_after give the specification's state after a prefix of the inputs (None
   once the output has ended); they ARE the state of merge_spec / flat_map_spec / mc_spec: the
   specification of a ++ b is that of a, followed by that of b from the state after a *)
Theorem C11_merge_spec_splits : forall A (a b : list (Z * inp A)) running pos,
  merge_spec running pos (a ++ b) = merge_spec running pos a ++
    match merge_after running a with Some r' => merge_spec r' (pos + length a) b | None => [] end.
Proof. exact @merge_spec_app. Qed.
Print Assumptions C11_merge_spec_splits.
Theorem C11_flat_map_spec_splits : forall A (mapper : A -> nat -> res unit) (a b : list (Z * inp A)) ol cnt running pos,
  flat_map_spec mapper ol cnt running pos (a ++ b) = flat_map_spec mapper ol cnt running pos a ++
    match fm_after mapper (ol, cnt, running) a with
    | Some (ol', cnt', r') => flat_map_spec mapper ol' cnt' r' (pos + length a) b
    | None => []
    end.
Proof. exact @flat_map_spec_app. Qed.
Print Assumptions C11_flat_map_spec_splits.
Theorem C11_mc_spec_splits : forall A (mapper : A -> nat -> res unit) mc (a b : list (Z * inp A)) ol cnt running queue pos,
  mc_spec mapper mc ol cnt running queue pos (a ++ b) = mc_spec mapper mc ol cnt running queue pos a ++
    match mc_after mapper mc (ol, cnt, running, queue) a with
    | Some (ol', cnt', r', q') => mc_spec mapper mc ol' cnt' r' q' (pos + length a) b
    | None => []
    end.
Proof. exact @mc_spec_app. Qed.
Print Assumptions C11_mc_spec_splits.

(* the state exists (is not None) as long as no terminal event was emitted and the subscriber did not
   dispose *)
Theorem C11_merge_state_exists_while_alive : forall A running pos (a : list (Z * inp A)),
  (forall p e, In (p, e) (merge_spec running pos a) -> is_terminal e = false) ->
  ~ In IDispose (map snd a) ->
  exists r', merge_after running a = Some r'.
Proof. exact @merge_after_some. Qed.
Print Assumptions C11_merge_state_exists_while_alive.
Theorem C11_flat_map_state_exists_while_alive : forall A (mapper : A -> nat -> res unit) ol cnt running pos (a : list (Z * inp A)),
  (forall p e, In (p, e) (flat_map_spec mapper ol cnt running pos a) -> is_terminal e = false) ->
  ~ In IDispose (map snd a) ->
  exists st', fm_after mapper (ol, cnt, running) a = Some st'.
Proof. exact @fm_after_some. Qed.
Print Assumptions C11_flat_map_state_exists_while_alive.
Theorem C11_mc_state_exists_while_alive : forall A (mapper : A -> nat -> res unit) mc ol cnt running queue pos (a : list (Z * inp A)),
  (forall p e, In (p, e) (mc_spec mapper mc ol cnt running queue pos a) -> is_terminal e = false) ->
  ~ In IDispose (map snd a) ->
  exists st', mc_after mapper mc (ol, cnt, running, queue) a = Some st'.
Proof. exact @mc_after_some. Qed.
Print Assumptions C11_mc_state_exists_while_alive.

(* ---- NO ELEMENT LOST: an element of a source / inner that is still running at its position (the output
   not having ended before) IS emitted, at that position *)
Theorem C11_merge_no_element_lost : forall A running pos (ins : list (Z * inp A)) q now k x r',
  nth_error ins q = Some (now, ISrc k (Next x)) ->
  merge_after running (firstn q ins) = Some r' -> In k r' ->
  In ((pos + q)%nat, Next x) (merge_spec running pos ins).
Proof. exact @merge_no_element_lost. Qed.
Print Assumptions C11_merge_no_element_lost.
Theorem C11_flat_map_no_element_lost :
  forall A (mapper : A -> nat -> res unit) ol cnt running pos (ins : list (Z * inp A)) q now j x ol' cnt' r',
  nth_error ins q = Some (now, ISrc (S j) (Next x)) ->
  fm_after mapper (ol, cnt, running) (firstn q ins) = Some (ol', cnt', r') -> In (S j) r' ->
  In ((pos + q)%nat, Next x) (flat_map_spec mapper ol cnt running pos ins).
Proof. exact @flat_map_no_element_lost. Qed.
Print Assumptions C11_flat_map_no_element_lost.
Theorem C11_merge_concurrent_no_element_lost :
  forall A (mapper : A -> nat -> res unit) mc ol cnt running queue pos (ins : list (Z * inp A)) q now j x ol' cnt' r' q',
  nth_error ins q = Some (now, ISrc (S j) (Next x)) ->
  mc_after mapper mc (ol, cnt, running, queue) (firstn q ins) = Some (ol', cnt', r', q') -> In (S j) r' ->
  In ((pos + q)%nat, Next x) (mc_spec mapper mc ol cnt running queue pos ins).
Proof. exact @mc_no_element_lost. Qed.
Print Assumptions C11_merge_concurrent_no_element_lost.

(* ... and EXACTLY those: both directions in one statement *)
Theorem C11_merge_emits_exactly_running_elements : forall A running pos (ins : list (Z * inp A)) q x,
  In ((pos + q)%nat, Next x) (merge_spec running pos ins) <->
  exists now k r', nth_error ins q = Some (now, ISrc k (Next x))
                   /\ merge_after running (firstn q ins) = Some r' /\ In k r'.
Proof. exact @merge_spec_next_iff. Qed.
Print Assumptions C11_merge_emits_exactly_running_elements.
Theorem C11_flat_map_emits_exactly_running_elements :
  forall A (mapper : A -> nat -> res unit) ol cnt running pos (ins : list (Z * inp A)) q x,
  In ((pos + q)%nat, Next x) (flat_map_spec mapper ol cnt running pos ins) <->
  exists now j ol' cnt' r', nth_error ins q = Some (now, ISrc (S j) (Next x))
     /\ fm_after mapper (ol, cnt, running) (firstn q ins) = Some (ol', cnt', r') /\ In (S j) r'.
Proof. exact @flat_map_spec_next_iff. Qed.
Print Assumptions C11_flat_map_emits_exactly_running_elements.
Theorem C11_merge_concurrent_emits_exactly_running_elements :
  forall A (mapper : A -> nat -> res unit) mc ol cnt running queue pos (ins : list (Z * inp A)) q x,
  In ((pos + q)%nat, Next x) (mc_spec mapper mc ol cnt running queue pos ins) <->
  exists now j ol' cnt' r' q', nth_error ins q = Some (now, ISrc (S j) (Next x))
     /\ mc_after mapper mc (ol, cnt, running, queue) (firstn q ins) = Some (ol', cnt', r', q') /\ In (S j) r'.
Proof. exact @mc_spec_next_iff. Qed.
Print Assumptions C11_merge_concurrent_emits_exactly_running_elements.

(* merge: an error is emitted iff it is the error of a source still running at that position *)
Theorem C11_merge_error_iff_running_source_error : forall A running pos (ins : list (Z * inp A)) q err,
  In ((pos + q)%nat, Err err) (merge_spec running pos ins) <->
  exists now k r', nth_error ins q = Some (now, ISrc k (Err err))
                   /\ merge_after running (firstn q ins) = Some r' /\ In k r'.
Proof. exact @merge_spec_error_iff. Qed.
Print Assumptions C11_merge_error_iff_running_source_error.

(* the hypotheses are satisfiable by a non-trivial state: after three inputs sources 0 and 1 still run *)
Example C11_no_loss_hypotheses_satisfiable :
  merge_after (A:=Z) [0%nat; 1%nat; 2%nat]
     (firstn 3 [(0, ISrc 2%nat (Next 5)); (0, ISrc 2%nat Done); (0, ISrc 0%nat (Next 3)); (0, ISrc 1%nat (Next 7))])
  = Some [0%nat; 1%nat]
  /\ mc_after (A:=Z) (fun _ _ => Ok tt) 1 (true, 0%nat, [], [])
     (firstn 3 [(0, ISrc 0%nat (Next 1)); (0, ISrc 0%nat (Next 2)); (0, ISrc 1%nat Done); (0, ISrc 2%nat (Next 20))])
  = Some (true, 2%nat, [2%nat], []).
Proof. vm_compute. split; reflexivity. Qed.

(* ---- COMPLETION only after the outer and every inner: whatever moment q0 (not after the completion) one
   looks at, the outer -- if still live at q0 -- and every inner running at q0 deliver their Done at an
   input position between q0 and the completion's *)
Theorem C11_flat_map_completes_after_outer_and_inners :
  forall A (mapper : A -> nat -> res unit) (ins : list (Z * inp A)) ol cnt running pos p,
  In (p, Done) (flat_map_spec mapper ol cnt running pos ins) ->
  (pos <= p)%nat /\
  forall q0 ol' cnt' r', (q0 <= p - pos)%nat ->
    fm_after mapper (ol, cnt, running) (firstn q0 ins) = Some (ol', cnt', r') ->
    (ol' = true -> exists q now, (q0 <= q <= p - pos)%nat /\ nth_error ins q = Some (now, ISrc 0%nat Done)) /\
    (forall k, In k r' -> exists q now, (q0 <= q <= p - pos)%nat /\ nth_error ins q = Some (now, ISrc k Done)).
Proof. exact @flat_map_completes_after_outer_and_inners. Qed.
Print Assumptions C11_flat_map_completes_after_outer_and_inners.
Theorem C11_mc_completes_after_outer_and_inners :
  forall A (mapper : A -> nat -> res unit) mc (ins : list (Z * inp A)) ol cnt running queue pos p,
  In (p, Done) (mc_spec mapper mc ol cnt running queue pos ins) ->
  (pos <= p)%nat /\
  forall q0 ol' cnt' r' q', (q0 <= p - pos)%nat ->
    mc_after mapper mc (ol, cnt, running, queue) (firstn q0 ins) = Some (ol', cnt', r', q') ->
    (ol' = true -> exists q now, (q0 <= q <= p - pos)%nat /\ nth_error ins q = Some (now, ISrc 0%nat Done)) /\
    (forall k, In k r' -> exists q now, (q0 <= q <= p - pos)%nat /\ nth_error ins q = Some (now, ISrc k Done)).
Proof. exact @mc_completes_after_outer_and_inners. Qed.
Print Assumptions C11_mc_completes_after_outer_and_inners.

(* ... and for max_concurrent >= 1, from a state in which inners wait only while some inner runs (e.g. the
   initial one), the waiting queue is EMPTY at the completion, and every inner that waited at any moment
   q0 has been started and has delivered its Done between q0 and the completion *)
Theorem C11_mc_completes_with_empty_queue :
  forall A (mapper : A -> nat -> res unit) mc (ins : list (Z * inp A)) ol cnt running queue pos p,
  (0 < mc)%nat -> (queue = [] \/ running <> []) ->
  In (p, Done) (mc_spec mapper mc ol cnt running queue pos ins) ->
  (exists olp cntp rp, mc_after mapper mc (ol, cnt, running, queue) (firstn (p - pos) ins) = Some (olp, cntp, rp, []))
  /\
  forall q0 ol' cnt' r' q', (q0 <= p - pos)%nat ->
    mc_after mapper mc (ol, cnt, running, queue) (firstn q0 ins) = Some (ol', cnt', r', q') ->
    forall k, In k q' -> exists q now, (q0 <= q <= p - pos)%nat /\ nth_error ins q = Some (now, ISrc k Done).
Proof. exact @mc_completes_with_empty_queue. Qed.
Print Assumptions C11_mc_completes_with_empty_queue.

(* the hypothesis 0 < max_concurrent is needed: with max_concurrent = 0 (outside the property's range 1..N)
   every inner waits for ever and the output completes with the outer, inner 1 still in the queue *)
Example C11_mc_zero_completes_with_waiting_inner :
  mc_spec (A:=Z) (fun _ _ => Ok tt) 0 true 0 [] [] 1 [(0%Z, ISrc 0%nat (Next 5%Z)); (0%Z, ISrc 0%nat Done)]
    = [(2%nat, Done)]
  /\ mc_after (A:=Z) (fun _ _ => Ok tt) 0 (true, 0%nat, [], []) [(0%Z, ISrc 0%nat (Next 5%Z))]
    = Some (true, 1%nat, [], [1%nat]).
Proof. exact mc_zero_completes_with_waiting_inner. Qed.

(* a completion with a queue that was non-empty on the way (max_concurrent = 1, three inners) *)
Example C11_completion_hypotheses_satisfiable :
  let ins := [(0, ISrc 0%nat (Next 1)); (0, ISrc 0%nat (Next 2)); (0, ISrc 0%nat (Next 3)); (0, ISrc 0%nat Done);
              (0, ISrc 1%nat Done); (0, ISrc 2%nat (Next 20)); (0, ISrc 2%nat Done); (0, ISrc 3%nat Done)] in
  In (8%nat, Done) (mc_spec (A:=Z) (fun _ _ => Ok tt) 1 true 0 [] [] 1 ins)
  /\ mc_after (A:=Z) (fun _ _ => Ok tt) 1 (true, 0%nat, [], []) (firstn 3 ins) = Some (true, 3%nat, [1%nat], [2%nat; 3%nat]).
Proof. vm_compute. split; [right; left; reflexivity|reflexivity]. Qed.

(* ---- QUEUED INNERS START IN ARRIVAL ORDER: in EVERY run of merge(max_concurrent = mc) (every mapper, every
   mc, every input sequence) the subscriptions are opened with strictly increasing ids (id 0 is the outer;
   inner j is the one created by the j-th accepted outer element), and whatever still waits in the queue
   is newer than everything started, itself in arrival order *)
Theorem C11_inners_start_in_arrival_order : forall A mc (mapper : A -> nat -> res unit) (ins : list (Z * inp A)),
  StronglySorted lt (sub_ids (map snd (fst (run (x_merge_concurrent mc mapper) ins)))).
Proof. exact @merge_concurrent_starts_in_arrival_order. Qed.
Print Assumptions C11_inners_start_in_arrival_order.
Theorem C11_waiting_inners_newer_than_started : forall A mc (mapper : A -> nat -> res unit) (ins : list (Z * inp A)),
  let m := x_merge_concurrent mc mapper in
  let queue := snd (fst (fst (after m (fst (start_state m)) (snd (start_state m)) ins))) in
  StronglySorted lt (sub_ids (map snd (fst (run m ins))) ++ queue).
Proof. exact @merge_concurrent_queue_after_started. Qed.
Print Assumptions C11_waiting_inners_newer_than_started.

Example C11_witness_start_order :
  sub_ids (map snd (fst (run (x_merge_concurrent 1 (fun _ _ => Ok tt))
     [(0, ISrc 0%nat (Next 1)); (0, ISrc 0%nat (Next 2)); (0, ISrc 0%nat (Next 3)); (0, ISrc 1%nat Done);
      (0, ISrc 2%nat (Next 20)); (0, ISrc 2%nat Done)])))
  = [0%nat; 1%nat; 2%nat; 3%nat].
Proof. vm_compute. reflexivity. Qed.

(* ==== (e) FIRST ERROR WINS for flat_map / merge_all and merge(max_concurrent) / concat_map ====
   [error_source mapper ol cnt running i err]: input i is the error err of the still-live outer, or
   an element of the still-live outer on which the mapper (called with index cnt) raises err, or the
   error err of a running inner. *)
From RxVerif Require Import Ops.SequentialFacts Ops.ConcatMapFacts.

(* EVERY mapper, EVERY input sequence: the output carries the error err at trace position q+1 IFF
   the output has not ended before input q (the specification's state exists there) and input q is an
   error source w.r.t. that state -- so it is the FIRST such event that is passed on, at its own
   position, and errors of inners that are not running (terminated, or still waiting in the queue)
   are never passed on *)
Theorem C11_flat_map_error_iff_first_error_source : forall A (mapper : A -> nat -> res unit) (ins : list (Z * inp A)) q err,
  In (S q, Err err) (temitted (fst (run (x_flat_map mapper) ins))) <->
  exists now i ol' cnt' r', nth_error ins q = Some (now, i)
     /\ fm_after mapper (true, 0%nat, []) (firstn q ins) = Some (ol', cnt', r')
     /\ error_source mapper ol' cnt' r' i err.
Proof. exact @flat_map_run_error_iff. Qed.
Print Assumptions C11_flat_map_error_iff_first_error_source.
Theorem C11_merge_concurrent_error_iff_first_error_source :
  forall A mc (mapper : A -> nat -> res unit) (ins : list (Z * inp A)) q err,
  In (S q, Err err) (temitted (fst (run (x_merge_concurrent mc mapper) ins))) <->
  exists now i ol' cnt' r' q', nth_error ins q = Some (now, i)
     /\ mc_after mapper mc (true, 0%nat, [], []) (firstn q ins) = Some (ol', cnt', r', q')
     /\ error_source mapper ol' cnt' r' i err.
Proof. exact @merge_concurrent_run_error_iff. Qed.
Print Assumptions C11_merge_concurrent_error_iff_first_error_source.
(* the same from any state of the specifications *)
Theorem C11_flat_map_spec_error_iff : forall A (mapper : A -> nat -> res unit) ol cnt running pos (ins : list (Z * inp A)) q err,
  In ((pos + q)%nat, Err err) (flat_map_spec mapper ol cnt running pos ins) <->
  exists now i ol' cnt' r', nth_error ins q = Some (now, i)
     /\ fm_after mapper (ol, cnt, running) (firstn q ins) = Some (ol', cnt', r')
     /\ error_source mapper ol' cnt' r' i err.
Proof. exact @flat_map_spec_error_iff. Qed.
Print Assumptions C11_flat_map_spec_error_iff.
Theorem C11_mc_spec_error_iff : forall A (mapper : A -> nat -> res unit) mc ol cnt running queue pos (ins : list (Z * inp A)) q err,
  In ((pos + q)%nat, Err err) (mc_spec mapper mc ol cnt running queue pos ins) <->
  exists now i ol' cnt' r' q', nth_error ins q = Some (now, i)
     /\ mc_after mapper mc (ol, cnt, running, queue) (firstn q ins) = Some (ol', cnt', r', q')
     /\ error_source mapper ol' cnt' r' i err.
Proof. exact @mc_spec_error_iff. Qed.
Print Assumptions C11_mc_spec_error_iff.
(* ... and the error is the LAST event of the output *)
Theorem C11_flat_map_error_is_last : forall A (mapper : A -> nat -> res unit) ol cnt running pos (ins : list (Z * inp A)) p err,
  In (p, Err err) (flat_map_spec mapper ol cnt running pos ins) ->
  exists pre, flat_map_spec mapper ol cnt running pos ins = pre ++ [(p, Err err)].
Proof. exact @flat_map_error_is_last. Qed.
Print Assumptions C11_flat_map_error_is_last.
Theorem C11_mc_error_is_last : forall A (mapper : A -> nat -> res unit) mc ol cnt running queue pos (ins : list (Z * inp A)) p err,
  In (p, Err err) (mc_spec mapper mc ol cnt running queue pos ins) ->
  exists pre, mc_spec mapper mc ol cnt running queue pos ins = pre ++ [(p, Err err)].
Proof. exact @mc_error_is_last. Qed.
Print Assumptions C11_mc_error_is_last.

(* inner 2 fails while it waits in the queue (ignored), then inner 1 fails while running (passed on,
   nothing after it); the state before input 3 has inner 1 running and inner 2 waiting *)
Example C11_witness_first_error :
  let ins := [(0, ISrc 0%nat (Next 1)); (0, ISrc 0%nat (Next 2)); (0, ISrc 2%nat (Err 8));
              (0, ISrc 1%nat (Err 7)); (0, ISrc 0%nat (Err 9))] in
  temitted (fst (run (x_merge_concurrent 1 (fun _ _ => Ok tt)) ins)) = [(4%nat, Err 7)]
  /\ mc_after (A:=Z) (fun _ _ => Ok tt) 1 (true, 0%nat, [], []) (firstn 3 ins) = Some (true, 2%nat, [1%nat], [2%nat])
  /\ temitted (fst (run (x_flat_map (fun x k => if Z.eqb x 2 then Raise 5 else Ok tt)) ins)) = [(2%nat, Err 5)].
Proof. vm_compute. repeat split; reflexivity. Qed.

(* ==== (d) CONCAT_MAP (merge(max_concurrent = 1) after map) emits the ORDERED CONCATENATION ====
   [inner_elems j ins]: the elements inner j delivers in ins, in order; [out_elems]: the elements of an
   output; [cold mapper 1 st ins]: every notification of an inner in ins arrives while that inner is
   running (subscribed) in the specification's state at that moment -- inners that produce only while
   subscribed. *)
(* EVERY mapper, EVERY input sequence -- whatever the interleaving of the outer's notifications with the
   inners' -- during which the output has not ended and whose inners are cold: the elements emitted are
   the elements of inner 1, then those of inner 2, ..., then those of inner cnt (cnt inners created) *)
Theorem C11_concat_map_ordered_concatenation :
  forall A (mapper : A -> nat -> res unit) (ins : list (Z * inp A)) ol cnt running queue,
  mc_after mapper 1 (true, 0%nat, [], []) ins = Some (ol, cnt, running, queue) ->
  cold mapper 1 (true, 0%nat, [], []) ins ->
  out_elems (temitted (fst (run (x_merge_concurrent 1 mapper) ins)))
  = concat (map (fun j => inner_elems j ins) (seq 1 cnt)).
Proof. exact @concat_map_ordered. Qed.
Print Assumptions C11_concat_map_ordered_concatenation.

(* closed form, terminal included, in one concrete environment (a synchronous outer delivering xs and
   completing, then the inners one after the other, a mapper that does not raise): the output is
   [concat_spec] of the inner sequences -- exactly the closed form of concat (C10_concat_closed_form):
   all elements of the inners in outer order, the first inner error passed on, completion after the
   last inner, open if an inner never terminates *)
Theorem C11_concat_map_closed_form :
  forall A (mapper : A -> nat -> res unit), (forall x k, mapper x k = Ok tt) ->
  forall (xs : list A) (srcs : list (list A * term)), length srcs = length xs ->
  emitted (fst (run (x_merge_concurrent 1 mapper) (cm_env xs srcs))) = concat_spec srcs.
Proof. exact @concat_map_closed_form. Qed.
Print Assumptions C11_concat_map_closed_form.

(* the hypotheses of the ordered-concatenation theorem hold on an interleaved schedule: the outer's
   second and third elements arrive while inner 1 runs, its completion while inner 2 runs *)
Example C11_witness_concat_map_ordered :
  let ins := [(0, ISrc 0%nat (Next 1)); (0, ISrc 1%nat (Next 10)); (0, ISrc 0%nat (Next 2));
              (0, ISrc 1%nat (Next 11)); (0, ISrc 0%nat (Next 3)); (0, ISrc 1%nat Done);
              (0, ISrc 2%nat (Next 20)); (0, ISrc 0%nat Done); (0, ISrc 2%nat Done); (0, ISrc 3%nat (Next 30))] in
  mc_after (A:=Z) (fun _ _ => Ok tt) 1 (true, 0%nat, [], []) ins = Some (false, 3%nat, [3%nat], [])
  /\ cold (fun _ _ => Ok tt) 1 (true, 0%nat, [], []) ins
  /\ out_elems (temitted (fst (run (x_merge_concurrent 1 (fun _ _ => Ok tt)) ins))) = [10; 11; 20; 30]
  /\ concat (map (fun j => inner_elems j ins) (seq 1 3)) = [10; 11; 20; 30].
Proof.
  cbn zeta. split; [vm_compute; reflexivity|]. split; [apply coldb_cold; vm_compute; reflexivity|].
  split; vm_compute; reflexivity.
Qed.
Example C11_witness_concat_map_closed_form :
  emitted (fst (run (x_merge_concurrent 1 (fun _ _ => Ok tt)) (cm_env [1; 2; 3] [([10; 11], TDone); ([], TDone); ([30], TErr 4)])))
  = [Next 10; Next 11; Next 30; Err 4].
Proof. vm_compute. reflexivity. Qed.
