(* C30 -- trampoline scheduling is same-thread, FIFO and never nested.

   Model: Core/Trampoline.v (Trampoline.run/_run/idle, TrampolineScheduler,
   CurrentThreadScheduler and its thread-local singleton, ScheduledItem,
   PriorityQueue; tied to the code by the K1 and K3 correspondences of
   harness/props/C30.py).  A configuration is a shared world and any number of
   threads; one micro-step is one [with self._lock:] block or one piece of
   unlocked code with at most one shared access.  Unless said otherwise every
   theorem quantifies over ALL initial clocks [c0], ALL per-thread histories
   [hs] (top-level schedule / schedule_relative / schedule_absolute / cancel /
   sleep / raise / schedule_required / ensure_trampoline calls whose actions are
   arbitrary finite trees of the same commands, on any mix of
   TrampolineScheduler instances, CurrentThreadScheduler instances and the
   current-thread singleton), ALL schedules [sch] (thread choices interleaved
   with arbitrary passage of time) and BOTH versions of the code ([c]: before and
   after the repair of the exit race).  The log is newest first: in
   [l2 ++ e :: l1], l1 is what happened before e.

   Sequential runs ([run_history], compared with the real schedulers by K1) and
   controlled two-thread runs ([macro_run], compared by K3 under the same
   schedule) are schedules of micro-steps (last two theorems), so everything
   below applies to them. *)
From RxVerif Require Import Base.Prelude Core.Trampoline Core.TrampolineFacts Core.TrampolineOrder
  Core.TrampolineSeq Core.TrampolineTerm Core.TrampBracket Core.TrampNoRaise.

(* One at a time, never nested: when an action of a trampoline starts, no other
   action of that trampoline is being executed (by any thread), ... *)
Theorem C30_never_nested : forall c c0 hs sch l2 k id l th due clk dk d l1,
  log (fst (crun c (start_config c0 hs) sch)) = l2 ++ EStart k id l th due clk dk d :: l1 ->
  dk = 0%nat.
Proof. exact never_nested. Qed.
Print Assumptions C30_never_nested.

(* ... and at every moment at most one action of a trampoline is being executed,
   also for a TrampolineScheduler shared by several threads *)
Theorem C30_one_at_a_time : forall c c0 hs sch k,
  (t_active (tramps (fst (crun c (start_config c0 hs) sch)) k) <= 1)%nat.
Proof. exact one_at_a_time. Qed.
Print Assumptions C30_one_at_a_time.

(* The same on the log alone (no ghost counter): if two actions of one trampoline
   start, the earlier one (x) has ended -- returned or raised -- before the later one (y)
   starts.  Hence an action scheduled while another is running starts only after that
   action returned.  All threads, schedules, both code versions. *)
Theorem C30_start_end_bracket :
  forall c c0 hs sch k l3 y ly thy dy cy dky ddy l2 x lx thx dx cx dkx ddx l1,
  log (fst (crun c (start_config c0 hs) sch))
    = l3 ++ EStart k y ly thy dy cy dky ddy :: l2 ++ EStart k x lx thx dx cx dkx ddx :: l1 ->
  exists r, In (EEnd k x lx r) l2.
Proof. exact start_end_bracket. Qed.
Print Assumptions C30_start_end_bracket.

(* ... and every end closes the action that is open: it is preceded by the start of the
   same item with no start or end of that trampoline in between *)
Theorem C30_end_closes_its_start : forall c c0 hs sch k l3 id l r l0,
  log (fst (crun c (start_config c0 hs) sch)) = l3 ++ EEnd k id l r :: l0 ->
  exists l2 th due clk dk d l1, l0 = l2 ++ EStart k id l th due clk dk d :: l1 /\
    forall e, In e l2 -> match e with EStart k' _ _ _ _ _ _ _ | EEnd k' _ _ _ => k' <> k | _ => True end.
Proof. exact end_closes_its_start. Qed.
Print Assumptions C30_end_closes_its_start.

(* Timed actions never run before their due time; the due time is the one the
   schedule call computed *)
Theorem C30_not_early : forall c c0 hs sch l2 k id l th due clk dk d l1,
  log (fst (crun c (start_config c0 hs) sch)) = l2 ++ EStart k id l th due clk dk d :: l1 ->
  due <= clk /\ exists th' clk', In (ECreate k id th' due clk') l1.
Proof. exact not_early. Qed.
Print Assumptions C30_not_early.

(* A cancelled action never runs *)
Theorem C30_cancelled_never_run : forall c c0 hs sch l2 k id l th due clk dk d l1,
  log (fst (crun c (start_config c0 hs) sch)) = l2 ++ EStart k id l th due clk dk d :: l1 ->
  ~ In (ECancel id) l1.
Proof. exact cancelled_never_run. Qed.
Print Assumptions C30_cancelled_never_run.

(* Actions scheduled on a current-thread scheduler run on the scheduling thread:
   the trampoline of (scheduler, thread o) is used by thread o only, for creating
   items as well as for running them *)
Theorem C30_same_thread : forall c c0 hs sch k o id l th due clk dk d th' due' clk',
  let lg := log (fst (crun c (start_config c0 hs) sch)) in
  owner k = Some o ->
  In (EStart k id l th due clk dk d) lg -> In (ECreate k id th' due' clk') lg ->
  th = o /\ th' = o.
Proof. exact same_thread. Qed.
Print Assumptions C30_same_thread.

(* Each thread's trampoline is independent: a step of thread th neither changes
   the trampoline that belongs to another thread o nor logs anything about it *)
Theorem C30_independent : forall c c0 hs sch th k o,
  let cf := crun c (start_config c0 hs) sch in
  let cf' := cstep c cf (Run th) in
  owner k = Some o -> o <> th ->
  tramps (fst cf') k = tramps (fst cf) k /\
  exists evs, log (fst cf') = evs ++ log (fst cf) /\ Forall (fun e => ev_key e <> Some k) evs.
Proof. exact independent. Qed.
Print Assumptions C30_independent.

(* Due-time order, first-scheduled-first among equal due times, and "an action
   scheduled while another is running runs only after it":  on the trampoline of
   a current-thread scheduler (owner k = Some o), under all interleavings with
   other threads, if nothing was scheduled on it with a due time already past
   (only schedule_absolute can do that), then whenever an action x starts every
   item y that is pending on that trampoline (enqueued, not started, not skipped
   as cancelled, not dropped) comes strictly later in (due time, creation order) *)
Theorem C30_run_order_current_thread : forall c c0 hs sch k o l2 x l th due clk dk d l1,
  owner k = Some o ->
  log (fst (crun c (start_config c0 hs) sch)) = l2 ++ EStart k x l th due clk dk d :: l1 ->
  no_past k l1 ->
  forall y th' duey clk', y <> x -> pending k y l1 -> In (ECreate k y th' duey clk') l1 ->
                          lexlt due x duey y.
Proof. exact run_order_current_thread. Qed.
Print Assumptions C30_run_order_current_thread.

(* the same for every scheduler kind when there is a single thread *)
Theorem C30_run_order_single_thread : forall c c0 h sch k l2 x l th due clk dk d l1,
  log (fst (crun c (start_config c0 [h]) sch)) = l2 ++ EStart k x l th due clk dk d :: l1 ->
  no_past k l1 ->
  forall y th' duey clk', y <> x -> pending k y l1 -> In (ECreate k y th' duey clk') l1 ->
                          lexlt due x duey y.
Proof. exact run_order_single_thread. Qed.
Print Assumptions C30_run_order_single_thread.

(* Nothing is lost: when every thread has returned from its calls, no item is
   pending (each enqueued item was started, or skipped because it was cancelled,
   or dropped), every trampoline is idle with an empty queue, ... *)
Theorem C30_all_run : forall c c0 hs sch k id,
  let cf := crun c (start_config c0 hs) sch in
  finished (snd cf) -> ~ pending k id (log (fst cf)).
Proof. exact all_run. Qed.
Print Assumptions C30_all_run.

Theorem C30_drained_at_return : forall c c0 hs sch k,
  let cf := crun c (start_config c0 hs) sch in
  finished (snd cf) ->
  t_idle (tramps (fst cf) k) = true /\ t_queue (tramps (fst cf) k) = [] /\
  t_active (tramps (fst cf) k) = 0%nat.
Proof. exact drained_at_return. Qed.
Print Assumptions C30_drained_at_return.

(* ... and, in the code as it is now, items are dropped only when an action
   raised (the exception path of Trampoline.run abandons the queue) *)
Theorem C30_dropped_only_by_exception : forall c0 hs sch k ids exn,
  In (EDrop k ids exn) (log (fst (crun (Cfg false) (start_config c0 hs) sch))) -> exn = true.
Proof. exact dropped_only_by_exception. Qed.
Print Assumptions C30_dropped_only_by_exception.

(* EVERY scheduled, non-cancelled action runs when nobody raises: in the code as it is
   now, for any number of threads, any histories whose actions never raise ([noraise]:
   hereditarily no CRaise) and any schedule, nothing is ever dropped; and once every
   thread has returned each enqueued item was started, or was skipped -- and then its
   disposable had been disposed (so an action that was scheduled and not cancelled ran) *)
Theorem C30_no_drop_if_no_raise : forall c0 hs sch k ids exn,
  Forall (fun h => forallb noraise h = true) hs ->
  ~ In (EDrop k ids exn) (log (fst (crun (Cfg false) (start_config c0 hs) sch))).
Proof. exact no_drop_if_no_raise. Qed.
Print Assumptions C30_no_drop_if_no_raise.

Theorem C30_all_started_if_no_raise : forall c0 hs sch k id,
  Forall (fun h => forallb noraise h = true) hs ->
  let cf := crun (Cfg false) (start_config c0 hs) sch in
  finished (snd cf) -> enqueued k id (log (fst cf)) ->
  started k id (log (fst cf)) \/ (skipped k id (log (fst cf)) /\ In (ECancel id) (log (fst cf))).
Proof. exact all_started_if_no_raise. Qed.
Print Assumptions C30_all_started_if_no_raise.

(* "Eventually runs": on one thread every call returns -- the sequential run of ANY history ends
   within the fuel [run_history] gives it (a potential that every micro-step decreases: 16 per
   schedule call, 2 per raise, 1 per other command) -- and when it has returned every item that
   was enqueued has been started, skipped as cancelled or dropped, and every trampoline is idle
   with an empty queue *)
Theorem C30_sequential_run_terminates : forall c c0 h, exists w', run_history c c0 h = Finished w'.
Proof. exact run_history_finishes. Qed.
Print Assumptions C30_sequential_run_terminates.

Theorem C30_every_call_returns_and_all_run : forall c c0 h,
  exists w', run_history c c0 h = Finished w' /\
    (forall k id, ~ pending k id (log w')) /\
    (forall k, t_idle (tramps w' k) = true /\ t_queue (tramps w' k) = [] /\ t_active (tramps w' k) = 0%nat).
Proof. exact run_history_all_run. Qed.
Print Assumptions C30_every_call_returns_and_all_run.

(* Sequential and controlled runs are schedules *)
Theorem C30_sequential_run_is_a_schedule : forall c c0 h,
  exists n t', crun c (start_config c0 [h]) (repeat (Run 0) n) = (world_of (run_history c c0 h), [t']) /\
               (forall w', run_history c c0 h = Finished w' -> finished [t']).
Proof. exact run_history_is_crun. Qed.
Print Assumptions C30_sequential_run_is_a_schedule.

Theorem C30_controlled_run_is_a_schedule : forall c fuel sch cf,
  exists sch', macro_run c fuel cf sch = crun c cf sch'.
Proof. exact macro_run_is_crun. Qed.
Print Assumptions C30_controlled_run_is_a_schedule.

(* ---- refuted before the repair: the exit race of a shared trampoline ---- *)

(* Two threads, one TrampolineScheduler, one action each.  Thread 0 drains, sees
   the queue empty and leaves _run; thread 1 enqueues its action, sees the
   trampoline busy and returns; thread 0's [finally] clears the queue: action 1
   is dropped although no action raised, and never runs.
   (proposed_fixes/C30-trampoline-exit-race.diff; reproduced on the real code
   under the same schedule by harness/props/C30.py --replay) *)
Definition lost_h0 : list cmd := [CSched (TS 0) Now 0 []].
Definition lost_h1 : list cmd := [CSched (TS 0) Now 1 []].
Definition lost_sched : list nat := [0; 0; 0; 0; 1; 1; 0]%nat.

Example C30_exit_race_refuted :
  let cf := macro_run (Cfg true) 100 (start_config 0 [lost_h0; lost_h1]) lost_sched in
  all_done (snd cf) = true /\
  obs_of (log (fst cf)) [] = [ORun 0 0 0 0 0; OEnd 0] /\
  dropped_without_exception (log (fst cf)) = [1%nat].
Proof. vm_compute. repeat split; reflexivity. Qed.

(* the same histories under the same thread choices after the repair: both run *)
Example C30_exit_race_repaired :
  let cf := macro_run (Cfg false) 100 (start_config 0 [lost_h0; lost_h1]) [0; 0; 0; 0; 1; 1; 1; 1; 1]%nat in
  all_done (snd cf) = true /\
  obs_of (log (fst cf)) [] = [ORun 0 0 0 0 0; OEnd 0; ORun 1 1 0 0 0; OEnd 1] /\
  dropped_without_exception (log (fst cf)) = [].
Proof. vm_compute. repeat split; reflexivity. Qed.

(* ---- limits of the order statement (why its hypotheses are there) ---- *)

(* On a trampoline SHARED by two threads the run order is racy: thread 1 reads
   the clock (0) for its item, thread 0's action sleeps 5 and the drain loop
   moves item 2 (due 5) to its ready list, thread 1 enqueues item 0 (due 0),
   item 2 runs first.  Nothing was scheduled in the past. *)
Definition race_h0 : list cmd := [CSched (TS 0) Now 0 [CSleep 5; CSched (TS 0) Now 1 []]].
Definition race_h1 : list cmd := [CSched (TS 0) Now 2 []].
Definition race_sched : list sstep :=
  [Run 1] ++ repeat (Run 0) 12 ++ [Run 1] ++ repeat (Run 0) 10.

Example C30_shared_order_is_racy :
  let lg := log (fst (crun (Cfg false) (start_config 0 [race_h0; race_h1]) race_sched)) in
  order_violations (KShared 0) lg = [(2%nat, 0%nat)] /\ no_pastb (KShared 0) lg = true.
Proof. vm_compute. split; reflexivity. Qed.

(* schedule_absolute with a due time in the past, issued while the drain loop holds
   ready items: the item due at 7 runs after the one due at 10 (single thread) *)
Definition past_h : list cmd :=
  [CSched (TS 0) Now 0 [CSched (TS 0) (Rel 5) 1 [CSched (TS 0) (Abs 7) 3 []];
                        CSched (TS 0) (Rel 10) 2 []; CSleep 10]].

Example C30_absolute_in_the_past :
  let o := run_history (Cfg false) 0 past_h in
  observe o = [ORun 0 0 0 0 0; OEnd 0; ORun 1 0 10 0 0; OEnd 1; ORun 2 0 10 0 0; OEnd 2;
               ORun 3 0 10 0 0; OEnd 3] /\
  order_violations (KShared 0) (log (world_of o)) = [(2%nat, 3%nat)] /\
  no_pastb (KShared 0) (log (world_of o)) = false.
Proof. vm_compute. repeat split; reflexivity. Qed.

(* ---- non-vacuity ---------------------------------------------------- *)

(* immediate and timed items, nesting, a cancelled item, the singleton used
   from inside a TrampolineScheduler action (a different trampoline: it runs at
   once, depth 1, not nested on its own trampoline) *)
Definition ex_h : list cmd :=
  [CSched (TS 0) Now 0
     [CSched (TS 0) (Rel 2000000) 1 [];
      CSched (TS 0) (Rel 1000000) 2 [CCancel 1];
      CSched (TS 0) Now 3 [];
      CSched CTS Now 4 [CRequired CTS; CEnsure CTS 5 []]];
   CRequired (TS 0)].

Example C30_witness_run :
  observe (run_history (Cfg false) 0 ex_h) =
    [ORun 0 0 0 0 0; ORun 4 0 0 0 1; ORequired 0 false; OInline 5 0 0 2; OEnd 5; OEnd 4; OEnd 0;
     ORun 3 0 0 0 0; OEnd 3; ORun 2 0 1000000 0 0; OEnd 2; ORequired 0 true].
Proof. vm_compute. reflexivity. Qed.

(* the hypothesis of the order theorems holds of it, and the checker finds no violation *)
Example C30_witness_no_past :
  let lg := log (world_of (run_history (Cfg false) 0 ex_h)) in
  no_pastb (KShared 0) lg = true /\ order_violations (KShared 0) lg = [] /\
  pendingb (KShared 0) 1 lg = false.
Proof. vm_compute. repeat split; reflexivity. Qed.

(* a pending item exists in the middle of that run (hypothesis [pending] is satisfiable):
   after 9 micro-steps items 1, 2 are enqueued and not started *)
Example C30_witness_pending :
  let cf := crun (Cfg false) (start_config 0 [ex_h]) (repeat (Run 0) 9) in
  pendingb (KShared 0) 1 (log (fst cf)) = true.
Proof. vm_compute. reflexivity. Qed.

(* two threads, each with the current-thread singleton and a shared scheduler, a full interleaving:
   the current-thread actions 0, 1 / 3 run on their own threads; action 2, scheduled by thread 0 on
   the shared TrampolineScheduler while thread 1 was draining it, runs on thread 1 (as documented) *)
Example C30_witness_two_threads :
  let cf := macro_run (Cfg false) 100
              (start_config 0 [[CSched CTS Now 0 [CSched CTS Now 1 []]; CSched (TS 0) Now 2 []];
                               [CSched CTS (Rel 5) 3 []; CSched (TS 0) Now 4 []]])
              [0; 1; 0; 1; 0; 1; 0; 1; 0; 1; 0; 1; 0; 1; 0; 1; 0; 1; 0; 1; 0; 1; 0; 1; 0; 1; 0; 1]%nat in
  all_done (snd cf) = true /\
  obs_of (log (fst cf)) [] =
    [ORun 0 0 0 0 0; OEnd 0; ORun 3 1 5 0 0; OEnd 3; ORun 1 0 5 0 0; OEnd 1; ORun 4 1 5 0 0; OEnd 4;
     ORun 2 1 5 0 0; OEnd 2].
Proof. vm_compute. split; reflexivity. Qed.

(* the premise of C30_start_end_bracket is satisfiable: in the run of [ex_h] three actions
   of the shared trampoline start, each after the previous one ended (oldest first;
   true = start, false = end, with the item id) *)
Example C30_witness_bracket :
  flat_map (fun e => match e with
                     | EStart (KShared O) id _ _ _ _ _ _ => [(true, id)]
                     | EEnd (KShared O) id _ _ => [(false, id)]
                     | _ => [] end)
           (rev (log (world_of (run_history (Cfg false) 0 ex_h))))
  = [(true, 0%nat); (false, 0%nat); (true, 3%nat); (false, 3%nat); (true, 2%nat); (false, 2%nat)].
Proof. vm_compute. reflexivity. Qed.

(* the hypothesis of C30_all_started_if_no_raise holds of [ex_h]; in its run item 1 is the
   skipped one (cancelled by action 2), all the others were started *)
Example C30_witness_noraise :
  forallb noraise ex_h = true /\
  let lg := log (world_of (run_history (Cfg false) 0 ex_h)) in
  flat_map (fun e => match e with ESkip _ id => [id] | _ => [] end) lg = [1%nat] /\
  existsb (fun e => match e with ECancel 1 => true | _ => false end) lg = true /\
  length (filter (fun e => match e with EStart _ _ _ _ _ _ _ _ => true | _ => false end) lg) = 4%nat /\
  length (filter (fun e => match e with EEnq _ _ _ _ => true | _ => false end) lg) = 5%nat.
Proof. vm_compute. repeat split; reflexivity. Qed.

(* ---- independence of the per-thread trampolines over whole runs (Core/TrampolineIndep.v) ------
   (appended; needs Core.TrampolineIndep) *)
From RxVerif Require Import Core.TrampolineIndep.

(* ANY stretch b of a schedule in which thread o is not scheduled -- other threads run, on any
   schedulers, and time passes -- leaves thread o itself (its whole call stack), every trampoline
   that belongs to o and everything the log says about those trampolines ([klog]) unchanged.
   Other threads reach thread o's trampolines only through what the next step of o reads from
   the shared world: the clock, the set of disposed items and the item counter. *)
Theorem C30_other_threads_stutter : forall c c0 hs a b o,
  (forall th, In (Run th) b -> th <> o) ->
  let cf := crun c (start_config c0 hs) a in
  let cf' := crun c cf b in
  nth_error (snd cf') o = nth_error (snd cf) o /\
  forall k, owner k = Some o ->
    tramps (fst cf') k = tramps (fst cf) k /\ klog k (log (fst cf')) = klog k (log (fst cf)).
Proof. exact others_stutter. Qed.
Print Assumptions C30_other_threads_stutter.

(* hypothesis satisfiable, non-trivially: in the two-thread run of C30_witness_two_threads' kind,
   thread 1 makes two steps while thread 0 is parked inside its drain loop *)
Example C30_witness_stutter :
  let cf := crun (Cfg false) (start_config 0 hs_shared) [Run 0; Run 0; Run 0; Run 0; Run 0]%nat in
  let cf' := crun (Cfg false) cf [Run 1; Tick 3; Run 1]%nat in
  length (log (fst cf')) = (length (log (fst cf)) + 2)%nat /\
  option_map stk (nth_error (snd cf) 0) = Some [FRun (KShared 0) [] (PWait 10); FBody true []].
Proof. vm_compute. split; reflexivity. Qed.

(* The stronger reading "what the log says about o's trampolines is what it says in the run where
   every step of another thread is replaced by the passage of the time it took" ([proj]) is FALSE
   of the model: (1) another thread can dispose an item of o; (2) a shared TrampolineScheduler whose
   runner is o executes another thread's action on thread o, and that action can schedule on o's
   current-thread scheduler; (3) the item counter is shared, so even otherwise the ids differ. *)
Theorem C30_independence_by_projection_refuted :
  ~ (forall c c0 hs sch k o, owner k = Some o ->
       klog k (log (fst (crun c (start_config c0 hs) sch)))
       = klog k (log (fst (crun c (start_config c0 hs) (proj c o (start_config c0 hs) sch))))).
Proof. exact independence_by_projection_refuted. Qed.
Print Assumptions C30_independence_by_projection_refuted.

Example C30_projection_refuted_by_cancel :
  let cf0 := start_config 0 hs_cancel in
  proj (Cfg false) 0 cf0 sch_cancel
    = [Run 0; Run 0; Run 0; Run 0; Run 0; Tick 0; Run 0; Run 0; Run 0; Run 0; Run 0]%nat /\
  klog (KLocal 0) (log (fst (crun (Cfg false) cf0 sch_cancel)))
    = [EIdle (KLocal 0) 0; ESkip (KLocal 0) 0; EEnq (KLocal 0) 0 0 true; ECreate (KLocal 0) 0 0 10 0] /\
  klog (KLocal 0) (log (fst (crun (Cfg false) cf0 (proj (Cfg false) 0 cf0 sch_cancel))))
    = [EEnd (KLocal 0) 0 5 false; EStart (KLocal 0) 0 5 0 10 10 0 0; EEnq (KLocal 0) 0 0 true; ECreate (KLocal 0) 0 0 10 0].
Proof. exact proj_refuted_cancel. Qed.

Example C30_projection_refuted_by_shared_scheduler :
  let cf0 := start_config 0 hs_shared in
  klog (KLocal 0) (log (fst (crun (Cfg false) cf0 sch_shared)))
    = [EIdle (KLocal 0) 0; EEnd (KLocal 0) 2 8 false; EStart (KLocal 0) 2 8 0 0 0 0 1; EEnq (KLocal 0) 2 0 true;
       ECreate (KLocal 0) 2 0 0 0] /\
  klog (KLocal 0) (log (fst (crun (Cfg false) cf0 (proj (Cfg false) 0 cf0 sch_shared)))) = [].
Proof. exact proj_refuted_shared. Qed.

Example C30_projection_refuted_by_ids :
  let cf0 := start_config 0 hs_ids in
  klog (KLocal 0) (log (fst (crun (Cfg false) cf0 sch_ids)))
    = [EEnq (KLocal 0) 1 0 true; ECreate (KLocal 0) 1 0 0 0] /\
  klog (KLocal 0) (log (fst (crun (Cfg false) cf0 (proj (Cfg false) 0 cf0 sch_ids))))
    = [EEnq (KLocal 0) 0 0 true; ECreate (KLocal 0) 0 0 0 0].
Proof. exact proj_refuted_ids. Qed.
