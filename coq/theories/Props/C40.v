(* C40 -- resources and finally-actions are released exactly once.
   Machines (Ops/Using.v, written from observable/using.py,
   operators/_finallyaction.py, operators/_do.py) run on the subscription
   runner Ops/Multi.v.  Side effects (resource created / released, finally
   action, do-callbacks with their argument) are observable trace entries.
   All theorems quantify over EVERY input sequence at the operator's boundary:
   arbitrary (also non-conforming) source notifications, timer firings and the
   dispose instant, any order, plus any notifications [pre] the source already
   delivers inside its own subscribe().
   "Exactly once, at termination or disposal, whichever comes first" reads:
   after every prefix of the inputs the effect has happened once if a terminal
   notification was emitted or a dispose was delivered within that prefix, and
   not at all otherwise (once_timing: it never happens again later). *)
From RxVerif Require Import Base.Prelude Ops.Machine Ops.MachineFacts Ops.Multi Ops.MultiFacts
  Ops.Elementwise Ops.RaiseFacts Ops.Lift Ops.MultiCase Ops.Using Ops.UsingFacts Ops.UsingFacts2.

(* ---- using -------------------------------------------------------------- *)
Theorem C40_using_releases_resource_exactly_once : forall obf sched pre ins,
  let m := with_pre (x_using (Ok true) obf sched) pre in
  cnt_tr E_RELEASED (fst (run m ins))
  = if ended (emitted (fst (run m ins))) || has_dispose ins then 1%nat else 0%nat.
Proof. intros obf sched pre ins. exact (once_observable _ _ _ (once_with_pre _ _ _ pre (using_once obf sched) (using_calm _ _ _)) ins). Qed.
Print Assumptions C40_using_releases_resource_exactly_once.

Theorem C40_using_release_instant : forall obf sched pre a b,
  let m := with_pre (x_using (Ok true) obf sched) pre in
  exists tr', fst (run m (a ++ b)) = fst (run m a) ++ tr'
    /\ cnt_tr E_RELEASED (fst (run m a))
       = (if ended (emitted (fst (run m a))) || has_dispose a then 1%nat else 0%nat)
    /\ (ended (emitted (fst (run m a))) || has_dispose a = true -> cnt_tr E_RELEASED tr' = 0%nat).
Proof. intros obf sched pre a b. exact (once_timing _ _ _ (once_with_pre _ _ _ pre (using_once obf sched) (using_calm _ _ _)) a b). Qed.
Print Assumptions C40_using_release_instant.

(* the whole effect balance, for EVERY outcome of the two factories (rf: Ok true = a
   disposable resource, Ok false = None, Raise e = the resource factory raises;
   [has_resource rf] = true iff rf = Ok true): a resource is created exactly once iff
   the resource factory returned one, and released exactly once at the stop iff one
   was created -- never when the factory raised or returned None *)
Theorem C40_using_effect_balance : forall rf obf sched pre ins,
  let tr := fst (run (with_pre (x_using rf obf sched) pre) ins) in
  cnt_tr E_CREATED tr = (if has_resource rf then 1%nat else 0%nat) /\
  cnt_tr E_RELEASED tr
  = (if has_resource rf then if ended (emitted tr) || has_dispose ins then 1%nat else 0%nat else 0%nat).
Proof. exact using_effect_balance. Qed.
Print Assumptions C40_using_effect_balance.

(* a factory raises e ([using_failure rf obf] = Some e: the resource factory, or else
   the observable factory) and no scheduler was passed: the subscriber receives exactly
   on_error(e), inside subscribe() (tag 0), and nothing else whatever happens afterwards *)
Theorem C40_using_factory_failure_emits : forall rf obf e pre ins,
  using_failure rf obf = Some e ->
  temitted (fst (run (with_pre (x_using rf obf false) pre) ins)) = [(0%nat, Err e)].
Proof. exact using_factory_failure_emits. Qed.
Print Assumptions C40_using_factory_failure_emits.

(* ... and the same with a subscribe-time scheduler (since /repo's fix of using the failure is delivered inside
   subscribe() in both cases; before it, with a scheduler, the error was only queued and could be overtaken) *)
Theorem C40_using_factory_failure_emits_any_scheduler : forall rf obf sched e pre ins,
  using_failure rf obf = Some e ->
  temitted (fst (run (with_pre (x_using rf obf sched) pre) ins)) = [(0%nat, Err e)].
Proof.
  intros rf obf sched e pre ins H.
  assert (E : x_using rf obf sched = x_using rf obf false).
  { destruct rf as [has|e1]; [destruct obf as [u|e2]|]; cbn in H; try discriminate; reflexivity. }
  rewrite E. exact (using_factory_failure_emits rf obf e pre ins H).
Qed.
Print Assumptions C40_using_factory_failure_emits_any_scheduler.

Example C40_using_failure_hyp :
  using_failure (Ok true) (Raise 7) = Some 7 /\ using_failure (Raise 8) (Ok tt) = Some 8 /\
  has_resource (Ok true) = true /\ has_resource (Ok false) = false /\ has_resource (Raise 8) = false.
Proof. repeat split. Qed.

(* the observable factory raises: created, released and on_error all inside
   subscribe(), with or without a subscribe-time scheduler (since /repo's fix of
   using; before it the error was a throw() queued on that scheduler) *)
Example C40_using_factory_failure_immediate :
  run_canon (x_using (Ok true) (Raise 7) false) []
  = [(0%nat, OEmit (Err 7)); (0%nat, OEffect E_CREATED); (0%nat, OEffect E_RELEASED)].
Proof. vm_compute. reflexivity. Qed.
Example C40_using_factory_failure_with_scheduler_is_immediate_too :
  run_canon (x_using (Ok true) (Raise 7) true) [(5, IDispose); (5, ITick 0%nat)]
  = [(0%nat, OEmit (Err 7)); (0%nat, OEffect E_CREATED); (0%nat, OEffect E_RELEASED)].
Proof. vm_compute. reflexivity. Qed.
Example C40_using_termination_and_disposal_same_instant :
  run_canon (x_using (Ok true) (Ok tt) false) [(5, ISrc 0%nat Done); (5, IDispose)]
  = [(0%nat, OSub 0%nat); (0%nat, OEffect E_CREATED);
     (1%nat, OEmit Done); (1%nat, OUnsub 0%nat); (1%nat, OEffect E_RELEASED)].
Proof. vm_compute. reflexivity. Qed.

Theorem C40_using_is_transparent : forall has sched pre ins,
  strip_t (fst (run (with_pre (x_using (Ok has) (Ok tt) sched) pre) ins))
  = strip_t (fst (run (with_pre x_id pre) ins)).
Proof. intros. exact (proj1 (run_sim _ _ _ (sim_with_pre _ _ _ pre (using_sim has sched)) ins)). Qed.
Print Assumptions C40_using_is_transparent.

(* ---- finally_action / do_finally / do_on_dispose -------------------------- *)
Theorem C40_finally_action_runs_exactly_once : forall pre ins,
  let m := with_pre x_finally_action pre in
  cnt_tr E_FINALLY (fst (run m ins))
  = if ended (emitted (fst (run m ins))) || has_dispose ins then 1%nat else 0%nat.
Proof. intros pre ins. exact (once_observable _ _ _ (once_with_pre _ _ _ pre finally_action_once finally_action_calm) ins). Qed.
Print Assumptions C40_finally_action_runs_exactly_once.

Theorem C40_finally_action_instant : forall pre a b,
  let m := with_pre x_finally_action pre in
  exists tr', fst (run m (a ++ b)) = fst (run m a) ++ tr'
    /\ cnt_tr E_FINALLY (fst (run m a))
       = (if ended (emitted (fst (run m a))) || has_dispose a then 1%nat else 0%nat)
    /\ (ended (emitted (fst (run m a))) || has_dispose a = true -> cnt_tr E_FINALLY tr' = 0%nat).
Proof. intros pre a b. exact (once_timing _ _ _ (once_with_pre _ _ _ pre finally_action_once finally_action_calm) a b). Qed.
Print Assumptions C40_finally_action_instant.

Theorem C40_do_finally_runs_exactly_once : forall pre ins,
  let m := with_pre x_do_finally pre in
  cnt_tr E_FINALLY (fst (run m ins))
  = if ended (emitted (fst (run m ins))) || has_dispose ins then 1%nat else 0%nat.
Proof. intros pre ins. exact (once_observable _ _ _ (once_with_pre _ _ _ pre do_finally_once do_finally_calm) ins). Qed.
Print Assumptions C40_do_finally_runs_exactly_once.

Theorem C40_do_finally_instant : forall pre a b,
  let m := with_pre x_do_finally pre in
  exists tr', fst (run m (a ++ b)) = fst (run m a) ++ tr'
    /\ cnt_tr E_FINALLY (fst (run m a))
       = (if ended (emitted (fst (run m a))) || has_dispose a then 1%nat else 0%nat)
    /\ (ended (emitted (fst (run m a))) || has_dispose a = true -> cnt_tr E_FINALLY tr' = 0%nat).
Proof. intros pre a b. exact (once_timing _ _ _ (once_with_pre _ _ _ pre do_finally_once do_finally_calm) a b). Qed.
Print Assumptions C40_do_finally_instant.

(* what the was_invoked flag is for *)
Theorem C40_do_finally_needs_its_guard :
  cnt_tr E_FINALLY (fst (run x_do_finally_unguarded [(0, ISrc 0%nat Done)])) = 2%nat.
Proof. exact do_finally_needs_guard. Qed.
Print Assumptions C40_do_finally_needs_its_guard.

Theorem C40_do_on_dispose_runs_exactly_once : forall pre ins,
  let m := with_pre x_do_on_dispose pre in
  cnt_tr E_ON_DISPOSE (fst (run m ins))
  = if ended (emitted (fst (run m ins))) || has_dispose ins then 1%nat else 0%nat.
Proof. intros pre ins. exact (once_observable _ _ _ (once_with_pre _ _ _ pre do_on_dispose_once do_on_dispose_calm) ins). Qed.
Print Assumptions C40_do_on_dispose_runs_exactly_once.

Theorem C40_finalizers_are_transparent : forall pre ins,
  strip_t (fst (run (with_pre x_finally_action pre) ins)) = strip_t (fst (run (with_pre x_id pre) ins))
  /\ strip_t (fst (run (with_pre x_do_finally pre) ins)) = strip_t (fst (run (with_pre x_id pre) ins))
  /\ strip_t (fst (run (with_pre x_do_on_dispose pre) ins)) = strip_t (fst (run (with_pre x_id pre) ins)).
Proof.
  intros pre ins. repeat split.
  - exact (proj1 (run_sim _ _ _ (sim_with_pre _ _ _ pre finally_action_sim) ins)).
  - exact (proj1 (run_sim _ _ _ (sim_with_pre _ _ _ pre do_finally_sim) ins)).
  - exact (proj1 (run_sim _ _ _ (sim_with_pre _ _ _ pre do_on_dispose_sim) ins)).
Qed.
Print Assumptions C40_finalizers_are_transparent.

(* ---- do_action and variants: sequence unchanged unless a callback raises --- *)
Theorem C40_do_action_is_transparent : forall fn fe fd pre ins,
  calm1 fn -> calm1 fe -> calm0 fd ->
  strip_t (fst (run (with_pre (x_do_action fn fe fd) pre) ins)) = strip_t (fst (run (with_pre x_id pre) ins)).
Proof. intros fn fe fd pre ins H1 H2 H3. exact (proj1 (run_sim _ _ _ (sim_with_pre _ _ _ pre (do_action_sim fn fe fd H1 H2 H3)) ins)). Qed.
Print Assumptions C40_do_action_is_transparent.

Theorem C40_do_variants_are_transparent : forall f pre ins,
  (forall x, f x = Ok tt) ->
  strip_t (fst (run (with_pre (x_do_after_next f) pre) ins)) = strip_t (fst (run (with_pre x_id pre) ins))
  /\ strip_t (fst (run (with_pre (x_do_on_subscribe (Ok tt)) pre) ins)) = strip_t (fst (run (with_pre x_id pre) ins))
  /\ strip_t (fst (run (with_pre (x_do_on_terminate (Ok tt)) pre) ins)) = strip_t (fst (run (with_pre x_id pre) ins))
  /\ forall g, strip_t (fst (run (with_pre (x_do_after_terminate g) pre) ins))
               = strip_t (fst (run (with_pre x_id pre) ins)).
Proof.
  intros f pre ins Hf. repeat split.
  - exact (proj1 (run_sim _ _ _ (sim_with_pre _ _ _ pre (do_after_next_sim f Hf)) ins)).
  - exact (proj1 (run_sim _ _ _ (sim_with_pre _ _ _ pre do_on_subscribe_sim) ins)).
  - exact (proj1 (run_sim _ _ _ (sim_with_pre _ _ _ pre do_on_terminate_sim) ins)).
  - intros g. exact (proj1 (run_sim _ _ _ (sim_with_pre _ _ _ pre (do_after_terminate_sim g)) ins)).
Qed.
Print Assumptions C40_do_variants_are_transparent.

(* what "unchanged" is for a conforming source: every element at its instant,
   then the source's termination *)
Theorem C40_identity_closed_form : forall xs t,
  temitted (fst (run x_id (feed0 (events xs t)))) = nexts (indexed 1 xs) ++ tterm (S (length xs)) t.
Proof. exact id_closed_form. Qed.
Print Assumptions C40_identity_closed_form.

(* the callbacks observe exactly the notifications delivered, in order, each at
   its instant *)
Theorem C40_do_action_observes_every_notification : forall fn fe ins,
  (forall x, fn x = Ok tt) -> (forall x, fe x = Ok tt) ->
  let tr := fst (run (x_do_action (Some fn) (Some fe) (Some (Ok tt))) ins) in
  teffs tr = map (tcode do_code) (temitted tr).
Proof. intros fn fe ins H1 H2. exact (effects_mirror_emissions _ _ (do_action_mirrors fn fe H1 H2) ins). Qed.
Print Assumptions C40_do_action_observes_every_notification.

(* raising callbacks *)
Theorem C40_do_action_raising_on_next_closed_form : forall fn xs t,
  temitted (fst (run (x_do_action (Some fn) None None) (feed0 (events xs t))))
  = nexts (fst (until_raise (tapf fn) 1 xs)) ++ close (S (length xs)) t (snd (until_raise (tapf fn) 1 xs)).
Proof. exact do_next_closed_form. Qed.
Print Assumptions C40_do_action_raising_on_next_closed_form.

(* do_action with ARBITRARY (possibly raising) callbacks on a conforming source, closed
   form.  [tapo fn x] = Ok x unless the on_next callback raises on x; [do_term fe fd t]
   is the source's termination as seen downstream: TErr e becomes TErr e' when the
   on_error callback raises e' on e, TDone becomes TErr e when the on_completed
   callback raises e, unchanged otherwise.  The subscriber gets the elements up to the
   first raising on_next call, then that exception -- or else all elements and the
   (possibly replaced) termination *)
Theorem C40_do_action_closed_form : forall fn fe fd xs t,
  temitted (fst (run (x_do_action fn fe fd) (feed0 (events xs t))))
  = nexts (fst (until_raise (tapo fn) 1 xs))
    ++ close (S (length xs)) (do_term fe fd t) (snd (until_raise (tapo fn) 1 xs)).
Proof. exact do_action_closed_form. Qed.
Print Assumptions C40_do_action_closed_form.

(* the exception of a raising on_error callback REPLACES the source's error *)
Theorem C40_do_error_callback_replaces : forall fn fe fd xs e e',
  calm1 fn -> fe e = Raise e' ->
  temitted (fst (run (x_do_action fn (Some fe) fd) (feed0 (events xs (TErr e)))))
  = nexts (indexed 1 xs) ++ [(S (length xs), Err e')].
Proof. exact do_error_callback_replaces. Qed.
Print Assumptions C40_do_error_callback_replaces.

(* a raising on_completed callback turns completion into on_error(its exception) *)
Theorem C40_do_completed_callback_replaces : forall fn fe xs e,
  calm1 fn ->
  temitted (fst (run (x_do_action fn fe (Some (Raise e))) (feed0 (events xs TDone))))
  = nexts (indexed 1 xs) ++ [(S (length xs), Err e)].
Proof. exact do_completed_callback_replaces. Qed.
Print Assumptions C40_do_completed_callback_replaces.

(* do_on_terminate: a raising callback turns either termination into on_error(its
   exception); a calm one changes nothing *)
Theorem C40_do_on_terminate_closed_form : forall f xs t,
  temitted (fst (run (x_do_on_terminate f) (feed0 (events xs t))))
  = nexts (indexed 1 xs)
    ++ tterm (S (length xs)) (match f, t with
                              | Raise e, TErr _ | Raise e, TDone => TErr e
                              | _, _ => t
                              end).
Proof. exact do_on_terminate_closed_form. Qed.
Print Assumptions C40_do_on_terminate_closed_form.

(* effect disciplines of the variants, on EVERY input sequence: the on_terminate /
   after_terminate callback runs once iff a terminal notification was emitted (so NOT
   at a dispose), whatever the callback does; the on_subscribe callback runs exactly once *)
Theorem C40_terminate_callbacks_run_at_terminal_only : forall f pre ins,
  let tr1 := fst (run (with_pre (x_do_on_terminate f) pre) ins) in
  let tr2 := fst (run (with_pre (x_do_after_terminate f) pre) ins) in
  cnt_tr E_TERMINATE tr1 = (if ended (emitted tr1) then 1%nat else 0%nat) /\
  cnt_tr E_AFTER_TERMINATE tr2 = (if ended (emitted tr2) then 1%nat else 0%nat).
Proof. exact terminate_callbacks_run_at_terminal. Qed.
Print Assumptions C40_terminate_callbacks_run_at_terminal_only.

Theorem C40_on_subscribe_callback_runs_once : forall f pre ins,
  cnt_tr E_SUBSCRIBE (fst (run (with_pre (x_do_on_subscribe f) pre) ins)) = 1%nat.
Proof. exact on_subscribe_runs_once. Qed.
Print Assumptions C40_on_subscribe_callback_runs_once.

(* hypotheses satisfiable: a calm on_next callback together with a raising on_error callback *)
Example C40_do_error_callback_hyp :
  calm1 (Some (fun _ : Z => Ok tt)) /\ (fun _ : Z => @Raise unit 61) 11 = Raise 61 /\
  temitted (fst (run (x_do_action (Some (fun _ => Ok tt)) (Some (fun _ => Raise 61)) None)
                     (feed0 (events [4; 5] (TErr 11)))))
  = [(1%nat, Next 4); (2%nat, Next 5); (3%nat, Err 61)].
Proof. split; [intros g x Hg; inversion Hg; reflexivity|split; [reflexivity|vm_compute; reflexivity]]. Qed.

Theorem C40_route_do_on_next : forall fn fe fd s now k x e, fn x = Raise e ->
  x_step (x_do_action (Some fn) fe fd) s now (ISrc k (Next x)) = (s, [CEffect (e_do_next x)], Fail e).
Proof. exact do_next_raises. Qed.
Theorem C40_route_do_on_error : forall fn fe fd s now k x e, fe x = Raise e ->
  x_step (x_do_action fn (Some fe) fd) s now (ISrc k (Err x)) = (s, [CEffect (e_do_err x)], Fail e).
Proof. exact do_err_raises. Qed.
Theorem C40_route_do_on_completed : forall fn fe s now k e,
  x_step (x_do_action fn fe (Some (Raise e))) s now (ISrc k Done) = (s, [CEffect E_DO_DONE], Fail e).
Proof. exact do_done_raises. Qed.
Theorem C40_route_do_after_next : forall f s now k x e, f x = Raise e ->
  x_step (x_do_after_next f) s now (ISrc k (Next x)) = (s, [CEmit x; CEffect (e_after_next x)], Fail e).
Proof. exact do_after_next_raises. Qed.
Print Assumptions C40_route_do_on_next.
Print Assumptions C40_route_do_on_error.
Print Assumptions C40_route_do_on_completed.
Print Assumptions C40_route_do_after_next.

Example C40_do_action_error_callback_replaces_error :
  run_canon (x_do_action None (Some (fun _ => Raise 61)) None) [(0, ISrc 0%nat (Next 4)); (5, ISrc 0%nat (Err 11))]
  = [(0%nat, OSub 0%nat); (1%nat, OEmit (Next 4)); (2%nat, OEmit (Err 61)); (2%nat, OUnsub 0%nat);
     (2%nat, OEffect (e_do_err 11))].
Proof. vm_compute. reflexivity. Qed.
Example C40_cold_source_completes_inside_subscribe :
  run_canon (with_pre x_do_finally [Next 1; Done; Next 2]) [(3, IDispose)]
  = [(0%nat, OEmit (Next 1)); (0%nat, OEmit Done); (0%nat, OSub 0%nat); (0%nat, OUnsub 0%nat);
     (0%nat, OEffect E_FINALLY)].
Proof. vm_compute. reflexivity. Qed.

(* a source that keeps notifying inside its subscribe() after a callback has
   failed: the callback still runs (effects 102, 103), nothing more is delivered *)
Example C40_synchronous_source_after_callback_failure :
  run_canon (with_pre (x_do_action (Some (fun x => if x =? 2 then Raise 61 else Ok tt)) None None)
                      [Next 1; Next 2; Next 3; Done]) []
  = [(0%nat, OEmit (Next 1)); (0%nat, OEmit (Err 61)); (0%nat, OSub 0%nat); (0%nat, OUnsub 0%nat);
     (0%nat, OEffect 101); (0%nat, OEffect 102); (0%nat, OEffect 103)].
Proof. vm_compute. reflexivity. Qed.

(* WHAT THE MODEL DOES NOT SAY.  Within one instant the runner lists the handler's
   commands (side effects included) before the terminal notification it then emits:
   in the RAW model trace the finally action precedes on_completed of the same step.
   The property says the action runs AFTER termination: that order, inside the
   stopping instant, is NOT a statement of the theorems above (they count effects and
   place them at the stopping instant); the correspondence compares each instant as
   (emissions in order, then the set of other events), and the order is judged by the
   oracle (harness/props/C40.py once_after_stop) on the implementation's own log. *)
Example C40_raw_order_within_the_stopping_instant :
  fst (run x_finally_action [(0, ISrc 0%nat Done)])
  = [(0%nat, OSub 0%nat); (1%nat, OEffect E_FINALLY); (1%nat, OUnsub 0%nat); (1%nat, OEmit Done)].
Proof. vm_compute. reflexivity. Qed.
