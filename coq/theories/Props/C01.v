(* C01 -- every subscriber sees a well-formed notification sequence.
   (a) the choke point: AutoDetachObserver, over ALL call forests (re-entrant
       calls, calls after the terminal, double terminals, raising callbacks,
       fail(), dispose at any point);
   (b) every operator machine and every pipeline (composition) of machines,
       on ARBITRARY input streams (sources that keep emitting after their
       terminal, terminate twice) and with arbitrary (also raising) callbacks:
       callbacks are parameters of the machines, the theorems hold for all of
       them. *)
From RxVerif Require Import Base.Prelude Ops.Machine Ops.MachineFacts Ops.ComposeFacts
  Core.AutoDetach Core.AutoDetachFacts Core.ObserverBase Core.ObserverBaseFacts.

Theorem C01_autodetach_grammar : forall A (h : list (call A)) (st : bool),
  wellformed (delivered (snd (run_calls st h))) = true.
Proof. exact @autodetach_grammar. Qed.
Print Assumptions C01_autodetach_grammar.

Theorem C01_autodetach_silent_once_stopped : forall A (h : list (call A)),
  delivered (snd (run_calls true h)) = [].
Proof. exact @autodetach_silent_once_stopped. Qed.
Print Assumptions C01_autodetach_silent_once_stopped.

Theorem C01_autodetach_no_call_after_terminal : forall A (h1 h2 : list (call A)),
  ended (delivered (snd (run_calls false h1))) = true ->
  delivered (snd (run_calls (fst (run_calls false h1)) h2)) = [].
Proof. exact @autodetach_no_call_after_terminal. Qed.
Print Assumptions C01_autodetach_no_call_after_terminal.

Theorem C01_operator_grammar : forall A B (m : mealy A B) (ins : list (ev A)),
  wellformed (untag (exec m ins)) = true.
Proof. exact @exec_wellformed. Qed.
Print Assumptions C01_operator_grammar.

(* pipelines of any depth: a pipeline is a machine again *)
Fixpoint pipeline {A} (stages : list (mealy A A)) (first : mealy A A) : mealy A A :=
  match stages with
  | [] => first
  | m :: rest => pipeline rest (compose first m)
  end.

Theorem C01_pipeline_grammar : forall A (first : mealy A A) (stages : list (mealy A A)) (ins : list (ev A)),
  wellformed (untag (exec (pipeline stages first) ins)) = true.
Proof. intros. apply exec_wellformed. Qed.
Print Assumptions C01_pipeline_grammar.

Theorem C01_nothing_after_source_terminal : forall A B (m : mealy A B) xs s k (t : ev A) junk,
  is_terminal t = true ->
  exec_from m s k (map Next xs ++ t :: junk) = exec_from m s k (map Next xs ++ [t]).
Proof. exact @exec_from_ignores_after_terminal. Qed.
Print Assumptions C01_nothing_after_source_terminal.

(* (d) the Observer base class (observer/observer.py; base of Subject, ScheduledObserver, what users pass to
   subscribe()): the same statements over ALL call forests, and its relation to the wrapper: same stopped flag,
   same effects once the wrapper's subscription disposal is erased *)
Theorem C01_observer_base_grammar : forall A (h : list (call A)) (st : bool),
  wellformed (delivered (snd (ob_run_calls st h))) = true.
Proof. exact @observer_base_grammar. Qed.
Print Assumptions C01_observer_base_grammar.

Theorem C01_observer_base_silent_once_stopped : forall A (h : list (call A)),
  delivered (snd (ob_run_calls true h)) = [].
Proof. exact @observer_base_silent_once_stopped. Qed.
Print Assumptions C01_observer_base_silent_once_stopped.

Theorem C01_observer_base_no_call_after_terminal : forall A (h1 h2 : list (call A)),
  ended (delivered (snd (ob_run_calls false h1))) = true ->
  delivered (snd (ob_run_calls (fst (ob_run_calls false h1)) h2)) = [].
Proof. exact @observer_base_no_call_after_terminal. Qed.
Print Assumptions C01_observer_base_no_call_after_terminal.

Theorem C01_observer_base_is_autodetach_without_subscription : forall A (h : list (call A)) (st : bool),
  ob_run_calls st h = (fst (run_calls st h), no_subdispose (snd (run_calls st h))).
Proof. exact @ob_agrees. Qed.
Print Assumptions C01_observer_base_is_autodetach_without_subscription.

(* as_observer(): a second Observer in front of the first (Core/ObserverBase.v:lay_run_calls, written from
   `return Observer(self.on_next, self.on_error, self.on_completed)`); with every call made on the view it is
   one observer again *)
Theorem C01_as_observer_view_is_an_observer : forall A (h : list (call A)),
  snd (lay_run_calls false false h) = snd (ob_run_calls false h).
Proof. exact @as_observer_view_is_an_observer. Qed.
Print Assumptions C01_as_observer_view_is_an_observer.

(* non-vacuity: a re-entrant history -- on_next whose callback completes and
   then emits again; a second on_completed; on_next after everything *)
Example C01_witness :
  delivered (snd (run_calls false
    [Call (KNext 1) [Call KCompleted [Call (KNext 2) [] false] true; Call (KNext 3) [] false] true;
     Call KCompleted [] false; Call (KNext 4) [] false]))
  = [Next 1; Done].
Proof. vm_compute. reflexivity. Qed.

(* the same history on the Observer base class; on_error whose handler re-enters with on_next and on_completed *)
Example C01_observer_base_witness :
  delivered (snd (ob_run_calls false
    [Call (KNext 1) [Call KCompleted [Call (KNext 2) [] false] true; Call (KNext 3) [] false] true;
     Call KCompleted [] false; Call (KNext 4) [] false]))
  = [Next 1; Done]
  /\ snd (ob_run_calls false [Call (KError 5) [Call (KNext 2) [] false; Call KCompleted [] false] true;
                             Call (KFail 6) [] false])
     = [Deliver (Err 5); Raised 77; FailReturned false].
Proof. vm_compute. split; reflexivity. Qed.
