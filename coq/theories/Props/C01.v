(* C01 -- every subscriber sees a well-formed notification sequence.
   (a) the choke point: AutoDetachObserver, over ALL call forests (re-entrant
       calls, calls after the terminal, double terminals, raising callbacks,
       fail(), dispose at any point);
   (b) every operator machine and every pipeline (composition) of machines,
       on ARBITRARY input streams (sources that keep emitting after their
       terminal, terminate twice) and with arbitrary (also raising) callbacks:
       callbacks are parameters of the machines, the theorems hold for all of
       them. *)
From RxVerif Require Import Base.Prelude Ops.Machine Ops.MachineFacts Ops.ComposeFacts
  Core.AutoDetach Core.AutoDetachFacts Core.ObserverBase Core.ObserverBaseFacts.
From RxVerif Require Ops.MultiWin Ops.MultiWinFacts Ops.Windows Ops.MultiWinGrammar.
From RxVerif Require Import Core.ExecWrapped Ops.Elementwise.

Theorem C01_autodetach_grammar : forall A (h : list (call A)) (st : bool),
  wellformed (delivered (snd (run_calls st h))) = true.
Proof. exact @autodetach_grammar. Qed.
Print Assumptions C01_autodetach_grammar.

Theorem C01_autodetach_silent_once_stopped : forall A (h : list (call A)),
  delivered (snd (run_calls true h)) = [].
Proof. exact @autodetach_silent_once_stopped. Qed.
Print Assumptions C01_autodetach_silent_once_stopped.

Theorem C01_autodetach_no_call_after_terminal : forall A (h1 h2 : list (call A)),
  ended (delivered (snd (run_calls false h1))) = true ->
  delivered (snd (run_calls (fst (run_calls false h1)) h2)) = [].
Proof. exact @autodetach_no_call_after_terminal. Qed.
Print Assumptions C01_autodetach_no_call_after_terminal.

Theorem C01_operator_grammar : forall A B (m : mealy A B) (ins : list (ev A)),
  wellformed (untag (exec m ins)) = true.
Proof. exact @exec_wellformed. Qed.
Print Assumptions C01_operator_grammar.

(* pipelines of any depth: a pipeline is a machine again *)
Fixpoint pipeline {A} (stages : list (mealy A A)) (first : mealy A A) : mealy A A :=
  match stages with
  | [] => first
  | m :: rest => pipeline rest (compose first m)
  end.

Theorem C01_pipeline_grammar : forall A (first : mealy A A) (stages : list (mealy A A)) (ins : list (ev A)),
  wellformed (untag (exec (pipeline stages first) ins)) = true.
Proof. intros. apply exec_wellformed. Qed.
Print Assumptions C01_pipeline_grammar.

Theorem C01_nothing_after_source_terminal : forall A B (m : mealy A B) xs s k (t : ev A) junk,
  is_terminal t = true ->
  exec_from m s k (map Next xs ++ t :: junk) = exec_from m s k (map Next xs ++ [t]).
Proof. exact @exec_from_ignores_after_terminal. Qed.
Print Assumptions C01_nothing_after_source_terminal.

(* (d) the Observer base class (observer/observer.py; base of Subject, ScheduledObserver, what users pass to
   subscribe()): the same statements over ALL call forests, and its relation to the wrapper: same stopped flag,
   same effects once the wrapper's subscription disposal is erased *)
Theorem C01_observer_base_grammar : forall A (h : list (call A)) (st : bool),
  wellformed (delivered (snd (ob_run_calls st h))) = true.
Proof. exact @observer_base_grammar. Qed.
Print Assumptions C01_observer_base_grammar.

Theorem C01_observer_base_silent_once_stopped : forall A (h : list (call A)),
  delivered (snd (ob_run_calls true h)) = [].
Proof. exact @observer_base_silent_once_stopped. Qed.
Print Assumptions C01_observer_base_silent_once_stopped.

Theorem C01_observer_base_no_call_after_terminal : forall A (h1 h2 : list (call A)),
  ended (delivered (snd (ob_run_calls false h1))) = true ->
  delivered (snd (ob_run_calls (fst (ob_run_calls false h1)) h2)) = [].
Proof. exact @observer_base_no_call_after_terminal. Qed.
Print Assumptions C01_observer_base_no_call_after_terminal.

Theorem C01_observer_base_is_autodetach_without_subscription : forall A (h : list (call A)) (st : bool),
  ob_run_calls st h = (fst (run_calls st h), no_subdispose (snd (run_calls st h))).
Proof. exact @ob_agrees. Qed.
Print Assumptions C01_observer_base_is_autodetach_without_subscription.

(* as_observer(): a second Observer in front of the first (Core/ObserverBase.v:lay_run_calls, written from
   `return Observer(self.on_next, self.on_error, self.on_completed)`); with every call made on the view it is
   one observer again *)
Theorem C01_as_observer_view_is_an_observer : forall A (h : list (call A)),
  snd (lay_run_calls false false h) = snd (ob_run_calls false h).
Proof. exact @as_observer_view_is_an_observer. Qed.
Print Assumptions C01_as_observer_view_is_an_observer.

(* non-vacuity: a re-entrant history -- on_next whose callback completes and
   then emits again; a second on_completed; on_next after everything *)
Example C01_witness :
  delivered (snd (run_calls false
    [Call (KNext 1) [Call KCompleted [Call (KNext 2) [] false] true; Call (KNext 3) [] false] true;
     Call KCompleted [] false; Call (KNext 4) [] false]))
  = [Next 1; Done].
Proof. vm_compute. reflexivity. Qed.

(* the same history on the Observer base class; on_error whose handler re-enters with on_next and on_completed *)
Example C01_observer_base_witness :
  delivered (snd (ob_run_calls false
    [Call (KNext 1) [Call KCompleted [Call (KNext 2) [] false] true; Call (KNext 3) [] false] true;
     Call KCompleted [] false; Call (KNext 4) [] false]))
  = [Next 1; Done]
  /\ snd (ob_run_calls false [Call (KError 5) [Call (KNext 2) [] false; Call KCompleted [] false] true;
                             Call (KFail 6) [] false])
     = [Deliver (Err 5); Raised 77; FailReturned false].
Proof. vm_compute. split; reflexivity. Qed.

(* (e) subscribers served by the window/group runner (Ops/MultiWin.v; windows, buffers, groups), for EVERY
   machine, EVERY subscription policy and EVERY input sequence (Ops/MultiWinGrammar.v).
   The OUTER subscriber -- plain elements and handed observables are its on_next calls: *)
Theorem C01_window_outer_grammar :
  forall A W B (imm : nat -> bool) (m : MultiWin.machine A W B) (ins : list (Z * MultiWin.inp A)),
  wellformed (MultiWinGrammar.outer_view (fst (MultiWin.run imm m ins))) = true.
Proof. exact @MultiWinGrammar.run_outer_grammar. Qed.
Print Assumptions C01_window_outer_grammar.
Theorem C01_window_outer_elements_grammar :
  forall A W B (imm : nat -> bool) (m : MultiWin.machine A W B) (ins : list (Z * MultiWin.inp A)),
  wellformed (MultiWin.emitted (fst (MultiWin.run imm m ins))) = true.
Proof. exact @MultiWinGrammar.run_emitted_grammar. Qed.
Print Assumptions C01_window_outer_elements_grammar.

(* A handed window / group g.  [wevents g] is the MERGED record of all subscriptions of g (a notification is
   logged once per live subscription; a subscription made after g's terminal is answered with that terminal).
   With at most one subscription of g attempted during the run -- made inside the on_next that hands g (policy
   imm) or by an explicit ISubWin g -- the record is what that one subscriber sees, and it is in the grammar: *)
Theorem C01_window_subscribers_grammar :
  forall A W B (g : nat) (imm : nat -> bool) (m : MultiWin.machine A W B) (ins : list (Z * MultiWin.inp A)),
  (MultiWinGrammar.attempts g imm (fst (MultiWin.run imm m ins)) ins <= 1)%nat ->
  wellformed (MultiWin.wevents g (fst (MultiWin.run imm m ins))) = true.
Proof. exact @MultiWinGrammar.run_window_single_subscriber_grammar. Qed.
Print Assumptions C01_window_subscribers_grammar.
(* with any number of subscriptions: elements, then copies of ONE terminal, at most one copy per attempted
   subscription -- no element after a terminal, no two different terminals *)
Theorem C01_window_merged_record_grammar :
  forall A W B (g : nat) (imm : nat -> bool) (m : MultiWin.machine A W B) (ins : list (Z * MultiWin.inp A)),
  exists ns t n,
    MultiWin.wevents g (fst (MultiWin.run imm m ins)) = ns ++ repeat t n
    /\ Forall (fun e => is_terminal e = false) ns /\ is_terminal t = true
    /\ (n <= MultiWinGrammar.attempts g imm (fst (MultiWin.run imm m ins)) ins)%nat.
Proof. exact @MultiWinGrammar.run_window_grammar. Qed.
Print Assumptions C01_window_merged_record_grammar.
(* the unconditional statement "wevents g is well-formed" is FALSE of the model: two subscriptions of one
   window, or one made after its terminal, put the terminal twice into the merged record (each subscriber's
   own sequence is well-formed, in the model and in the library) *)
Theorem C01_window_grammar_all_subscriptions_refuted :
  ~ (forall (imm : nat -> bool) (m : MultiWin.machine Z Z unit) ins g,
       wellformed (MultiWin.wevents g (fst (MultiWin.run imm m ins))) = true).
Proof. exact MultiWinGrammar.window_grammar_all_subscriptions_refuted. Qed.
Print Assumptions C01_window_grammar_all_subscriptions_refuted.

(* witnesses: overlapping count windows, every window subscribed when handed, a source that errors and then
   keeps emitting: one subscription of window 0 was attempted (the hypothesis above), its record and the
   outer's are in the grammar; with a second subscription of window 0 the merged record is not *)
Example C01_window_witness :
  let ins := [(0, MultiWin.ISrc 0%nat (Next 1)); (0, MultiWin.ISrc 0%nat (Next 2));
              (0, MultiWin.ISrc 0%nat (Err 3)); (0, MultiWin.ISrc 0%nat (Next 4))] in
  let tr := fst (MultiWin.run MultiWin.all_imm (Windows.x_window_count (A:=Z) (B:=unit) 2 1) ins) in
  MultiWinGrammar.attempts 0%nat MultiWin.all_imm tr ins = 1%nat
  /\ MultiWin.wevents 0 tr = [Next 1; Next 2; Done]
  /\ MultiWin.wevents 2 tr = [Err 3]
  /\ MultiWinGrammar.outer_view tr = [Next None; Next None; Next None; Err 3].
Proof. vm_compute. auto. Qed.
Example C01_window_witness_two_subscriptions :
  MultiWin.wevents 0 (fst (MultiWin.run MultiWin.all_imm (Windows.x_window_count (A:=Z) (B:=unit) 1 1)
                            [(0, MultiWin.ISrc 0%nat (Next 1)); (0, MultiWin.ISubWin 0%nat)]))
  = [Next 1; Done; Done].
Proof. vm_compute. reflexivity. Qed.

(* (f) the link between (a) and (b): [exec] IS the AutoDetach model around the raw handlers
   (Core/ExecWrapped.v).  [raw m ins] iterates the handlers over ins with no liveness check at all;
   [in_calls] / [out_calls] turn the source's notifications / the handlers' answers into (flat, non-raising)
   calls on a wrapper.  For EVERY machine and EVERY input list: the subscriber of [exec] sees what the
   downstream wrapper lets through of the raw answers to what the wrapper around the handlers lets through
   of the source.  The operator and pipeline grammar theorems above hold BY CONSTRUCTION of [exec]; through
   this theorem they are consequences of C01_autodetach_grammar. *)
Theorem C01_exec_is_wrapped_raw : forall A B (m : mealy A B) (ins : list (ev A)),
  delivered (snd (run_calls false
    (out_calls (raw m (delivered (snd (run_calls false (in_calls ins))))))))
  = untag (exec m ins).
Proof. exact @exec_is_wrapped_raw. Qed.
Print Assumptions C01_exec_is_wrapped_raw.
(* the two wrappers separately *)
Theorem C01_exec_behind_input_wrapper : forall A B (m : mealy A B) (ins : list (ev A)),
  exec m ins = exec m (delivered (snd (run_calls false (in_calls ins)))).
Proof. exact @exec_behind_input_wrapper. Qed.
Print Assumptions C01_exec_behind_input_wrapper.
Theorem C01_exec_is_output_wrapper_on_raw : forall A B (m : mealy A B) (ins : list (ev A)),
  upto_term ins = ins ->
  delivered (snd (run_calls false (out_calls (raw m ins)))) = untag (exec m ins).
Proof. exact @exec_is_output_wrapper_on_raw. Qed.
Print Assumptions C01_exec_is_output_wrapper_on_raw.
(* the grammar of exec, derived from the AutoDetach theorem (not from the shape of exec) *)
Theorem C01_operator_grammar_from_autodetach : forall A B (m : mealy A B) (ins : list (ev A)),
  wellformed (untag (exec m ins)) = true.
Proof. exact @exec_wellformed_from_autodetach. Qed.
Print Assumptions C01_operator_grammar_from_autodetach.
(* witness that the wrappers do something: take(5) on a source that completes and then goes on -- the raw
   handlers answer the late element and complete twice; behind the wrappers the subscriber sees Next 1, Done *)
Example C01_exec_witness_raw_vs_wrapped :
  raw (op_take 5) [Next 1; Done; Next 4; Done] = [([], Cont); ([1], Cont); ([], Complete); ([4], Cont); ([], Complete)]
  /\ untag (exec (op_take 5) [Next 1; Done; Next 4; Done]) = [Next 1; Done]
  /\ upto_term [Next 1; Done] = [Next 1; @Done Z].
Proof. vm_compute. auto. Qed.
