(* C31 -- an EventLoopScheduler runs its actions serially on one thread, in order.

   Model: Core/EventLoop.v, the transition system of reactivex/scheduler/eventloopscheduler.py as the
   code is (one locked block / one unlocked read of _is_disposed / one is_cancelled() test / entering
   and leaving an action / waking up from Condition.wait = one step each; actions may themselves
   schedule, cancel and dispose; the environment advances the clock).
   ALL theorems quantify over every initial clock t0, every list of per-thread programs [progs]
   (any number of scheduling threads), every action-body table [body], both values of
   exit_if_empty [eie] (unless stated) and EVERY schedule [sched] (list of thread steps and clock
   advances).  Tie to /repo: harness/props/C31.py (same schedules on the real class, logs equal). *)
From RxVerif Require Import Base.Prelude Core.EventLoop Core.EventLoopFacts.
From RxVerif Require Import Core.EventLoopBatch Core.EventLoopFacts2.
From Coq Require Import Permutation Sorted.
Local Open Scope Z_scope.

(* ---- one thread, never two actions at once ------------------------------------------------- *)
(* at most one loop thread is alive at any time *)
Theorem C31_one_live_loop_thread : forall eie body t0 progs sched t1 t2 ph1 ph2,
  let c := run eie body (init t0 progs) sched in
  nth_error (c_ths c) t1 = Some (TLoop ph1) -> ph1 <> LExited ->
  nth_error (c_ths c) t2 = Some (TLoop ph2) -> ph2 <> LExited -> t1 = t2.
Proof. exact el_one_live_loop_thread. Qed.
Print Assumptions C31_one_live_loop_thread.

(* is_cancelled() tests, starts and ends of actions happen only on threads started by _ensure_thread *)
Theorem C31_actions_on_loop_thread : forall eie body t0 progs sched tid t e,
  let c := run eie body (init t0 progs) sched in
  In (tid, t, e) (c_log c) -> callish e = false -> In (ESpawn tid) (L c).
Proof. exact el_actions_on_loop_thread. Qed.
Print Assumptions C31_actions_on_loop_thread.

(* without exit_if_empty: one single thread for everything, for ever *)
Theorem C31_single_thread : forall body t0 progs sched tid1 t1 e1 tid2 t2 e2,
  let c := run false body (init t0 progs) sched in
  In (tid1, t1, e1) (c_log c) -> callish e1 = false ->
  In (tid2, t2, e2) (c_log c) -> callish e2 = false -> tid1 = tid2.
Proof. intros body. exact (fun t0 progs sched tid1 t1 e1 tid2 t2 e2 => el_single_thread false body t0 progs sched tid1 t1 e1 tid2 t2 e2 eq_refl). Qed.
Print Assumptions C31_single_thread.

(* whenever an action starts, no action is running (over all threads) *)
Theorem C31_serial : forall eie body t0 progs sched l1 i l2,
  L (run eie body (init t0 progs) sched) = l1 ++ EStart i :: l2 -> ser None l1 = Some None.
Proof. exact el_serial_plain. Qed.
Print Assumptions C31_serial.

(* ---- order ------------------------------------------------------------------------------------ *)
(* the immediately-due items are dispatched in the order in which they were accepted (prefix) *)
Theorem C31_fifo_immediate : forall eie body t0 progs sched,
  let c := run eie body (init t0 progs) sched in
  exists rest, filter it_imm (accs (L c)) = filter it_imm (checks (L c)) ++ rest.
Proof. exact el_fifo_immediate. Qed.
Print Assumptions C31_fifo_immediate.

(* the timed items are dispatched in due-time order *)
Theorem C31_due_order : forall eie body t0 progs sched,
  StronglySorted le_due (filter timed (checks (L (run eie body (init t0 progs) sched)))).
Proof. exact el_due_order. Qed.
Print Assumptions C31_due_order.

(* no action starts before its due time (the clock reading of the start event) *)
Theorem C31_not_early : forall eie body t0 progs sched tid t i,
  In (tid, t, EStart i) (c_log (run eie body (init t0 progs) sched)) -> it_due i <= t.
Proof. exact el_not_early. Qed.
Print Assumptions C31_not_early.

(* "due time" is tied to the call.  Step lemmas (any state): the first step of schedule(a) /
   schedule_relative(d, a) allocates the uid, logs ECall and fixes due = clock + max(0, d) (d = 0 for schedule);
   schedule_absolute(t, a) fixes due = t whatever the clock *)
Theorem C31_due_recorded : forall ntid s o r a d,
  (o = SchedNow a /\ d = 0) \/ o = SchedRel d a ->
  op_step ntid s None (o :: r) =
    Some (bump s, Some (PS1 (nuid s) a (clock s + Z.max 0 d)), r, [ECall (nuid s) a], false).
Proof. exact el_due_recorded. Qed.
Print Assumptions C31_due_recorded.

Theorem C31_due_recorded_abs : forall ntid s t a r,
  op_step ntid s None (SchedAbs t a :: r) =
    Some (bump s, (if disposed s then None else Some (PS2 (nuid s) a t)), r,
          ECall (nuid s) a :: (if disposed s then [ERaise a] else [EPass (nuid s)]), false).
Proof. exact el_due_recorded_abs. Qed.
Print Assumptions C31_due_recorded_abs.

(* run level: the call that made an accepted item is in the log (same uid, same action), and its first step
   happened at or before the item's due time -- unless the due time is the argument of a schedule_absolute
   call for that action in some program or action body *)
Theorem C31_accepted_due_linked : forall eie body progs t0 sched i,
  let c := run eie body (init t0 progs) sched in
  In (EAcc i) (L c) ->
  exists tid tc, In (tid, tc, ECall (it_uid i) (it_lbl i)) (c_log c) /\
    (tc <= it_due i \/ (exists p, In p progs /\ In (SchedAbs (it_due i) (it_lbl i)) p) \/
                       exists a, In (SchedAbs (it_due i) (it_lbl i)) (body a)).
Proof. exact el_accepted_due_linked. Qed.
Print Assumptions C31_accepted_due_linked.

(* without schedule_absolute anywhere: the call happened at or before the due time *)
Theorem C31_accepted_call_before_due : forall eie body progs t0 sched i,
  (forall p t a, In p progs -> ~ In (SchedAbs t a) p) -> (forall b t a, ~ In (SchedAbs t a) (body b)) ->
  let c := run eie body (init t0 progs) sched in
  In (EAcc i) (L c) ->
  exists tid tc, In (tid, tc, ECall (it_uid i) (it_lbl i)) (c_log c) /\ tc <= it_due i.
Proof. exact el_accepted_call_before_due. Qed.
Print Assumptions C31_accepted_call_before_due.

(* the proviso is needed: schedule_absolute(50) called at 100 is accepted with due 50 (immediately due: it
   runs at once -- late, never early) *)
Theorem C31_call_before_due_refuted :
  L abs_past_witness = [ECall 0 7; EPass 0; EAcc (Item 0 7 50 true); ESpawn 1; ERet 7]%nat /\
  forall tid tc, In (tid, tc, ECall 0%nat 7%nat) (c_log abs_past_witness) -> ~ tc <= 50.
Proof. exact el_call_before_due_refuted. Qed.
Print Assumptions C31_call_before_due_refuted.

(* what runs was accepted (same label, same due time) and passed the is_cancelled() test *)
Theorem C31_started_was_accepted : forall eie body t0 progs sched i,
  let c := run eie body (init t0 progs) sched in
  In (EStart i) (L c) -> In (EAcc i) (L c) /\ In (ECheck i false) (L c).
Proof. exact el_started_was_accepted. Qed.
Print Assumptions C31_started_was_accepted.

(* ---- cancellation ----------------------------------------------------------------------------- *)
(* an action that starts was tested by is_cancelled() before, and no dispose() of its disposable
   had returned before that test: cancelled before the loop's test => never runs *)
Theorem C31_cancel_before_test : forall eie body t0 progs sched l1 i l2,
  L (run eie body (init t0 progs) sched) = l1 ++ EStart i :: l2 ->
  exists l0 l0', l1 = l0 ++ ECheck i false :: l0' /\ ~ In (ECancelRet (it_lbl i)) l0.
Proof. exact el_cancel_before_test. Qed.
Print Assumptions C31_cancel_before_test.

(* the is_cancelled() test is made per item, right before that item's invocation: an action that starts
   passed its OWN test, no dispose() of its disposable had returned before that test, and between that test
   and the start the log has only events of calls made by scheduling threads -- no other item of this
   scheduler is tested, no other action starts or ends in between *)
Theorem C31_test_right_before_invoke : forall eie body t0 progs sched l1 i l2,
  L (run eie body (init t0 progs) sched) = l1 ++ EStart i :: l2 ->
  exists l0 w, l1 = l0 ++ ECheck i false :: w /\ ~ In (ECancelRet (it_lbl i)) l0 /\ forallb callish w = true.
Proof. exact el_test_right_before_invoke. Qed.
Print Assumptions C31_test_right_before_invoke.

(* an action cancelled before the previous action of its batch finished never starts: if dispose() of item
   i's disposable returned before ANY action j ended (in particular the one dispatched just before i, whether
   j itself made the call or another thread did while j ran) and i had not started by then, i never starts *)
Theorem C31_cancelled_during_earlier_action_never_starts : forall eie body t0 progs sched a j b i,
  L (run eie body (init t0 progs) sched) = a ++ EEnd j :: b ->
  In (ECancelRet (it_lbl i)) a -> ~ In (EStart i) a -> ~ In (EStart i) b.
Proof. exact el_cancelled_during_earlier_action_never_starts. Qed.
Print Assumptions C31_cancelled_during_earlier_action_never_starts.

(* the STRICT reading ("dispose() returned before the action's first instruction => it never
   runs") is false of the code: the window between is_cancelled() and invoke() *)
Theorem C31_cancel_strict_refuted :
  before (is_test_of 1) (is_cancelret_of 1) (L cancel_window_witness) = true /\
  before (is_cancelret_of 1) (is_start_of 1) (L cancel_window_witness) = true.
Proof. exact el_cancel_strict_refuted. Qed.
Print Assumptions C31_cancel_strict_refuted.

(* ---- dispose ------------------------------------------------------------------------------------ *)
Theorem C31_dispose_ret_sets_flag : forall eie body t0 progs sched,
  let c := run eie body (init t0 progs) sched in In EDisposeRet (L c) -> disposed (c_sh c) = true.
Proof. exact el_dispose_ret_sets_flag. Qed.
Print Assumptions C31_dispose_ret_sets_flag.

(* once dispose() returned (c1), under every continuation: no call passes the _is_disposed test
   (so each raises DisposedException there), and no call made afterwards is enqueued, tested or run *)
Theorem C31_dispose : forall eie body t0 progs sched1 sched2,
  let c1 := run eie body (init t0 progs) sched1 in
  let c2 := run eie body c1 sched2 in
  disposed (c_sh c1) = true ->
  exists more, L c2 = L c1 ++ more /\
    (forall u, ~ In (EPass u) more) /\
    (forall u a i, In (ECall u a) more -> it_uid i = u ->
       ~ In (EAcc i) (L c2) /\ ~ In (ECheck i false) (L c2) /\ ~ In (EStart i) (L c2)).
Proof. exact el_dispose. Qed.
Print Assumptions C31_dispose.

(* "scheduling raises DisposedException": once the scheduler is disposed (c1), every schedule call that BEGINS
   afterwards has raised on the calling thread, or that thread still stands at the unlocked `_is_disposed` test
   of that call -- and its next step is the raise (C31_dispose_raises_next) *)
Theorem C31_dispose_raises : forall eie body t0 progs sched1 sched2 tid t u a,
  let c1 := run eie body (init t0 progs) sched1 in
  let c2 := run eie body c1 sched2 in
  disposed (c_sh c1) = true ->
  In (tid, t, ECall u a) (skipn (length (c_log c1)) (c_log c2)) ->
  (exists t', In (tid, t', ERaise a) (skipn (length (c_log c1)) (c_log c2))) \/
  (exists st due, nth_error (c_ths c2) tid = Some st /\ tcur st = Some (PS1 u a due)).
Proof. exact el_dispose_raises. Qed.
Print Assumptions C31_dispose_raises.

Theorem C31_dispose_raises_next : forall ntid s u a due todo s' cur' todo' out sp,
  opstep ntid s (Some (PS1 u a due)) todo s' cur' todo' out sp -> disposed s = true ->
  out = [ERaise a] /\ cur' = None.
Proof. exact el_dispose_raises_next. Qed.
Print Assumptions C31_dispose_raises_next.

(* ---- exit_if_empty, nothing lost -------------------------------------------------------------- *)
(* the thread gives itself up only with empty queues *)
Theorem C31_exit_only_when_idle : forall eie body t0 progs sched,
  let c := run eie body (init t0 progs) sched in
  thr (c_sh c) = None -> rl (c_sh c) = [] /\ q (c_sh c) = [] /\ inflight c = [].
Proof. exact el_exit_only_when_idle. Qed.
Print Assumptions C31_exit_only_when_idle.

(* ... and it DOES give itself up: with exit_if_empty, in every state in which nothing can move, the scheduler
   is not disposed and the clock is past every accepted due time, the scheduler has no thread and every loop
   thread ever started has exited (liveness direction of "exits when idle", at quiescence) *)
Theorem C31_exits_when_idle : forall body t0 progs sched,
  let c := run true body (init t0 progs) sched in
  quiescent c = true -> disposed (c_sh c) = false ->
  (forall i, In (EAcc i) (L c) -> it_due i <= clock (c_sh c)) ->
  thr (c_sh c) = None /\
  forall t ph, nth_error (c_ths c) t = Some (TLoop ph) -> ph = LExited.
Proof. exact el_exits_when_idle. Qed.
Print Assumptions C31_exits_when_idle.

(* the enqueueing step starts a new thread whenever there is none *)
Theorem C31_schedule_restarts_thread : forall ntid s u a due todo s' cur' todo' out sp,
  opstep ntid s (Some (PS2 u a due)) todo s' cur' todo' out sp -> thr s = None ->
  sp = true /\ thr s' = Some ntid /\ In (ESpawn ntid) out.
Proof. exact el_schedule_restarts_thread. Qed.
Print Assumptions C31_schedule_restarts_thread.

(* a queued item always has a live loop thread (unless the scheduler was disposed) *)
Theorem C31_work_has_thread : forall eie body t0 progs sched,
  let c := run eie body (init t0 progs) sched in
  disposed (c_sh c) = false -> rl (c_sh c) <> [] \/ q (c_sh c) <> [] ->
  exists t ph, thr (c_sh c) = Some t /\ nth_error (c_ths c) t = Some (TLoop ph) /\ ph <> LExited.
Proof. exact el_work_has_thread. Qed.
Print Assumptions C31_work_has_thread.

(* a state in which no thread can move is one in which no thread does move *)
Theorem C31_quiescent_stutter : forall eie body c, quiescent c = true -> forall tid, tstep eie body c tid = c.
Proof. exact quiescent_stutter. Qed.
Print Assumptions C31_quiescent_stutter.

(* no lost wake-up, no lost item: when nothing can move any more, the scheduler is not disposed
   and the clock is past every accepted due time, every accepted item was dispatched, every item
   that passed the test ran to completion, and both queues are empty *)
Theorem C31_nothing_lost : forall eie body t0 progs sched,
  let c := run eie body (init t0 progs) sched in
  quiescent c = true -> disposed (c_sh c) = false ->
  (forall i, In (EAcc i) (L c) -> it_due i <= clock (c_sh c)) ->
  Permutation (accs (L c)) (checks (L c)) /\ rl (c_sh c) = [] /\ q (c_sh c) = [] /\
  (forall i, In (ECheck i false) (L c) -> In (EStart i) (L c) /\ In (EEnd i) (L c)).
Proof. exact el_nothing_lost. Qed.
Print Assumptions C31_nothing_lost.

(* ---- non-vacuity: concrete runs meeting the hypotheses --------------------------------------- *)
(* two submitters, FIFO, everything runs, quiescent with the loop thread waiting *)
Example C31_ex_fifo :
  let c := run false nobody (init 0 [[SchedNow 1%nat; SchedNow 2%nat]; [SchedNow 3%nat]])
               (steps [0; 0; 0; 1; 1; 1; 0; 0; 0; 2; 2; 2; 2; 2; 2; 2; 2; 2; 2; 2; 2]%nat) in
  map it_lbl (checks (L c)) = [1; 3; 2]%nat /\ map it_lbl (accs (L c)) = [1; 3; 2]%nat /\
  quiescent c = true /\ disposed (c_sh c) = false.
Proof. vm_compute. repeat split; reflexivity. Qed.

(* timed items in due order, none early (clock readings of the starts) *)
Example C31_ex_timed :
  let c := run false nobody (init 0 [[SchedRel 2000 1%nat; SchedRel 1000 2%nat]; [SchedAbs 1000 3%nat]])
               (steps [0; 0; 0; 0; 0; 0; 1; 1]%nat ++ steps (repeat 2%nat 8) ++ [MTick 1000] ++
                steps (repeat 2%nat 12) ++ [MTick 1000] ++ steps (repeat 2%nat 12)) in
  map it_lbl (checks (L c)) = [2; 3; 1]%nat /\ quiescent c = true /\ clock (c_sh c) = 2000 /\
  map (fun x => snd (fst x)) (filter (fun x => match snd x with EStart _ => true | _ => false end) (c_log c))
    = [1000; 1000; 2000].
Proof. vm_compute. repeat split; reflexivity. Qed.

(* exit_if_empty: the thread exits when idle, the next schedule starts thread 3 *)
Example C31_ex_exit_if_empty :
  let c := run true nobody (init 0 [[SchedNow 1%nat]; [SchedNow 2%nat]])
               (steps [0; 0; 0; 2; 2; 2; 2; 2; 2; 1; 1; 1; 3; 3; 3; 3; 3; 3]%nat) in
  nspawn (L c) = 2%nat /\ thr (c_sh c) = None /\ quiescent c = true /\
  c_ths c = [TSched None []; TSched None []; TLoop LExited; TLoop LExited] /\
  map it_lbl (checks (L c)) = [1; 2]%nat.
Proof. vm_compute. repeat split; reflexivity. Qed.

(* dispose: the second thread's schedule after dispose() returned raises; action 2 never appears *)
Example C31_ex_dispose :
  let c1 := run false nobody (init 0 [[SchedNow 1%nat; Dispose]; [SchedNow 2%nat]]) (steps [0; 0; 0; 0]%nat) in
  let c2 := run false nobody c1 (steps [1; 1; 1; 2; 2; 2]%nat) in
  disposed (c_sh c1) = true /\
  existsb (fun e => match e with ERaise 2%nat => true | _ => false end) (L c2) = true /\ checks (L c2) = [] /\ nth_error (c_ths c2) 2 = Some (TLoop LExited).
Proof. vm_compute. repeat split; reflexivity. Qed.

(* quirk outside the property: the notification of dispose() can be lost, the thread then sleeps
   for ever *)
Example C31_ex_dispose_thread_sleeps :
  quiescent dispose_sleep_witness = true /\ disposed (c_sh dispose_sleep_witness) = true /\
  nth_error (c_ths dispose_sleep_witness) 2 = Some (TLoop LWaiting) /\
  wt (c_sh dispose_sleep_witness) = Some (Wait 2 None false).
Proof. exact el_dispose_thread_may_sleep_for_ever. Qed.

(* one batch, a later item disposed before its turn.  (kind, label): 8 spawn, 0 ret, 4 test->False, 5 test->True,
   6 start, 7 end, 2 dispose() of the item's disposable returned.
   Single-threaded: action 0 submits 1, 2, 3 from the loop thread (one cycle gathers all three); action 1
   disposes 2; 2 is tested after that (5) and does not start; 3 runs.  This is also the log of the real class. *)
Example C31_ex_disposed_by_earlier_action_of_same_batch :
  map snd (observable (c_log same_batch_witness)) =
    [(8, 1); (0, 0); (4, 0); (6, 0); (0, 1); (0, 2); (0, 3); (7, 0); (4, 1); (6, 1); (2, 2); (7, 1); (5, 2); (4, 3);
     (6, 3); (7, 3)]%nat /\ quiescent same_batch_witness = true.
Proof. vm_compute. split; reflexivity. Qed.

(* three timed items of one due time, the second disposed by a scheduling thread while the first runs *)
Example C31_ex_disposed_by_other_thread_while_earlier_action_runs :
  map snd (observable (c_log foreign_batch_witness)) =
    [(8, 2); (0, 1); (0, 2); (0, 3); (4, 1); (6, 1); (2, 2); (7, 1); (5, 2); (4, 3); (6, 3); (7, 3)]%nat /\
  quiescent foreign_batch_witness = true.
Proof. vm_compute. split; reflexivity. Qed.

(* the hypotheses of C31_exits_when_idle on a run with a timed item: quiescent, not disposed, clock past the
   due time -- the thread has exited *)
Example C31_ex_exits_when_idle_timed :
  let c := run true nobody (init 0 [[SchedRel 1000 1%nat]])
               (steps [0; 0; 0; 1; 1; 1]%nat ++ [MTick 1000] ++ steps (repeat 1%nat 6)) in
  quiescent c = true /\ disposed (c_sh c) = false /\
  forallb (fun i => it_due i <=? clock (c_sh c)) (accs (L c)) = true /\ accs (L c) = [Item 0 1 1000 false] /\
  c_ths c = [TSched None []; TLoop LExited] /\ thr (c_sh c) = None.
Proof. vm_compute. repeat split; reflexivity. Qed.

(* the hypotheses of C31_dispose_raises: after dispose() both calls of thread 1 begin and raise *)
Example C31_ex_dispose_raises :
  let c1 := run false nobody (init 0 [[SchedNow 1%nat; Dispose]; [SchedNow 2%nat; SchedAbs 5 3%nat]]) (steps [0; 0; 0; 0]%nat) in
  let c2 := run false nobody c1 (steps [1; 1; 1]%nat) in
  disposed (c_sh c1) = true /\
  skipn (length (c_log c1)) (c_log c2) =
    [(1%nat, 0, ECall 1 2); (1%nat, 0, ERaise 2); (1%nat, 0, ECall 2 3); (1%nat, 0, ERaise 3)].
Proof. vm_compute. split; reflexivity. Qed.
