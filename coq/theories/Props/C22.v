(* C22 -- a ReplaySubject replays exactly its retained values, in order.
   Model: Subjects/Replay.v (ReplaySubject + ScheduledObserver + the FIFO of a
   virtual-time scheduler drained after every top-level call + the
   AutoDetachObserver wrapper), tied to reactivex/subject/replaysubject.py and
   reactivex/observer/scheduledobserver.py by the K1 correspondence of
   harness/props/C22.py. *)
From RxVerif Require Import Base.Prelude Ops.Machine Subjects.Subject Subjects.Family Subjects.Replay
  Subjects.ReplaySpec Subjects.SubjectFacts Subjects.ReplayFacts Subjects.ReplayTreeFacts
  Subjects.ReplayLiveFacts.

(* ---- the main statement, for ARBITRARY call trees (observers that subscribe,
        unsubscribe, emit, dispose from inside their callbacks, also while other
        observers still have notifications queued), every buffer size (None, 0,
        1, ...), every window, every amount of fuel ----

   [xview b w o false rg_init calls] is what observer o is entitled to, computed
   from the sequence of calls alone (Subjects/ReplaySpec.v): nothing before its
   subscribe call; at that call the RETAINED values -- [retained]: the last
   buffer_size values whose age at subscription is <= window -- in order, then
   the terminal notification if the subject had ended (only DisposedException
   after dispose()); afterwards the notification of every emission that takes
   effect, in call order.

   What o has received at any moment is a PREFIX of it: the replay comes first
   and is exactly the retained values in order, then the terminal, then the
   later notifications -- nothing duplicated, nothing reordered, nothing invented. *)
Theorem C22_received_is_prefix_of_replay_then_later :
  forall (A : Type) (react : nat -> nat -> list (@rop A)) (bs w : option Z) (top : list (@rop A))
         (fuel o : nat),
    let c := rrun react fuel (rinit_cfg bs w top) in
    prefix (rview o (rlog_of c)) (xview (bufsize_of bs) w o false rg_init (ops_of (rlog_of c))).
Proof. exact (@replay_prefix). Qed.
Print Assumptions C22_received_is_prefix_of_replay_then_later.

(* Nothing is lost: as long as the observer's AutoDetachObserver is not stopped
   (it has neither unsubscribed nor received a terminal notification), what it
   has received ++ what was handed to its wrapper but is not processed yet ++ what
   is still queued in its ScheduledObserver  IS  its whole entitlement -- on every
   call tree, at every moment. *)
Theorem C22_nothing_lost :
  forall (A : Type) (react : nat -> nat -> list (@rop A)) (bs w : option Z) (top : list (@rop A))
         (fuel o : nat) (os : @rostate A),
    let c := rrun react fuel (rinit_cfg bs w top) in
    rc_obs c o = Some os -> ra_stopped os = false ->
    rview o (rlog_of c) ++ inflight o (rc_k c) ++ so_queue (r_so os)
    = xview (bufsize_of bs) w o false rg_init (ops_of (rlog_of c)).
Proof. exact (@replay_nothing_lost). Qed.
Print Assumptions C22_nothing_lost.

Theorem C22_live_observer_stays_registered :
  forall (A : Type) (react : nat -> nat -> list (@rop A)) (bs w : option Z) (top : list (@rop A))
         (fuel o : nat) (os : @rostate A),
    let c := rrun react fuel (rinit_cfg bs w top) in
    rc_obs c o = Some os -> ra_stopped os = false ->
    rg_live (rg_run rg_init (ops_of (rlog_of c))) = true ->
    In o (r_observers (rc_st c)) /\ so_stopped (r_so os) = false.
Proof. exact (@replay_live_registered). Qed.
Print Assumptions C22_live_observer_stays_registered.

(* Completeness (no lost wake-up of ScheduledObserver.ensure_active / run): when a
   run has finished -- every top-level call made, the scheduler drained after
   each -- an observer that has not unsubscribed (its wrapper is still live, or it
   was stopped by a terminal notification) has received EXACTLY its entitlement:
   all retained values in order, the terminal if any, and EVERY later
   notification.  Again for arbitrary call trees, buffer sizes and windows. *)
Theorem C22_finished_run_delivers_everything :
  forall (A : Type) (react : nat -> nat -> list (@rop A)) (bs w : option Z) (top : list (@rop A))
         (fuel o : nat) (os : @rostate A),
    let c := rrun react fuel (rinit_cfg bs w top) in
    rc_k c = [] -> rc_obs c o = Some os ->
    (ra_stopped os = false \/ has_term (rview o (rlog_of c)) = true) ->
    rview o (rlog_of c) = xview (bufsize_of bs) w o false rg_init (ops_of (rlog_of c)).
Proof. exact (@replay_complete). Qed.
Print Assumptions C22_finished_run_delivers_everything.

(* ---- the retention policy: the code keeps a queue that it trims (by count,
        then by age) at every on_next, subscribe and terminal.  [qinv] ties that
        queue to the complete history [all] of accepted (time, value) pairs; it
        holds initially, is preserved by every action of the code, and implies
        that trimming at any later time yields exactly [retained]. ---- *)
Theorem C22_policy_init :
  forall (A : Type) (b : Z) (w : option Z) (clock : Z), @qinv A b w clock [] [].
Proof. exact (@qinv_init). Qed.
Print Assumptions C22_policy_init.

Theorem C22_policy_on_next :
  forall (A : Type) (b : Z) (w : option Z) (clock : Z) (q all : list (Z * A)) (v : A),
    qinv b w clock q all -> qinv b w clock (otrim b w clock (q ++ [(clock, v)])) (all ++ [(clock, v)]).
Proof. exact (fun A b w clock q all v H => qinv_trim b w clock _ _ (qinv_append b w clock q all v H)). Qed.
Print Assumptions C22_policy_on_next.

Theorem C22_policy_trim :
  forall (A : Type) (b : Z) (w : option Z) (clock : Z) (q all : list (Z * A)),
    qinv b w clock q all -> qinv b w clock (otrim b w clock q) all.
Proof. exact (@qinv_trim). Qed.
Print Assumptions C22_policy_trim.

Theorem C22_policy_clock_advances :
  forall (A : Type) (b : Z) (w : option Z) (clock clock' : Z) (q all : list (Z * A)),
    qinv b w clock q all -> clock <= clock' -> qinv b w clock' q all.
Proof. exact (@qinv_advance). Qed.
Print Assumptions C22_policy_clock_advances.

(* what a subscriber arriving at time [now] is handed: the last b values of the
   whole history whose age now - t is <= w  (age == window is retained) *)
Theorem C22_policy_replay_is_retained :
  forall (A : Type) (b : Z) (w : option Z) (clock : Z) (q all : list (Z * A)) (now : Z),
    qinv b w clock q all -> clock <= now ->
    otrim b w now q = filter (fun x => negb (too_old now w (fst x))) (skipn (length all - Z.to_nat b) all).
Proof. exact (@qinv_replay). Qed.
Print Assumptions C22_policy_replay_is_retained.

(* ---- further facts on arbitrary call trees ---- *)

(* each observer's received sequence obeys the grammar *)
Theorem C22_views_wellformed :
  forall (A : Type) (react : nat -> nat -> list (@rop A)) (bs w : option Z) (top : list (@rop A)) (fuel o : nat),
    wellformed (rview o (rlog_of (rrun react fuel (rinit_cfg bs w top)))) = true.
Proof. exact (@rviews_wellformed). Qed.
Print Assumptions C22_views_wellformed.

(* unsubscribing takes effect at once: what is still queued in the observer's
   ScheduledObserver or scheduled on the scheduler is never delivered *)
Theorem C22_unsubscribed_gets_nothing_more :
  forall (A : Type) (react : nat -> nat -> list (@rop A)) s m k l o os n,
    m o = Some os -> r_handle os = true ->
    rview o (rlog_of (rrun react n (RCfg s m (RIOp (RUnsub o) :: k) l))) = rview o (rev l).
Proof. exact (@runsubscribed_gets_nothing_more). Qed.
Print Assumptions C22_unsubscribed_gets_nothing_more.

Theorem C22_nothing_after_terminal :
  forall (A : Type) (react : nat -> nat -> list (@rop A)) c o,
    rwf_inv c -> has_term (rview o (rlog_of c)) = true ->
    forall n, rview o (rlog_of (rrun react n c)) = rview o (rlog_of c).
Proof. exact (@rafter_terminal_nothing). Qed.
Print Assumptions C22_nothing_after_terminal.

(* ---- witnesses (pool ids; clock in ticks) ---- *)
(* buffer 2, window 2: values at t=0,1,1; subscriber at t=3 gets the last two
   whose age (2) equals the window -- retained; at t=4 (age 3) nothing *)
Example C22_witness_window_boundary :
  run_rhistory (Some 2) (Some 2) 1000
    ([RNext 0; RAdvance 1; RNext 1; RNext 2; RAdvance 2; RSub 0%nat; RAdvance 1; RSub 1%nat; RNext 3], [])
  = ([REOp (RNext 0); REOp (RAdvance 1); REOp (RNext 1); REOp (RNext 2); REOp (RAdvance 2);
      REOp (RSub 0%nat); REGot 0%nat (Next 1); REGot 0%nat (Next 2); REOp (RAdvance 1); REOp (RSub 1%nat);
      REOp (RNext 3); REGot 0%nat (Next 3); REGot 1%nat (Next 3)], true).
Proof. vm_compute. reflexivity. Qed.

(* buffer_size 0 retains nothing; the terminal is still replayed *)
Example C22_witness_buffer_zero :
  run_rhistory (Some 0) None 1000 ([RNext 0; RNext 1; RDone; RSub 0%nat], [])
  = ([REOp (RNext 0); REOp (RNext 1); REOp RDone; REOp (RSub 0%nat); REGot 0%nat Done], true).
Proof. vm_compute. reflexivity. Qed.

(* re-entrancy: observer 0 emits from inside its callback while observer 1 still
   has the first value queued: nobody sees the values reordered *)
Example C22_witness_reentrant :
  run_rhistory None None 1000 ([RSub 0%nat; RSub 1%nat; RNext 5], [(0%nat, [[RNext 6]])])
  = ([REOp (RSub 0%nat); REOp (RSub 1%nat); REOp (RNext 5); REGot 0%nat (Next 5); REOp (RNext 6);
      REGot 1%nat (Next 5); REGot 0%nat (Next 6); REGot 1%nat (Next 6)], true).
Proof. vm_compute. reflexivity. Qed.

(* the entitlement of the boundary witness, computed by the specification alone:
   subscriber 0 (t=3): values of t=1 (age 2 = window) ; subscriber 1 (t=4): nothing retained *)
Example C22_witness_spec :
  let calls := [RNext 0; RAdvance 1; RNext 1; RNext 2; RAdvance 2; RSub 0%nat; RAdvance 1; RSub 1%nat; RNext 3] in
  xview 2 (Some 2) 0%nat false rg_init calls = [Next 1; Next 2; Next 3] /\
  xview 2 (Some 2) 1%nat false rg_init calls = [Next 3].
Proof. vm_compute. split; reflexivity. Qed.

(* the hypotheses of the completeness theorem are satisfiable: the re-entrant
   witness run has finished and both observers' wrappers are still live *)
Example C22_witness_finished :
  let c := rrun (rreact_tbl [(0%nat, [[RNext 6]])]) 1000 (rinit_cfg None None [RSub 0%nat; RSub 1%nat; RNext 5]) in
  rc_k c = [] /\ (exists os, rc_obs c 1%nat = Some os /\ ra_stopped os = false) /\
  rview 1%nat (rlog_of c) = [Next 5; Next 6].
Proof. vm_compute. split; [reflexivity|]. split; [eexists; split; reflexivity|reflexivity]. Qed.
