(* C22 -- a ReplaySubject replays exactly its retained values, in order.
   Model: Subjects/Replay.v (ReplaySubject + ScheduledObserver + the FIFO of a
   virtual-time scheduler drained after every top-level call + the
   AutoDetachObserver wrapper), tied to reactivex/subject/replaysubject.py and
   reactivex/observer/scheduledobserver.py by the K1 correspondence of
   harness/props/C22.py. *)
From RxVerif Require Import Base.Prelude Ops.Machine Subjects.Subject Subjects.Replay
  Subjects.SubjectFacts Subjects.ReplayFacts.

(* ---- arbitrary call trees, every buffer size, every window, every fuel ---- *)

(* each observer's received sequence obeys the grammar *)
Theorem C22_views_wellformed :
  forall (A : Type) (react : nat -> nat -> list (@rop A)) (bs w : option Z) (top : list (@rop A)) (fuel o : nat),
    wellformed (rview o (rlog_of (rrun react fuel (rinit_cfg bs w top)))) = true.
Proof. exact (@rviews_wellformed). Qed.
Print Assumptions C22_views_wellformed.

(* unsubscribing takes effect at once: what is still queued in the observer's
   ScheduledObserver or scheduled on the scheduler is never delivered *)
Theorem C22_unsubscribed_gets_nothing_more :
  forall (A : Type) (react : nat -> nat -> list (@rop A)) s m k l o os n,
    m o = Some os -> r_handle os = true ->
    rview o (rlog_of (rrun react n (RCfg s m (RIOp (RUnsub o) :: k) l))) = rview o (rev l).
Proof. exact (@runsubscribed_gets_nothing_more). Qed.
Print Assumptions C22_unsubscribed_gets_nothing_more.

Theorem C22_nothing_after_terminal :
  forall (A : Type) (react : nat -> nat -> list (@rop A)) c o,
    rwf_inv c -> has_term (rview o (rlog_of c)) = true ->
    forall n, rview o (rlog_of (rrun react n c)) = rview o (rlog_of c).
Proof. exact (@rafter_terminal_nothing). Qed.
Print Assumptions C22_nothing_after_terminal.

(* ---- witnesses (pool ids; clock in ticks) ---- *)
(* buffer 2, window 2: values at t=0,1,1; subscriber at t=3 gets the last two
   whose age (2) equals the window -- retained; at t=4 (age 3) nothing *)
Example C22_witness_window_boundary :
  run_rhistory (Some 2) (Some 2) 1000
    ([RNext 0; RAdvance 1; RNext 1; RNext 2; RAdvance 2; RSub 0%nat; RAdvance 1; RSub 1%nat; RNext 3], [])
  = ([REOp (RNext 0); REOp (RAdvance 1); REOp (RNext 1); REOp (RNext 2); REOp (RAdvance 2);
      REOp (RSub 0%nat); REGot 0%nat (Next 1); REGot 0%nat (Next 2); REOp (RAdvance 1); REOp (RSub 1%nat);
      REOp (RNext 3); REGot 0%nat (Next 3); REGot 1%nat (Next 3)], true).
Proof. vm_compute. reflexivity. Qed.

(* buffer_size 0 retains nothing; the terminal is still replayed *)
Example C22_witness_buffer_zero :
  run_rhistory (Some 0) None 1000 ([RNext 0; RNext 1; RDone; RSub 0%nat], [])
  = ([REOp (RNext 0); REOp (RNext 1); REOp RDone; REOp (RSub 0%nat); REGot 0%nat Done], true).
Proof. vm_compute. reflexivity. Qed.

(* re-entrancy: observer 0 emits from inside its callback while observer 1 still
   has the first value queued: nobody sees the values reordered *)
Example C22_witness_reentrant :
  run_rhistory None None 1000 ([RSub 0%nat; RSub 1%nat; RNext 5], [(0%nat, [[RNext 6]])])
  = ([REOp (RSub 0%nat); REOp (RSub 1%nat); REOp (RNext 5); REGot 0%nat (Next 5); REOp (RNext 6);
      REGot 1%nat (Next 5); REGot 0%nat (Next 6); REGot 1%nat (Next 6)], true).
Proof. vm_compute. reflexivity. Qed.
