(* C22 -- a ReplaySubject replays exactly its retained values, in order.
   Model: Subjects/ReplaySched.v -- ReplaySubject + ScheduledObserver + scheduler
   queue (items, ids, cancellation) + the AutoDetachObserver wrapper, in BOTH
   scheduler modes:
     sync = false  a virtual-time scheduler whose clock the history controls,
                   drained by the driver after every top-level call;
     sync = true   the DEFAULT CurrentThreadScheduler (trampoline): a drain
                   scheduled from a top-level call runs inline, inside the call
                   and BETWEEN the per-observer steps of one emission; one
                   scheduled from inside an observer callback is queued behind
                   the running drain; top-level subscribe() is itself a
                   trampoline action.
   Tied to reactivex/subject/replaysubject.py, observer/scheduledobserver.py and
   scheduler/trampoline*.py by the K1 correspondence of harness/props/C22.py in
   both modes.  (Subjects/Replay.v is the earlier virtual-time-only engine; its
   lemmas are reused.) *)
From RxVerif Require Import Base.Prelude Ops.Machine Subjects.Subject Subjects.Family Subjects.Replay
  Subjects.ReplaySpec Subjects.ReplaySched Subjects.SubjectFacts Subjects.ReplayFacts Subjects.ReplayTreeFacts
  Subjects.ReplayLiveFacts Subjects.ReplaySchedFacts Subjects.ReplayDrainFacts Subjects.ReplayTermFacts
  Subjects.ReplayTreeTermFacts.

(* ---- the main statements: for BOTH scheduler modes, ARBITRARY call trees
        (observers that subscribe, unsubscribe, emit, complete, dispose from
        inside their callbacks -- in sync mode re-entrantly, while the emission
        that called them is still half-way through its observers), every buffer
        size (None, 0, 1, ...), every window, every amount of fuel ----

   [xview b w o false rg_init calls] is what observer o is entitled to, computed
   from the sequence of calls alone (Subjects/ReplaySpec.v): nothing before its
   subscribe call; at that call the RETAINED values -- the last buffer_size values
   whose age at subscription is <= window -- in order, then the terminal
   notification if the subject had ended (only DisposedException after
   dispose()); afterwards the notification of every emission that takes effect,
   in the order the calls were MADE (a call made from inside a callback counts
   where it is made).

   What o has received at any moment is a PREFIX of it: per-subscriber order =
   the subject's retained order; nothing duplicated, reordered or invented. *)
Theorem C22_received_is_prefix_of_replay_then_later :
  forall (A : Type) (sync : bool) (react : nat -> nat -> list (@rop A)) (bs w : option Z)
         (top : list (@rop A)) (fuel o : nat),
    let c := srun sync react fuel (sinit_cfg sync bs w top) in
    prefix (rview o (slog_of c)) (xview (bufsize_of bs) w o false rg_init (ops_of (slog_of c))).
Proof. exact (@sched_prefix). Qed.
Print Assumptions C22_received_is_prefix_of_replay_then_later.

(* Nothing is lost: as long as the observer's AutoDetachObserver is not stopped,
   received ++ handed to the wrapper ++ queued in its ScheduledObserver ++ the
   terminal the running on_error/on_completed loop is about to queue  IS  its
   whole entitlement -- at every moment, also in the middle of an emission. *)
Theorem C22_nothing_lost :
  forall (A : Type) (sync : bool) (react : nat -> nat -> list (@rop A)) (bs w : option Z)
         (top : list (@rop A)) (fuel o : nat) (os : @rostate A),
    let c := srun sync react fuel (sinit_cfg sync bs w top) in
    sc_obs c o = Some os -> ra_stopped os = false ->
    rview o (slog_of c) ++ sinflight o (sc_k c) ++ so_queue (r_so os) ++ spend o (sc_k c)
    = xview (bufsize_of bs) w o false rg_init (ops_of (slog_of c)).
Proof. exact (@sched_nothing_lost). Qed.
Print Assumptions C22_nothing_lost.

(* Completeness (no lost wake-up of ScheduledObserver.ensure_active / run, in
   either mode): when a run has finished, an observer that has not unsubscribed
   (its wrapper is still live, or it was stopped by a terminal notification) has
   received EXACTLY its entitlement. *)
Theorem C22_finished_run_delivers_everything :
  forall (A : Type) (sync : bool) (react : nat -> nat -> list (@rop A)) (bs w : option Z)
         (top : list (@rop A)) (fuel o : nat) (os : @rostate A),
    let c := srun sync react fuel (sinit_cfg sync bs w top) in
    sc_k c = [] -> sc_obs c o = Some os ->
    (ra_stopped os = false \/ has_term (rview o (slog_of c)) = true) ->
    rview o (slog_of c) = xview (bufsize_of bs) w o false rg_init (ops_of (slog_of c)).
Proof. exact (@sched_complete). Qed.
Print Assumptions C22_finished_run_delivers_everything.

(* TERMINATION on histories of top-level calls (observers that do nothing in their callbacks:
   the empty reaction table), in BOTH scheduler modes, every buffer size and window: with enough
   fuel the run is finished -- this discharges the hypothesis [sc_k c = []] of the completeness
   theorem above (measure: weighted pending instructions + queued ScheduledObserver items +
   length of the scheduler queue) *)
Theorem C22_flat_histories_terminate :
  forall (A : Type) (sync : bool) (bs w : option Z) (top : list (@rop A)),
  exists fuel0, forall fuel, (fuel0 <= fuel)%nat ->
    sc_k (srun sync (rreact_tbl []) fuel (sinit_cfg sync bs w top)) = [].
Proof. exact (@flat_histories_terminate). Qed.
Print Assumptions C22_flat_histories_terminate.

(* ... so on such histories every observer that has not unsubscribed ends up with EXACTLY the
   retained values, the terminal notification if any, and every later notification *)
Theorem C22_flat_histories_deliver_everything :
  forall (A : Type) (sync : bool) (bs w : option Z) (top : list (@rop A)),
  exists fuel0, forall fuel, (fuel0 <= fuel)%nat ->
    let c := srun sync (rreact_tbl []) fuel (sinit_cfg sync bs w top) in
    sc_k c = [] /\
    forall o os, sc_obs c o = Some os ->
      (ra_stopped os = false \/ has_term (rview o (slog_of c)) = true) ->
      rview o (slog_of c) = xview (bufsize_of bs) w o false rg_init (ops_of (slog_of c)).
Proof. exact (@flat_histories_deliver_everything). Qed.
Print Assumptions C22_flat_histories_deliver_everything.

(* the same termination for every program of top-level calls and EXPLICIT drains *)
Theorem C22_explicit_programs_terminate :
  forall (A : Type) (sync : bool) (bs w : option Z) (prog : list (xtop A)),
  exists fuel0, forall fuel, (fuel0 <= fuel)%nat ->
    sc_k (srun sync (rreact_tbl []) fuel (xinit_cfg bs w prog)) = [].
Proof. exact (@explicit_programs_terminate). Qed.
Print Assumptions C22_explicit_programs_terminate.

(* ---- TERMINATION ON CALL TREES.  A tree is a history of top-level calls plus a reaction TABLE
        [tbl] (observer o answers its k-th callback with the calls [nth k sc []] of its script;
        beyond the script it is silent).  The wrapper's call counter grows at every delivery and
        an observer is never re-created, so every table entry is used AT MOST ONCE in a run: the
        total re-emission budget of a table is finite and the run of EVERY tree finishes, in
        both scheduler modes, for every buffer size and window.  Measure: the measure of the flat
        case + (weight of a call) * (number of calls in the table entries not used yet). ---- *)
Theorem C22_trees_terminate :
  forall (A : Type) (sync : bool) (bs w : option Z) (top : list (@rop A))
         (tbl : list (nat * list (list (@rop A)))),
  exists fuel0, forall fuel, (fuel0 <= fuel)%nat ->
    sc_k (srun sync (rreact_tbl tbl) fuel (sinit_cfg sync bs w top)) = [].
Proof. exact (@trees_terminate). Qed.
Print Assumptions C22_trees_terminate.

(* the function the harness evaluates reports `finished` for every history (tree) *)
Theorem C22_run_shistory_finishes :
  forall (A : Type) (sync : bool) (bs w : option Z) (h : rhistory A),
  exists fuel0, forall fuel, (fuel0 <= fuel)%nat -> snd (run_shistory sync bs w fuel h) = true.
Proof. exact (@run_shistory_finishes). Qed.
Print Assumptions C22_run_shistory_finishes.

(* ... so the delivery theorem for trees LOSES its hypothesis `the run has finished`: on every
   call tree, with enough fuel, the run is finished and every observer that has not unsubscribed
   has received EXACTLY the retained values, the terminal notification if any, and every later
   notification ([C22_trees_terminate] composed with [C22_finished_run_delivers_everything]) *)
Theorem C22_trees_deliver_everything :
  forall (A : Type) (sync : bool) (bs w : option Z) (top : list (@rop A))
         (tbl : list (nat * list (list (@rop A)))),
  exists fuel0, forall fuel, (fuel0 <= fuel)%nat ->
    let c := srun sync (rreact_tbl tbl) fuel (sinit_cfg sync bs w top) in
    sc_k c = [] /\
    forall o os, sc_obs c o = Some os ->
      (ra_stopped os = false \/ has_term (rview o (slog_of c)) = true) ->
      rview o (slog_of c) = xview (bufsize_of bs) w o false rg_init (ops_of (slog_of c)).
Proof. exact (@trees_deliver_everything). Qed.
Print Assumptions C22_trees_deliver_everything.

(* the same for every PROGRAM of calls and explicit drains over a reaction table *)
Theorem C22_tree_programs_terminate :
  forall (A : Type) (sync : bool) (bs w : option Z) (prog : list (xtop A))
         (tbl : list (nat * list (list (@rop A)))),
  exists fuel0, forall fuel, (fuel0 <= fuel)%nat ->
    sc_k (srun sync (rreact_tbl tbl) fuel (xinit_cfg bs w prog)) = [].
Proof. exact (@tree_programs_terminate). Qed.
Print Assumptions C22_tree_programs_terminate.

Theorem C22_run_xhistory_finishes :
  forall (A : Type) (sync : bool) (bs w : option Z) (h : xhistory A),
  exists fuel0, forall fuel, (fuel0 <= fuel)%nat -> snd (run_xhistory sync bs w fuel h) = true.
Proof. exact (@run_xhistory_finishes). Qed.
Print Assumptions C22_run_xhistory_finishes.

Theorem C22_tree_programs_deliver_everything :
  forall (A : Type) (sync : bool) (bs w : option Z) (prog : list (xtop A))
         (tbl : list (nat * list (list (@rop A)))),
  (sync = false -> xclosed prog = true) ->
  exists fuel0, forall fuel, (fuel0 <= fuel)%nat ->
    let c := srun sync (rreact_tbl tbl) fuel (xinit_cfg bs w prog) in
    sc_k c = [] /\
    forall o os, sc_obs c o = Some os ->
      (ra_stopped os = false \/ has_term (rview o (slog_of c)) = true) ->
      rview o (slog_of c) = xview (bufsize_of bs) w o false rg_init (ops_of (slog_of c)).
Proof. exact (@tree_programs_deliver_everything). Qed.
Print Assumptions C22_tree_programs_deliver_everything.

(* THE EXACT CONDITION, for an arbitrary reaction FUNCTION [react o k] (not necessarily a table):
   finite support -- observers below B are silent from their K-th callback on and subscribe only
   observers below B -- and a program that subscribes only observers below B.  Every table
   satisfies it ([C22_tables_have_finite_support]). *)
Theorem C22_finite_support_terminates :
  forall (A : Type) (sync : bool) (react : nat -> nat -> list (@rop A)) (B K : nat),
    finite_support react B K ->
    forall (bs w : option Z) (k0 : list (@sinstr A)), (sub_bound k0 <= B)%nat ->
    exists fuel0, forall fuel, (fuel0 <= fuel)%nat ->
      sc_k (srun sync react fuel (SCfg (rinit_state bs w) (fun _ => None) k0 [])) = [].
Proof. exact (@tree_program_terminates). Qed.
Print Assumptions C22_finite_support_terminates.

Theorem C22_tables_have_finite_support :
  forall (A : Type) (t : list (nat * list (list (@rop A)))) (B : nat),
    (tbl_B t <= B)%nat -> finite_support (rreact_tbl t) B (tbl_K t).
Proof. exact (@tbl_finite_support). Qed.
Print Assumptions C22_tables_have_finite_support.

(* without it termination FAILS: the reaction function `answer every callback with one more
   on_next` (which no finite table expresses) never finishes, for every buffer size and window,
   in either scheduler mode and for EVERY amount of fuel -- a divergence theorem, not a test *)
Theorem C22_echo_diverges :
  forall (A : Type) (v : A) (sync : bool) (bs w : option Z) (fuel : nat),
    sc_k (srun sync (echo v) fuel (sinit_cfg sync bs w [RSub 0%nat; RNext v])) <> [].
Proof. exact (@echo_diverges). Qed.
Print Assumptions C22_echo_diverges.

Theorem C22_termination_for_arbitrary_reaction_functions_refuted :
  ~ (forall (sync : bool) (react : nat -> nat -> list (@rop Z)) (bs w : option Z) (top : list (@rop Z)),
       exists fuel, sc_k (srun sync react fuel (sinit_cfg sync bs w top)) = []).
Proof. exact termination_for_arbitrary_reaction_functions_refuted. Qed.
Print Assumptions C22_termination_for_arbitrary_reaction_functions_refuted.

(* ---- the retention policy: the code keeps a queue that it trims (by count,
        then by age) at every on_next, subscribe and terminal.  [qinv] ties that
        queue to the complete history [all] of accepted (time, value) pairs; it
        holds initially, is preserved by every action of the code, and implies
        that trimming at any later time yields exactly [retained]. ---- *)
Theorem C22_policy_init :
  forall (A : Type) (b : Z) (w : option Z) (clock : Z), @qinv A b w clock [] [].
Proof. exact (@qinv_init). Qed.
Print Assumptions C22_policy_init.

Theorem C22_policy_on_next :
  forall (A : Type) (b : Z) (w : option Z) (clock : Z) (q all : list (Z * A)) (v : A),
    qinv b w clock q all -> qinv b w clock (otrim b w clock (q ++ [(clock, v)])) (all ++ [(clock, v)]).
Proof. exact (fun A b w clock q all v H => qinv_trim b w clock _ _ (qinv_append b w clock q all v H)). Qed.
Print Assumptions C22_policy_on_next.

Theorem C22_policy_trim :
  forall (A : Type) (b : Z) (w : option Z) (clock : Z) (q all : list (Z * A)),
    qinv b w clock q all -> qinv b w clock (otrim b w clock q) all.
Proof. exact (@qinv_trim). Qed.
Print Assumptions C22_policy_trim.

Theorem C22_policy_clock_advances :
  forall (A : Type) (b : Z) (w : option Z) (clock clock' : Z) (q all : list (Z * A)),
    qinv b w clock q all -> clock <= clock' -> qinv b w clock' q all.
Proof. exact (@qinv_advance). Qed.
Print Assumptions C22_policy_clock_advances.

(* what a subscriber arriving at time [now] is handed: the last b values of the
   whole history whose age now - t is <= w  (age == window is retained) *)
Theorem C22_policy_replay_is_retained :
  forall (A : Type) (b : Z) (w : option Z) (clock : Z) (q all : list (Z * A)) (now : Z),
    qinv b w clock q all -> clock <= now ->
    otrim b w now q = filter (fun x => negb (too_old now w (fst x))) (skipn (length all - Z.to_nat b) all).
Proof. exact (@qinv_replay). Qed.
Print Assumptions C22_policy_replay_is_retained.

(* ---- further facts, both modes, arbitrary call trees ---- *)

(* each observer's received sequence obeys the grammar *)
Theorem C22_views_wellformed :
  forall (A : Type) (sync : bool) (react : nat -> nat -> list (@rop A)) (bs w : option Z)
         (top : list (@rop A)) (fuel o : nat),
    wellformed (rview o (slog_of (srun sync react fuel (sinit_cfg sync bs w top)))) = true.
Proof. exact (@sched_wellformed). Qed.
Print Assumptions C22_views_wellformed.

(* unsubscribing takes effect at once: what is still queued in the observer's
   ScheduledObserver or scheduled on the scheduler is never delivered *)
Theorem C22_unsubscribed_gets_nothing_more :
  forall (A : Type) (sync : bool) (react : nat -> nat -> list (@rop A)) top s m k l o os n,
    m o = Some os -> r_handle os = true ->
    rview o (slog_of (srun sync react n (SCfg s m (SIOp top (RUnsub o) :: k) l))) = rview o (rev l).
Proof. exact (@sunsubscribed_gets_nothing_more). Qed.
Print Assumptions C22_unsubscribed_gets_nothing_more.

Theorem C22_stopped_wrapper_never_delivers :
  forall (A : Type) (sync : bool) (react : nat -> nat -> list (@rop A)) n c o os,
    sc_obs c o = Some os -> ra_stopped os = true ->
    rview o (slog_of (srun sync react n c)) = rview o (slog_of c).
Proof. exact (@sstopped_final). Qed.
Print Assumptions C22_stopped_wrapper_never_delivers.

(* ---- the scheduler drained EXPLICITLY: the top level is an arbitrary PROGRAM of calls
        and drains ([XOp p] / [XDrain], Subjects/ReplaySched.v), so unsubscribe, further
        emissions, another subscribe or a clock advance happen while replay items are
        still queued on the scheduler.  The three main statements hold for every program
        (either scheduler mode, arbitrary call trees); the two fixed disciplines above
        are the programs [xprog_of sync top]. ---- *)
Theorem C22_fixed_drain_disciplines_are_programs :
  forall (A : Type) (sync : bool) (bs w : option Z) (top : list (@rop A)),
    sinit_cfg sync bs w top = xinit_cfg bs w (xprog_of sync top).
Proof. exact (@sinit_cfg_is_xinit). Qed.
Print Assumptions C22_fixed_drain_disciplines_are_programs.

Theorem C22_explicit_drains_received_is_prefix_of_replay_then_later :
  forall (A : Type) (sync : bool) (react : nat -> nat -> list (@rop A)) (bs w : option Z)
         (prog : list (xtop A)) (fuel o : nat),
    let c := srun sync react fuel (xinit_cfg bs w prog) in
    prefix (rview o (slog_of c)) (xview (bufsize_of bs) w o false rg_init (ops_of (slog_of c))).
Proof. exact (@xsched_prefix). Qed.
Print Assumptions C22_explicit_drains_received_is_prefix_of_replay_then_later.

Theorem C22_explicit_drains_nothing_lost :
  forall (A : Type) (sync : bool) (react : nat -> nat -> list (@rop A)) (bs w : option Z)
         (prog : list (xtop A)) (fuel o : nat) (os : @rostate A),
    let c := srun sync react fuel (xinit_cfg bs w prog) in
    sc_obs c o = Some os -> ra_stopped os = false ->
    rview o (slog_of c) ++ sinflight o (sc_k c) ++ so_queue (r_so os) ++ spend o (sc_k c)
    = xview (bufsize_of bs) w o false rg_init (ops_of (slog_of c)).
Proof. exact (@xsched_nothing_lost). Qed.
Print Assumptions C22_explicit_drains_nothing_lost.

(* completeness needs the scheduler to be run after the last call: [xclosed prog] = every
   call of the program has a drain somewhere behind it (not needed on the default
   scheduler, which drains inline) *)
Theorem C22_explicit_drains_finished_run_delivers_everything :
  forall (A : Type) (sync : bool) (react : nat -> nat -> list (@rop A)) (bs w : option Z)
         (prog : list (xtop A)) (fuel o : nat) (os : @rostate A),
    (sync = false -> xclosed prog = true) ->
    let c := srun sync react fuel (xinit_cfg bs w prog) in
    sc_k c = [] -> sc_obs c o = Some os ->
    (ra_stopped os = false \/ has_term (rview o (slog_of c)) = true) ->
    rview o (slog_of c) = xview (bufsize_of bs) w o false rg_init (ops_of (slog_of c)).
Proof. exact (@xsched_complete). Qed.
Print Assumptions C22_explicit_drains_finished_run_delivers_everything.

Theorem C22_explicit_drains_views_wellformed :
  forall (A : Type) (sync : bool) (react : nat -> nat -> list (@rop A)) (bs w : option Z)
         (prog : list (xtop A)) (fuel o : nat),
    wellformed (rview o (slog_of (srun sync react fuel (xinit_cfg bs w prog)))) = true.
Proof. exact (@xsched_wellformed). Qed.
Print Assumptions C22_explicit_drains_views_wellformed.

(* ---- witnesses (pool ids; clock in ticks) ---- *)
(* virtual time; buffer 2, window 2: values at t=0,1,1; subscriber at t=3 gets the last two
   whose age (2) equals the window -- retained; at t=4 (age 3) nothing *)
Example C22_witness_window_boundary :
  run_shistory false (Some 2) (Some 2) 1000
    ([RNext 0; RAdvance 1; RNext 1; RNext 2; RAdvance 2; RSub 0%nat; RAdvance 1; RSub 1%nat; RNext 3], [])
  = ([REOp (RNext 0); REOp (RAdvance 1); REOp (RNext 1); REOp (RNext 2); REOp (RAdvance 2);
      REOp (RSub 0%nat); REGot 0%nat (Next 1); REGot 0%nat (Next 2); REOp (RAdvance 1); REOp (RSub 1%nat);
      REOp (RNext 3); REGot 0%nat (Next 3); REGot 1%nat (Next 3)], true).
Proof. vm_compute. reflexivity. Qed.

(* buffer_size 0 retains nothing; the terminal is still replayed (default scheduler) *)
Example C22_witness_buffer_zero :
  run_shistory true (Some 0) None 1000 ([RNext 0; RNext 1; RDone; RSub 0%nat], [])
  = ([REOp (RNext 0); REOp (RNext 1); REOp RDone; REOp (RSub 0%nat); REGot 0%nat Done], true).
Proof. vm_compute. reflexivity. Qed.

(* re-entrancy on the DEFAULT scheduler: observer 0 emits 6 from inside its callback for 5
   while the emission of 5 has not yet reached observer 1's ensure_active.  Because
   _on_next_core queues 5 on EVERY ScheduledObserver before it activates any of them,
   observer 1 still sees 5 before 6.  (Merging the two loops of _on_next_core gives
   observer 1 the sequence 6, 5: the seeded change C22-replay-single-loop.) *)
Example C22_witness_reentrant_default_scheduler :
  run_shistory true None None 1000 ([RSub 0%nat; RSub 1%nat; RNext 5], [(0%nat, [[RNext 6]])])
  = ([REOp (RSub 0%nat); REOp (RSub 1%nat); REOp (RNext 5); REGot 0%nat (Next 5); REOp (RNext 6);
      REGot 1%nat (Next 5); REGot 0%nat (Next 6); REGot 1%nat (Next 6)], true).
Proof. vm_compute. reflexivity. Qed.

(* the same tree on the virtual-time scheduler *)
Example C22_witness_reentrant_virtual_time :
  run_shistory false None None 1000 ([RSub 0%nat; RSub 1%nat; RNext 5], [(0%nat, [[RNext 6]])])
  = ([REOp (RSub 0%nat); REOp (RSub 1%nat); REOp (RNext 5); REGot 0%nat (Next 5); REOp (RNext 6);
      REGot 1%nat (Next 5); REGot 0%nat (Next 6); REGot 1%nat (Next 6)], true).
Proof. vm_compute. reflexivity. Qed.

(* completion from inside a callback on the default scheduler: nobody loses the value *)
Example C22_witness_reentrant_completion :
  run_shistory true None None 1000 ([RSub 0%nat; RSub 1%nat; RNext 5], [(0%nat, [[RDone]])])
  = ([REOp (RSub 0%nat); REOp (RSub 1%nat); REOp (RNext 5); REGot 0%nat (Next 5); REOp RDone;
      REGot 1%nat (Next 5); REGot 0%nat Done; REGot 1%nat Done], true).
Proof. vm_compute. reflexivity. Qed.

(* the entitlement of the boundary witness, computed by the specification alone *)
Example C22_witness_spec :
  let calls := [RNext 0; RAdvance 1; RNext 1; RNext 2; RAdvance 2; RSub 0%nat; RAdvance 1; RSub 1%nat; RNext 3] in
  xview 2 (Some 2) 0%nat false rg_init calls = [Next 1; Next 2; Next 3] /\
  xview 2 (Some 2) 1%nat false rg_init calls = [Next 3].
Proof. vm_compute. split; reflexivity. Qed.

(* the hypotheses of the completeness theorem are satisfiable (default scheduler) *)
Example C22_witness_finished :
  let c := srun true (rreact_tbl [(0%nat, [[RNext 6]])]) 1000 (sinit_cfg true None None [RSub 0%nat; RSub 1%nat; RNext 5]) in
  sc_k c = [] /\ (exists os, sc_obs c 1%nat = Some os /\ ra_stopped os = false) /\
  rview 1%nat (slog_of c) = [Next 5; Next 6].
Proof. vm_compute. split; [reflexivity|]. split; [eexists; split; reflexivity|reflexivity]. Qed.

(* explicit drains: subscribe, then unsubscribe BEFORE the scheduler runs -- the queued replay
   (two values) is cancelled, nothing is delivered *)
Example C22_witness_unsubscribe_before_the_scheduler_runs :
  run_xhistory false None None 1000
    ([XOp (RNext 0); XOp (RNext 1); XOp (RSub 0%nat); XOp (RUnsub 0%nat); XDrain], [])
  = ([REOp (RNext 0); REOp (RNext 1); REOp (RSub 0%nat); REOp (RUnsub 0%nat)], true).
Proof. vm_compute. reflexivity. Qed.

(* explicit drains: an emission, a second subscriber and a clock advance while observer 0's
   replay is still queued; one drain delivers everything, round-robin between the two
   ScheduledObservers, each in its own order *)
Example C22_witness_calls_while_replay_is_queued :
  run_xhistory false None None 1000
    ([XOp (RNext 0); XOp (RSub 0%nat); XOp (RNext 1); XOp (RSub 1%nat); XOp (RAdvance 1); XDrain], [])
  = ([REOp (RNext 0); REOp (RSub 0%nat); REOp (RNext 1); REOp (RSub 1%nat); REOp (RAdvance 1);
      REGot 0%nat (Next 0); REGot 1%nat (Next 0); REGot 0%nat (Next 1); REGot 1%nat (Next 1)], true).
Proof. vm_compute. reflexivity. Qed.

(* explicit drains: the retained set is fixed AT subscription (age 2 = window: retained) although
   the replay is only delivered 5 ticks later; observer 1 (subscribing at t=8) gets only the value of t=7 *)
Example C22_witness_replay_fixed_at_subscription :
  run_xhistory false (Some 2) (Some 2) 1000
    ([XOp (RNext 0); XOp (RAdvance 2); XOp (RSub 0%nat); XOp (RAdvance 5); XOp (RNext 1); XDrain;
      XOp (RAdvance 1); XOp (RSub 1%nat); XDrain], [])
  = ([REOp (RNext 0); REOp (RAdvance 2); REOp (RSub 0%nat); REOp (RAdvance 5); REOp (RNext 1);
      REGot 0%nat (Next 0); REGot 0%nat (Next 1); REOp (RAdvance 1); REOp (RSub 1%nat); REGot 1%nat (Next 1)], true).
Proof. vm_compute. reflexivity. Qed.

(* the hypotheses of the explicit-drain completeness theorem are satisfiable *)
Example C22_witness_explicit_finished :
  let prog := [XOp (RNext 0); XOp (RSub 0%nat); XOp (RNext 1); XOp (RSub 1%nat); XDrain] in
  let c := srun false (rreact_tbl []) 1000 (xinit_cfg None None prog) in
  xclosed prog = true /\ sc_k c = [] /\ (exists os, sc_obs c 1%nat = Some os /\ ra_stopped os = false) /\
  rview 1%nat (slog_of c) = [Next 0; Next 1].
Proof. vm_compute. split; [reflexivity|]. split; [reflexivity|]. split; [eexists; split; reflexivity|reflexivity]. Qed.

(* a tree whose table re-emits from two observers, with a subscription made from inside a callback:
   the run finishes and everybody holds exactly its entitlement (the composed theorem at work) *)
Example C22_witness_tree_finishes :
  let tbl := [(0%nat, [[RNext 6; RSub 2%nat]; [RNext 7]]); (1%nat, [[]; [RNext 8]])] in
  let c := srun true (rreact_tbl tbl) 1000 (sinit_cfg true None None [RSub 0%nat; RSub 1%nat; RNext 5]) in
  sc_k c = [] /\ rview 0%nat (slog_of c) = [Next 5; Next 6; Next 7; Next 8] /\
  rview 2%nat (slog_of c) = [Next 5; Next 6; Next 7; Next 8] /\
  finite_support (rreact_tbl tbl) 3 2.
Proof.
  cbv zeta. split; [vm_compute; reflexivity|]. split; [vm_compute; reflexivity|]. split; [vm_compute; reflexivity|].
  refine (tbl_finite_support [(0%nat, [[RNext 6; RSub 2%nat]; [RNext 7]]); (1%nat, [[]; [RNext 8]])] 3%nat _).
  apply Nat.leb_le. vm_compute. reflexivity.
Qed.
