(* C42 -- CatchScheduler routes action exceptions to its handler.

   Model: Core/CatchSched.v ([cwrap_cmd]/[cwrap_body] = _wrap with the recursive
   wrapper handed to the action, [cwrap_tab] = the periodic wrapper) over the
   virtual-time scheduler Core/VTime.v as the wrapped scheduler; tied to the code
   by the K1 correspondence of harness/props/C42.py.  [run_catch c fuel h s hs]
   runs the history hs whose schedule*/schedule_periodic calls go through
   CatchScheduler(inner, h); h is ANY handler verdict function, hs ANY history of
   arbitrary action trees (raise positions anywhere, any depth). *)
From RxVerif Require Import Base.Prelude Core.VTime Core.VTimeFacts Core.Periodic Core.PeriodicFacts
  Core.CatchSched Core.CatchSchedFacts Core.CatchSchedSolo Core.CatchSchedSim Core.PeriodicLast.

(* Every exception raised by an action (at any depth of scheduling through the
   scheduler handed to the action, periodic actions included) is passed to the
   handler: in the log every "raised e" is immediately followed by "handler
   called with e", and the handler is called at no other time ([routed]); and
   every exception that left a top-level call was rejected by the handler (or is
   advance_to's own argument check) ([excs_ok]). *)
Theorem C42_routes_all : forall c fuel h c0 hs,
  forallb raw_t hs = true -> forallb top_quiet hs = true ->
  let s := state_of (run_catch c fuel h (init c0) hs) in
  routed (log s) /\ excs_ok h (log s).
Proof. exact catch_routes_all. Qed.
Print Assumptions C42_routes_all.

(* every reachable state keeps all pending work wrapped ... *)
Theorem C42_reachable_good : forall c fuel h c0 hs,
  forallb raw_t hs = true -> forallb top_quiet hs = true ->
  good h (state_of (run_catch c fuel h (init c0) hs)).
Proof. exact catch_history_good. Qed.
Print Assumptions C42_reachable_good.

(* ... and from such a state: handler verdict False <=> the exception propagates
   out of start(): an exception escapes only if the handler was called with it and
   returned False; if the handler accepts everything nothing escapes *)
Theorem C42_escapes_only_if_rejected : forall h c fuel s e s',
  good h s -> start c fuel s = Raised e s' -> h e = false /\ In (EHandler e) (log s').
Proof. exact catch_escape_only_if_rejected_start. Qed.
Print Assumptions C42_escapes_only_if_rejected.

Theorem C42_accepted_is_swallowed : forall h c fuel s e s',
  (forall x, h x = true) -> good h s -> start c fuel s <> Raised e s'.
Proof. exact catch_all_accepted_never_escapes. Qed.
Print Assumptions C42_accepted_is_swallowed.

(* Actions that do not raise behave exactly as on the wrapped scheduler *)
Theorem C42_transparent : forall c fuel h s hs,
  forallb noraise_t hs = true -> run_catch c fuel h s hs = run c fuel s hs.
Proof. exact catch_transparent_run. Qed.
Print Assumptions C42_transparent.

(* Periodic work stops after a handled failure: the wrapped action turns a raise
   into a handled call, a handled call disposes the subscription, and a disposed
   subscription is never called again (in any history) *)
Theorem C42_periodic_raise_is_handled : forall h f z ns e,
  plookup f z = PRaise ns e -> plookup (cwrap_tab h f) z = PHandled ns e (h e).
Proof. exact cwrap_raise_not_next. Qed.
Print Assumptions C42_periodic_raise_is_handled.

Theorem C42_periodic_failure_disposes : forall s pid st pi,
  nth_error (pers s) pid = Some pi -> p_disposed pi = false ->
  match plookup (p_fn pi) st with PNext _ _ _ => False | _ => True end ->
  In (EPDispose pid) (log (bstate (invoke s (PPer pid st)))).
Proof. exact periodic_stop_disposes. Qed.
Print Assumptions C42_periodic_failure_disposes.

Theorem C42_no_call_after_dispose : forall c fuel h c0 hs,
  no_tick_after_dispose (log (state_of (run_catch c fuel h (init c0) hs))).
Proof. exact catch_no_call_after_dispose. Qed.
Print Assumptions C42_no_call_after_dispose.

(* The periodic wrapper is invisible to the calls: for ALL action tables (raising
   ones included), any handler, the closed form of the calls is that of the
   unwrapped table ... *)
Theorem C42_solo_spec_cwrap : forall h f p n clk due st t,
  solo_spec (cwrap_tab h f) p n clk due st t = solo_spec f p n clk due st t.
Proof. exact solo_spec_cwrap. Qed.
Print Assumptions C42_solo_spec_cwrap.

(* ... so schedule_periodic(p, f, st0) made through CatchScheduler(inner, h) on a
   fresh scheduler followed by advance_to(t) calls the action with exactly the
   (state, clock) pairs of [solo_spec f]: the same calls as on the wrapped scheduler,
   and none after the first call that raises (solo_spec stops at the first
   non-PNext), whatever the handler answers *)
Theorem C42_periodic_solo : forall c fuel h c0 p f st0 t, 0 <= p -> c0 < t ->
  rev (ticks_of 0 (log (state_of (run_catch c fuel h (init c0) (solo_history p f st0 t)))))
  = solo_spec f p fuel c0 (c0 + p) st0 t.
Proof. exact catch_periodic_solo_ticks. Qed.
Print Assumptions C42_periodic_solo.

Theorem C42_periodic_solo_same_calls : forall c fuel h c0 p f st0 t, 0 <= p -> c0 < t ->
  ticks_of 0 (log (state_of (run_catch c fuel h (init c0) (solo_history p f st0 t))))
  = ticks_of 0 (log (state_of (run c fuel (init c0) (solo_history p f st0 t)))).
Proof. exact catch_periodic_solo_same. Qed.
Print Assumptions C42_periodic_solo_same_calls.

(* and nothing escapes advance_to in that run unless the handler rejected it *)
Theorem C42_periodic_solo_escapes : forall c fuel h c0 p f st0 t, raw_tab f = true ->
  excs_ok h (log (state_of (run_catch c fuel h (init c0) (solo_history p f st0 t)))).
Proof. exact catch_periodic_solo_escapes. Qed.
Print Assumptions C42_periodic_solo_escapes.

(* ---- witnesses ------------------------------------------------------ *)

(* [hv] accepts 1, rejects 2; [ex_c42]: Core/CatchSchedFacts.v *)

(* label 1 raises 1 at depth 2: handled, swallowed, the rest of its body (note 8)
   does not run; label 3 raises 2: handler called, rejected, start() raises 2 and
   label 4 is not run *)
Example C42_witness :
  observe (run_catch (Cfg Numeric false) 10 hv (init 0) ex_c42)
  = [OClock 0; OClock 0; OClock 0;
     ORun 0 1; ONote 9; ORun 1 2; ONote 7; OHandler 1; ORun 2 5; ORun 3 5; OHandler 2; OExc 2; OClock 5].
Proof. vm_compute. reflexivity. Qed.

Example C42_witness_hyps : forallb raw_t ex_c42 = true /\ forallb top_quiet ex_c42 = true.
Proof. vm_compute. split; reflexivity. Qed.

(* periodic: the action raises 1 at its third call; handled, no fourth call *)
Example C42_witness_periodic :
  observe (run_catch (Cfg Numeric false) 20 hv (init 0)
             [TDo (SPeriodic 2 ([(0, PNext [] 0%N 1); (1, PNext [] 0%N 2)], PRaise [] 1) 0); TAdvTo 20])
  = [OClock 0; OTick 0 0 2; OTick 0 1 4; OTick 0 2 6; OHandler 1; OClock 20].
Proof. vm_compute. reflexivity. Qed.

(* transparency hypothesis is satisfiable by a non-trivial history *)
Example C42_witness_transparent :
  forallb noraise_t [TDo (SSched (Abs 1) 0 [SSched (Rel 1) 1 [SNote 7]; SCancel 0]); TStart] = true.
Proof. vm_compute. reflexivity. Qed.

(* C42_periodic_solo on a raising table: three calls, the third raises 1 (accepted
   by hv), no fourth call although 20 is far away *)
Example C42_witness_periodic_solo :
  solo_spec ([(0, PNext [] 0%N 1); (1, PNext [] 0%N 2)], PRaise [] 1) 2 20 0 2 0 20
  = [(0, 2); (1, 4); (2, 6)]
  /\ raw_tab ([(0, PNext [] 0%N 1); (1, PNext [] 0%N 2)], PRaise [] 1) = true.
Proof. vm_compute. split; reflexivity. Qed.

(* ---- "behave exactly as on the wrapped scheduler", for programs that DO raise --------------
   (Core/CatchSchedSim.v: the two runs executed side by side.)  ANY handler, ANY raw history
   (raising actions at any depth, raising periodic actions, top-level calls that raise, cancels,
   stop, sleep, several start/advance_to calls), any fuel, both clock kinds and both code versions:
   what the harness observes of the run through CatchScheduler(inner, h), minus the handler calls,
   is what it observes of the same history on the inner scheduler -- for the whole run if the
   handler never answered True, and otherwise up to the first call it answered True to (where
   the CatchScheduler swallows the exception and the inner scheduler lets it escape). *)
Theorem C42_simulates_until_first_accept : forall c fuel h c0 hs, forallb raw_t hs = true ->
  let oc := observe (run_catch c fuel h (init c0) hs) in
  let oi := observe (run c fuel (init c0) hs) in
  ((forall e, In (OHandler e) oc -> h e = false) /\ filter not_handler oc = oi) \/
  (exists pre e post rest, oc = pre ++ OHandler e :: post /\ h e = true /\
     (forall e', In (OHandler e') pre -> h e' = false) /\ oi = filter not_handler pre ++ rest).
Proof. exact catch_simulates_until_accept. Qed.
Print Assumptions C42_simulates_until_first_accept.

Theorem C42_simulates_if_all_rejected : forall c fuel h c0 hs, forallb raw_t hs = true ->
  (forall e, In (OHandler e) (observe (run_catch c fuel h (init c0) hs)) -> h e = false) ->
  filter not_handler (observe (run_catch c fuel h (init c0) hs)) = observe (run c fuel (init c0) hs).
Proof. exact catch_simulates_if_all_rejected. Qed.
Print Assumptions C42_simulates_if_all_rejected.

(* the reject-all handler: the CatchScheduler is observationally the inner scheduler *)
Theorem C42_reject_all_simulates : forall c fuel c0 hs, forallb raw_t hs = true ->
  filter not_handler (observe (run_catch c fuel (fun _ => false) (init c0) hs)) = observe (run c fuel (init c0) hs).
Proof. exact catch_reject_all_simulates. Qed.
Print Assumptions C42_reject_all_simulates.

(* non-vacuity: a raw history with a raising action at depth 2 and a raising periodic action;
   rejected everywhere: same observations plus the handler call ... *)
Definition ex_c42_sim : list tcmd :=
  [ TDo (SSched (Abs 1) 0 [SSched (Rel 1) 1 [SNote 7; SRaise 2; SNote 8]; SNote 9]);
    TDo (SPeriodic 2 ([(0, PNext [] 0%N 1); (1, PNext [] 0%N 2)], PRaise [] 2) 0);
    TStart; TDo (SSched (Rel 1) 5 [SNote 3]); TAdvTo 20 ].
Example C42_witness_reject_all :
  forallb raw_t ex_c42_sim = true /\
  observe (run (Cfg Numeric false) 10 (init 0) ex_c42_sim)
  = [OClock 0; OClock 0; ORun 0 1; ONote 9; OTick 0 0 2; ORun 1 2; ONote 7; OExc 2; OClock 2; OClock 2; OClock 2] /\
  observe (run_catch (Cfg Numeric false) 10 (fun _ => false) (init 0) ex_c42_sim)
  = [OClock 0; OClock 0; ORun 0 1; ONote 9; OTick 0 0 2; ORun 1 2; ONote 7; OHandler 2; OExc 2; OClock 2; OClock 2; OClock 2].
Proof. vm_compute. repeat split; reflexivity. Qed.

(* ... and the runs part at the first accepted exception ([hv] accepts 1): the inner scheduler
   lets 1 escape from start(), the CatchScheduler goes on to labels 2 and 3 *)
Example C42_witness_parting :
  observe (run (Cfg Numeric false) 10 (init 0) ex_c42)
  = [OClock 0; OClock 0; OClock 0; ORun 0 1; ONote 9; ORun 1 2; ONote 7] ++ [OExc 1; OClock 2] /\
  observe (run_catch (Cfg Numeric false) 10 hv (init 0) ex_c42)
  = [OClock 0; OClock 0; OClock 0; ORun 0 1; ONote 9; ORun 1 2; ONote 7] ++ OHandler 1 ::
    [ORun 2 5; ORun 3 5; OHandler 2; OExc 2; OClock 5].
Proof. vm_compute. split; reflexivity. Qed.

(* "Handler returns True => periodic work stops", as ONE whole-run statement (Core/PeriodicLast.v):
   in EVERY history through the CatchScheduler, after a call of a periodic action that did not
   return a next state -- in particular one whose exception the handler accepted ([PHandled _ _ true]
   in the wrapped table) or rejected -- the subscription is disposed and never called again
   (log newest first: l1 is what happened after that call) *)
Theorem C42_failed_call_is_last : forall c fuel h c0 hs l1 l0 pid st k pi,
  let s := state_of (run_catch c fuel h (init c0) hs) in
  log s = l1 ++ ETick pid st k :: l0 -> nth_error (pers s) pid = Some pi ->
  match plookup (p_fn pi) st with PNext _ _ _ => False | _ => True end ->
  ticks_of pid l1 = [] /\ In (EPDispose pid) l1.
Proof. exact catch_failed_call_is_last. Qed.
Print Assumptions C42_failed_call_is_last.

(* hypotheses satisfiable: the third call raises 1, [hv] accepts it, the run goes on (label 5 runs
   at 7, the clock reaches 20) and the action is not called again *)
Example C42_witness_failed_call :
  let f : ptable := ([(0, PNext [] 0%N 1); (1, PNext [] 0%N 2)], PRaise [] 1) in
  let r := run_catch (Cfg Numeric false) 20 hv (init 0)
             [TDo (SPeriodic 2 f 0); TAdvTo 5; TDo (SSched (Rel 2) 5 [SNote 3]); TAdvTo 20] in
  option_map p_fn (nth_error (pers (state_of r)) 0) = Some (cwrap_tab hv f) /\
  plookup (cwrap_tab hv f) 2 = PHandled [] 1 true /\
  observe r = [OClock 0; OTick 0 0 2; OTick 0 1 4; OClock 5; OClock 5; OTick 0 2 6; OHandler 1; ORun 5 7; ONote 3; OClock 20].
Proof. vm_compute. repeat split; reflexivity. Qed.
