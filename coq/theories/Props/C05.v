(* C05 -- element-wise operators match their list semantics.
   For EVERY finite input xs and every termination t (completion, error e, or
   none yet), the tagged output of the operator's machine equals the list
   computation; tag j+1 means "emitted while input j was being delivered", so
   the equalities also carry the timing clause of the property.
   Machines: Ops/Elementwise.v (tied to the code by the K2 correspondence). *)
From RxVerif Require Import Base.Prelude Ops.Machine Ops.MachineFacts Ops.Elementwise
  Ops.ElementwiseFacts Ops.ElementwiseMore Ops.ComposeTagged Ops.AggregatesTagged.

Theorem C05_map : forall A B (f : A -> B) xs t,
  exec (op_map (pure f)) (events xs t) = nexts (indexed 1 (map f xs)) ++ tterm (S (length xs)) t.
Proof. exact @map_spec. Qed.
Print Assumptions C05_map.

Theorem C05_map_indexed : forall A B (f : A -> nat -> B) xs t,
  exec (op_map_indexed (pure2 f)) (events xs t)
  = nexts (indexed 1 (mapi_from 0 f xs)) ++ tterm (S (length xs)) t.
Proof. exact @map_indexed_spec. Qed.
Print Assumptions C05_map_indexed.

Theorem C05_filter : forall A (p : A -> bool) xs t,
  exec (op_filter (pure p)) (events xs t)
  = nexts (filter (fun kx => p (snd kx)) (indexed 1 xs)) ++ tterm (S (length xs)) t.
Proof. exact @filter_spec. Qed.
Print Assumptions C05_filter.

Theorem C05_filter_indexed : forall A (p : A -> nat -> bool) (xs : list A) t,
  exec (op_filter_indexed (pure2 p)) (events xs t)
  = nexts (filteri_from 0 p (indexed 1 xs)) ++ tterm (S (length xs)) t.
Proof. exact @filter_indexed_spec. Qed.
Print Assumptions C05_filter_indexed.

Theorem C05_take : forall A (xs : list A) t (c : Z), 0 <= c ->
  exec (op_take c) (events xs t)
  = if c =? 0 then [(0%nat, Done)]
    else if c <=? zlen xs
    then nexts (indexed 1 (firstn (Z.to_nat c) xs)) ++ [(Z.to_nat c, Done)]
    else nexts (indexed 1 xs) ++ tterm (S (length xs)) t.
Proof. exact @take_spec. Qed.
Print Assumptions C05_take.

Theorem C05_skip : forall A (xs : list A) t (c : Z),
  exec (op_skip c) (events xs t)
  = nexts (skipn (Z.to_nat c) (indexed 1 xs)) ++ tterm (S (length xs)) t.
Proof. exact @skip_spec. Qed.
Print Assumptions C05_skip.

Theorem C05_take_while : forall A (p : A -> bool) inclusive (xs : list A) t,
  exec (op_take_while (pure p) inclusive) (events xs t)
  = nexts (takewhile p (indexed 1 xs)) ++
    match first_failing p (indexed 1 xs) with
    | Some (j, x) => (if inclusive then [(j, Next x)] else []) ++ [(j, Done)]
    | None => tterm (S (length xs)) t
    end.
Proof. exact @take_while_spec. Qed.
Print Assumptions C05_take_while.

Theorem C05_skip_while : forall A (p : A -> bool) (xs : list A) t,
  exec (op_skip_while (pure p)) (events xs t)
  = nexts (dropwhile p (indexed 1 xs)) ++ tterm (S (length xs)) t.
Proof. exact @skip_while_spec. Qed.
Print Assumptions C05_skip_while.

Theorem C05_pairwise : forall A (xs : list A) t,
  exec op_pairwise (events xs t)
  = match xs with
    | [] => tterm 1 t
    | x :: r => nexts (pairs_from x 2 r) ++ tterm (S (length xs)) t
    end.
Proof. exact @pairwise_spec. Qed.
Print Assumptions C05_pairwise.

Theorem C05_start_with : forall A (args xs : list A) t,
  exec (op_start_with args) (events xs t)
  = nexts (map (fun a => (0%nat, a)) args) ++ nexts (indexed 1 xs) ++ tterm (S (length xs)) t.
Proof. exact @start_with_spec. Qed.
Print Assumptions C05_start_with.

Theorem C05_default_if_empty : forall A d (xs : list A) t,
  exec (op_default_if_empty d) (events xs t)
  = match xs, t with
    | [], TDone => [(1%nat, Next d); (1%nat, Done)]
    | _, _ => nexts (indexed 1 xs) ++ tterm (S (length xs)) t
    end.
Proof. exact @default_if_empty_spec. Qed.
Print Assumptions C05_default_if_empty.

Theorem C05_ignore_elements : forall A (xs : list A) t,
  exec op_ignore_elements (events xs t) = tterm (S (length xs)) t.
Proof. exact @ignore_elements_spec. Qed.
Print Assumptions C05_ignore_elements.

Theorem C05_take_last : forall A c (xs : list A), 0 <= c ->
  exec (op_take_last c) (events xs TDone)
  = nexts (map (fun a => (S (length xs), a)) (skipn (length xs - Z.to_nat c) xs))
    ++ [(S (length xs), Done)].
Proof. exact @take_last_spec_m. Qed.
Print Assumptions C05_take_last.

Theorem C05_take_last_error : forall A c (xs : list A) e,
  exec (op_take_last c) (events xs (TErr e)) = [(S (length xs), Err e)].
Proof. exact @take_last_error. Qed.
Print Assumptions C05_take_last_error.

Theorem C05_take_last_buffer : forall A c (xs : list A), 0 <= c ->
  exec (op_take_last_buffer c) (events xs TDone)
  = [(S (length xs), Next (skipn (length xs - Z.to_nat c) xs)); (S (length xs), Done)].
Proof. exact @take_last_buffer_spec. Qed.
Print Assumptions C05_take_last_buffer.

Theorem C05_element_at : forall A i d exn (xs : list A) t, 0 <= i ->
  exec (op_element_at i d exn) (events xs t)
  = match nth_error xs (Z.to_nat i) with
    | Some x => [(S (Z.to_nat i), Next x); (S (Z.to_nat i), Done)]
    | None => match t with
              | TDone => match d with
                         | Some dv => [(S (length xs), Next dv); (S (length xs), Done)]
                         | None => [(S (length xs), Err exn)]
                         end
              | _ => tterm (S (length xs)) t
              end
    end.
Proof. exact @element_at_spec. Qed.
Print Assumptions C05_element_at.

Theorem C05_materialize : forall A (xs : list A) t,
  exec op_materialize (events xs t)
  = nexts (indexed 1 (map Next xs)) ++
    match t with
    | TDone => [(S (length xs), Next Done); (S (length xs), Done)]
    | TErr e => [(S (length xs), Next (Err e)); (S (length xs), Done)]
    | TNever => []
    end.
Proof. exact @materialize_spec. Qed.
Print Assumptions C05_materialize.

Theorem C05_dematerialize_materialize : forall A (xs : list A) t,
  untag (exec op_dematerialize (untag_next (exec op_materialize (events xs t)))) = events xs t.
Proof. exact @dematerialize_materialize. Qed.
Print Assumptions C05_dematerialize_materialize.

Theorem C05_distinct_until_changed : forall A K (key : A -> K) (eqk : K -> K -> bool) (xs : list A) t,
  exec (op_distinct_until_changed (pure key) (pure_cmp eqk)) (events xs t)
  = nexts (duc_list key eqk None (indexed 1 xs)) ++ tterm (S (length xs)) t.
Proof. exact @distinct_until_changed_spec. Qed.
Print Assumptions C05_distinct_until_changed.

Theorem C05_distinct : forall A K (key : A -> K) (eqk : K -> K -> bool) (xs : list A) t,
  exec (op_distinct (pure key) (pure_cmp eqk)) (events xs t)
  = nexts (distinct_list key eqk [] (indexed 1 xs)) ++ tterm (S (length xs)) t.
Proof. exact @distinct_spec. Qed.
Print Assumptions C05_distinct.

Theorem C05_find : forall A (p : A -> nat -> bool) yi (xs : list A) t,
  exec (op_find (pure2 p) yi) (events xs t)
  = match first_match p 0 (indexed 1 xs) with
    | Some (j, idx, x) =>
        [(j, Next (if yi then inr (Z.of_nat idx) else inl (Some x))); (j, Done)]
    | None => match t with
              | TDone => [(S (length xs), Next (if yi then inr (-1) else inl None)); (S (length xs), Done)]
              | _ => tterm (S (length xs)) t
              end
    end.
Proof. exact @find_spec. Qed.
Print Assumptions C05_find.

(* skip_last(c): the first c inputs only fill the queue; input j + c releases element j *)
Theorem C05_skip_last : forall A (c : nat) (xs : list A) t,
  exec (op_skip_last (Z.of_nat c)) (events xs t)
  = nexts (combine (seq (1 + c) (length xs - c)) (firstn (length xs - c) xs))
    ++ tterm (S (length xs)) t.
Proof. exact @skip_last_spec_m. Qed.
Print Assumptions C05_skip_last.

(* every machine of the catalogue, on ARBITRARY input (emissions after the
   terminal, double terminals): the output obeys Next* (Err|Done)? *)
Theorem C05_outputs_wellformed : forall A B (m : mealy A B) (ins : list (ev A)),
  wellformed (untag (exec m ins)) = true.
Proof. exact @exec_wellformed. Qed.
Print Assumptions C05_outputs_wellformed.

(* non-vacuity *)
Example C05_witness_take :
  exec (op_take 2) (events [10; 20; 30] TDone) = [(1%nat, Next 10); (2%nat, Next 20); (2%nat, Done)].
Proof. vm_compute. reflexivity. Qed.
Example C05_witness_skip_last_none_like :
  untag (exec (op_skip_last 1) (events [0; 7; 8] TDone)) = [Next 0; Next 7; Done].
Proof. vm_compute. reflexivity. Qed.

(* ---- additions: dematerialize (direct), take_while_indexed, skip_while_indexed, starmap, pluck ---- *)
(* the elements are notifications: OnNext passes, the first OnError / OnCompleted ELEMENT ends the output
   at its own position (what follows it is dropped), otherwise the source's own terminal does *)
Theorem C05_dematerialize : forall A (ns : list (ev A)) t,
  exec op_dematerialize (events ns t) = demat_list 1 ns t.
Proof. exact @dematerialize_spec. Qed.
Print Assumptions C05_dematerialize.

Theorem C05_take_while_indexed : forall A (p : A -> nat -> bool) inclusive (xs : list A) t,
  exec (op_take_while_indexed (pure2 p) inclusive) (events xs t)
  = nexts (takewhile_i p 0 (indexed 1 xs)) ++
    match first_failing_i p 0 (indexed 1 xs) with
    | Some (j, x) => (if inclusive then [(j, Next x)] else []) ++ [(j, Done)]
    | None => tterm (S (length xs)) t
    end.
Proof. exact @take_while_indexed_spec. Qed.
Print Assumptions C05_take_while_indexed.

(* skip_while_indexed as the code composes it: map_indexed(pair) ; skip_while ; map(first) *)
Theorem C05_skip_while_indexed : forall A (p : A -> nat -> bool) (xs : list A) t,
  untag (exec (op_skip_while_indexed (pure2 p)) (events xs t)) = events (dropwhile_i p 0 xs) t.
Proof. exact @skip_while_indexed_spec. Qed.
Print Assumptions C05_skip_while_indexed.

(* starmap(f) / pluck(key) are the maps the code builds: map(lambda values: f( *values)), map(lambda x: x[key]) *)
Theorem C05_starmap : forall A B C (f : A -> B -> C) (xs : list (A * B)) t,
  exec (op_starmap (pure2 f)) (events xs t)
  = nexts (indexed 1 (map (fun ab => f (fst ab) (snd ab)) xs)) ++ tterm (S (length xs)) t.
Proof. exact @starmap_spec. Qed.
Print Assumptions C05_starmap.
Theorem C05_pluck : forall A B keq (key : A) exn (ds : list (list (A * B))) (vs : list B) t,
  Forall2 (fun d v => lookup keq key exn d = Ok v) ds vs ->
  untag (exec (op_pluck keq key exn) (events ds t)) = events vs t.
Proof. exact @pluck_spec. Qed.
Print Assumptions C05_pluck.
Theorem C05_pluck_missing_key : forall A B keq (key : A) exn (ds : list (list (A * B))) (vs : list B) d rest t,
  Forall2 (fun d v => lookup keq key exn d = Ok v) ds vs -> lookup keq key exn d = Raise exn ->
  untag (exec (op_pluck keq key exn) (events (ds ++ d :: rest) t)) = map Next vs ++ [Err exn].
Proof. exact @pluck_missing. Qed.
Print Assumptions C05_pluck_missing_key.

Example C05_witness_dematerialize :
  exec op_dematerialize (events [Next 1; Next 2; Done; Next 3] (TErr 9))
  = [(1%nat, Next 1); (2%nat, Next 2); (3%nat, Done)].
Proof. vm_compute. reflexivity. Qed.
Example C05_witness_pluck :
  untag (exec (op_pluck Z.eqb 0 (-5)) (events [[(0, 7)]; [(1, 8); (0, 9)]; [(1, 3)]; [(0, 4)]] TDone))
  = [Next 7; Next 9; Err (-5)].
Proof. vm_compute. reflexivity. Qed.

(* ---- additions: take_last_buffer on a failing source; skip_while_indexed WITH the positions ------------- *)
(* a failing source: the buffered elements are dropped, the error passes at its own position *)
Theorem C05_take_last_buffer_error : forall A c (xs : list A) e,
  exec (op_take_last_buffer c) (events xs (TErr e)) = [(S (length xs), Err e)].
Proof. exact @take_last_buffer_error. Qed.
Print Assumptions C05_take_last_buffer_error.
(* all terminations at once (TNever: nothing yet) *)
Theorem C05_take_last_buffer_any_termination : forall A c (xs : list A) t, 0 <= c ->
  exec (op_take_last_buffer c) (events xs t)
  = at_end (S (length xs)) t (skipn (length xs - Z.to_nat c) xs).
Proof. exact @take_last_buffer_any. Qed.
Print Assumptions C05_take_last_buffer_any_termination.

(* skip_while_indexed (the three-stage pipeline the code builds) with the timing clause, through the TAGGED
   composition theorem: every surviving element at its own position, the terminal at the source's *)
Theorem C05_composition_tagged : forall A B C (m1 : mealy A B) (m2 : mealy B C) ins,
  exec (compose m1 m2) ins = exec_tagged m2 (exec m1 ins).
Proof. exact @compose_exec_tagged. Qed.
Print Assumptions C05_composition_tagged.
Theorem C05_skip_while_indexed_tagged : forall A (p : A -> nat -> bool) (xs : list A) t,
  exec (op_skip_while_indexed (pure2 p)) (events xs t)
  = nexts (dropwhile_it p 0 (indexed 1 xs)) ++ tterm (S (length xs)) t.
Proof. exact @skip_while_indexed_tagged. Qed.
Print Assumptions C05_skip_while_indexed_tagged.
Example C05_witness_skip_while_indexed_tagged :
  exec (op_skip_while_indexed (pure2 (fun (x : Z) (i : nat) => x <? Z.of_nat i + 2))) (events [1; 2; 9; 0] TDone)
  = [(3%nat, Next 9); (4%nat, Next 0); (5%nat, Done)].
Proof. vm_compute. reflexivity. Qed.
