(* C28 -- virtual time runs actions in due order on a monotone clock.

   Model: Core/VTime.v (VirtualTimeScheduler / TestScheduler / HistoricalScheduler,
   PriorityQueue, ScheduledItem; tied to the code by the K1 correspondence of
   harness/props/C28.py).  Every theorem quantifies over ALL histories
   [h : list tcmd] (top-level schedule / cancel / stop / sleep / start /
   advance_to / advance_by calls whose actions are arbitrary finite trees that
   schedule, cancel, stop, sleep and raise), both clock kinds [c], every initial
   clock [c0] and every amount of fuel (also when the fuel runs out: the
   statements hold of the log produced so far).

   [pops (log s)] lists the dequeued items, NEWEST FIRST; in
   [ForallOrdPairs (fun b a => ...)] b is dequeued later than a. *)
From RxVerif Require Import Base.Prelude Core.VTime Core.VTimeFacts Core.VTimeNested Core.VTAdvance.
From Coq Require Import Sorting.Sorted.

(* the k-th dequeued item carries r_idx = k *)
Theorem C28_pop_index : forall c fuel c0 h,
  let s := state_of (run c fuel (init c0) h) in
  map r_idx (pops (log s)) = desc (npops s).
Proof. exact hist_pop_index. Qed.
Print Assumptions C28_pop_index.

(* Run order: if b was already queued when a was dequeued, a comes first in
   the order (due time, then order of the schedule calls) *)
Theorem C28_run_order : forall c fuel c0 h,
  let s := state_of (run c fuel (init c0) h) in
  ForallOrdPairs (fun b a => queued_at_pop_of b a -> plt a b) (pops (log s)).
Proof. exact hist_run_order. Qed.
Print Assumptions C28_run_order.

(* Due order: when nothing is scheduled in the past, dequeued items (and hence
   the actions run) are strictly increasing in (due time, scheduling order) *)
Theorem C28_due_order : forall c fuel c0 h,
  let s := state_of (run c fuel (init c0) h) in
  Forall (fun a => r_sclk a <= r_due a) (pops (log s)) ->
  ForallOrdPairs (fun b a => plt a b) (pops (log s)).
Proof. exact hist_due_order. Qed.
Print Assumptions C28_due_order.

Theorem C28_due_order_of_runs : forall c fuel c0 h,
  let s := state_of (run c fuel (init c0) h) in
  Forall (fun a => r_sclk a <= r_due a) (pops (log s)) ->
  ForallOrdPairs (fun b a => plt a b) (filter r_ran (pops (log s))).
Proof. exact hist_due_order_runs. Qed.
Print Assumptions C28_due_order_of_runs.

(* Clock when an action runs = max(clock before, due time), except at the
   dequeue where start() bumps the clock after MAX_SPINNING same-instant items *)
Theorem C28_clock_at_run : forall c fuel c0 h,
  let s := state_of (run c fuel (init c0) h) in
  Forall rec_ok (pops (log s)).
Proof. exact hist_clock_at_run. Qed.
Print Assumptions C28_clock_at_run.

(* The clock never moves backwards *)
Theorem C28_clock_monotone : forall c fuel c0 h,
  let s := state_of (run c fuel (init c0) h) in
  StronglySorted Z.ge (readings (log s)) /\ Forall (fun k => k <= clock s) (readings (log s)).
Proof. exact hist_clock_monotone. Qed.
Print Assumptions C28_clock_monotone.

(* Cancelled actions never run; an action is skipped only if it was cancelled *)
Theorem C28_cancelled_never_run : forall c fuel c0 h,
  no_run_after_cancel (log (state_of (run c fuel (init c0) h))).
Proof. exact hist_cancelled_never_run. Qed.
Print Assumptions C28_cancelled_never_run.

Theorem C28_skipped_only_if_cancelled : forall c fuel c0 h,
  skip_only_if_cancelled (log (state_of (run c fuel (init c0) h))).
Proof. exact hist_skip_only_if_cancelled. Qed.
Print Assumptions C28_skipped_only_if_cancelled.

(* Every scheduled action is dequeued at most once and is never lost *)
Theorem C28_conservation : forall c fuel c0 h,
  let s := state_of (run c fuel (init c0) h) in
  NoDup (map i_id (queue s) ++ map r_id (pops (log s))) /\
  forall id, (id < next_id s)%nat <->
             In id (map i_id (queue s)) \/ In id (map r_id (pops (log s))).
Proof. exact hist_conservation. Qed.
Print Assumptions C28_conservation.

(* advance_to(t), t later than the clock, in any reachable stopped state whose
   pending actions never stop the scheduler or raise (sl: may they sleep?):
   returns; dequeues only items due <= t, without spin bump; leaves only items
   due > t; the clock ends at t (at least t if actions sleep).  advance_by(d)
   is advance_to(clock + d) by definition (VTime.step_t). *)
Theorem C28_advance_to : forall c fuel c0 h sl fuel' t,
  let s := state_of (run c fuel (init c0) h) in
  enabled s = false -> clock s < t -> calm_q sl (queue s) -> (qsize (queue s) <= fuel')%nat ->
  exists s', advance_to fuel' s t = Finished s' /\ enabled s' = false /\
             Forall (fun it => t < i_due it) (queue s') /\
             t <= clock s' /\ (sl = false -> clock s' = t) /\
             calm_q sl (queue s') /\ new_pops_ok s s' t.
Proof. exact hist_advance_to. Qed.
Print Assumptions C28_advance_to.

(* ... and it is COMPLETE: every pending item due at or before t has been dequeued
   when advance_to returns (with new_pops_ok: it dequeued exactly the pending items due
   <= t and what those scheduled for <= t; "was run unless cancelled" is
   C28_skipped_only_if_cancelled) *)
Theorem C28_advance_to_complete : forall c fuel c0 h sl fuel' t,
  let s := state_of (run c fuel (init c0) h) in
  enabled s = false -> clock s < t -> calm_q sl (queue s) -> (qsize (queue s) <= fuel')%nat ->
  exists s', advance_to fuel' s t = Finished s' /\
             forall it, In it (queue s) -> i_due it <= t -> In (i_id it) (map r_id (pops (log s'))).
Proof. exact hist_advance_to_complete. Qed.
Print Assumptions C28_advance_to_complete.

(* advance_to NEVER dequeues an item due after its target and never spin-bumps: in ANY
   state (reachable or not; pending actions may stop the scheduler, raise, be periodic),
   for any target and fuel, whatever the outcome (returned, raised, out of fuel) *)
Theorem C28_advance_to_only_due : forall fuel s t,
  new_pops_ok s (ostate (advance_to fuel s t)) t.
Proof. exact advance_to_only_due. Qed.
Print Assumptions C28_advance_to_only_due.

(* REFUTED clause: advance_to(now) does not run the items due now; it is a no-op *)
Theorem C28_advance_to_now_is_noop : forall fuel s, advance_to fuel s (clock s) = Finished s.
Proof. exact advance_to_now_noop. Qed.
Print Assumptions C28_advance_to_now_is_noop.

Theorem C28_advance_to_past_raises : forall fuel s t,
  t < clock s -> advance_to fuel s t = Raised AOOR s.
Proof. exact advance_to_past_raises. Qed.
Print Assumptions C28_advance_to_past_raises.

(* sleep(d) only moves the clock; a negative d raises and changes nothing *)
Theorem C28_sleep : forall s d, 0 <= d ->
  exec_cmd s (SSleep d) = BOk (set_clock s (clock s + d)).
Proof. exact sleep_spec. Qed.
Print Assumptions C28_sleep.

Theorem C28_sleep_negative : forall s d, d < 0 ->
  exists s', exec_cmd s (SSleep d) = BRaise AOOR s' /\ clock s' = clock s /\ queue s' = queue s.
Proof. exact sleep_negative_raises. Qed.
Print Assumptions C28_sleep_negative.

(* start() / advance_to() / advance_by() issued from INSIDE a running action (the model has no
   command for it; harness/vt.py erases such calls when it prints a history, see Core/VTimeNested.v):
   the loops invoke items only while the flag is set, nothing but stop() clears it, and with the
   flag set the calls return at once (advance_to(t < clock) raises, C28_advance_to_past_raises). *)
Theorem C28_nested_start_returns_at_once : forall c fuel s,
  enabled s = true -> start c fuel s = Finished s.
Proof. exact start_while_enabled. Qed.
Print Assumptions C28_nested_start_returns_at_once.

Theorem C28_nested_advance_returns_at_once : forall fuel s t,
  enabled s = true -> clock s <= t -> advance_to fuel s t = Finished s.
Proof. exact advance_to_while_enabled. Qed.
Print Assumptions C28_nested_advance_returns_at_once.

Theorem C28_loops_invoke_only_while_enabled : forall c fuel s sp t,
  enabled s = false ->
  start_loop c fuel s sp = Finished (set_enabled s false) /\ advance_loop fuel s t = finish_adv s t.
Proof. exact loops_disabled. Qed.
Print Assumptions C28_loops_invoke_only_while_enabled.

Theorem C28_action_invoked_with_the_loop_flag : forall s it q' newclk bumped,
  run_item s it q' newclk bumped =
    (if negb (memb (i_id it) (cancelled s))
     then invoke (invoke_state s it q' newclk bumped) (i_pay it)
     else BOk (invoke_state s it q' newclk bumped))
  /\ enabled (invoke_state s it q' newclk bumped) = enabled s.
Proof. exact run_item_invokes_with_flag. Qed.
Print Assumptions C28_action_invoked_with_the_loop_flag.

Theorem C28_only_stop_clears_the_flag : forall b1 b2 s s1,
  nostop b1 = true -> exec_body s b1 = BOk s1 ->
  enabled s1 = enabled s /\ exec_body s (b1 ++ b2) = exec_body s1 b2.
Proof. exact exec_body_prefix_enabled. Qed.
Print Assumptions C28_only_stop_clears_the_flag.

(* ---- non-vacuity --------------------------------------------------- *)

(* [ex_h] (Core/VTimeFacts.v): three actions at one instant + one scheduled from inside + one cancelled *)
Example C28_witness_order :
  observe (run (Cfg Numeric false) 10 (init 0) ex_h)
  = [OClock 0; OClock 0; OClock 0; OClock 0;
     ORun 4 2; ORun 0 5; ORun 1 5; ORun 3 5; OClock 5].
Proof. vm_compute. reflexivity. Qed.

(* the hypothesis of C28_due_order holds of it *)
Example C28_witness_no_past :
  forallb (fun a => r_sclk a <=? r_due a)
          (pops (log (state_of (run (Cfg Numeric false) 10 (init 0) ex_h)))) = true.
Proof. vm_compute. reflexivity. Qed.

(* the hypotheses of C28_advance_to are satisfiable, and the result is as stated *)
Example C28_witness_advance :
  let s := state_of (run (Cfg Datetime false) 10 (init 0)
             [TDo (SSched (Abs 3) 0 [SSched (Rel 2) 1 []; SSched (Rel 20) 2 []]); TDo (SSched (Abs 30) 3 [])]) in
  enabled s = false /\ clock s <? 10 = true /\
  forallb (fun it => calm_pay false (i_pay it)) (queue s) = true /\
  observe (run (Cfg Datetime false) 10 s [TAdvTo 10]) =
    [OClock 0; OClock 0; ORun 0 3; ORun 1 5; OClock 10].
Proof. vm_compute. repeat split; reflexivity. Qed.

(* the refuted clause on a concrete state: an item due now stays queued *)
Example C28_advance_to_now_refuted :
  let s := state_of (run (Cfg Numeric false) 10 (init 7) [TDo (SSched Now 0 [])]) in
  map i_due (queue s) = [7] /\ clock s = 7 /\
  observe (run (Cfg Numeric false) 10 s [TAdvTo 7; TAdvBy 0]) = [OClock 7; OClock 7; OClock 7].
Proof. vm_compute. repeat split; reflexivity. Qed.

(* the hypotheses of the nested-call theorems hold in the state in which a loop invokes an action:
   here action 0, whose body is [SSched Now 1 []] (no stop), in start() *)
Example C28_witness_nested :
  let s := set_enabled (state_of (run (Cfg Numeric false) 10 (init 0)
             [TDo (SSched (Abs 3) 0 [SSched Now 1 []]); TDo (SSched (Abs 4) 2 [])])) true in
  match queue s with
  | it :: q' =>
      let s0 := invoke_state s it q' 3 false in
      enabled s0 = true /\ nostop [SSched Now 1 []] = true /\
      match exec_body s0 [SSched Now 1 []] with
      | BOk s1 => enabled s1 = true /\ start (Cfg Numeric false) 10 s1 = Finished s1 /\
                  advance_to 10 s1 9 = Finished s1 /\ advance_to 10 s1 1 = Raised AOOR s1
      | _ => False
      end
  | [] => False
  end.
Proof. vm_compute. repeat split; reflexivity. Qed.

(* C28_advance_to_only_due on a state with a periodic subscription, a raising and a
   stopping action pending (outside C28_advance_to): advance_to(10) raises at 4, only
   items due <= 10 were dequeued *)
Example C28_witness_only_due :
  let s := state_of (run (Cfg Numeric false) 10 (init 0)
             [TDo (SPeriodic 3 ([], PNext [] 0%N 0) 0); TDo (SSched (Abs 4) 0 [SRaise 7]);
              TDo (SSched (Abs 5) 1 [SStop]); TDo (SSched (Abs 30) 2 [])]) in
  forallb (fun it => calm_pay true (i_pay it)) (queue s) = false /\
  match advance_to 10 s 10 with
  | Raised 7 s' => map r_due (pops (log s')) = [4; 3]
  | _ => False
  end.
Proof. vm_compute. split; reflexivity. Qed.

(* C28_advance_to_complete on the state of C28_witness_advance: items 0 (due 3) is
   pending and due <= 10, item 1 (due 30) is not; ids dequeued: 0 and the nested 2 *)
Example C28_witness_complete :
  let s := state_of (run (Cfg Datetime false) 10 (init 0)
             [TDo (SSched (Abs 3) 0 [SSched (Rel 2) 1 []; SSched (Rel 20) 2 []]); TDo (SSched (Abs 30) 3 [])]) in
  map (fun it => (i_id it, i_due it)) (queue s) = [(0%nat, 3); (1%nat, 30)] /\
  match advance_to 10 s 10 with
  | Finished s' => map r_id (pops (log s')) = [2%nat; 0%nat]
  | _ => False
  end.
Proof. vm_compute. split; reflexivity. Qed.
